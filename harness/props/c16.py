"""C16 – no request causes an uncontrolled failure; injected errors fire exactly as asked.

Layer A: lean/DashLive/Props/C16.lean – (i) which exception classes the option layer
raises for the `str` values of a query and how the handlers map them
(`option_parse_kinds`, `convert_kinds`, `calc_options_kinds`, `validated_*`,
`handler_status_no_5xx_partial`, `media_status_no_5xx_partial`, `time_status`), (ii) the
injection counter state machine (`inject_only_addressed`, `inject_exact`,
`inject_isolated_*`, `inject_time_segment`), (iii) termination of the request-data
dependent loops (`loops_terminate_*`) with their non-termination witnesses.
Layer B (correspondence): `opt_errors` (outcome class of every real `from_string` and of
`calculate_options` as a whole vs the model), `inject_seq` (status sequences of the real
app with a cookie jar vs the Lean state machine; time → segment translation), `loops`
(real `get_segment_index` vs the model, witnesses of the excluded values under a
wall-clock limit).
Exploration (labelled so in `rule`): `fuzz_http`, `fuzz_mp4` – the part of C16's quantifier a
model cannot exhibit (an exception raised by code outside the option layer).
Layer C oracle: the property text – status < 500 or the requested injected code, every
answer within the time limit, synthetic answers only at addressed positions and in the
N-failures-then-success pattern, parser input → result or ordinary exception.
"""
from __future__ import annotations

import collections
import signal
import json
import time
import types
import urllib.parse

import common
from common import Channel

PROP = "C16"
CLAIM = True
MANIFEST_ENTRY = {
    "design_ref": "7 C16",
    "level_text": (
        "Partial. Lean 4 theorems, for all inputs: (i) every registered option codec (generated registry "
        "table) applied to any text returns a value or raises ValueError, KeyError only from the drm option; "
        "convert_options swallows KeyError and hands on nothing but ValueError; calculate_options incl. "
        "check_option_values yields options or ValueError, which every handler maps to 400; options that "
        "passed the check cannot trip the DRM-name assert or the unknown-time-method raise that used to sit "
        "behind the guarded block; decision models of the manifest / multi-period / patch / media / time "
        "handlers answer only 200, 206, 400, 404, 416 or the injected code provided the calls they do not "
        "look into raise nothing uncaught (explicit hypothesis, non-vacuity and negation examples); (ii) the "
        "injection check as a state machine over the session counters: a synthetic answer only for a request "
        "at a position its own options address, requests at other positions / of other media types / without "
        "the option change nothing, and for code >= 500 with failures = N, in any request sequence of one "
        "client the k-th request for the position fails iff k mod (N+1) < N; time positions translate to "
        "floor(T*timescale/segment_duration); (iii) get_segment_index (R > 0), create_emsg_boxes (any "
        "schedule) and create_all_live_periods (total duration > 0) terminate within explicit iteration "
        "bounds, with decide-d non-termination witnesses for the excluded values. The hand-written models "
        "are tied to the code on every run by correspondence channels (exception class of every real "
        "from_string on type-confused / boundary / hostile arguments, /time/<method> status for whole query "
        "strings, status sequences with a cookie jar, the real get_segment_index). The rest of the "
        "quantifier - every route x query x stream state, mutated MP4 input - is explored by seeded fuzzing "
        "against the oracle 'status < 500 or requested, answer within the time limit' and is labelled "
        "exploration."),
    "level_note": (
        "A theorem cannot exhibit a Python exception raised deep in glue code: the handler theorems carry the "
        "hypothesis that ManifestContext construction, template rendering, fragment loading/encoding raise "
        "nothing uncaught; that part is explored (fuzz_http, fuzz_mp4), not proved. from_isodatetime is a "
        "parameter of the codec model (class of the result; C19 models the parser), its strptime branches are "
        "compared by the oracle only. 24 defects found by the exploration were repaired by fix: commits; two "
        "deviations of the injection semantics are open ledger entries."),
    "technique": "Lean 4 proof (case analysis over codec kinds + decide over the generated registry table; induction over request sequences; fuel bounds) + model/implementation correspondence + seeded exploration (HTTP and MP4 fuzzing) against the property oracle",
}
PROP_FILES = ["DashLive/Props/C16.lean", "DashLive/Props/GenTie.lean"]
LEAN_TARGETS = ["DashLive.Props.C16", "DashLive.Props.GenTie"]


def _gen_options():
    import gen_options
    gen_options.main()


def _gen_parser_loops():
    import gen_parser_loops
    gen_parser_loops.main()


def _gen_arith():
    """Gen/Arith.lean: `Representation.get_segment_index` (with its `while` search loop) translated from /repo's
    source text; Props/GenTie.lean (`tie_getSegmentIndex`) proves the translation equal to the model with the loop
    bound `number of segments + 1` - which holds because the origin is computed with integer floor division"""
    import gen_arith
    gen_arith.main()


GENERATORS = [_gen_options, _gen_parser_loops, _gen_arith]
TRUSTED = [
    "harness/gen_arith.py + pytolean.py (Python source text of Representation.get_segment_index -> Gen/Arith.lean, semantics of the accepted subset; float division is outside the subset and reported as a broken translator obligation); Props/GenTie.lean proves the translation equal to the model with the loop bound segments + 1",
    "harness/gen_options.py (registry table; codec kind assigned from the identity of the registered callables)",
    "C19's model of from_isodatetime (Model/IsoText.lean) as the driver's date-time classifier; texts it does not model (no 'T', no leading 'P') are compared by the oracle only",
    "Flask's got_request_exception signal is used to label a 500 with its exception type (grouping and reports only)",
    "appboot/segchecks/mp4synth/mp4walk, /verif/shims; POST /media/inspect is an async view Flask cannot dispatch without asgiref (absent here): its synchronous body show_uploaded_file() is run in a request context instead",
    "decision models of the handlers (manifestStatus, mediaStatus): the order of the guards is read from the code; only their option-parsing stage is tied by correspondence (c16calc)",
]
ASSUMPTIONS = [
    "HTTP query values are str (werkzeug); what the codecs do with other Python objects is modelled (confused) and compared, but no request reaches it",
    "handler theorems: the unmodelled calls (ManifestContext(...), render_template, load_fragment, DRM context, box edits, atom.encode, DB lookups) raise nothing their caller does not catch - explored by fuzz_http / fuzz_mp4, not proved",
    "model-compared option texts are ASCII; non-ASCII digits/whitespace (which int(), float() and \\d accept) are judged by the oracle only",
    "fuzz_http keeps valid CSRF tokens out of state-changing requests so that the world of streams stays as built",
]

HTTP_LIMIT = 20.0


# ====================================================================== opt_errors

def ch_opt_errors(ctx) -> Channel:
    import c16_http
    import c16_options as O
    ch = Channel("opt_errors", rule=(
        "correspondence: outcome class (value / exception type) of the real from_string of every registered "
        "option on str arguments (own choices, boundary numbers, date-time forms, error specs, hostile and "
        "mutated texts) and on non-str objects (None, int, float, bool, bytes, list, dict) vs the Lean model "
        "(c16opt); plus GET /time/xsd?<query> (= calculate_options without restrictions) status 200/400 vs "
        "c16calc for seeded whole query strings; non-trivial = the real code raised, or the argument is not a "
        "str, or the query was refused; distinct by (codec kind, argument) / query"))
    c16_http.world()
    rng = ctx.rng("opt_errors")
    opts = O.options()
    texts = O.text_pool(rng, ctx.scale(150, 3000))
    by_kind = collections.OrderedDict()
    for name, opt, kind in opts:
        by_kind.setdefault(kind, (name, opt))
    # every codec kind x every text; every option x a sample (the table maps options to kinds)
    jobs = []
    for kind, (name, opt) in by_kind.items():
        for t in texts:
            jobs.append((name, opt, kind, t))
        for tag in O.TAGS:
            jobs.append((name, opt, kind, ("tag", tag)))
    for name, opt, kind in opts:
        for t in rng.sample(texts, min(len(texts), ctx.scale(25, 200))):
            jobs.append((name, opt, kind, t))
        for tag in O.TAGS:
            jobs.append((name, opt, kind, ("tag", tag)))
    lines, todo = [], []
    for name, opt, kind, arg in jobs:
        if isinstance(arg, tuple):
            real = O.real_outcome(opt, O.NONSTR[arg[1]])
            lines.append(f"c16opt {kind} {arg[1]}")
            todo.append((name, kind, arg, real, True))
        else:
            real = O.real_outcome(opt, arg)
            # CPython refuses int() of more than 4300 digits (ValueError): not in the model
            modelled = O.is_ascii(arg) and not O.LONG_DIGITS.search(arg)
            if modelled:
                lines.append(f"c16opt {kind} S{arg.encode().hex() or ''}" if arg else f"c16opt {kind} S")
            todo.append((name, kind, arg, real, modelled))
    # `S` + empty hex: the driver reads "S" as the empty text
    lines = [ln if not ln.endswith(" S") else ln + "-" for ln in lines]
    try:
        model = common.run_driver(lines)
    except Exception as e:
        ch.errors.append(f"driver: {e}")
        model = ["driver-error"] * len(lines)
    mi = iter(model)
    for name, kind, arg, real, modelled in todo:
        ch.evaluations += 1
        shown = arg[1] if isinstance(arg, tuple) else arg[:60]
        ch.count(f"{kind.split(':')[0]}:{'nonstr' if isinstance(arg, tuple) else 'str'}:{real}")
        if real != "ok" or isinstance(arg, tuple):
            ch.nontrivial.add((kind, arg))
        # oracle: a str argument → value, ValueError, or (drm only) KeyError
        if not isinstance(arg, tuple) and real not in ("ok", "ValueError") and not (real == "KeyError" and name == "drm"):
            ch.oracle_failures.append({"kind": "opt", "option": name, "arg": arg, "outcome": real,
                                       "why": f"from_string raises {real}, which no handler maps to a 4xx"})
        if not modelled:
            continue
        m = next(mi)
        if m == "driver-error":
            continue
        if m == "other":
            if real not in ("ok", "ValueError"):
                ch.disagreements.append({"option": name, "kind": kind, "arg": shown, "model": m, "impl": real})
        elif m != real:
            ch.disagreements.append({"option": name, "kind": kind, "arg": shown, "model": m, "impl": real})
        ch.sample({"option": name, "kind": kind, "arg": shown, "outcome": real}, limit=3)
    # ---- calculate_options as a whole
    import appboot
    app = c16_http.world()
    names = c16_http.all_option_names()
    pool = c16_http.option_value_pool()
    kinds = c16_http.option_kinds()
    qs = [O.gen_calc_query(rng, names, pool, kinds) for _ in range(ctx.scale(600, 5000))]
    qs += [[["drm", "foo"]], [["time", "bogus"]], [["start", "P1D"]], [["start", ""]], [["verr", "503="]],
           [["events", "ping"], ["ping__count", "10001"]], [["events", "ping"], ["ping__count", "10000"]],
           [["events", "pong"], ["ping__count", "10001"]], [["events", "scte35"], ["scte35__timescale", "0"]],
           [["events", "ping"], ["ping__version", "2"]], [["events", "ping"], ["ping__duration", "-1"]],
           [["depth", "3162240001"]], [["depth", "3162240000"]], [["drift", "-3162240001"]], [["drift", "-3162240000"]],
           [["depth", "5000001"]], [["depth", "5000000"]], [["depth", "-5000001"]], [["leeway", "5000001"]],
           [["events", "ping"], ["ping__start", "-1"], ["ping__inband", "0"]], [["events", "ping"], ["ping__start", "-1"]],
           [["events", "scte35"], ["scte35__start", "-1"], ["scte35__inband", "false"]],
           [["vcorrupt", "1,x"]], [["vcorrupt", "1,PT5S"]], [["vcorrupt", "2024-03-05T10:20:30Z"]],
           [["start", "2024-03-05T10:20:30+24:00"]], [["start", "2024-03-05T10:20:30"]],
           [["drm", "all-foo"]], [["drm", "playready-foo"]], [["merr", "503=10:20:30Z"]]]
    # every validator limit at the limit and one past it (fixed grid): license URLs (registered options and the
    # raw <drm>_la_url parameters), event counts, time spans
    for n in ("clearkey__la_url", "marlin__la_url", "playready__la_url", "clearkey_la_url", "marlin_la_url",
              "playready_la_url"):
        qs += [[[n, "a" * 4096]], [[n, "a" * 4097]], [["drm", "all"], [n, "https://x/" + "a" * 4086]],
               [["drm", "all"], [n, "https://x/" + "a" * 4087]], [[n, "%41" * 4096]], [[n, "%41" * 4097]]]
    qs += [[["events", "scte35"], ["scte35__count", "10000"]], [["events", "scte35"], ["scte35__count", "10001"]],
           [["mup", "3162240000"]], [["mup", "3162240001"]], [["leeway", "5000000"]], [["drift", "3162240000"]],
           [["drift", "3162240001"]], [["update", "9223372036854775808"]], [["frames", "4294967297"]]]
    client = app.client()
    # every drift value the check accepts, on every time method (the answer is computed from now - drift)
    qs += [[["drift", v]] for v in c16_http.INT_EDGE for _ in range(4)]
    lines = [f"c16calc {O.query_string(q).encode().hex() or '-'}" for q in qs]
    try:
        model = common.run_driver(lines)
    except Exception as e:
        ch.errors.append(f"driver: {e}")
        model = ["driver-error"] * len(lines)
    methods = ["xsd", "iso", "http-ntp", "head"]
    with appboot.Clock(c16_http.NOW):
        for i, (q, m) in enumerate(zip(qs, model)):
            ch.evaluations += 1
            path = f"/time/{methods[i % 4]}"
            res = c16_http.run(client, "GET", path + "?" + O.query_string(q))
            real = {200: "ok", 400: "ValueError"}.get(res.status, f"status{res.status}")
            ch.count(f"calc:{real}")
            if real != "ok":
                ch.nontrivial.add(("calc", O.query_string(q)))
            why = c16_http.violates(res, q)
            if why:
                ch.oracle_failures.append(http_failure("opt_errors", "GET", path, q, "anon", None, res, why))
            if m in ("driver-error",):
                continue
            if m == "other":
                continue
            if m != real:
                ch.disagreements.append({"query": O.query_string(q), "path": path, "model": m, "impl": real})
    return ch


# ====================================================================== inject_seq

def ch_inject(ctx) -> Channel:
    import appboot
    import c16_http
    import c16_inject as I
    ch = Channel("inject_seq", rule=(
        "correspondence: request sequences (video/audio/text segments by number and by $Time$, live manifests "
        "by update count and by time of day, requests without the option and requests to another stream in between) through the real app "
        "with one cookie jar per sequence - synthetic status per request vs the Lean counter state machine "
        "(c16inj); calculate_injected_error_segments vs c16segs; non-trivial = at least one synthetic answer "
        "and at least one real answer in the sequence / at least one time position translated; distinct by case"))
    app = c16_http.world()
    rng = ctx.rng("inject_seq")
    with app.ctx() as m:
        nseg = {u: m.MediaFile.get(name=I.TRACKS[u][0]).representation.num_media_segments for u in "vat"}
    cases = []
    for _ in range(ctx.scale(110, 650)):
        cases.append(I.gen_media_case(rng, nseg) if rng.random() < .7 else I.gen_manifest_case(rng))
    lines = [I.driver_line(c) for c in cases]
    try:
        model = common.run_driver(lines)
    except Exception as e:
        ch.errors.append(f"driver: {e}")
        model = ["driver-error"] * len(lines)
    with appboot.Clock(c16_http.NOW) as clock:
        for case, mo in zip(cases, model):
            ch.evaluations += 1
            try:
                real = I.run_real(app, clock, case)
            except Exception as e:
                ch.errors.append(f"{type(e).__name__}: {e}")
                continue
            got = [st if syn else None for st, syn in real]
            ch.count(f"{case['kind']}:failures={case['failures']}")
            if any(g is not None for g in got) and any(g is None for g in got):
                ch.nontrivial.add(repr(case))
            fails = I.oracle(case, real)
            if fails:
                ch.oracle_failures.append({"kind": "inject", "case": case, "statuses": [s for s, _ in real],
                                           "why": fails[0]["what"], "failures": fails[:3]})
            if mo != "driver-error":
                want = I.model_expect(mo)
                if want != got:
                    ch.disagreements.append({"case": case, "model": want, "impl": got,
                                             "statuses": [s for s, _ in real]})
                # a request the model says is not synthetic must have got a real answer
                for (st, syn), w in zip(real, want):
                    if w is None and not syn and st >= 500:
                        ch.disagreements.append({"case": case, "model": want, "statuses": [s for s, _ in real]})
                        break
            ch.sample({"case": {k: case[k] for k in ("kind", "failures", "verr", "merr")},
                       "answers": [s for s, _ in real][:10]}, limit=3)
    # ---- time → segment translation
    scases = [I.gen_segs_case(rng) for _ in range(ctx.scale(400, 4000))]
    try:
        model = common.run_driver([I.segs_line(c) for c in scases])
    except Exception as e:
        ch.errors.append(f"driver: {e}")
        model = []
    for c, mo in zip(scases, model):
        ch.evaluations += 1
        try:
            real = I.segs_real(c)
        except Exception as e:
            real = f"raise:{type(e).__name__}"
            ch.oracle_failures.append({"kind": "segs", "case": c, "why": f"calculate_injected_error_segments raised {real}"})
        ch.count("segs:live" if c["live"] else "segs:vod")
        if any(p[0] == "t" for _, p in c["errs"]) and real != "-":
            ch.nontrivial.add(repr(c))
        if mo != real:
            ch.disagreements.append({"case": c, "model": mo, "impl": real})
    return ch


# ====================================================================== loops

def ch_loops(ctx) -> Channel:
    import appboot
    import c16_http
    import segpure
    ch = Channel("loops", rule=(
        "correspondence: the real Representation.get_segment_index on seeded layouts (R > 0) vs the model's "
        "loop with the fuel bound of loops_terminate_segment_index (c16gsi must not answer 'running'); the "
        "excluded values replayed on the real code under a wall-clock limit: R = 0 (AssertionError), event "
        "interval 0 / negative (refused with 400), more than 10000 events per segment (400), multi-period "
        "stream of zero total duration (404); non-trivial = the search wrapped into the next loop or walked "
        "more than one segment; distinct by (layout, timecode)"))
    rng = ctx.rng("loops")
    cases = []
    for _ in range(ctx.scale(300, 5000)):
        lay = segpure.gen_layout(rng, inside_h=rng.random() < .6)
        M = sum(lay.durs)
        tc = rng.choice([0, 1, lay.durs[0] // 2, lay.durs[0] // 2 + 1, M - 1, M, M + 1, lay.R - 1, lay.R, lay.R + 1,
                         rng.randrange(0, 3 * lay.R + 2), lay.R * rng.randrange(1, 10 ** 6) + rng.randrange(0, lay.R)])
        cases.append((lay, max(0, tc)))
    lines = [f"c16gsi {lay.durs_arg()} {lay.R} {tc} {len(lay.durs) + 2}" for lay, tc in cases]
    try:
        model = common.run_driver(lines)
    except Exception as e:
        ch.errors.append(f"driver: {e}")
        model = ["driver-error"] * len(lines)
    for (lay, tc), mo in zip(cases, model):
        ch.evaluations += 1
        t0 = time.perf_counter()
        try:
            _, rep, _ = segpure.make_objects(lay, "vod")
            r = rep.get_segment_index(tc)
            real = f"found {r[0]} {r[1]} {r[2]}"
        except Exception as e:
            real = f"raise:{type(e).__name__}"
        dt = time.perf_counter() - t0
        if dt > HTTP_LIMIT:
            ch.oracle_failures.append({"kind": "loop", "what": "get_segment_index", "layout": lay.json(), "tc": tc,
                                       "why": f"took {dt:.1f} s"})
        ch.count("gsi:" + real.split()[0])
        if real.startswith("found") and (int(real.split()[3]) > tc // lay.R * lay.R or int(real.split()[1]) > 1):
            ch.nontrivial.add((lay.key(), tc))
        if mo not in ("driver-error",) and mo != real:
            ch.disagreements.append({"layout": lay.json(), "tc": tc, "model": mo, "impl": real})
    # ---- the excluded values on the real code
    app = c16_http.world()
    client = app.client()
    witnesses = [
        ("interval=0", "/dash/vod/bbb/bbb_v7/1.m4v?events=ping&ping__interval=0", 400),
        ("interval=-5", "/dash/vod/bbb/bbb_v7/1.m4v?events=scte35&scte35__interval=-5", 400),
        ("events-per-segment", "/dash/vod/bbb/bbb_v7/1.m4v?events=ping&ping__interval=1&ping__timescale=1000000", 400),
        ("event-count", "/dash/vod/bbb/hand_made.mpd?events=ping&ping__inband=0&ping__count=100000000", 400),
        ("zero-duration-mps", "/mps/live/c16mpz/hand_made.mpd", 404),
        ("zero-duration-mps-vod", "/mps/vod/c16mpz/hand_made.mpd", 404),
    ]
    with appboot.Clock(c16_http.NOW):
        for label, url, want in witnesses:
            ch.evaluations += 1
            res = c16_http.run(client, "GET", url)
            ch.count(f"witness:{label}:{res.status}")
            ch.nontrivial.add(("witness", label))
            why = c16_http.violates(res, [])
            if why:
                ch.oracle_failures.append(http_failure("loops", "GET", url, [], "anon", None, res, why))
            elif res.status != want:
                ch.disagreements.append({"witness": label, "url": url, "model": want, "impl": res.status})
    # R = 0: the assertion (pure, under an alarm)
    ch.evaluations += 1
    lay = segpure.Layout(ts=1, durs=[10, 10], ref_dur=1, ref_ts=90000, ref_sd=1, ref_n=2)
    old = c16_http.arm(10)
    try:
        try:
            _, rep, _ = segpure.make_objects(lay, "vod")
            rep.get_segment_index(100)
            real = "found"
        except c16_http.Timeout:
            real = "running"
        except Exception as e:
            real = f"raise:{type(e).__name__}"
    finally:
        c16_http.disarm(old)
    ch.count(f"witness:R=0:{real}")
    model = common.run_driver(["c16gsi 10,10 0 100 1000"])[0]
    if real == "running":
        ch.oracle_failures.append({"kind": "loop", "what": "get_segment_index R=0", "why": "no result within 10 s"})
    elif (model, real) != ("assert", "raise:AssertionError"):
        ch.disagreements.append({"witness": "R=0", "model": model, "impl": real})
    return ch


# ====================================================================== vod_gate

def ch_vod_gate(ctx) -> Channel:
    """VOD media requests at the ends of the stored media vs the first/last gate of the model"""
    import appboot
    import c16_http
    ch = Channel("vod_gate", rule=(
        "correspondence: GET /dash/vod/<stream>/<file>/<number>.<ext> and .../time/<t>.<ext> for every indexed "
        "media file of every stream, with numbers and times from a boundary pool derived from the stream "
        "(0, start_number-1, first, first+1, last-1, last, last+1, last+2, 2*last; time 0, the starts of the "
        "first and last two segments +-1 tick, the media duration +-1, n*segment_duration and the quarter-"
        "segment rounding points around it, one segment past the end) vs the model of the first/last gate and "
        "index check (c16vod): ok <-> 200, refused <-> 404; oracle: never >= 500, and a number outside "
        "[start_number, start_number + n - 1] is answered 404; non-trivial = a request within two segments of "
        "either end; distinct by url"))
    app = c16_http.world()
    P = c16_http.pools(app)
    ext = {"video": "m4v", "audio": "m4a", "text": "m4s"}
    cases, lines = [], []
    for name, rep in sorted(P["reps"].items()):
        with app.ctx() as m:
            s = m.Stream.get(directory=rep["stream"])
            mf = m.MediaFile.get(name=name)
            usable = s.timing_reference is not None and mf is not None
            enc = bool(mf.encrypted) if mf is not None else False
        if not usable:
            continue
        e = ext.get(rep["content_type"], "mp4")
        q = "?drm=all" if enc else ""
        base = f"/dash/vod/{rep['stream']}/{name}"
        nums = c16_http.number_boundaries(rep)
        times = c16_http.time_boundaries(rep)
        if not ctx.thorough and len(P["reps"]) > 12:
            times = times[::2] + times[-3:]
        for num in nums:
            cases.append((f"{base}/{num}.{e}{q}", rep, ("n", num)))
            lines.append(f"c16vod {rep['sd']} {rep['sn']} {rep['n']} {num}")
        for t in times:
            cases.append((f"{base}/time/{t}.{e}{q}", rep, ("t", t)))
            lines.append(f"c16vod {rep['sd']} {rep['sn']} {rep['n']} t{t}")
    try:
        model = common.run_driver(lines)
    except Exception as e:
        ch.errors.append(f"driver: {e}")
        model = ["driver-error"] * len(lines)
    client = app.client()
    with appboot.Clock(c16_http.NOW):
        for (url, rep, addr), mo in zip(cases, model):
            ch.evaluations += 1
            res = c16_http.run(client, "GET", url)
            num = addr[1] if addr[0] == "n" else (addr[1] + rep["sd"] // 4) // rep["sd"] + rep["sn"]
            first, last = rep["sn"], rep["sn"] + rep["n"] - 1
            ch.count(f"{'number' if addr[0] == 'n' else 'time'}:{res.status}")
            if first - 2 <= num <= first + 2 or last - 2 <= num <= last + 2:
                ch.nontrivial.add(url)
            why = c16_http.violates(res, [])
            if not why and not (first <= num <= last) and res.status != 404:
                why = f"segment number {num} is outside [{first}, {last}] but the answer is {res.status}, not 404"
            if why:
                path, _, qs = url.partition("?")
                ch.oracle_failures.append(http_failure("vod_gate", "GET", path, [["drm", "all"]] if qs else [], "anon",
                                                       None, res, why))
            if mo == "driver-error":
                continue
            want = 200 if mo.startswith("ok") else 404
            if res.status != want:
                ch.disagreements.append({"url": url, "model": mo, "impl": res.status})
            ch.sample({"url": url, "model": mo, "status": res.status}, limit=3)
    return ch


# ====================================================================== clients

def ch_clients(ctx) -> Channel:
    """multi-client histories: B never asked for an error"""
    import appboot
    import c16_clients as C
    import c16_http
    ch = Channel("clients", rule=(
        "multi-client histories for 'injected errors fire for the addressed requests and for no other': on "
        "every entry route that leads to media (v3 manifests vod/live, the legacy redirects /dash/<name>.mpd "
        "and /dash/<stream>/<name>.mpd for hand_made / manifest_vod / enc, multi-period manifests, the player "
        "pages for streams and multi-period streams) client B plays the entry (follows redirects, reads the "
        "manifest it is given with the independent MPD reader, requests init and the first media segments with "
        "the URLs the manifest spells out), client A plays it with injection options (verr / aerr / terr / merr "
        "/ failures / vcorrupt / drm / events), B plays it again and then plays the v3 manifest of the other stream "
        "in the other mode - separate cookie jars, orders B-A-B-S and A-B; a live manifest with patch=1 is an entry of "
        "its own (the PatchLocation is fetched as spelled); "
        "oracle: B never receives a synthetic error or a 5xx, and no redirect target, manifest URL or player "
        "page URL B is given carries an option only A sent; the process-wide constants (module-level "
        "UPPER_CASE names and every module / class level dict, list, set, tuple of dashlive.server."
        "requesthandler.*, options.*, routes, manifests, events.*, drm.*, mpeg.dash.*) are compared after every "
        "request and a change is reported with the request that caused it; non-trivial = a history in which A "
        "received at least one synthetic answer or B was redirected; distinct by (entry, A's options, order)"))
    app = c16_http.world()
    P = c16_http.pools(app)
    rng = ctx.rng("clients")
    E = C.entries(P)
    jobs = []
    for i, e in enumerate(E):
        if ctx.thorough:
            opts = [C.A_OPTIONS[(i + j) % len(C.A_OPTIONS)] for j in range(5)]
        elif e[0].startswith("legacy"):
            opts = [C.A_OPTIONS[0], C.A_OPTIONS[(i % (len(C.A_OPTIONS) - 1)) + 1]]
        else:
            opts = [C.A_OPTIONS[i % len(C.A_OPTIONS)]]
        for j, aq in enumerate(opts):
            jobs.append((e, aq, "BABS" if (ctx.thorough or j == 0) else "BAB"))
        if ctx.thorough:
            jobs.append((e, rng.choice(C.A_OPTIONS), "AB"))
    with appboot.Clock(c16_http.NOW):
        for e, aq, order in jobs:
            ch.evaluations += 1
            try:
                h = C.run_history(app, e, aq, order, other=C.sibling(e, E))
            except Exception as ex:
                ch.errors.append(f"{e[0]}: {type(ex).__name__}: {ex}")
                continue
            nreq = sum(len(s["trace"]) for s in h["steps"])
            ch.count("requests", nreq)
            ch.count(f"entry:{e[0].split(':')[0]}")
            a_syn = any(r["synthetic"] for s in h["steps"] if s["client"] == "A" for r in s["trace"])
            b_redirect = any(r.get("location") for s in h["steps"] if s["client"] == "B" for r in s["trace"])
            if a_syn or b_redirect:
                ch.nontrivial.add((e[0], repr(aq), order))
            if h["fails"]:
                ch.oracle_failures.append({
                    "kind": "clients", "entry": list(e), "a_query": aq, "order": order, "other": h.get("other"),
                    "why": h["fails"][0]["what"],
                    "failures": h["fails"][:3], "constant_changes": h["constant_changes"][:2],
                    "requests": [[s["client"], [r["url"] for r in s["trace"]][:6]] for s in h["steps"]]})
            elif h["constant_changes"]:
                ch.disagreements.append({"entry": list(e), "a_query": aq, "order": order,
                                         "what": "a request changed a process-wide constant of the service",
                                         "constant_changes": h["constant_changes"][:2]})
            ch.sample({"entry": e[0], "a_query": aq, "order": order, "requests": nreq,
                       "B_statuses": sorted({r["status"] for s in h["steps"] if s["client"] == "B" for r in s["trace"]})},
                      limit=3)
    return ch


# ====================================================================== follow

def ch_follow(ctx) -> Channel:
    """what the manifest hands on to the next request"""
    import appboot
    import c16_clients as C
    import c16_http
    ch = Channel("follow", rule=(
        "what the manifest hands on (fixed grid, seed-independent): mode (vod, live) x media type (video, audio, "
        "text) x code (503, 404) x failures (absent, 0, 1, 2) on stream bbb (it has a text track, listed by hand_made), "
        "manifests hand_made / manifest_e / manifest_h / manifest_i in rotation for video and audio (all four in the "
        "thorough tier, plus tears with 504; $Time$-template manifests are left out: open finding "
        "inject-time-addressed-media), plus vcorrupt + frames per mode: one client (one cookie jar) requests the manifest with "
        "<v|a|t>err=<code>=<segment>[&failures=K], then follows the init and media URLs of that media type exactly "
        "as the manifest spells them ($Number$ templates; independent MPD reader) - the addressed segment K+2 "
        "times, its neighbour once; oracle (property text): code >= 500 with failures = K >= 0 -> K synthetic "
        "answers, then the real segment, then synthetic again; no failures or a 4xx code -> synthetic every "
        "time; init and neighbour never synthetic; vcorrupt: the addressed video segment differs from the "
        "unmodified one, the neighbour does not; non-trivial = at least one synthetic (or corrupted) and one real "
        "answer; distinct by grid point"))
    app = c16_http.world()
    with appboot.Clock(c16_http.NOW):
        for case in C.follow_grid(ctx.thorough):
            ch.evaluations += 1
            try:
                h = C.run_follow(app, case)
            except Exception as ex:
                ch.errors.append(f"{case}: {type(ex).__name__}: {ex}")
                continue
            if "skipped" in h:
                ch.count(f"skipped: {h['skipped']}")
                continue
            ch.count(f"{case['op']}:{case['mode']}:{case['ctype']}")
            ch.count("requests", len(h["urls"]))
            syn = [a for a in h["answers"] if a[2]]
            if case["op"] == "corrupt" or (syn and len(syn) < len(h["answers"])):
                ch.nontrivial.add(repr(case))
            if h["fails"]:
                ch.oracle_failures.append({"kind": "follow", "case": case, "why": h["fails"][0]["what"],
                                           "failures": h["fails"][:3], "requests": h["urls"], "answers": h["answers"]})
            ch.sample({"case": case, "target": h["target"], "answers": h["answers"]}, limit=3)
    return ch


def _replay_follow(f) -> dict:
    import appboot
    import c16_clients as C
    import c16_http
    app = c16_http.world()
    with appboot.Clock(c16_http.NOW):
        h = C.run_follow(app, f["case"])
    return {"fails": bool(h.get("fails")), "failures": (h.get("fails") or [])[:3], "requests": h.get("urls"),
            "answers": h.get("answers"), "skipped": h.get("skipped")}


# ====================================================================== ntp_time

def ch_ntp(ctx) -> Channel:
    """/time/http-ntp under a spread of clocks x drift values vs the Lean field computation"""
    import datetime
    import struct
    import appboot
    import c16_http
    ch = Channel("ntp_time", rule=(
        "correspondence: GET /time/http-ntp?drift=<d> under controlled clocks (1970 ... 9999, both sides of "
        "the NTP era boundary 2036-02-07T06:28:16Z, 2^31 / 2^32 Unix seconds) x drift values (0, small, "
        "+-2^31, +-2^32, +-3*10^9, +-100 years) with the drift-adjusted clock not before 1900 (hypothesis of "
        "ntp_fields_fit_partial): the 32-bit seconds field must equal the model's exactly, the fraction within "
        "the float error of total_seconds() (4096 units); oracle: status 200 with 8 bytes or a 4xx, seconds = "
        "floor(t) mod 2^32 computed here from the clock; non-trivial = the drift-adjusted clock lies in NTP era "
        ">= 1 or a drift is given; distinct by (clock, drift)"))
    app = c16_http.world()
    rng = ctx.rng("ntp_time")
    epoch1900 = datetime.datetime(1900, 1, 1, tzinfo=datetime.timezone.utc)
    clocks = list(HttpFuzz.CLOCKS) + [c16_http.NOW, "2036-02-07T06:28:16.500000Z", "2036-02-07T06:28:17Z",
                                      "2172-03-15T12:56:32Z", "2172-03-15T12:56:31.999999Z"]
    # fixed grid of sub-second phases on both sides of the era boundary and at an ordinary instant
    clocks += [f"{base}.{frac}Z" for base in ("2036-02-07T06:28:15", "2036-02-07T06:28:16", "2024-03-05T10:20:30",
                                              "1970-01-01T00:00:00")
               for frac in ("000001", "250000", "499999", "500000", "750000", "999999")]
    clocks = list(dict.fromkeys(clocks))
    drifts = [None, 0, 1, -1, 10, -10, 86400, -86400, 2 ** 31 - 1, -(2 ** 31), 2 ** 31, -(2 ** 31) - 1, 2 ** 32,
              -(2 ** 32), 3000000000, -3000000000, 3162240000, -3162240000, 400000000, -400000000]
    cases = [(c, d) for c in clocks for d in drifts]
    for _ in range(ctx.scale(60, 3000)):
        base = datetime.datetime(2000, 3, 17, tzinfo=datetime.timezone.utc) + datetime.timedelta(
            seconds=rng.randrange(0, 250 * 366 * 86400), microseconds=rng.choice([0, 0, 1, 250000, 500000, 999999]))
        cases.append((base.strftime("%Y-%m-%dT%H:%M:%S.%fZ"), rng.choice(drifts + [rng.randrange(-3162240000, 3162240001)])))
    todo, lines = [], []
    for now_s, drift in cases:
        now = appboot._real_datetime.strptime(now_s, "%Y-%m-%dT%H:%M:%S.%fZ" if "." in now_s else "%Y-%m-%dT%H:%M:%SZ")
        now = now.replace(tzinfo=datetime.timezone.utc)
        try:
            adj = now - datetime.timedelta(seconds=drift or 0)
        except OverflowError:
            adj = None
        if adj is None:
            us = None
        else:
            d = adj - epoch1900
            us = (d.days * 86400 + d.seconds) * 1000000 + d.microseconds
        if us is not None and us < 0:
            continue                        # outside the hypothesis (clock before 1900)
        todo.append((now_s, drift, us))
        if us is not None:
            lines.append(f"c16ntp {us}")
    try:
        model = iter(common.run_driver(lines))
    except Exception as e:
        ch.errors.append(f"driver: {e}")
        model = iter(["driver-error"] * len(lines))
    client = app.client()
    with appboot.Clock(c16_http.NOW) as clock:
        for now_s, drift, us in todo:
            clock.set(now_s)
            ch.evaluations += 1
            q = [] if drift is None else [["drift", str(drift)]]
            c16_http._LAST_EXC[:] = []
            r = client.get(c16_http.build_url("/time/http-ntp", q))
            status, data = r.status_code, r.data
            r.close()
            res = c16_http.Result(status, 0.0, c16_http._LAST_EXC[-1] if c16_http._LAST_EXC else None)
            ch.count(f"status:{status}")
            if us is not None and (us >= (2 ** 32) * 1000000 or drift):
                ch.nontrivial.add((now_s, drift))
            why = c16_http.violates(res, q)
            if not why and status == 200 and us is not None:
                if len(data) != 8:
                    why = f"status 200 with {len(data)} bytes"
                elif struct.unpack(">II", data)[0] != (us // 1000000) % (2 ** 32):
                    why = f"NTP seconds {struct.unpack('>II', data)[0]}, expected {(us // 1000000) % (2 ** 32)}"
            if why:
                f = http_failure("ntp_time", "GET", "/time/http-ntp", q, "anon", None, res, why)
                f["now"] = now_s
                ch.oracle_failures.append(f)
            if us is None:
                continue
            m = next(model)
            if m == "driver-error":
                continue
            if status != 200:
                if status == 400 and drift is not None and abs(drift) > 3162240000:
                    continue                # refused by check_option_values (MAX_TIME_SPAN), see c16calc
                if m != "StructError" or status < 500:
                    ch.disagreements.append({"now": now_s, "drift": drift, "model": m, "impl": f"status{status}"})
                continue
            ms, mf = (int(x) for x in m.split()) if m != "StructError" else (None, None)
            s_, f_ = struct.unpack(">II", data) if len(data) == 8 else (None, None)
            if ms != s_ or f_ is None or abs(mf - f_) > 4096:
                ch.disagreements.append({"now": now_s, "drift": drift, "model": m, "impl": [s_, f_]})
            ch.sample({"now": now_s, "drift": drift, "seconds": s_, "fraction": f_}, limit=3)
    return ch


# ====================================================================== fuzz_http

def http_failure(channel, method, path, query, who, headers, res, why) -> dict:
    import c16_http
    import datetime as _dt
    now = _dt.datetime.now(tz=_dt.timezone.utc).strftime("%Y-%m-%dT%H:%M:%S.%fZ")     # the controlled clock
    return {"kind": "http", "channel": channel, "method": method, "path": path, "query": query, "who": who,
            "headers": headers, "now": now, "status": res.status, "signature": c16_http.signature(res),
            "exception": list(res.exc) if res.exc else None, "why": why,
            "url": c16_http.build_url(path, query)}


HEAVY = ("dash-mpd-v3", "dash-mpd-v1", "dash-mpd-v2", "dash-media", "dash-media-by-time", "mps-manifest", "mps-media-seg-by-number",
         "mps-media-seg-by-time", "mps-init-seg", "mpd-patch", "video", "video-mps", "time", "dash-od-media",
         "view-stream")
HEADERS = [None, None, None, None, {"X-Requested-With": "XMLHttpRequest"}, {"Accept": "application/json"},
           {"Range": "bytes=0-10"}, {"Range": "bytes=5-"}, {"Range": "bytes=-5"}, {"Range": "bytes=9999999-"},
           {"Range": "bytes=a-b"}, {"Range": "bytes=1-2,3-4"}, {"Range": "items=0-1"}, {"Range": "bytes="},
           {"Range": "bytes=-"}, {"Range": "bytes=0-1-2"}, {"Range": "bytes=-0"}, {"Range": "bytes=5-2"},
           {"Range": "bytes=" + "9" * 30 + "-"}, {"Host": "a<b>.test"}, {"X-Forwarded-Proto": "https"},
           {"Cookie": "session=garbage; csrf=x"}, {"Authorization": "Bearer x.y.z"}, {"Origin": "http://x"}]
BODIES = [("none", {}), ("form", {"data": {"x": "1"}}), ("form-csrf", {"data": {"csrf_token": "bogus", "title": "t"}}),
          ("json-obj", {"json": {"x": 1}}), ("json-list", {"json": [1, 2]}), ("json-str", {"json": "x"}),
          ("json-null", {"data": "null", "content_type": "application/json"}),
          ("json-bad", {"data": "{", "content_type": "application/json"}),
          ("json-csrf", {"json": {"csrf_token": "bogus", "username": "x", "password": "y"}}),
          ("multipart", {"data": {"file": (None, "x.mp4")}, "content_type": "multipart/form-data"}),
          ("text", {"data": "hello", "content_type": "text/plain"})]


class HttpFuzz:
    def __init__(self, ctx, ch: Channel, rng):
        import appboot
        import c16_http
        import c16_state
        self.S = c16_state
        self.H = c16_http
        self.ctx = ctx
        self.ch = ch
        self.rng = rng
        self.app = c16_http.world()
        self.P = c16_http.pools(self.app)
        self.rules = c16_http.get_rules(self.app)
        self.heavy = [r for r in self.rules if r.endpoint in HEAVY]
        self.mut_rules = sorted((r for r in self.app.app.url_map.iter_rules()
                                 if r.methods & {"POST", "PUT", "DELETE"}), key=lambda r: (r.rule, r.endpoint))
        try:
            import asgiref  # noqa: F401
        except ImportError:
            # POST /media/inspect is an `async def` view: Flask cannot dispatch it without its optional
            # `async` extra, which this sandbox lacks (RuntimeError before the view runs) – fuzz_mp4
            # runs the body of that view instead
            self.mut_rules = [r for r in self.mut_rules if r.endpoint != "inspect-media"]
        self.names = c16_http.all_option_names()
        self.pool = c16_http.option_value_pool()
        self.kinds = c16_http.option_kinds()
        self.clients = {}
        self._snap = c16_state.fast()
        self._shallow = c16_state.shallow()
        self.seen_sig = set()
        self.appboot = appboot
        self._reference, self._ref_reported, self._recent = {}, set(), []
        self._at_now, self._phase = True, "start"

    # ---- checklist 1: earlier requests re-issued later, compared with their first answer
    REFERENCE = [   # (path, query, light?) - answered by a fresh anonymous client at the clock NOW
        ("/dash/vod/bbb/hand_made.mpd", [], True), ("/dash/live/bbb/hand_made.mpd", [], True),
        ("/dash/live/tears/manifest_e.mpd", [["drm", "all"]], True), ("/dash/bbb/hand_made.mpd", [], True),
        ("/dash/hand_made.mpd", [], True), ("/dash/tears/manifest_vod.mpd", [], True), ("/dash/enc.mpd", [], True),
        ("/dash/vod/bbb/bbb_v7/1.m4v", [], True), ("/dash/vod/bbb/bbb_v7/2.m4v", [], True),
        ("/dash/live/bbb/bbb_a1/init.m4a", [], True), ("/dash/vod/tears/tears_v1/time/0.m4v", [], True),
        ("/dash/vod/bbb/bbb_v7_enc/1.m4v", [["drm", "all"]], True), ("/time/xsd", [], True), ("/time/http-ntp", [], True),
        ("/play/vod/bbb/hand_made/index.html", [], True), ("/", [], True), ("/stream/1", [], True),
        # an injected error fires as asked whatever came before: first request of a fresh session = synthetic 503
        ("/dash/vod/bbb/bbb_v7/2.m4v", [["verr", "503=2"], ["failures", "1"]], True),
        ("/dash/vod/bbb/bbb_a1/3.m4a", [["aerr", "404=3"]], True),
        ("/mps/vod/c16mps/hand_made.mpd", [], False), ("/mps/live/c16mps/hand_made.mpd", [], False),
        ("/dash/vod/syn1/hand_made.mpd", [], False), ("/dash/live/syn1/syn1_v1/init.m4v", [], False),
        ("/dash/vod/syn1/syn1_v1/1.m4v", [], False), ("/play/live/syn1/hand_made/index.html", [], False),
        ("/play/mps/vod/c16mps/hand_made/index.html", [], False), ("/dash/vod/c16na/hand_made.mpd", [], False),
    ]

    def _ref_answer(self, path, query):
        import contextlib
        c = self.app.client()
        with contextlib.redirect_stdout(self.H._DEVNULL):
            r = c.get(self.H.build_url(path, query))
        body = r.get_data()
        out = [r.status_code, body[:10] == b"Synthetic ", r.headers.get("Location")]
        r.close()
        return out

    def reference_check(self, light: bool = False):
        """re-issue the reference requests (fresh cookie jar, clock NOW); the first answers are the reference:
        status, synthetic-or-not and redirect target must not depend on the history of the process"""
        if not self._at_now:
            return
        first = not self._reference
        for path, query, is_light in self.REFERENCE:
            if light and not is_light:
                continue
            key = self.H.build_url(path, query)
            got = self._ref_answer(path, query)
            self.ch.count("reference re-issued")
            if key not in self._reference:
                self._reference[key] = got
                if got[0] >= 500 and not query:
                    self.ch.errors.append(f"reference request {key} answered {got[0]} at the start")
                continue
            if got != self._reference[key] and key not in self._ref_reported:
                self._ref_reported.add(key)
                self.ch.oracle_failures.append({
                    "kind": "http_history", "channel": "fuzz_http", "mode": getattr(self.ctx, "mode", self.ctx.tier),
                    "seed": self.ctx.seed, "phase": self._phase, "url": key, "path": path, "query": query,
                    "first_answer": self._reference[key], "answer_now": got, "requests_before": self.ch.evaluations,
                    "last_requests": self._recent[-8:],
                    "why": f"the same request ({key}, fresh cookie jar, same clock) was answered "
                           f"{self._reference[key]} at the start of the process and {got} after "
                           f"{self.ch.evaluations} other requests (phase {self._phase}): [status, synthetic, Location]"})
        if first:
            self.ch.count("reference requests", len(self._reference))

    def login(self):
        self.clients = {"anon": self.app.client()}
        for who, cred in (("media", self.appboot.MEDIA), ("admin", self.appboot.ADMIN), ("user", self.appboot.USER)):
            c = self.app.client()
            r = self.app.login(c, cred)
            if r.status_code != 200:
                self.ch.errors.append(f"login {who}: {r.status_code}")
            self.clients[who] = c

    def fresh_client(self, who):
        c = self.app.client()
        if who != "anon":
            self.app.login(c, {"media": self.appboot.MEDIA, "admin": self.appboot.ADMIN,
                               "user": self.appboot.USER}[who])
        return c

    def one(self, method, path, query, who, headers, body=None, endpoint="?", stored=None):
        """`stored`: option pairs in effect through stream defaults (they may ask for an injected error too)"""
        H = self.H
        url = H.build_url(path, query)
        if body:
            res = self.run_body(method, url, who, headers, body)
        else:
            res = H.run(self.clients[who], method, url, headers, limit=getattr(self, "_limit", H.TIME_LIMIT))
        sh = self.S.shallow()
        if sh != self._shallow:
            self._shallow = sh
            snap = self.S.fast()
            d = self.S.diff(self._snap, snap)
            self._snap = snap
            self.ch.disagreements.append({
                "what": "a request changed a process-wide constant (module / class level container) of the service",
                "request": {"method": method, "url": url, "who": who, "body": body[0] if body else None},
                "changed": d[:4]})
        if who != "anon" and (endpoint in ("logout", "api-login") or path.startswith(("/logout", "/api/login"))):
            self.clients[who] = self.fresh_client(who)      # the request may have ended the session
        ch = self.ch
        ch.evaluations += 1
        self._recent.append(f"{method} {url[:300]} [{who}]")
        if len(self._recent) > 64:
            del self._recent[:32]
        if ch.evaluations % 200 == 0 and self._phase not in ("stored_defaults", "stored_sources"):
            self.reference_check(light=True)
        ch.count(f"status:{res.status}")
        ch.count(f"role:{who}:{'denied' if res.status == 401 else 'served'}")
        ch.count(f"route:{endpoint}")
        if res.status in (200, 206) or (400 <= res.status < 500 and res.status not in (401, 404)) or query:
            ch.nontrivial.add((method, url, who, repr(headers), body[0] if body else None))
        why = H.violates(res, list(query) + list(stored or []))
        if why:
            sig = (endpoint, H.signature(res))
            if endpoint == "stored-source":       # ... per stored value: the value is the input here
                sig += (json.dumps(getattr(self, "_stored_raw", None), sort_keys=True, default=str),)
            if sig not in self.seen_sig:          # shrink and report every distinct failure once
                self.seen_sig.add(sig)
                q = query
                if query and not body:
                    q = H.shrink_query(lambda: self.fresh_client(who), method, path, query, headers, H.signature(res))
                f = http_failure("fuzz_http", method, path, q, who, headers, res, why)
                f["endpoint"] = endpoint
                if body:
                    f["body"] = body[0]
                if endpoint == "stored-source":
                    f["stored_raw"] = getattr(self, "_stored_raw", None)
                if endpoint == "stored-defaults":
                    f["stored_form"] = getattr(self, "_last_form", {}) if method == "POST" else \
                        getattr(self, "_effective_form", {})
                ch.oracle_failures.append(f)
        return res

    def run_body(self, method, url, who, headers, body):
        H = self.H
        del H._LAST_EXC[:]
        old = H.arm(H.TIME_LIMIT)
        t0 = time.perf_counter()
        kw = dict(body[1])
        if "data" in kw and isinstance(kw["data"], dict) and "file" in kw["data"]:
            import io
            kw["data"] = {"file": (io.BytesIO(b"\x00\x00\x00\x08free"), "x.mp4")}
        try:
            import contextlib
            with contextlib.redirect_stdout(H._DEVNULL):
                r = self.clients[who].open(url, method=method, headers=headers or {}, **kw)
            status, to = r.status_code, False
            r.close()
        except H.Timeout:
            status, to = 0, True
        except Exception as e:
            status, to = H.CLIENT_ERROR, False
            H._LAST_EXC.append((type(e).__name__, "client", str(e)[:160]))
        finally:
            H.disarm(old)
        return H.Result(status, time.perf_counter() - t0, H._LAST_EXC[-1] if H._LAST_EXC else None, to)

    REGRESSIONS = [
        "/dash/live/bbb/hand_made.mpd?drm=foo", "/dash/live/bbb/hand_made.mpd?time=bogus",
        "/dash/live/bbb/hand_made.mpd?start=P1D", "/dash/live/bbb/hand_made.mpd?start=",
        "/dash/live/bbb/hand_made.mpd?start=2024-03-05", "/dash/live/bbb/hand_made.mpd?drift=99999999999999",
        "/dash/live/bbb/hand_made.mpd?start=2024-03-05T10:20:30%2B99:00",
        "/dash/live/bbb/hand_made.mpd?start=99999999999999999999-01-01T00%3A00%3A00Z",
        "/dash/live/bbb/hand_made.mpd?start=2024-01-01T00%3A00%3A00%2B99999999999999999%3A00",
        "/dash/vod/tears/manifest_e.mpd?drm=all", "/dash/vod/tears/hand_made.mpd?drm=all&verr=503%3D1",
        "/dash/vod/c16ui/c16ui_a1/init.m4s", "/dash/live/c16ui/c16ui_a1/time/180000.m4s",
        "/dash/live/syn1/syn1_a1/time/1000000000000000000000000000000.m4a",
        "/dash/live/c16ui/c16ui_v1/10000000000000000000000000.m4v",
        "/mps/vod/c16mps/2/tears_v1/time/0.m4v", "/mps/live/c16mps/2/tears_v1/time/0.m4a",
        "/mps/live/c16mpx/3/c16nr_v1/time/96256.m4s", "/mps/vod/c16mpx/3/c16nr_v1/5.m4a",
        "/mps/live/c16mp0/1000000000000000000000000000000/nosuch/0.m4v", "/stream/18446744073709551617",
        "/stream/2/1/segment/99", "/stream/3/14/segment/100000000000000000000",
        "/mps/live/c16mps/hand_made", "/mps/live/c16mps/hand_made?patch=1", "/mps/live/c16mpz/hand_made.mpd",
        "/mps/live/c16mp0/hand_made.mpd", "/patch/bbb/hand_made.mpd/1709634000", "/patch/syn2/hand_made/1000000000000",
        "/patch/c16na/hand_made/1000000000000000000000000000000", "/patch/bbb/hand_made/1709634000?mup=0",
        "/play/mps/vod/c16mpx/manifest_e.mpd/index.html", "/play/live/c16nr/manifest_n.mpd/index.html",
        "/play/live/c16em/manifest_b.mpd/index.html", "/play/mps/live/c16mp0/hand_made/index.html",
        "/play/mps/live/c16mps/manifest_ef.mpd/index.html?time=xsd",
        "/play/mps/live/c16mps/manifest_b.mpd/index.html?drm=marlin%2Cclearkey", "/play/live/bbb/nosuch.mpd/index.html",
        "/dash/live/bbb/manifest_e.mpd?merr=503%3D2024-03-05T10%3A20%3A30Z", "/dash/vod/bbb/manifest_e.mpd?merr=503%3D10:20:30Z",
        "/dash/live/bbb/manifest_e.mpd?verr=503%3D", "/dash/live/bbb/manifest_e.mpd?verr=503%3DP1Y",
        "/dash/vod/bbb/manifest_i.mpd?aerr=503%3D10%3A20%3A30Z", "/dash/live/bbb/hand_made.mpd?vcorrupt=a%2Cb",
        "/dash/vod/tears/tears_v2/time/0.m4v?scte35__timescale=4294967296&events=ping%2Cscte35",
        "/dash/vod/bbb/hand_made.mpd?events=ping&ping__inband=0&ping__count=99999999",
        "/dash/vod/bbb/bbb_v7/2.m4v?events=ping&ping__start=-99999999999&ping__interval=1&ping__timescale=1",
        "/dash/vod/bbb/hand_made.mpd?events=scte35&scte35__timescale=0&scte35__inband=0&scte35__count=2",
        "/dash/vod/bbb/hand_made.mpd?events=scte35&scte35__program_id=-1&scte35__inband=0&scte35__count=2",
        "/dash/vod/bbb/bbb_v7/1.m4v?events=scte35&scte35__program_id=70000&scte35__interval=10",
        "/stream/1?verr=404%3D2", "/stream/1?depth=x", "/stream/1?events=scte35&scte35__program_id=-1&scte35__inband=0&scte35__count=2",
        "/time/head?drift=9007199254740993",
        "/dash/live/bbb/hand_made.mpd?verr=503%3D2023-05-01T12:00:00%2B99:00",
        "/dash/live/bbb/hand_made.mpd?merr=503%3D2023-05-01T12:00:00%2B99:00",
        "/dash/vod/bbb/hand_made.mpd?drm=playready&playready__la_url=" + "%7Bcfgs%7D" * 680,
        "/dash/vod/bbb/bbb_v7_enc/init.m4v?drm=playready&playready_la_url=" + "%7Bcfgs%7D" * 680,
        "/dash/live/bbb/bbb_v7/15180273305.m4v?start=0100-01-01T00:00:00Z",
        "/dash/live/bbb/bbb_v7/time/14573062371840.m4v?start=0100-01-01T00:00:00Z",
        "/dash/vod/bbb/bbb_v7/11.m4v", "/dash/vod/bbb/bbb_v7/time/9600.m4v",
        # work amplification: the response grows with a request value
        "/dash/live/bbb/hand_made.mpd?timeline=1&start=epoch&depth=2147483648",
        "/dash/live/bbb/hand_made.mpd?timeline=1&start=epoch&depth=500000",
        "/dash/live/bbb/hand_made.mpd?timeline=1&start=epoch&depth=5000001",
        "/mps/live/c16mps/hand_made.mpd?depth=2147483648",
        "/play/mps/live/c16mps/manifest_e.mpd/index.html?depth=2147483648",
        "/dash/live/bbb/hand_made.mpd?events=ping&ping__inband=0&ping__count=10001",
        "/dash/live/bbb/hand_made.mpd?events=ping&ping__inband=0&ping__count=2000",
        "/dash/vod/bbb/bbb_v7/1.m4v?events=ping&ping__interval=1&ping__timescale=2500",
    ]
    # the largest accepted values: seconds per request, thorough tier only (the limit itself is decided in the
    # option layer, which opt_errors evaluates at limit and limit + 1 in both tiers)
    REGRESSIONS_SLOW = [
        "/dash/live/bbb/hand_made.mpd?timeline=1&start=epoch&depth=5000000",
        "/dash/live/bbb/manifest_n.mpd?start=epoch&depth=5000000",
        "/mps/live/c16mps/hand_made.mpd?depth=5000000&start=epoch",
        "/dash/live/bbb/hand_made.mpd?events=ping&ping__inband=0&ping__count=10000",
    ]

    def regressions(self):
        """the requests that failed before the `fix:` commits of this property"""
        for url in self.REGRESSIONS + (self.REGRESSIONS_SLOW if self.ctx.thorough else []):
            path, _, qs = url.partition("?")
            q = [list(p) for p in urllib.parse.parse_qsl(qs, keep_blank_values=True)]
            self.one("GET", urllib.parse.unquote(path), q, "anon", None, endpoint="regression")
        q = [["base", "0"]]
        self.one("GET", "/mps/vod/c16mps/hand_made.mpd", q, "anon", {"X-Forwarded-Proto": "https"}, endpoint="regression")
        for body in ("json-null", "json-list", "json-str"):
            for path in ("/clearkey", "/api/login"):
                self.one("POST", path, [], "anon", None, body=[b for b in BODIES if b[0] == body][0],
                         endpoint="regression")
        for body in ("form", "json-obj", "form-csrf"):
            self.one("POST", "/stream/1", [], "media", None, body=[b for b in BODIES if b[0] == body][0],
                     endpoint="regression")

    def sweep(self):
        """every GET rule at least once with valid and once with invalid parameters, per role"""
        for rule in self.rules:
            for valid in (True, False):
                path = self.H.fill_rule(rule, self.P, self.rng, valid)
                if path is None:
                    continue
                for who in ("anon", "media", "admin"):
                    self.one("GET", path, [], who, None, endpoint=rule.endpoint)
                self.one("HEAD", path, [], "anon", None, endpoint=rule.endpoint)

    def random_gets(self, n):
        rng = self.rng
        for _ in range(n):
            rule = rng.choice(self.heavy) if rng.random() < .75 else rng.choice(self.rules)
            path = self.H.fill_rule(rule, self.P, rng, valid=rng.random() < .75)
            if path is None:
                continue
            q = self.H.gen_query(rng, self.names, self.pool, kinds=self.kinds)
            who = rng.choice(["anon", "anon", "media", "admin", "user"])
            self.one(rng.choice(["GET", "GET", "GET", "HEAD"]), path, q, who, rng.choice(HEADERS),
                     endpoint=rule.endpoint)

    def every_option(self):
        """every registered option name on the manifest, media and time routes, with every
        value of its kind's accepted pool and a hostile one"""
        rng = self.rng
        targets = ["/dash/live/bbb/hand_made.mpd", "/dash/vod/tears/manifest_e.mpd", "/dash/live/c16na/manifest_n.mpd",
                   "/dash/live/bbb/bbb_v7/init.m4v", "/dash/vod/bbb/bbb_a1_enc/1.m4a", "/time/iso", "/time/http-ntp", "/time/xsd",
                   "/mps/live/c16mps/hand_made.mpd", "/play/live/bbb/hand_made/index.html",
                   "/patch/bbb/hand_made/1709634000", "/dash/vod/bbb/bbb_v7/2.m4v", "/stream/1"]
        mps_target = "/mps/live/c16mps/hand_made.mpd"
        fast = [t for t in targets if t != mps_target]
        core_int = ["0", "-1", "2147483648", "4294967297", "8589934593", "9007199254740993", "9223372036854775807"]
        core_other = ["", "0", "False"]                  # falsy but legal spellings
        k = 0
        for name in self.names:
            kind = self.kinds[name]
            vals = list(dict.fromkeys(self.H.valid_values_for(kind) + (self.pool.get(name) or [])))
            numeric = "int" in kind.lower() or "float" in kind.lower()
            # fixed grid first (numeric boundaries / falsy spellings, the option's own pool), then a sample
            fixed = list(dict.fromkeys((core_int if numeric else core_other) + (self.pool.get(name) or [])[:3]))
            rest = [v for v in vals if v not in fixed]
            for v in fixed + rng.sample(rest, min(len(rest), 3)) + [rng.choice(self.H.GENERIC)]:
                extra = [["events", "ping,scte35"]] if "__" in name and name.split("__")[0] in ("ping", "scte35") else []
                # targets in rotation (13 targets, co-prime with the grid lengths), so that every name meets every
                # kind of route over its values
                # (the multi-period manifest costs 0.3 s: every 40th request in the quick tier)
                if self.ctx.thorough:
                    t = targets[k % len(targets)]
                else:
                    t = mps_target if k % 40 == 39 else fast[k % len(fast)]
                self.one("GET", t, [[name, v]] + extra, "anon", None, endpoint="every-option")
                k += 1

    CLOCKS = ["1970-01-01T00:00:00Z", "1970-01-02T00:00:01Z", "2000-02-29T23:59:59.999999Z", "2024-12-31T23:59:59Z",
              "2025-01-01T00:00:00Z", "2036-02-07T06:28:15Z", "2036-02-07T06:28:16Z", "2038-01-19T03:14:08Z",
              "2100-03-01T00:00:00Z", "2106-02-07T06:28:16Z", "9999-12-30T12:00:00Z",
              # checklist 3: sub-second phases, Feb 28 -> Mar 1 in a non-leap year, the first microsecond of a leap
              # day / of a month, the 32-bit 1904-based creation time of the init segment's mvhd/tkhd (2040-02-06)
              "2024-03-05T10:20:30.000001Z", "2024-03-05T10:20:30.250000Z", "2024-03-05T10:20:30.499999Z",
              "2024-03-05T10:20:30.500000Z", "2024-03-05T10:20:30.750000Z", "2024-03-05T10:20:30.999999Z",
              "2023-02-28T23:59:59.500000Z", "2023-03-01T00:00:00Z", "2024-02-29T00:00:00.000001Z",
              "2024-04-01T00:00:00Z", "2040-02-06T06:28:15.750000Z", "2040-02-06T06:28:16Z"]

    def clock_sweep(self, clock, n):
        """the clock-dependent routes at boundary instants (NTP era, 2^31 / 2^32 Unix seconds, year and
        month starts, the ends of the datetime range), anonymous client"""
        rng = self.rng
        targets = ["/time/xsd", "/time/iso", "/time/http-ntp", "/time/head", "/dash/live/bbb/hand_made.mpd",
                   "/dash/live/bbb/manifest_n.mpd", "/dash/live/tears/manifest_e.mpd", "/dash/live/syn1/manifest_a.mpd",
                   "/mps/live/c16mps/hand_made.mpd", "/dash/live/bbb/bbb_v7/init.m4v", "/dash/live/bbb/bbb_v7/1.m4v",
                   "/dash/live/bbb/bbb_a1/time/0.m4a", "/patch/bbb/hand_made/1709634000",
                   "/play/live/bbb/hand_made/index.html", "/dash/vod/bbb/hand_made.mpd"]
        opts = [[], [], [["start", "epoch"]], [["start", "now"]], [["start", "today"]], [["start", "month"]],
                [["drift", "10"]], [["drift", "-86400"]], [["drift", "3000000000"]], [["drift", "-3000000000"]],
                [["mup", "4"]], [["depth", "30"]], [["timeline", "1"]], [["time", "direct"]], [["time", "ntp"]],
                [["patch", "1"]], [["events", "ping"]], [["start", "2024-03-05T10:20:30Z"]],
                [["merr", "503=10:20:30Z"], ["start", "today"]], [["verr", "503=10:20:30Z"]]]
        saved = self.clients
        self._at_now = False
        for now in self.CLOCKS:
            clock.set(now)
            self.clients = {"anon": self.app.client()}
            for t in targets:
                self.one("GET", t, rng.choice(opts), "anon", None, endpoint="clock-sweep")
            for _ in range(n):
                q = self.H.gen_query(rng, self.names, self.pool, kinds=self.kinds)
                self.one("GET", rng.choice(targets), q, "anon", None, endpoint="clock-sweep")
        self.loop_clocks(clock)
        self.stale_sessions(clock)
        clock.set(self.H.NOW)
        self._at_now = True
        self.clients = saved

    def loop_clocks(self, clock):
        """the clock exactly on (and one microsecond either side of) a loop boundary of the stored media after
        0, 1, 2, 1000 and 10^5 loops, and on a segment boundary inside a loop: manifests and the segments at
        the live edge (number and $Time$ addressing), availability start = epoch"""
        import datetime
        ext = {"video": "m4v", "audio": "m4a", "text": "m4s"}
        epoch = datetime.datetime(1970, 1, 1, tzinfo=datetime.timezone.utc)
        for name in ("bbb_v7", "bbb_a1"):
            rep = self.P["reps"].get(name)
            if rep is None:
                continue
            total, ts, sd, sn = sum(rep["durs"]), rep["ts"], rep["sd"], rep["sn"]
            e = ext.get(rep["content_type"], "mp4")
            loops = (0, 1, 2, 1000, 100000) if (self.ctx.thorough or name == "bbb_v7") else (1, 100000)
            for k in loops:
                for extra_ticks in ((0, sd) if k in (1, 100000) else (0,)):
                    ticks = k * total + extra_ticks + 60 * ts          # one minute of time shift buffer behind the edge
                    us = -(-ticks * 1000000 // ts)
                    for d_us in (-1, 0, 1):
                        now = epoch + datetime.timedelta(microseconds=us + d_us)
                        clock.set(now.strftime("%Y-%m-%dT%H:%M:%S.%fZ"))
                        q = [["start", "epoch"], ["depth", "60"]]
                        if d_us == 0:
                            self.one("GET", "/dash/live/bbb/hand_made.mpd", q + [["timeline", "1"]], "anon", None,
                                     endpoint="loop-clock")
                            self.one("GET", "/dash/live/bbb/manifest_n.mpd", q, "anon", None, endpoint="loop-clock")
                        edge = sn + ticks // sd
                        for num in (edge - 2, edge - 1, edge, edge + 1):
                            if num < 0:
                                continue
                            self.one("GET", f"/dash/live/bbb/{name}/{num}.{e}", q, "anon", None, endpoint="loop-clock")
                            self.one("GET", f"/dash/live/bbb/{name}/time/{(num - sn) * sd}.{e}", q, "anon", None,
                                     endpoint="loop-clock")

    def stale_sessions(self, clock):
        """clock jumps across session / token lifetimes: cookies and tokens issued at NOW presented 2 h, 2 d, 40 d
        and 400 d later on public and protected routes"""
        clock.set(self.H.NOW)
        self.login()
        pages = ["/", "/media", "/users", "/stream/1", "/api/refresh/csrf", "/api/refresh/access", "/dash/live/bbb/hand_made.mpd",
                 "/play/live/bbb/hand_made/index.html", "/key", "/logout"]
        for now in ("2024-03-05T12:20:31Z", "2024-03-07T10:20:31Z", "2024-04-14T10:20:31Z", "2025-04-09T10:20:31Z"):
            clock.set(now)
            for who in ("anon", "user", "media", "admin"):
                for pg in pages[:-1] if now < "2025" else pages:
                    self.one("GET", pg, [], who, None, endpoint="stale-session")

    def long_strings(self):
        """every string-typed option (and the raw <drm>_la_url parameters DrmContext reads) with values of
        1 KB, 4096/4097, 32700, 64 KB -/+ 8 and 1 MB characters, and with format-template look-alikes, on a
        manifest, an encrypted init segment, an encrypted media segment and the player page with DRM selected"""
        H = self.H
        names = [n for n in self.names if self.kinds[n] in H.STRING_KINDS] + \
            ["clearkey_la_url", "playready_la_url", "marlin_la_url"]
        targets = ["/dash/vod/bbb/hand_made.mpd", "/dash/live/bbb/bbb_v7_enc/init.m4v", "/dash/vod/bbb/bbb_v7_enc/1.m4v",
                   "/play/live/bbb/hand_made/index.html", "/mps/live/c16mps/hand_made.mpd", "/time/xsd"]
        for name in names:
            url = name.endswith("la_url")
            i_name = names.index(name)
            sizes = H.LONG_SIZES if (url or self.ctx.thorough) else [[1024, 4097][i_name % 2], 65536 + 8]
            vals = [H.long_value(n, url) for n in sizes] + (
                H.FORMAT_STRINGS if (url or self.ctx.thorough)
                else [H.FORMAT_STRINGS[(2 * i_name + d) % len(H.FORMAT_STRINGS)] for d in (0, 1)])
            for v in vals:
                if url and (self.ctx.thorough or v in vals[:len(sizes)]):
                    ts = targets[:3]
                elif url:               # format look-alikes: the three DRM consumers in rotation
                    k = self._rot = getattr(self, "_rot", -1) + 1
                    ts = [targets[k % 3]]
                elif self.ctx.thorough:
                    ts = self.rng.sample(targets[:4] + targets[5:], 1) if self.rng.random() < .9 else [targets[4]]
                else:
                    # stratified: the targets in rotation; the multi-period manifest (0.5 s per request) every 12th
                    k = self._rot = getattr(self, "_rot", -1) + 1
                    fast = targets[:4] + targets[5:]
                    ts = [targets[4] if k % 12 == 11 else fast[k % len(fast)]]
                for t in ts:
                    self.one("GET", t, [["drm", "all"], [name, v]], "anon", None, endpoint="long-strings")

    def boundary_sweep(self):
        """numeric path components at the boundaries of what the stream has: live media (number and
        $Time$) around the live edge and the far end of the time shift buffer for recent, 1970, and very
        old starts; multi-period media around the start and end of every period"""
        import datetime
        H = self.H
        ext = {"video": "m4v", "audio": "m4a", "text": "m4s"}
        now = datetime.datetime(2024, 3, 5, 10, 20, 30)
        starts = ["2024-03-05T10:00:00Z", "2024-03-05T10:20:00Z", "1970-01-01T00:00:00Z", "1479-06-01T00:00:00Z",
                  "0100-01-01T00:00:00Z", "0001-01-01T00:00:00Z"]
        names = [n for n in ("bbb_v7", "bbb_a1", "bbb_v7_enc", "syn1_v1", "syn1_a1", "tears_v1", "c16na_v1")
                 if n in self.P["reps"]]
        # stream age 0, 1 s, < depth, = depth - 1 s, = depth, = depth + 1 s (depth = 60 s)
        ages = ["2024-03-05T10:20:30Z", "2024-03-05T10:20:29Z", "2024-03-05T10:19:31Z", "2024-03-05T10:19:30Z",
                "2024-03-05T10:19:29Z"]
        if not self.ctx.thorough:
            names, starts = names[:4], [starts[0], starts[2], starts[4], starts[5]]
        for i_name, name in enumerate(names):
            rep = self.P["reps"][name]
            e = ext.get(rep["content_type"], "mp4")
            base = f"/dash/live/{rep['stream']}/{name}"
            for start in starts + (ages if (self.ctx.thorough or i_name < 2) else []):
                y, mo, d, hh, mm, ss = (int(x) for x in (start[0:4], start[5:7], start[8:10], start[11:13],
                                                         start[14:16], start[17:19]))
                el = now - datetime.datetime(y, mo, d, hh, mm, ss)
                el_s = el.days * 86400 + el.seconds
                edge = rep["sn"] + el_s * rep["ts"] // rep["sd"]
                far = edge - 60 * rep["ts"] // rep["sd"]
                q = [["start", start], ["depth", "60"]] + ([["drm", "all"]] if name.endswith("_enc") else [])
                for num in sorted({edge + k for k in (-3, -2, -1, 0, 1, 2)} | {far + k for k in (-4, -3, -2, -1, 0, 1)}):
                    if num < 0:
                        continue
                    self.one("GET", f"{base}/{num}.{e}", q, "anon", None, endpoint="boundary-live")
                    t = (num - rep["sn"]) * rep["sd"]
                    # one tick either side at the two ends of the window (and everywhere in the thorough tier)
                    for tt in ((t - 1, t, t + 1) if (self.ctx.thorough or num in (edge, edge - 1, far, far - 1)) else (t,)):
                        if tt >= 0:
                            self.one("GET", f"{base}/time/{tt}.{e}", q, "anon", None, endpoint="boundary-live")
        for mps, ppks in sorted(self.P["ppks"].items()):
            for ppk in ppks:
                for name in (self.P["pfiles"].get(ppk) or [])[:(3 if self.ctx.thorough else 1)]:
                    rep = self.P["reps"].get(name)
                    if rep is None:
                        continue
                    e = ext.get(rep["content_type"], "mp4")
                    sn, sd = rep["sn"], rep["sd"]
                    for mode in ("vod", "live"):
                        base = f"/mps/{mode}/{mps}/{ppk}/{name}"
                        q = [["drm", "all"]] if name.endswith("_enc") else []
                        for num in sorted({0, sn - 1, sn, sn + 1, sn + 4, sn + 5, sn + 6, sn + 7, sn + rep["n"] - 1,
                                           sn + rep["n"], sn + rep["n"] + 1}):
                            if num >= 0:
                                self.one("GET", f"{base}/{num}.{e}", q, "anon", None, endpoint="boundary-mps")
                        for k in (0, 1, 4, 5, 6, rep["n"] - 1, rep["n"], rep["n"] + 1):
                            for tt in (k * sd - 1, k * sd, k * sd + 1):
                                if tt >= 0:
                                    self.one("GET", f"{base}/time/{tt}.{e}", q, "anon", None, endpoint="boundary-mps")

    def stored_defaults(self, n):
        """stream defaults as an input dimension: option vectors saved through POST /stream/<spk>/defaults
        (media user, valid CSRF token - the one state-changing request this channel sends on purpose; the
        defaults are cleared again at the end), then the manifests and segments of that stream"""
        import c16_mp4
        H, rng = self.H, self.rng
        up = c16_mp4.Uploader(self.app)
        with self.app.ctx() as m:
            spk = m.Stream.get(directory="syn1").pk
        saved = self.clients
        self.clients = dict(saved, media=up.c)
        gets = ["/dash/live/syn1/hand_made.mpd", "/dash/vod/syn1/hand_made.mpd", "/dash/live/syn1/manifest_n.mpd",
                "/dash/live/syn1/syn1_v1/init.m4v", "/dash/vod/syn1/syn1_v1/1.m4v", "/dash/vod/syn1/syn1_a1/time/0.m4a",
                f"/stream/{spk}", f"/stream/{spk}/defaults", "/play/live/syn1/hand_made/index.html"]
        drm_forms = [{}, {}, {"drm_clearkey": "on", "clearkey__drmloc": "moov"}, {"drm_playready": "on"},
                     {"drm_playready": "on", "playready__drmloc": "pro", "drm_marlin": "on", "marlin__drmloc": "cenc"},
                     {"drm_clearkey": "on", "clearkey__drmloc": "bogus"}]
        effective = []
        self._effective_form = {}
        # fixed part: every registered option once as a stored default (groups of 6 names, the value taken in
        # rotation from the accepted pool of its kind), then the stream's manifests / segments / pages in rotation
        fixed = []
        for i in range(0, len(self.names), 6):
            form = {}
            for j, name in enumerate(self.names[i:i + 6]):
                vals = H.valid_values_for(self.kinds[name]) if name in self.kinds else H.GENERIC
                own = self.pool.get(name) or []
                form[name] = own[(i + j) % len(own)] if own and (i + j) % 2 == 0 else vals[(i // 6 + j) % len(vals)]
            if any("__" in k for k in form):
                form.setdefault("events", "ping,scte35")
            fixed.append(form)
        try:
            for k in range(len(fixed) + n):
                if k < len(fixed):
                    form = {a: b for a, b in fixed[k].items() if a != "drm"}
                    form.update(drm_forms[k % len(drm_forms)])
                else:
                    q = H.gen_query(rng, self.names, self.pool, kinds=self.kinds)
                    form = {a: b for a, b in q if a not in ("drm",)}
                    form.update(rng.choice(drm_forms))
                if rng.random() < .3:
                    form["events"] = rng.choice(["ping", "scte35"])
                self._last_form = {k: v for k, v in form.items()}
                form["csrf_token"] = up.token("streams")
                body = ("stored-defaults", {"data": form})
                res = self.one("POST", f"/stream/{spk}/defaults", [], "media", None, body=body,
                               endpoint="stored-defaults")
                if res.status == 302:                  # saved: these defaults are in effect now
                    effective = [[k, v] for k, v in self._last_form.items()]
                    self._effective_form = dict(self._last_form)
                for g in ([gets[(k + d) % len(gets)] for d in (0, 3, 6)] if k < len(fixed) else rng.sample(gets, 4)):
                    self.one("GET", g, [], "media", None, endpoint="stored-defaults", stored=effective)
        finally:
            self.one("POST", f"/stream/{spk}/defaults", [], "media", None,
                     body=("stored-defaults", {"data": {"csrf_token": up.token("streams")}}), endpoint="stored-defaults")
            with self.app.ctx() as m:
                left = m.Stream.get(directory="syn1").defaults
                if left:
                    self.ch.errors.append(f"stream defaults of syn1 were not cleared: {left}")
                    m.Stream.get(directory="syn1").defaults = None
                    m.db.session.commit()
            self.clients = saved

    def exact_limits(self):
        """every integer path component at the EXACT limits derived from the object it addresses (first-1, first,
        last, last+1, last+2 - harness/CHECKLIST.md section 8), fixed grid: the segment inspection page of every
        indexed media file (segnum 0, 1, N-1, N, N+1, N+2 where the file has init + N media segments; HTML and
        ?ajax=1), the file's other pages, $Number$ and $Time$ of every indexed file on /dash vod, primary keys of
        streams / files / keys / periods at 0, min-1, min, max, max+1, max+2, files addressed under the wrong
        stream.  Oracle: never a 5xx."""
        ext = {"video": "m4v", "audio": "m4a", "text": "m4s"}
        P = self.P
        one = lambda path, q=(), who="anon", ep="exact-limit": self.one("GET", path, [list(x) for x in q], who, None, endpoint=ep)  # noqa: E731
        names = sorted(P["reps"])
        if not self.ctx.thorough:
            # quick: every file of the fixture streams and of the C16 world, every third synthetic file
            keep = [n for n in names if n.startswith(("bbb", "tears", "c16"))]
            rest = [n for n in names if n not in keep]
            names = keep + rest[::3]
        for i, name in enumerate(names):
            rep = P["reps"][name]
            spk, mfid, n = rep["spk"], rep["mfid"], rep["n"]
            th = self.ctx.thorough
            for k in sorted({0, 1, n - 1, n, n + 1, n + 2} if th else {0, n, n + 1, n + 2}):
                if k < 0:
                    continue
                one(f"/stream/{spk}/{mfid}/segment/{k}", (), "anon", "view-media-segment")
                if k >= n - 1 if th else k == n + 1:
                    one(f"/stream/{spk}/{mfid}/segment/{k}", (("ajax", "1"),), "media", "view-media-segment")
            e = ext.get(rep["content_type"], "mp4")
            sn = rep["sn"]
            base = f"/dash/vod/{rep['stream']}/{name}"
            q = (("drm", "all"),) if name.endswith("_enc") else ()
            for num in sorted({0, sn - 1, sn, sn + 1, sn + n - 2, sn + n - 1, sn + n, sn + n + 1} if th
                              else {sn - 1, sn, sn + n - 1, sn + n}):
                if num >= 0:
                    one(f"{base}/{num}.{e}", q, "anon", "dash-media")
            total = sum(rep["durs"])
            last_start = total - (rep["durs"][-1] if rep["durs"] else 0)
            for t in sorted({0, last_start - 1, last_start, last_start + 1, total - 1, total, total + 1} if th
                            else {0, last_start, total - 1, total}):
                if t >= 0:
                    one(f"{base}/time/{t}.{e}", q, "anon", "dash-media-by-time")
        # ---- primary keys at the ends of what exists
        def ends(pks):
            pks = sorted(pks)
            return sorted({0, pks[0] - 1, pks[0], pks[-1], pks[-1] + 1, pks[-1] + 2} - {-1}) if pks else [0, 1]
        some = P["reps"][names[0]]
        for spk in ends(P["spks"]):
            for path in (f"/stream/{spk}", f"/stream/{spk}/defaults", f"/stream/{spk}/{some['mfid']}",
                         f"/stream/{spk}/{some['mfid']}/segments", f"/stream/{spk}/{some['mfid']}/segment/1"):
                one(path, (), "media")
        for mfid in ends(P["mfids"]):
            for path in (f"/stream/{some['spk']}/{mfid}", f"/stream/{some['spk']}/{mfid}/segments",
                         f"/stream/{some['spk']}/{mfid}/segment/0", f"/stream/{some['spk']}/{mfid}/segment/1",
                         f"/stream/{some['spk']}/{mfid}/edit", f"/media/index/{mfid}"):
                one(path, (), "media")
        for kpk in ends(P["kpks"]):
            one(f"/key/{kpk}", (), "media")
        for mps, ppks in sorted(P["ppks"].items()):
            for ppk in ends(ppks):
                f0 = (P["pfiles"].get(ppks[0]) or ["bbb_v7"])[0] if ppks else "bbb_v7"
                for mode in ("vod", "live"):
                    one(f"/mps/{mode}/{mps}/{ppk}/{f0}/init.m4v", (), "anon", "mps-init-seg")
                    one(f"/mps/{mode}/{mps}/{ppk}/{f0}/1.m4v", (), "anon", "mps-media-seg-by-number")
                    one(f"/mps/{mode}/{mps}/{ppk}/{f0}/time/0.m4v", (), "anon", "mps-media-seg-by-time")

    PATH_BUDGET = 6.0        # seconds per request of the path-integer grid (the clean tree answers in milliseconds)

    def path_integers(self):
        """every route that takes an integer from the PATH ($Number$ and $Time$ on /dash and /mps, live and vod;
        the publish time of a patch; primary keys of streams, files, keys, periods), every other component valid,
        with a fixed list of huge values: 2^53 -+ 1, 2^63 -+ 1, 2^64, 10^30+77, 3*10^33+77, k*10^33+odd for seven k
        (so that a float quotient rounds down for some and up for others), 10^60+1, a 4300-digit and a 4301-digit
        number - each request under a wall-clock budget enforced by the watchdog (interval timer raising a
        BaseException inside the request, plus the memory-growth limit).  Oracle: an answer < 500 within the budget."""
        import random
        H = self.H
        rng = random.Random("c16:path-integers")           # fixed: the grid does not depend on the seed
        self._limit = self.PATH_BUDGET
        hung, timeouts = set(), 0
        media = ("dash-media", "dash-media-by-time", "mps-media-seg-by-number", "mps-media-seg-by-time", "mps-init-seg",
                 "dash-od-media", "mpd-patch")
        mps_forces = []
        for mps in [m for m in self.P["mps"] if m == "c16mps"] or self.P["mps"][:1]:
            for ppk in (self.P["ppks"].get(mps) or [])[:3]:
                files = self.P["pfiles"].get(ppk) or []
                if files:
                    mps_forces.append({"mps_name": mps, "ppk": ppk, "filename": files[0]})
        dash_forces = [{"stream": "bbb", "filename": "bbb_v7", "manifest": "hand_made"},
                       {"stream": "bbb", "filename": "bbb_a1", "manifest": "hand_made"}]
        try:
            for rule in self.rules:
                names = H.int_args(rule)
                if not names:
                    continue
                heavy = rule.endpoint in media
                rx = getattr(rule._converters.get("mode"), "regex", "") if "mode" in rule._converters else ""
                modes = [m for m in ("live", "vod", "odvod") if m in rx] or [None]
                forces = (mps_forces if rule.endpoint.startswith("mps-") else dash_forces) if heavy else [{}]
                for name in names:
                    for force in forces or [{}]:
                        for mode in (modes if heavy else modes[:1]):
                            f = dict(force, **({"mode": mode} if mode else {}))
                            f[name] = str(H.PATH_SENTINEL) if isinstance(rule._converters[name], type(None)) else H.PATH_SENTINEL
                            path = H.fill_rule(rule, self.P, rng, True, force=f)
                            if path is None or str(H.PATH_SENTINEL) not in path:
                                # (RegexConverter takes text)
                                f[name] = str(H.PATH_SENTINEL)
                                path = H.fill_rule(rule, self.P, rng, True, force=f)
                                if path is None or str(H.PATH_SENTINEL) not in path:
                                    continue
                            vals = H.PATH_INTS if (heavy or self.ctx.thorough) else H.PATH_INTS_SHORT
                            for v in vals:
                                if (rule.endpoint, name) in hung or timeouts >= 8:
                                    self.ch.count("path-int: skipped after a request that did not finish")
                                    continue
                                who = "media" if rule.endpoint not in HEAVY else "anon"
                                res = self.one("GET", path.replace(str(H.PATH_SENTINEL), v), [], who, None,
                                               endpoint=rule.endpoint)
                                self.ch.count("path-int requests")
                                if res.timed_out:
                                    timeouts += 1
                                    hung.add((rule.endpoint, name))
        finally:
            self._limit = H.TIME_LIMIT

    def _set_stored(self, directory, defaults):
        with self.app.ctx() as m:
            st = m.Stream.get(directory=directory)
            st.defaults = defaults
            m.db.session.commit()

    def stored_sources(self):
        """values that arrive through a STORED source (where a value comes from): Stream.defaults written the way
        the JSON add-stream API / the populate script / any writer of the column leaves them (no validation) -
        a fixed grid of values check_option_values or from_string refuse in a URL, out-of-range numbers and JSON
        types the option does not have - then every route family of that stream with an EMPTY query and with an
        unrelated parameter; plus the real API end to end (PUT /streams/add with a `defaults` member, upload,
        index, the stream's pages / manifests / segments).  Oracle: never a 5xx."""
        import c16_mp4
        import gen_options
        H = self.H
        rows = gen_options.dump()["rows"]
        with self.app.ctx() as m:
            spk = m.Stream.get(directory="bbb").pk
        fams = ["/dash/live/bbb/hand_made.mpd", "/dash/vod/bbb/hand_made.mpd", "/dash/live/bbb/manifest_n.mpd",
                "/dash/vod/bbb/manifest_e.mpd", "/dash/live/bbb/bbb_v7/init.m4v", "/dash/vod/bbb/bbb_v7/1.m4v",
                "/dash/vod/bbb/bbb_a1_enc/init.m4a", "/dash/vod/bbb/bbb_v7_enc/2.m4v", "/dash/vod/bbb/bbb_t1/time/0.m4s",
                "/dash/bbb/hand_made.mpd", "/play/live/bbb/hand_made/index.html", "/patch/bbb/hand_made/1709634000",
                f"/stream/{spk}", f"/stream/{spk}/defaults", "/time/xsd"]
        unrelated = [[], [["abr", "1"]], [], [["x", "1"]]]
        grid = H.stored_refused_grid()
        conf = H.stored_confused_grid(rows, 3 if self.ctx.thorough else 1)
        k = 0
        try:
            for label, d in grid + conf:
                full = label.startswith("refused") or self.ctx.thorough
                try:
                    self._set_stored("bbb", d)
                except Exception as e:      # the column itself refuses the value
                    self.ch.count(f"stored value not storable: {type(e).__name__}")
                    continue
                self._stored_raw = d
                # refused values: the manifest / init / media families with an empty query + 4 more in rotation;
                # type-confused values: 5 families in rotation
                paths = ([fams[0], fams[4], fams[5]] + [fams[(k + j) % len(fams)] for j in range(4)]) if full \
                    else [fams[(k + 3 * j) % len(fams)] for j in range(5)]
                for j, path in enumerate(dict.fromkeys(paths)):
                    q = [] if (full and j < 3) else unrelated[(k + j) % len(unrelated)]
                    who = "media" if path.startswith("/stream/") else "anon"
                    self.one("GET", path, q, who, None, endpoint="stored-source", stored=self._stored_pairs(d))
                k += 1
        finally:
            self._stored_raw = None
            self._set_stored("bbb", None)
        # ---- the real API: PUT /streams/add with a defaults member, then upload + index + pages + media
        up = c16_mp4.Uploader(self.app)
        seed = c16_mp4.seeds()["syn_video"]
        api = [grid[0][1], grid[3][1], grid[9][1], grid[19][1], {"eventTypes": ["ping"], "ping": {"count": 10001}},
               {"utcMethod": 5}, {"timeShiftBufferDepth": "abc"}]
        for d in (api if self.ctx.thorough else api[:5]):
            r = up.c.put("/streams/add", json={"title": "C16 uploads", "directory": "c16up", "prefix": "c16up",
                                               "marlin_la_url": "", "playready_la_url": "", "defaults": d,
                                               "csrf_token": up.token("streams"), "ajax": 1},
                         query_string={"ajax": "1"})
            self.ch.count(f"api:add-stream:{r.status_code}")
            with self.app.ctx() as m:
                st = m.Stream.get(directory="c16up")
                if st is None:
                    self.ch.errors.append("PUT /streams/add removed the upload stream")
                    return
                up.spk = st.pk
                kept = st.defaults
            if r.status_code >= 500:
                self.ch.oracle_failures.append({"kind": "http", "channel": "fuzz_http", "method": "PUT",
                                                "path": "/streams/add", "query": [], "who": "media", "headers": None,
                                                "status": r.status_code, "why": f"status {r.status_code}",
                                                "url": "/streams/add", "stored_api": d, "now": H.NOW})
            if not kept:
                self.ch.count("api:defaults refused or dropped")
                continue
            for st_ in up.upload_index(seed):
                self.ch.evaluations += 1
                self.ch.count(f"api:{st_['step']}:{st_['status']}")
                why = c16_mp4.endpoint_violation(st_)
                key = ("stored-api", st_["step"], str(st_["exc"][:2] if st_["exc"] else why))
                if why and key not in self.seen_sig:
                    self.seen_sig.add(key)
                    self.ch.oracle_failures.append({
                        "kind": "stored_api", "channel": "fuzz_http", "defaults": d, "step": st_["step"],
                        "status": st_["status"], "exception": list(st_["exc"]) if st_["exc"] else None,
                        "why": f"stream created through PUT /streams/add with defaults {d}: {why}"})
        with self.app.ctx() as m:
            st = m.Stream.get(directory="c16up")
            if st is not None:
                st.defaults = None
                m.db.session.commit()

    @staticmethod
    def _stored_pairs(d: dict) -> list:
        """the injected codes a stored default legitimately asks for, in the form `violates` reads"""
        out = []
        for full, cgi in (("videoErrors", "verr"), ("audioErrors", "aerr"), ("textErrors", "terr"),
                          ("manifestErrors", "merr")):
            v = d.get(full)
            if isinstance(v, list):
                for item in v:
                    if isinstance(item, list) and len(item) == 2 and isinstance(item[0], int):
                        out.append([cgi, f"{item[0]}={item[1]}"])
            elif isinstance(v, str):
                out.append([cgi, v])
        return out

    def mutating(self, n):
        """POST / PUT / DELETE with junk bodies and no valid CSRF token"""
        rng = self.rng
        for _ in range(n):
            rule = rng.choice(self.mut_rules)
            path = self.H.fill_rule(rule, self.P, rng, valid=rng.random() < .8)
            if path is None:
                continue
            method = rng.choice(sorted(rule.methods & {"POST", "PUT", "DELETE"}))
            q = [] if rng.random() < .7 else [[rng.choice(["ajax", "csrf_token", "next"]), rng.choice(["1", "x", ""])]]
            # DELETE /stream/<spk> needs no CSRF token (C15's subject): privileged roles do not send
            # DELETE, so that the world of streams stays as built
            who = rng.choice(["anon", "user"] if method == "DELETE" else ["anon", "media", "admin", "user"])
            self.one(method, path, q, who,
                     rng.choice([None, None, {"X-Requested-With": "XMLHttpRequest"}]), body=rng.choice(BODIES),
                     endpoint=rule.endpoint)


def ch_fuzz_http(ctx, stop_after=None) -> Channel:
    import appboot
    import c16_http
    ch = Channel("fuzz_http", rule=(
        "EXPLORATION (no model): every rule of app.url_map with GET (valid and invalid converter values; "
        "anonymous, user, media, admin; GET and HEAD) x query strings assembled from every registered option "
        "name with accepted-but-odd, boundary, type-confused and hostile values x streams with missing pieces "
        "(no encrypted files, no audio, no timing reference, unindexed media, no media, multi-period streams "
        "without periods / without timing reference / of zero duration) x Range/Host/Cookie headers; the "
        "every string-typed option and the raw <drm>_la_url parameters with values of 1 KB ... 64 KB +- 8 ... 1 MB "
        "characters and with format-template look-alikes on manifest / encrypted init / media / player routes; "
        "segment numbers and times on the live and multi-period media routes from boundary pools derived from the "
        "stream and the clock (live edge and far end of the time shift buffer +-3 for recent, 1970 and very old "
        "starts; start and end of every period +-1 tick; the random URLs draw 70 % of their numbers and times "
        "from the stream's own first-1 .. last+2 pool); option vectors saved as *stream defaults* through the defaults form (then the stream's manifests, segments "
        "and pages); clock-dependent routes at boundary instants of the controlled clock (1970, NTP era end 2036, 2^31 and "
        "2^32 Unix seconds, year 9999); plus "
        "POST/PUT/DELETE rules with junk bodies and no valid CSRF token; oracle: status < 500 or a code the "
        "request itself asks to be injected, answer within 20 s; failures are shrunk to a minimal parameter set "
        "and reported once per (route, exception signature); non-trivial = a request with a query string or "
        "answered 200/206/4xx other than 401/404; distinct by (method, url, role, headers)"))
    rng = ctx.rng("fuzz_http")
    fz = HttpFuzz(ctx, ch, rng)
    with appboot.Clock(c16_http.NOW) as clock:
        fz.login()
        t0 = time.perf_counter()
        before = c16_http.pools(fz.app)
        fz.reference_check()                     # the first answers
        phases = [("clock_sweep", lambda: (fz.clock_sweep(clock, ctx.scale(2, 70)), fz.login())),
                  ("regressions", fz.regressions), ("path_integers", fz.path_integers),
                  ("exact_limits", fz.exact_limits),
                  ("boundary_sweep", fz.boundary_sweep),
                  ("long_strings", fz.long_strings), ("sweep", fz.sweep), ("every_option", fz.every_option),
                  ("random_gets", lambda: fz.random_gets(ctx.scale(450, 10000))),
                  ("stored_defaults", lambda: fz.stored_defaults(ctx.scale(12, 200))),
                  ("stored_sources", fz.stored_sources),
                  ("mutating", lambda: fz.mutating(ctx.scale(250, 2500)))]
        for name, run in phases:
            fz._phase = name
            t1, e1 = time.perf_counter(), ch.evaluations
            run()
            ch.count(f"phase:{name}:requests", ch.evaluations - e1)
            ch.count(f"phase:{name}:seconds", round(time.perf_counter() - t1))
            fz.reference_check()                 # ... and again after every phase, with the whole history behind
            after = c16_http.pools(fz.app)
            for k in ("streams", "mps", "mfids", "kpks", "users"):
                # (c16up is the upload stream the harness's own Uploader creates for the defaults form)
                if [x for x in before[k] if x != "c16up"] != [x for x in after[k] if x != "c16up"]:
                    ch.errors.append(f"phase {name} changed the world: {k} {before[k]} -> {after[k]}")
                    before = after
            if stop_after == name:
                break
        ch.count("seconds", int(time.perf_counter() - t0))
    # a request that did not finish is reported before the 5xx answers
    ch.oracle_failures.sort(key=lambda f: 0 if f.get("status") == 0 else 1)
    ch.sample({"routes": len(fz.rules), "option_names": len(fz.names), "streams": fz.P["streams"],
               "multi_period": fz.P["mps"]}, limit=1)
    return ch


# ====================================================================== fuzz_mp4

def ch_fuzz_mp4(ctx) -> Channel:
    import appboot
    import c16_http
    import c16_mp4 as M
    ch = Channel("fuzz_mp4", rule=(
        "EXPLORATION (no model): valid MP4 seeds = four mp4synth tracks (clear, encrypted, sidx+styp, emsg), "
        "heads of three real fixtures, and one minimal file per *layout class* the fixtures lack (trun with each "
        "class of per-sample flag subsets incl. none - samples then take no space in the box -, saiz with a "
        "default size / with a size table / empty, senc of bare IVs / with subsamples / without entries, pssh v1 "
        "with a KID list, sidx), and one file per *shape of stored media* (two segments with a short last one, a "
        "short interior segment, one segment of an hour, 64-bit largesize moof/mdat, tfdt v0 / v1 with a first decode "
        "time != 0 and > 2^33, fragments numbered from 0 and from 7, timescales 1 / 10^7 / 30000 with 1001-multiples, "
        "no mehd, pssh inside the moof, explicit / implicit / absolute data addressing, sample durations in tfhd / "
        "trex, emsg v1 in front of the sidx, 16-byte IVs with senc+PIFF in front of saiz/saio, a payload larger than "
        "the reader's cache window 16384 x 30 and a file of exactly that length); mutations = truncations, bit flips, size-field and type-field edits, and for "
        "every count or size field that drives a parser loop (trun, saiz, saio, senc, subsample, sidx, st** "
        "tables, pssh KID list and data size, avcC/hvcC set counts; located by the independent walker) the edits "
        "0, 1, 2, 255, 2^16-1, 2^16, 2^24, 2^31-1, 2^31, 2^32-1; fed to three library entry points - index "
        "(Mp4Atom.load + Representation.load, as parse_media_file), lazy (mode rw + touch + encode, as "
        "load_fragment), full (lazy_load=False + toJSON, as the inspect and segment pages) - and to the "
        "endpoints: inspect (upload), upload -> index -> stream page / media info / segment list / segment "
        f"pages / manifest / init / media segment / edit page -> delete; BUDGET per library call {M.LIB_LIMIT:.0f} s "
        f"wall clock and {c16_http.MEM_LIMIT >> 20} MiB growth of the process, per endpoint request "
        f"{c16_http.TIME_LIMIT:.0f} s and the same memory budget (watchdog: interval timer that raises inside "
        "the running call); oracle: the library call returns or raises an ordinary exception within its "
        "budget (no MemoryError/RecursionError), every endpoint answers < 500 within its budget; non-trivial = a "
        "mutated input the parser does not reject outright or an endpoint sequence that indexed the file; "
        "distinct by mutation"))
    rng = ctx.rng("fuzz_mp4")
    app = c16_http.world()
    S = M.seeds()
    # count-field edits: quick = the small seeds of the original and layout classes; the shape seeds (shp_*, same
    # box layouts in other shapes) join in the thorough tier, the two cache-window files never (0.5 MB per case)
    small = [k for k in sorted(S) if len(S[k]) < 20000 and not k.startswith("shp_")]
    shp = [k for k in sorted(S) if k.startswith("shp_") and k not in ("shp_over_window", "shp_at_window")]
    allc = [k for k in sorted(S) if not k.startswith("shp_")] + shp[::5]
    cases = [({"seed": k, "op": "none"}, v) for k, v in sorted(S.items())]
    n_plain = len(cases)
    # ---- count / size fields of every layout class
    quick_values = [0, 1, 2, 255, 1 << 24, 1 << 31, (1 << 32) - 1]
    count_cases = []
    for k in (allc if ctx.thorough else small):
        count_cases += M.count_cases(k, S[k], None if ctx.thorough else quick_values)
    ch.count("count-field cases", len(count_cases))
    # ---- seeded mutations
    n_lib, n_insp, n_idx = ctx.scale(130, 1800), ctx.scale(40, 500), ctx.scale(28, 350)
    rand_cases = []
    for _ in range(n_lib):
        k = rng.choice(sorted(S))
        rand_cases.append(M.mutate(rng, k, S[k]))
    seen = set()
    dead = set()          # (box, field) whose edit already ran into the watchdog: not run again (each costs the budget)
    timeouts = 0

    def skip(desc):
        return (desc.get("box"), desc.get("field")) in dead or timeouts >= 12

    for desc, data in cases + count_cases + rand_cases:
        for target in M.LIB_TARGETS:
            if skip(desc):
                ch.count("skipped after a watchdog hit on the same field")
                continue
            ch.evaluations += 1
            r = M.run_lib(data, target)
            if r["outcome"] == "timeout":
                timeouts += 1
                if desc["op"] == "count":
                    dead.add((desc["box"], desc["field"]))
            ch.count(f"lib:{target}:{r['outcome']}")
            if r["outcome"] == "ok" and desc["op"] != "none":
                ch.nontrivial.add((repr(desc), target))
            why = M.lib_violation(r)
            key = (desc["op"], desc.get("box"), desc.get("field"), target)
            if why and key not in seen:
                seen.add(key)
                ch.oracle_failures.append({"kind": "mp4", "target": f"lib:{target}", "desc": desc, "why": why})
    # the count edits most likely to make a loop run away, for the endpoints
    big = [c for c in count_cases if c[0]["new"] >= 1 << 24 and c[0]["box"] in ("trun", "senc", "saiz", "saio", "pssh", "sidx")]
    rng.shuffle(big)
    with appboot.Clock(c16_http.NOW):
        up = M.Uploader(app)
        sub = cases[:n_plain] + big[:ctx.scale(30, 400)] + rand_cases[:n_insp]
        for desc, data in sub:
            if skip(desc):
                continue
            for st in up.inspect(data):
                if st["status"] == 0:
                    timeouts += 1
                    if desc["op"] == "count":
                        dead.add((desc["box"], desc["field"]))
                ch.evaluations += 1
                ch.count(f"inspect:{st['status']}")
                if st["status"] == 200 and desc["op"] != "none":
                    ch.nontrivial.add(("inspect", repr(desc)))
                why = M.endpoint_violation(st)
                if why and ("inspect", str(st["exc"][:2] if st["exc"] else why)) not in seen:
                    seen.add(("inspect", str(st["exc"][:2] if st["exc"] else why)))
                    ch.oracle_failures.append({"kind": "mp4", "target": "inspect", "desc": desc, "why": why,
                                               "exception": list(st["exc"]) if st["exc"] else None})
        sub = cases[:n_plain] + big[:ctx.scale(10, 150)] + rand_cases[n_insp:n_insp + n_idx]
        for desc, data in sub:
            if skip(desc):
                continue
            steps = up.upload_index(data)
            if any(st["status"] == 0 for st in steps):
                timeouts += 1
                if desc["op"] == "count":
                    dead.add((desc["box"], desc["field"]))
            ch.evaluations += 1
            if steps and steps[-1].get("indexed") and desc["op"] != "none":
                ch.nontrivial.add(("index", repr(desc)))
            for st in steps:
                ch.count(f"{st['step']}:{st['status']}")
                why = M.endpoint_violation(st)
                key = (st["step"], str(st["exc"][:2] if st["exc"] else why))
                if why and key not in seen:
                    seen.add(key)
                    ch.oracle_failures.append({"kind": "mp4", "target": "index", "desc": desc, "why": why,
                                               "step": st["step"], "exception": list(st["exc"]) if st["exc"] else None})
    ch.sample({"seeds": {k: len(v) for k, v in S.items()},
               "budget": {"library_call_s": M.LIB_LIMIT, "endpoint_request_s": c16_http.TIME_LIMIT,
                          "memory_growth_MiB": c16_http.MEM_LIMIT >> 20}}, limit=1)
    if count_cases:
        ch.sample(count_cases[len(count_cases) // 2][0], limit=2)
    return ch


# ====================================================================== module interface

def channels(ctx):
    yield ch_opt_errors(ctx)
    yield ch_inject(ctx)
    yield ch_loops(ctx)
    yield ch_ntp(ctx)
    yield ch_vod_gate(ctx)
    yield ch_clients(ctx)
    yield ch_follow(ctx)
    yield ch_fuzz_mp4(ctx)
    yield ch_fuzz_http(ctx)          # last: its POST/PUT/DELETE part is the only one that may change state


def _replay_http(f) -> dict:
    import appboot
    import c16_http
    app = c16_http.world()
    with appboot.Clock(f.get("now", c16_http.NOW)):
        c = app.client()
        who = f.get("who", "anon")
        if who != "anon":
            app.login(c, {"media": appboot.MEDIA, "admin": appboot.ADMIN, "user": appboot.USER}[who])
        url = c16_http.build_url(f["path"], f.get("query") or [])
        if f.get("stored_raw") is not None:
            # the failure depends on a value in the Stream.defaults column of bbb (written without validation,
            # as the JSON add-stream API / populate script leave it)
            def put(v):
                with app.ctx() as m:
                    m.Stream.get(directory="bbb").defaults = v
                    m.db.session.commit()
            put(f["stored_raw"])
            try:
                res = c16_http.run(c, f["method"], url, f.get("headers"))
                why = c16_http.violates(res, (f.get("query") or []) + HttpFuzz._stored_pairs(f["stored_raw"]))
                return {"fails": why is not None, "status": res.status, "why": why, "exception": res.exc, "url": url,
                        "stored_defaults": f["stored_raw"]}
            finally:
                put(None)
        if "stored_form" in f:
            # the failure depends on stream defaults saved through the defaults form
            import c16_mp4
            up = c16_mp4.Uploader(app)
            with app.ctx() as m:
                spk = m.Stream.get(directory="syn1").pk
            try:
                r0 = up.c.post(f"/stream/{spk}/defaults", data={**f["stored_form"], "csrf_token": up.token("streams")})
                if r0.status_code >= 500:
                    return {"fails": True, "status": r0.status_code, "why": f"status {r0.status_code} saving the defaults",
                            "url": f"/stream/{spk}/defaults"}
                res = c16_http.run(up.c, "GET", url, f.get("headers")) if f["method"] == "GET" else \
                    c16_http.Result(r0.status_code, 0.0)
                why = c16_http.violates(res, [[k, v] for k, v in f["stored_form"].items()])
                return {"fails": why is not None, "status": res.status, "why": why, "exception": res.exc, "url": url}
            finally:
                up.c.post(f"/stream/{spk}/defaults", data={"csrf_token": up.token("streams")})
        if f.get("body"):
            kw = dict(dict(BODIES)[f["body"]])
            del c16_http._LAST_EXC[:]
            try:
                r = c.open(url, method=f["method"], headers=f.get("headers") or {}, **kw)
                res = c16_http.Result(r.status_code, 0.0, c16_http._LAST_EXC[-1] if c16_http._LAST_EXC else None)
            except Exception as e:
                res = c16_http.Result(c16_http.CLIENT_ERROR, 0.0, (type(e).__name__, "client", str(e)[:160]))
        else:
            res = c16_http.run(c, f["method"], url, f.get("headers"))
        why = c16_http.violates(res, f.get("query") or [])
    return {"fails": why is not None, "status": res.status, "why": why, "exception": res.exc, "url": url}


def _replay_inject(f) -> dict:
    import appboot
    import c16_http
    import c16_inject as I
    app = c16_http.world()
    with appboot.Clock(c16_http.NOW) as clock:
        real = I.run_real(app, clock, f["case"])
    fails = I.oracle(f["case"], real)
    return {"fails": bool(fails), "failures": fails, "statuses": [s for s, _ in real]}


def _replay_mp4(f) -> dict:
    import appboot
    import c16_http
    import c16_mp4 as M
    data = M.rebuild(f["desc"])
    if f["target"].startswith("lib"):
        target = {"lib": "index", "lib-lazy": "lazy"}.get(f["target"], f["target"].split(":")[-1])
        r = M.run_lib(data, target)
        return {"fails": M.lib_violation(r) is not None, "outcome": r}
    app = c16_http.world()
    with appboot.Clock(c16_http.NOW):
        up = M.Uploader(app)
        steps = up.inspect(data) if f["target"] == "inspect" else up.upload_index(data)
    bad = [M.endpoint_violation(s) for s in steps if M.endpoint_violation(s)]
    return {"fails": bool(bad), "violations": bad}


def _replay_opt(f) -> dict:
    import c16_http
    import c16_options as O
    c16_http.world()
    for name, opt, kind in O.options():
        if name == f["option"]:
            real = O.real_outcome(opt, f["arg"])
            bad = real not in ("ok", "ValueError") and not (real == "KeyError" and name == "drm")
            return {"fails": bad, "outcome": real}
    return {"fails": False, "note": "option no longer registered"}


def _replay_clients(f) -> dict:
    import appboot
    import c16_clients as C
    import c16_http
    app = c16_http.world()
    with appboot.Clock(c16_http.NOW):
        h = C.run_history(app, tuple(f["entry"]), f["a_query"], f.get("order", "BAB"),
                          other=tuple(f["other"]) if f.get("other") else None)
    return {"fails": bool(h["fails"]), "failures": h["fails"][:3], "constant_changes": h["constant_changes"][:2],
            "requests": [[s["client"], [[r["url"], r["status"], r.get("location")] for r in s["trace"]][:5]]
                         for s in h["steps"]]}


def _mk_ctx(mode: str, seed: int):
    if mode == "search":
        return types.SimpleNamespace(tier="thorough", thorough=True, seed=seed, mode="search", prop="C16",
                                     rng=lambda name: common.rng_for(seed, name), scale=lambda q, t: max(q, t // 6))
    th = mode == "thorough"
    return types.SimpleNamespace(tier=mode, thorough=th, seed=seed, mode=mode, prop="C16",
                                 rng=lambda name: common.rng_for(seed, name), scale=lambda q, t: t if th else q)


def _replay_history(f) -> dict:
    """the failing input is a history: the deterministic request sequence of fuzz_http (same seed, same
    scale) up to the end of the phase after which the reference request was answered differently"""
    ch = ch_fuzz_http(_mk_ctx(f.get("mode", "quick"), int(f.get("seed", 0))), stop_after=f.get("phase"))
    hits = [x for x in ch.oracle_failures if x.get("kind") == "http_history" and x.get("url") == f.get("url")]
    return {"fails": bool(hits), "requests": ch.evaluations,
            "answer_now": hits[0]["answer_now"] if hits else None, "why": hits[0]["why"] if hits else None}


def _replay_stored_api(f) -> dict:
    """PUT /streams/add with the defaults member, upload + index a file, the stream's pages and segments"""
    import appboot
    import c16_http
    import c16_mp4
    app = c16_http.world()
    with appboot.Clock(c16_http.NOW):
        up = c16_mp4.Uploader(app)
        r = up.c.put("/streams/add", json={"title": "C16 uploads", "directory": "c16up", "prefix": "c16up",
                                           "marlin_la_url": "", "playready_la_url": "", "defaults": f["defaults"],
                                           "csrf_token": up.token("streams"), "ajax": 1}, query_string={"ajax": "1"})
        with app.ctx() as m:
            up.spk = m.Stream.get(directory="c16up").pk
        steps = up.upload_index(c16_mp4.seeds()["syn_video"])
    bad = [(s["step"], s["status"], s["exc"]) for s in steps if c16_mp4.endpoint_violation(s)]
    return {"fails": bool(bad) or r.status_code >= 500, "add_stream_status": r.status_code, "failing_steps": bad[:5],
            "steps": [(s["step"], s["status"]) for s in steps]}


def _replay_failure(f) -> dict:
    k = f.get("kind")
    if k == "http_history":
        return _replay_history(f)
    if k == "follow":
        return _replay_follow(f)
    if k == "stored_api":
        return _replay_stored_api(f)
    if k == "clients":
        return _replay_clients(f)
    if k == "http":
        return _replay_http(f)
    if k == "inject":
        return _replay_inject(f)
    if k == "mp4":
        return _replay_mp4(f)
    if k == "opt":
        return _replay_opt(f)
    if k == "segs":
        import c16_inject as I
        try:
            I.segs_real(f["case"])
            return {"fails": False}
        except Exception as e:
            return {"fails": True, "raised": type(e).__name__}
    return {"fails": False, "note": f"unknown failure kind {k}"}


def replay(ctx, payload):
    f = payload.get("failure") or {}
    if not f or "kind" not in f or f.get("kind") == "no-failing-input-found":
        return {"fails": False, "note": "replay names a broken obligation, no input", "payload": payload.get("broken")}
    return {**_replay_failure(f), "failure": f}


def search(ctx, disagreements):
    """Layer C: find an input on which the real code violates C16 – first the inputs of the
    disagreements (through the oracle), then every channel at the thorough scale"""
    import c16_http
    # disagreements of the correspondence channels carry their input
    for d in disagreements:
        if "case" in d and isinstance(d["case"], dict) and "reqs" in d["case"]:
            r = _replay_inject({"case": d["case"]})
            if r["fails"]:
                return {"kind": "inject", "case": d["case"], "statuses": r["statuses"],
                        "why": r["failures"][0]["what"], "failures": r["failures"][:3]}
        if "query" in d and isinstance(d["query"], str):
            q = [list(p) for p in urllib.parse.parse_qsl(d["query"], keep_blank_values=True)]
            for path in ("/time/xsd", "/dash/live/bbb/hand_made.mpd", "/dash/vod/bbb/bbb_v7/1.m4v"):
                r = _replay_http({"method": "GET", "path": path, "query": q})
                if r["fails"]:
                    return {"kind": "http", "method": "GET", "path": path, "query": q, "who": "anon", "headers": None,
                            "now": c16_http.NOW, "status": r["status"], "why": r["why"], "url": r["url"]}
        if "option" in d and "arg" in d and isinstance(d.get("arg"), str):
            # a from_string whose exception class changed: does a request with that value fail?
            q = [[d["option"], d["arg"]]]
            for path in ("/time/xsd", "/dash/live/bbb/hand_made.mpd", "/dash/vod/bbb/bbb_v7/1.m4v",
                         "/dash/live/bbb/bbb_v7/init.m4v"):
                r = _replay_http({"method": "GET", "path": path, "query": q})
                if r["fails"]:
                    return {"kind": "http", "method": "GET", "path": path, "query": q, "who": "anon", "headers": None,
                            "now": c16_http.NOW, "status": r["status"], "why": r["why"], "url": r["url"]}
    c2 = _mk_ctx("search", ctx.seed + 7919)
    for fn in (ch_follow, ch_clients, ch_opt_errors, ch_inject, ch_loops, ch_ntp, ch_vod_gate, ch_fuzz_http, ch_fuzz_mp4):
        ch = fn(c2)
        if ch.oracle_failures:
            return ch.oracle_failures[0]
    return None


def replay_finding(ctx, finding):
    """open ledger entries: deviations of the injection semantics from the property text"""
    import appboot
    import c16_http
    w = finding["witness"]
    if finding.get("class") == "stored-unusable":
        r = _replay_http({"method": "GET", "path": w["path"], "query": [], "stored_raw": w["stored"]})
        return bool(r["fails"])
    if finding.get("class") == "mps-megabyte-value":
        if not ctx.thorough:
            return True          # (the replay needs a gigabyte of memory: thorough tier only)
        r = _replay_http({"method": "GET", "path": w["path"], "query": [["drm", "all"], [w["name"], "a" * w["size"]]]})
        return bool(r["fails"])
    if finding.get("class") == "moof-without-mfhd":
        r = _replay_mp4({"target": "index", "desc": w["desc"]})
        return bool(r.get("fails"))
    if finding.get("class") == "tiny-segments-timeline":
        if not ctx.thorough:
            return True          # (the replay waits for the 20 s budget twice: thorough tier only)
        r = _replay_mp4({"target": "index", "desc": w["desc"]})
        return bool(r.get("fails"))
    app = c16_http.world()
    with appboot.Clock(w.get("now", c16_http.NOW)):
        c = app.client()
        r = c.get(w["url"])
        status = r.status_code
        body = r.get_data(as_text=True) if status != 200 else ""
        r.close()
    if finding.get("class") == "time-addressed-media":
        # the request is for the segment the option addresses, by $Time$: the property wants the synthetic answer
        return not (status == w["expect_status"] and body.startswith("Synthetic"))
    if finding.get("class") == "time-omits-start-number":
        import re
        m = re.search(w["pattern"], c.get(w["url"]).get_data(as_text=True))
        return bool(m) and int(m.group(1)) != w["expect_segment"]
    return status != w.get("expect_status", 200)


def _mdhd_timescale(data: bytes):
    i = data.find(b"mdhd")
    if i < 4 or i + 28 > len(data):
        return None
    off = i + 4 + 4 + (16 if data[i + 4] == 1 else 8)
    return int.from_bytes(data[off:off + 4], "big")


def _moof_without_mfhd(data: bytes) -> bool:
    """box headers only: some top-level moof has no mfhd child"""
    pos = 0
    while pos + 8 <= len(data):
        size = int.from_bytes(data[pos:pos + 4], "big")
        typ = data[pos + 4:pos + 8]
        if size < 8 or pos + size > len(data):
            break
        if typ == b"moof":
            kids, q = [], pos + 8
            while q + 8 <= pos + size:
                ks = int.from_bytes(data[q:q + 4], "big")
                kids.append(data[q + 4:q + 8])
                if ks < 8:
                    break
                q += ks
            if b"mfhd" not in kids:
                return True
        pos += size
    return False


def matches_finding(finding, failure):
    cls = finding.get("class")
    if cls == "mps-megabyte-value":
        return (failure.get("kind") == "http" and failure.get("status") == 0
                and str(failure.get("path", "")).startswith("/mps/")
                and any(len(v) >= 1 << 20 for _k, v in (failure.get("query") or [])))
    if cls == "moof-without-mfhd":
        if failure.get("kind") != "mp4" or failure.get("step") not in ("events-first", "events-last", "media1") \
                or "status 500" not in str(failure.get("why")):
            return False
        import c16_mp4
        try:
            return _moof_without_mfhd(c16_mp4.rebuild(failure["desc"]))
        except Exception:      # noqa: BLE001
            return False
    if cls == "tiny-segments-timeline":
        if failure.get("kind") != "mp4" or failure.get("step") not in ("live-timeline", "live-patch", "patch") \
                or "no answer within" not in str(failure.get("why")):
            return False
        import c16_mp4
        try:
            ts = _mdhd_timescale(c16_mp4.rebuild(failure["desc"]))
        except Exception:      # noqa: BLE001
            return False
        return ts is not None and ts > 10 ** 7
    # (the generators never produce the two injection ledger situations as oracle failures)
    if finding.get("class") == "stored-unusable":
        # class of the INPUT, not of the outcome: the failing request belongs to the stored-sources grid and the
        # stored value is one the option cannot hold (wrong JSON type / text its parser refuses)
        import c16_http
        import gen_options
        d = None
        if failure.get("kind") == "http" and failure.get("endpoint") == "stored-source":
            d = failure.get("stored_raw")
        elif failure.get("kind") == "stored_api":
            d = failure.get("defaults")
        if d is None:
            return False
        return c16_http.stored_unusable(d, gen_options.dump()["rows"])
    return False
