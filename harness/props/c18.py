"""C18 – the bundled validator accepts what the server generates and flags corruptions.

Layer A: lean/DashLive/Props/C18.lean over Model/Validator.lean (the validator's decision logic)
         and the server models of C02 / C08.
Layer B: channel `validator_run` – the real `DashValidator` driven in-process through an HTTP
         adapter over the Flask test client (harness/c18_run.py), pristine and with exactly one
         response rewritten by the corruption catalogue; what it saw (bytes read with mp4walk,
         manifests read with lxml, its own expectations per segment) is fed to the Lean model and
         the verdicts are compared: per media segment and Representation pass (`vrep`/`vseg`),
         SegmentTimeline expansion (`vtl`), generation of expected segments (`vgen`), init segment
         (`vinit`), MPD attributes with location (`vmpd`), checks across a refresh (`vrefresh`).
Layer C: the property text on the same sessions – pristine ⇒ terminates within the validator's own
         refresh budget and a wall-clock limit with no error; one catalogue corruption ⇒ at least
         one error located at the corrupted element.
"""
from __future__ import annotations

import datetime
import json
import re
import time

import common
from common import Channel
import c18_model as M

PROP = "C18"
CLAIM = True
MANIFEST_ENTRY = {
    "design_ref": "7 C18",
    "level_text": (
        "Lean 4 theorems over a line-by-line model of the bundled validator's decision logic (MediaSegment "
        "status/sequence-number/decode-time/duration/trun-mdat/saio-senc checks, the Representation loop that "
        "chains expectations between segments, SegmentTimeline expansion and expected-segment generation, "
        "InitSegment mandatory boxes, MPD/Period/AdaptationSet/Representation/SegmentTemplate mandatory "
        "attributes with their location, and the checks across a manifest refresh): what the server models of "
        "C02/C08 produce is accepted (validator_accepts_*), and every corruption of the catalogue yields an "
        "error naming the corrupted element (validator_detects_*). The hand-written model is tied to the code "
        "on every run by driving the real DashValidator in-process against the real Flask app, pristine and "
        "with one response rewritten, and comparing the model's verdict on the same parsed inputs."),
    "level_note": (
        "Partial: the validator's asyncio/thread-pool plumbing, progress reporting, file saving, the on-demand "
        "profile, ContentProtection/event/patch element classes are not modelled; termination is observed under "
        "the validator's own refresh budget and a wall-clock limit only. Acceptance theorems carry explicit "
        "decidable hypotheses on the layout (consecutive sequence numbers, drift within the tolerance) with "
        "decide-d counterexamples replayed as ledger entries. Trusted: mp4walk, lxml, the HTTP adapter and the "
        "clock that advances on asyncio.sleep."),
    "technique": "Lean 4 proof (list induction over the Representation loop, omega) + in-process differential run of the real validator with fault injection",
}
PROP_FILES = ["DashLive/Props/C18.lean"]
LEAN_TARGETS = ["DashLive.Props.C18"]
TRUSTED = [
    "harness/c18_run.py: HTTP adapter over the Flask test client (synchronous request inside the coroutine), "
    "ConcurrentWorkerPool over a 2-thread executor, appboot.Clock advanced by the patched asyncio.sleep",
    "harness/mp4walk.py (what the validator parsed is re-read independently from the bytes it was given), lxml",
    "classification of the validator's error messages into the model's error kinds (harness/c18_model.py): the "
    "message texts are treated as the validator's observable output",
]
ASSUMPTIONS = [
    "streams bbb and tears (regular segment durations); templates and options restricted to what each "
    "template declares as supported; modes live and vod (the on-demand profile is not modelled)",
    "live: timeShiftBufferDepth >= 30 s (> 2 x the longest segment, ledger entry no-segments-short-depth); "
    "vod: requested duration <= stream duration (ledger entry vod-duration-beyond-stream)",
    "corruptions: exactly one response per session; decode-time and S@d changes exceed the validator's "
    "tolerance; SegmentTimeline edits are interior and inside the validated prefix; "
    "MPD@mediaPresentationDuration counts as mandatory only when a Period has no @duration; MPD@publishTime "
    "(ledger publish-time-not-required) and minf/stbl/stsd of encrypted audio/text init segments (ledger "
    "encrypted-track-init-without-sample-entry) are excluded",
    "float steps of the validator (timedelta(seconds=float), total_seconds()*timescale) are exact on the "
    "whole-second depths and the timescales used",
]

WALL_LIMIT = 30.0

# ------------------------------------------------------------------------------------------ generators

STREAMS = {
    "bbb": {"vod_max": 36, "enc": True},
    "tears": {"vod_max": 24, "enc": False},
}
NOW_POOL = ["2024-09-02T09:57:02Z", "2023-10-07T01:06:00Z", "2022-02-28T23:41:17Z", "2025-06-15T12:00:30.500000Z",
            "2031-12-31T18:20:05Z"]


def templates():
    from dashlive.server.manifests import manifest_map
    out = []
    for name, m in sorted(manifest_map.items()):
        modes = [x for x in ("live", "vod") if x in m.supported_modes()]
        if modes:
            out.append((name, m, modes))
    return out


def option_sets(m, mode: str, stream: str, rng, wide: bool):
    """option vectors the template supports (its `features` / `restrictions`)"""
    f = m.features
    drm_ok = STREAMS[stream]["enc"] and m.restrictions.get("drm") != {"none"}
    sets = [{}]
    if "segmentTimeline" in f:
        sets.append({"timeline": "1"})
    if "useBaseUrls" in f and not wide:
        sets.append({"base": "0"})          # media URLs spelled without BaseURL elements
    if drm_ok:
        sets.append({"drm": rng.choice(["playready", "clearkey"])})
        if wide:
            sets += [{"drm": "all"}, {"drm": "marlin"}, {"drm": "playready", "playready_piff": "1"}]
            if "segmentTimeline" in f:
                sets.append({"drm": "clearkey", "timeline": "1"})
    if wide:
        if "abr" in f:
            sets.append({"abr": "0"})
        if "audioCodec" in f and m.restrictions.get("acodec") in (None,):
            sets.append({"acodec": "ec-3"})
        if "useBaseUrls" in f:
            sets.append({"base": "0"})
        if "eventTypes" in f:
            sets.append({"events": "ping"})
        if mode == "live" and "minimumUpdatePeriod" in f:
            sets.append({"mup": rng.choice(["4", "6"])})
        if mode == "live" and "patch" in f:
            sets.append({"patch": "1", "timeline": "1"})
    return sets


def shape_live(q: dict, m, rng, now: str) -> None:
    """the manifest-shaping options that are legal for any live session, sampled independently of the
    option set under test: buffer depth, the start of the stream, and whether (and how often) the manifest
    announces updates – `mup=-1` serves a dynamic MPD *without* MPD@minimumUpdatePeriod"""
    q["depth"] = rng.choice(["30", "30", "40", "60"])
    r = rng.random()
    if r < .3:
        q["start"] = rng.choice(["epoch", "today", "year"])
    elif r < .4:
        t0 = datetime.datetime.fromisoformat(now.replace("Z", "+00:00")).replace(microsecond=0)
        q["start"] = (t0 - datetime.timedelta(seconds=rng.choice([3600, 86400 + 17, 400000]))).strftime(
            "%Y-%m-%dT%H:%M:%SZ")
    if "minimumUpdatePeriod" in m.features and "mup" not in q and "patch" not in q:
        r = rng.random()
        if r < .25:
            q["mup"] = "-1"
        elif r < .4:
            q["mup"] = rng.choice(["4", "6"])


def refresh_family(ctx, rng) -> list:
    """live sessions that are certain to reload the manifest, for every way the manifest can be shaped
    with respect to updates: template x ($Number$ | $Time$ timeline) x (default period | explicit period |
    no MPD@minimumUpdatePeriod at all).  They carry the cross-refresh corruptions of the catalogue."""
    import c18_run
    out = []
    quick_templates = {"hand_made.mpd", "manifest_e.mpd", "manifest_a.mpd"}
    for name, m, modes in templates():
        if "live" not in modes or (not ctx.thorough and name not in quick_templates):
            continue
        tls = [{}] + ([{"timeline": "1"}] if "segmentTimeline" in m.features and not m.segment_timeline else [])
        mups = [None]
        if "minimumUpdatePeriod" in m.features:
            mups += ["-1", rng.choice(["4", "6"])] if ctx.thorough else ["-1"]
        for tl in tls:
            for mup in mups:
                q = dict(tl)
                q["depth"] = "30"
                if mup is not None:
                    q["mup"] = mup
                if rng.random() < .4:
                    q["start"] = rng.choice(["epoch", "today", "year"])
                # short sessions reload once or twice, long ones five to ten times (validator sleeps until
                # publishTime + minimumUpdatePeriod, or 2 s without the attribute)
                dur = rng.choice([38, 46, 62, 70, 86]) if ctx.thorough else (70 if len(out) % 2 == 0 else 38)
                if mup == "-1":
                    dur = min(dur, 46)
                out.append(c18_run.Case("bbb", name, "live", q, dur,
                                        rng.choice(NOW_POOL if ctx.thorough else NOW_POOL[:2])))
    return out


CLOCK_GRID = [
    # sub-second phases
    "2024-09-02T09:57:02.000001Z", "2024-09-02T09:57:02.499999Z", "2024-09-02T09:57:02.999999Z",
    # first second of a year / a month, last second of a year (the default start is the beginning of the year;
    # a session crossing the rollover is ledger symbolic-start-rollover), leap day
    "2024-01-01T00:00:01Z", "2024-03-01T00:00:00Z", "2023-12-31T23:59:59Z", "2024-02-29T23:59:59.500000Z",
    # far future: NTP era roll-over, 2^31 s, year 2100; the day after the epoch
    "2036-02-07T06:28:16Z", "2038-01-19T03:14:08Z", "2100-01-01T00:01:00Z", "1970-01-02T00:00:10Z",
]
AGE_GRID = [1, 29, 30, 31, 80]      # stream age in seconds against depth=30 (start given explicitly)


def clock_family(ctx) -> list:
    """a fixed grid of clocks and stream ages on one cheap live configuration, $Number$ and $Time$"""
    import c18_run
    out = []
    for i, now in enumerate(CLOCK_GRID):
        q = {"depth": "30"} if (i % 2 == 0 or ctx.thorough) else {"depth": "30", "timeline": "1"}
        out.append(c18_run.Case("bbb", "hand_made.mpd", "live", q, 12, now))
        if ctx.thorough:
            out.append(c18_run.Case("bbb", "hand_made.mpd", "live", {"depth": "30", "timeline": "1"}, 12, now))
    now = "2024-09-02T09:57:02Z"
    t0 = datetime.datetime(2024, 9, 2, 9, 57, 2)
    for i, age in enumerate(AGE_GRID):
        st = (t0 - datetime.timedelta(seconds=age)).strftime("%Y-%m-%dT%H:%M:%SZ")
        q = {"depth": "30", "start": st}
        if i % 2 == 1:
            q["timeline"] = "1"
        out.append(c18_run.Case("bbb", "hand_made.mpd", "live", q, 12, now))
    out.append(c18_run.Case("bbb", "hand_made.mpd", "live", {"depth": "30", "start": "now"}, 12, now))
    return out


def pair_family(ctx) -> list:
    """option PAIRS that change the box layout in front of / inside the moof together: protection (senc, saiz,
    saio, PIFF uuid boxes inside the traf) x in-band events (an emsg box in front of the moof of some video
    segments, so that moof.position != 0 while protection boxes are present) x the saio bug-compatibility
    switch.  Pristine here; `gen_corruptions` places the catalogue in segments with and without a leading emsg."""
    import c18_run
    now = NOW_POOL[0]
    grid = [("vod", {"drm": "clearkey", "events": "ping"}, 16),
            ("live", {"drm": "clearkey", "events": "ping", "depth": "30"}, 20),
            ("vod", {"drm": "playready", "playready_piff": "1", "events": "ping"}, 16),
            ("live", {"drm": "all", "events": "ping", "depth": "30", "timeline": "1"}, 20),
            ("vod", {"drm": "clearkey", "events": "ping", "bugs": "saio"}, 12)]
    if ctx.thorough:
        grid += [("live", {"drm": "playready", "playready_piff": "1", "events": "ping", "depth": "30"}, 38),
                 ("vod", {"drm": "marlin", "events": "ping", "timeline": "1"}, 16),
                 ("vod", {"events": "ping"}, 16), ("live", {"events": "ping", "depth": "30", "timeline": "1"}, 20)]
    return [c18_run.Case("bbb", "hand_made.mpd", mode, q, d, now) for mode, q, d in grid]


SHORT_NOWS = ["2024-09-02T09:57:02.300000Z", "2024-09-02T09:57:03.950000Z", "2024-09-02T09:57:02Z",
              "2024-09-02T09:57:05.500000Z", "2024-09-02T09:57:04.100000Z"]


def short_family(ctx) -> list:
    """live sessions over stored media with SHORT segments (0.5 s, 1 s, 1.9 s, 2.0 s, 2.1 s – around the
    two-second margin of the validator's `no longer available` rule), $Time$ and $Number$ addressing, at several
    phases of the clock against the segment grid.  Pristine here; `gen_corruptions` addresses the catalogue to
    the OLDEST, the second-oldest and the NEWEST segment the manifest lists."""
    import c18_run
    import c18_layouts
    out = []
    for i, name in enumerate(c18_layouts.SHORT):
        STREAMS.setdefault(name, {"vod_max": 4, "enc": False})
        for j, q in enumerate(({"depth": "8", "timeline": "1"}, {"depth": "8"})):
            if j == 1 and not ctx.thorough and i % 2 == 1:
                continue
            out.append(c18_run.Case(name, "hand_made.mpd", "live", dict(q), 6, SHORT_NOWS[(i + 2 * j) % len(SHORT_NOWS)]))
        if ctx.thorough:
            for now in SHORT_NOWS[1:]:
                out.append(c18_run.Case(name, "hand_made.mpd", "live", {"depth": "8", "timeline": "1"}, 6, now))
    return out


def handon_family(ctx) -> list:
    """sessions in which the validator follows what the server hands on to a *later* request – the
    PatchLocation chain of `patch=1` (every refresh is a request to the URL the previous answer spelled out) and
    plain manifest reloads – for option vectors that decide WHICH media is selected (drm=…, acodec, abr) on
    stream layouts where the selection matters: a stream that holds only encrypted renditions, clear-only
    streams, a single audio codec; twins (bbb: every track clear and encrypted) for contrast.  Pristine, at
    least three refreshes each: the stream the server generated must stay error-free along the whole chain."""
    import c18_run
    import c18_layouts
    for name, info in c18_layouts.STREAMS.items():
        STREAMS.setdefault(name, {"vod_max": (4 if name == "c18lg" else c18_layouts.DURATION_S - 4), "enc": info["enc"]})
    now = NOW_POOL[0]
    grid = [("c18ld", {"drm": "clearkey"}), ("c18lf", {"drm": "playready"}), ("c18la", {}), ("c18la", {"abr": "0"}),
            ("bbb", {"drm": "playready"}), ("bbb", {"acodec": "ec-3"}), ("c18lc", {"acodec": "ec-3"})]
    if ctx.thorough:
        grid += [("c18ld", {"drm": "all"}), ("c18lf", {"drm": "marlin"}), ("tears", {"abr": "0"}),
                 ("bbb", {"drm": "clearkey", "abr": "0"}), ("c18ld", {"drm": "playready", "mup": "4"})]
    out = []
    for stream, q in grid:
        out.append(c18_run.Case(stream, "hand_made.mpd", "live", dict(q, patch="1", timeline="1", depth="30"), 62, now))
    # the same selections through plain reloads (no patch), $Number$ addressing
    for stream, q in [("c18ld", {"drm": "clearkey"}), ("c18la", {"abr": "0"})] + \
            ([("c18lf", {"drm": "playready"}), ("bbb", {"acodec": "ec-3"})] if ctx.thorough else []):
        out.append(c18_run.Case(stream, "hand_made.mpd", "live", dict(q, depth="30"), 62, now))
    return out


def layout_family(ctx, rng) -> list:
    """the acceptance half over stored-media layout variety (harness/c18_layouts.py: largesize mdat headers,
    version-1 tfdt, explicit / implicit base, styp+sidx, no tfdt, default sample durations, senc before
    saiz/saio, 16-byte IVs, fragments numbered from 0 and 7, 64 KiB segments, PIFF clones) – static, live and
    on-demand sessions, $Number$ and $Time$; they also serve as bases for the corruption catalogue"""
    import c18_run
    import c18_layouts
    out = []
    for name, info in c18_layouts.STREAMS.items():
        STREAMS.setdefault(name, {"vod_max": (4 if name == "c18lg" else c18_layouts.DURATION_S - 4), "enc": info["enc"]})
        dq = {"drm": rng.choice(["clearkey", "playready"])} if info["enc"] else {}
        combos = [("vod", {}, "hand_made.mpd"), ("vod", {"timeline": "1"}, "hand_made.mpd"),
                  ("live", {"depth": "30"}, "hand_made.mpd"), ("live", {"depth": "30"}, "manifest_a.mpd")]
        if name != "c18le":
            # templates that print presentationTimeOffset: ledger start-number-pto-mismatch for c18le
            combos += [("vod", {}, "manifest_e.mpd"), ("live", {"depth": "30", "timeline": "1"}, "manifest_e.mpd")]
        if name == "c18la":
            # on-demand profile: the stored bytes are served as they are (ledger odvod-* for the other layouts)
            combos += [("odvod", {}, "hand_made.mpd"), ("odvod", {}, "manifest_vod_aiv.mpd")]
        if not ctx.thorough:
            keep = {"c18la": None, "c18lf": [0, 3]}.get(name, [rng.randrange(0, 2), rng.randrange(2, 4)])
            if keep is not None:
                combos = [combos[i] for i in keep]
        for mode, q, tmpl in combos:
            if mode == "odvod" and info["enc"]:
                continue
            if info["enc"] and tmpl == "manifest_a.mpd":
                tmpl, q = "hand_made.mpd", dict(q, timeline="1")     # manifest_a is restricted to drm=none
            q = dict(q, **(dq if mode != "odvod" else {}))
            if tmpl == "manifest_vod_aiv.mpd":
                q.pop("drm", None)
            dur = 12 if mode != "live" else rng.choice([16, 38])
            if name == "c18lg" and mode != "live":
                dur = 4
            out.append(c18_run.Case(name, tmpl, mode, q, dur, rng.choice(NOW_POOL[:2])))
    # streams of segchecks that stay inside the hypotheses: numbered from 7 / from 0 with a power-of-two loop / NTSC
    for stream, combos in (("syn3", [("live", {"depth": "30"}), ("vod", {"timeline": "1"})]),
                           ("syn5", [("vod", {}), ("live", {"depth": "30", "timeline": "1"})]),
                           ("syn7", [("vod", {}), ("live", {"depth": "30"})])):
        STREAMS.setdefault(stream, {"vod_max": 8, "enc": False})
        for mode, q in combos:
            out.append(c18_run.Case(stream, "hand_made.mpd", mode, q, 8 if mode == "vod" else 16, NOW_POOL[0]))
    if ctx.thorough:
        for stream in ("bbb", "tears"):
            out.append(c18_run.Case(stream, "hand_made.mpd", "odvod", {}, 12, NOW_POOL[0]))
            out.append(c18_run.Case(stream, "manifest_vod_aiv.mpd", "odvod", {}, 12, NOW_POOL[1]))
    return out


def gen_pristine(ctx, rng):
    import c18_run
    cases = []
    quick_templates = {"hand_made.mpd", "manifest_e.mpd", "manifest_a.mpd"}
    for name, m, modes in templates():
        if not ctx.thorough and name not in quick_templates:
            continue
        for mode in modes:
            for stream in (["bbb", "tears"] if ctx.thorough else ["bbb"]):
                for q in option_sets(m, mode, stream, rng, ctx.thorough):
                    q = dict(q)
                    if stream == "tears" and mode == "live" and not (q.get("timeline") or m.segment_timeline):
                        # `hcont` of validator_accepts_number_addressing: the audio track's loop drift (1024
                        # ticks) exceeds the validator's tolerance (1000) – ledger number-drift-beyond-tolerance
                        continue
                    now = rng.choice(NOW_POOL if ctx.thorough else NOW_POOL[:2])
                    if mode == "live":
                        shape_live(q, m, rng, now)
                        # about half of the live sessions need at least one manifest refresh
                        dur = rng.choice([12, 20, int(q["depth"]) + 8, int(q["depth"]) + 16])
                    else:
                        dur = rng.choice([8, 12, 16, 24])
                        dur = min(dur, STREAMS[stream]["vod_max"])
                    cases.append(c18_run.Case(stream, name, mode, q, dur, now))
    # the fixed grids come first (the sampled option sets above follow them): deterministic in every tier and
    # exempt from the time limit of the pristine phase
    fixed = short_family(ctx) + pair_family(ctx) + handon_family(ctx) + clock_family(ctx) + layout_family(ctx, rng) + \
        refresh_family(ctx, rng)
    _STATE["n_fixed"] = len(fixed)
    cases = fixed + cases
    # tears in quick: two cases
    if not ctx.thorough:
        from dashlive.server.manifests import manifest_map
        cases.append(c18_run.Case("tears", "hand_made.mpd", "live", {"depth": "30", "timeline": "1"}, 16, NOW_POOL[0]))
        cases.append(c18_run.Case("tears", "manifest_e.mpd", "vod", {}, 12, NOW_POOL[1]))
    return cases


INIT_BOXES = ["ftyp", "moov", "moov/mvhd", "moov/mvex", "moov/mvex/trex", "moov/trak", "moov/trak/tkhd",
              "moov/trak/mdia", "moov/trak/mdia/mdhd", "moov/trak/mdia/hdlr", "moov/trak/mdia/minf",
              "moov/trak/mdia/minf/dinf", "moov/trak/mdia/minf/stbl", "moov/trak/mdia/minf/stbl/stsd",
              "moov/trak/mdia/minf/stbl/stts", "moov/trak/mdia/minf/stbl/stsc", "moov/trak/mdia/minf/stbl/stsz",
              "moov/trak/mdia/minf/stbl/stco", "moov/trak/mdia/minf/*hd"]

# The attributes whose removal the catalogue enumerates are not listed here: they are the rows of the Lean table
# `mandatoryAttrs` (Model/Validator.lean – every attribute the validator requires, per mode, with the error and its
# location; Props/C18.lean `mandatory_table_detected` proves each row by `decide`), read through the driver.
ELEM_XPATH = {
    "mpd": "/d:MPD",
    "period": "/d:MPD/d:Period[1]",
    "adaptationSet": "(//d:AdaptationSet)[{i}]",
    "representation": "(//d:Representation)[{i}]",
    "segmentTemplate": "(//d:SegmentTemplate)[{i}]",
    "s": "(//d:SegmentTimeline/d:S)[{i}]",
}
_ATTR_TABLE = None


def attr_table() -> list:
    """rows of the model's table: dicts elem, attr, mode, timeline ('-'|'1'|'0'), expect=[(loc, err)…]"""
    global _ATTR_TABLE
    if _ATTR_TABLE is None:
        rows: dict = {}
        for tok in common.run_driver(["vattrs"])[0].split(";"):
            elem, attr, mode, tl, loc, err = tok.split(",")
            rows.setdefault((elem, attr, mode, tl), []).append((loc, err))
        _ATTR_TABLE = [{"elem": k[0], "attr": k[1], "mode": k[2], "timeline": k[3], "expect": v}
                       for k, v in rows.items()]
    return _ATTR_TABLE


def addressing(case) -> str:
    from dashlive.server.manifests import manifest_map
    m = manifest_map.get(case.template)
    return "time" if (case.query.get("timeline") or (m is not None and m.segment_timeline)) else "number"


def media_counts(res) -> dict:
    out = {}
    for ex in res.exchanges:
        if ex.cls == "media" and ex.status in (200, 206):
            out[ex.rep] = out.get(ex.rep, 0) + 1
    return out


def first_manifest(res):
    for ex in res.exchanges:
        if ex.cls == "manifest":
            return ex.data
    return None


def gen_corruptions(ctx, rng, base, res, per_base: int):
    """catalogue corruptions (and tolerance probes) applicable to a pristine session"""
    import c18_run
    out = []
    counts = media_counts(res)
    reps = {r["id"]: r for p in res.passes[:1] for r in p["post"]["reps"]}
    if not reps:
        return out
    cands = []
    attrs = []
    # every media-segment corruption of the catalogue on the FIRST, an INTERIOR and the LAST fetched segment
    # of a Representation (one Representation per kind and session, chosen at random)
    placed = []
    usable = [(rid, n) for rid, n in sorted(counts.items())
              if n >= 2 and reps.get(rid) is not None and reps[rid]["segments"]]
    for kind in ("tfdt", "mfhd", "trun", "saio"):
        pool = [(rid, n) for rid, n in usable if kind != "saio" or reps[rid]["encrypted"]]
        if not pool:
            continue
        rid, n = rng.choice(pool)
        ts = reps[rid]["dash_ts"]
        # "beyond the tolerance" is measured with the validator's own tolerance of that Representation
        # (timescale // frameRate – a whole second for a 1 fps track – doubled for the first template segment)
        big = max(ts, 2 * max(s["tol"] for s in reps[rid]["segments"]) + 1)
        places = [("first", 0), ("last", n - 1)] + ([("interior", rng.randrange(1, n - 1))] if n >= 3 else [])
        for place, nth in places:
            if kind == "tfdt":
                # the first segment of a static presentation has decode time 0: only a later time is expressible
                delta = rng.choice([big, big + ts // 2, 2 * big]) if place == "first" else \
                    rng.choice([big, -big, big + ts // 2, -big - 1])
            elif kind == "mfhd":
                delta = rng.choice([1, 2, 7]) if place == "first" else rng.choice([1, -1, 2, 7])
            elif kind == "trun":
                delta = rng.choice([4, -8, 1, 1 << 20, -(1 << 12)])
            else:
                delta = rng.choice([1, -1, 8, 16, -5])
            placed.append({"kind": kind, "rep": rid, "nth": nth, "delta": delta, "place": place})
    # … and, when some segments of a Representation carry a box in front of the moof (in-band events), in a
    # segment WITH and in one WITHOUT such a lead; the saio offset is also moved by exactly the moof position
    # (the value a base taken from the wrong place would absorb)
    by_rep: dict = {}
    for ex in res.exchanges:
        if ex.cls == "media" and ex.status in (200, 206):
            by_rep.setdefault(ex.rep, []).append(getattr(ex, "moof_pos", None))
    for rid, poss in sorted(by_rep.items()):
        r = reps.get(rid)
        if r is None or not any(poss) or not r["segments"]:
            continue
        lead = [i for i, p_ in enumerate(poss) if p_]
        nolead = [i for i, p_ in enumerate(poss) if p_ == 0]
        for cls_, idxs in (("lead", lead), ("nolead", nolead)):
            if not idxs:
                continue
            nth = rng.choice(idxs)
            mp = poss[lead[0]]
            if r["encrypted"]:
                for delta in (mp, -mp, 1):
                    placed.append({"kind": "saio", "rep": rid, "nth": nth, "delta": delta, "place": cls_,
                                   "leading": cls_})
            placed.append({"kind": "trun", "rep": rid, "nth": nth, "delta": rng.choice([mp, -mp, 4]), "place": cls_,
                           "leading": cls_})
    # … and, in live sessions, addressed to the OLDEST, the second-oldest and the NEWEST segment the first
    # manifest LISTS (by URL – whether the validator ever asks for it is part of what is observed)
    if base.mode == "live":
        pool = [(rid, r) for rid, r in sorted(reps.items())
                if len(r["segments"]) >= 2 and r["dash_ts"] and all(s.get("url") for s in r["segments"])]
        for pi_, (pos, idx) in enumerate((("oldest", 0), ("second", 1), ("newest", -1))):
            if not pool:
                break
            rid, r = pool[(pi_ + rng.randrange(0, len(pool))) % len(pool)] if pos != "oldest" else pool[-1]
            ts = r["dash_ts"]
            big = max(ts, 2 * max(s["tol"] for s in r["segments"]) + 1)
            kind = rng.choice(["tfdt", "mfhd", "trun"] + (["saio"] if r["encrypted"] else []))
            delta = {"tfdt": rng.choice([big, big + ts // 2]), "mfhd": rng.choice([1, 2, 7]),
                     "trun": rng.choice([4, -8, 1 << 20]), "saio": rng.choice([1, -1, 8])}[kind]
            placed.append({"kind": kind, "rep": rid, "nth": 0, "delta": delta, "place": "listed-" + pos,
                           "target_url": r["segments"][idx]["url"]})
    for rid, n in sorted(counts.items()):
        r = reps.get(rid)
        if r is None or not r["segments"]:
            continue
        ts = r["dash_ts"]
        if n >= 2:
            k = rng.randrange(0, n - 1)
            big = max(ts // 2 + 1, 2 * max(s["tol"] for s in r["segments"]) + 1)
            cands.append({"kind": "tfdt", "rep": rid, "nth": k,
                          "delta": rng.choice([big, -big, big + ts, 10 * ts + big, -big - 1])})
            cands.append({"kind": "mfhd", "rep": rid, "nth": rng.randrange(0, n - 1),
                          "delta": rng.choice([1, -1, 2, 1000, 7])})
            tol = r["segments"][min(1, len(r["segments"]) - 1)]["tol"]
            kk = rng.randrange(1, n) if n > 1 else 0
            cands.append({"kind": "tfdt", "rep": rid, "nth": kk, "delta": rng.choice([tol, -tol, tol + 1, -tol - 1]),
                          "probe": True})
        cands.append({"kind": "trun", "rep": rid, "nth": rng.randrange(0, n),
                      "delta": rng.choice([4, -8, 1, 1 << 20, -(1 << 12)])})
        if r["encrypted"]:
            cands.append({"kind": "saio", "rep": rid, "nth": rng.randrange(0, n),
                          "delta": rng.choice([1, -1, 8, 16, -5])})
        box = rng.choice(INIT_BOXES)
        if r["encrypted"] and r["content_type"] != "video" and box.split("/")[-1] in ("minf", "stbl", "stsd"):
            # ledger encrypted-track-init-without-sample-entry: the init segment then loads as a *clear*
            # track and the senc box of the fragments cannot be parsed
            box = "moov/mvex/trex"
        cands.append({"kind": "initbox", "rep": rid, "nth": 0, "box": box})
    xml = first_manifest(res)
    if xml is not None:
        root = M.parse_xml(xml)
        # "mandatory attribute removed" is ENUMERATED: every row of the model's table that applies to this
        # manifest, in the first manifest response and (live sessions that reload) in a refreshed one
        whens = [("first", 0)]
        n_loads = sum(1 for ex in res.exchanges if ex.cls == "manifest")
        if base.mode == "live" and n_loads >= 2 and "patch" not in base.query:
            whens.append(("refreshed", rng.randrange(1, n_loads)))
        for row in attr_table():
            if row["mode"] != base.mode:
                continue
            elem, attr = row["elem"], row["attr"]
            if attr == "mediaPresentationDuration" and all(
                    p.get("duration") is not None for p in root.findall(M._q("Period"))):
                continue      # the row is about manifests whose Periods have no @duration (durationMissing)
            xp = ELEM_XPATH[elem]
            if "{i}" in xp:
                els = root.xpath(xp.replace("[{i}]", ""), namespaces={"d": M.DASH_NS})
                idx = []
                for i, el in enumerate(els, start=1):
                    if el.get(attr) is None:
                        continue
                    if elem == "segmentTemplate" and row["timeline"] != "-" and \
                            (el.find(M._q("SegmentTimeline")) is not None) != (row["timeline"] == "1"):
                        continue
                    if elem == "s" and attr == "t" and el.getprevious() is not None:
                        continue          # the row is about the first S of a timeline
                    idx.append(i)
                if not idx:
                    continue
                xp = xp.replace("{i}", str(rng.choice(idx)))
            elif root.xpath(xp, namespaces={"d": M.DASH_NS})[0].get(attr) is None:
                continue
            for when, nth in whens:
                attrs.append({"kind": "mpdattr", "nth": nth, "xpath": xp, "attr": attr, "elem": elem, "when": when,
                              "expect": [f"{loc}={err}" for loc, err in row["expect"]]})
        tls = root.findall(f".//{M._q('SegmentTimeline')}")
        doc_reps = [r for p in res.passes[:1] for r in p["post"]["reps"]]
        for which, tl in enumerate(tls):
            owner = tl.getparent().getparent()
            ids = [owner.get("id")] if owner.tag == M._q("Representation") else \
                [r.get("id") for r in owner.findall(M._q("Representation"))]
            fetched = [counts.get(i, 0) for i in ids if i in counts]
            if not fetched:
                continue
            m_ = min(fetched) if base.mode == "vod" or res.loops == 0 else min(
                sum(1 for s in r["segments"] if s["seq"] is not None) for r in doc_reps if r["id"] in ids)
            ts = int(tl.getparent().get("timescale", "1"))
            # leading entries the validator gave up without a request (short segments): the edit goes behind them,
            # where predecessor and successor are fetched
            lead = 0
            for r in doc_reps:
                if r["id"] in ids:
                    n_ = 0
                    for sg in r["segments"]:
                        if sg["validated"] and sg["dt"] is None and sg["seq"] is None:
                            n_ += 1
                        else:
                            break
                    lead = max(lead, n_)
            if lead:
                m_ = min(sum(1 for s in r["segments"][lead:] if s["seq"] is not None)
                         for r in doc_reps if r["id"] in ids)
            if m_ >= 2:
                cands.append({"kind": "timeline", "nth": 0, "which": which, "op": "gap",
                              "index": lead + rng.randrange(1, m_)})
            if m_ >= 4:
                # the segment after the edited one must still be generated and fetched (VOD generation
                # stops once the *advertised* durations exceed the requested duration)
                tolmax = max([s["tol"] for r in doc_reps if r["id"] in ids for s in r["segments"]] or [0])
                amt = tolmax + ts // 4
                # the server answers a $Time$ request with the segment that CONTAINS the time: what the later
                # segments are off by is the amount modulo the segment duration – keep that beyond the tolerance
                ds = {int(s_.get("d")) for s_ in tl.findall(M._q("S")) if s_.get("d")}
                sd_ = min(ds) if ds else 0
                amounts = [a_ for a_ in (amt, -amt, amt + ts // 4)
                           if sd_ <= 0 or tolmax < (a_ % sd_) < sd_ - tolmax]
                if not amounts and sd_ // 2 > tolmax:
                    amounts = [sd_ // 2]
                if amounts:
                    cands.append({"kind": "timeline", "nth": 0, "which": which, "op": "dur",
                                  "index": lead + rng.randrange(1, m_ - 2), "amount": rng.choice(amounts)})
    n_manifests = sum(1 for ex in res.exchanges if ex.cls == "manifest")
    cross = []
    if base.mode == "live" and n_manifests >= 2:
        # the cross-refresh part of the catalogue is applied to *every* session that reloads its manifest,
        # whatever shaped that manifest (update period present or not, timeline or template, start, depth)
        # … at the FIRST, an INTERIOR and the LAST refresh of the session, and the session is run to its end
        # (`run_on`): the verdict is what get_errors()/has_errors() say afterwards, however many refreshes follow
        places = [("first", 1), ("last", n_manifests - 1)]
        if n_manifests >= 4:
            places.append(("interior", rng.randrange(2, n_manifests - 1)))
        for place, nth in places:
            cross.append({"kind": "ast", "nth": nth, "seconds": rng.choice([1, -1, 2, 3, -2]), "at": place,
                          "run_on": True, "loads": n_manifests})
            cross.append({"kind": "mpdid", "nth": nth, "suffix": "-x", "probe": True, "at": place,
                          "run_on": True, "loads": n_manifests})
        cross.append({"kind": "ast", "nth": rng.randrange(1, n_manifests),
                      "seconds": rng.choice([1, -1, 2, 3, -2]), "at": "any", "loads": n_manifests})
        cross.append({"kind": "ast", "nth": rng.randrange(1, n_manifests),
                      "seconds": rng.choice([3600, -86400, 60]), "at": "any", "loads": n_manifests})
    rng.shuffle(cands)
    # one of every kind first, then the rest
    seen, ordered = set(), []
    for c in cands:
        if c["kind"] not in seen and not c.get("probe"):
            seen.add(c["kind"])
            ordered.append(c)
    ordered += [c for c in cands if c not in ordered]
    for c in attrs + cross + placed + ordered[:per_base]:
        out.append(c18_run.Case(base.stream, base.template, base.mode, dict(base.query), base.duration,
                                base.now, corruption=c, break_on_error=not c.get("run_on", False)))
    return out


# ------------------------------------------------------------------------------------------ oracle

def manifests_seen(res) -> list:
    """every manifest text the validator attributed line numbers to"""
    texts = []
    for p in res.passes:
        for side in ("pre", "post"):
            ln = p[side].get("lines")
            if ln and ln not in texts:
                texts.append(ln)
    return texts


def home_lines(case, res) -> tuple:
    """(set of acceptable start lines | None for `no line`, description) of the corrupted element"""
    c = case.corruption
    k = c["kind"]
    lines = set()
    allow_none = False
    for text in manifests_seen(res):
        try:
            root = M.parse_xml(text)
        except Exception:
            continue
        if k in ("tfdt", "mfhd", "trun", "saio", "initbox"):
            for r in root.iter(M._q("Representation")):
                if r.get("id") == c["rep"]:
                    lines.update(range(r.sourceline, M.last_line(r) + 1))
        elif k == "timeline":
            tls = root.findall(f".//{M._q('SegmentTimeline')}")
            if c["which"] < len(tls):
                owner = tls[c["which"]].getparent().getparent()
                lines.update(range(owner.sourceline, M.last_line(owner) + 1))
        elif k == "mpdattr":
            hits = root.xpath(c["xpath"], namespaces={"d": M.DASH_NS})
            for el in hits[:1]:
                lines.add(el.sourceline)
                if el.tag == M._q("SegmentTemplate"):
                    for r in el.getparent().iter(M._q("Representation")):
                        lines.add(r.sourceline)
                if el.tag == M._q("S"):
                    lines.add(el.getparent().sourceline)
                    lines.add(el.getparent().getparent().sourceline)
                    for r in el.getparent().getparent().getparent().iter(M._q("Representation")):
                        lines.add(r.sourceline)
        elif k == "ast":
            allow_none = True
            lines.add(root.sourceline)
    return lines, allow_none


def negated_hypotheses(case, res) -> dict:
    """which layout / timing hypotheses of the acceptance theorems a *pristine* session lies outside of –
    computed from what the server served, independently of the validator's verdict.  Open ledger entries are
    keyed by these classes (never by their symptom alone)."""
    out = {}
    # hcons of validator_accepts_time_addressing_partial: consecutive $Time$ entries get consecutive numbers
    for p in res.passes:
        for rep in p["pre"]["reps"] + p["post"]["reps"]:
            tl, sd = rep.get("timeline"), rep.get("tmpl_duration")
            if tl and sd and "$Time$" in (rep.get("media") or ""):
                pto = rep.get("tmpl_pto") or 0
                nums = [(t - pto) // sd for t, _ in tl]
                if any(b - a != 1 for a, b in zip(nums, nums[1:])):
                    out["hcons_violated"] = True
    # the server itself changed availabilityStartTime between two manifests of the session (symbolic start
    # rolling over, start=now)
    asts = set()
    for ex in res.exchanges:
        if ex.cls == "manifest" and not ex.rewritten and ex.status == 200:
            m = re.search(rb'availabilityStartTime="([^"]*)"', ex.data)
            if m:
                asts.add(m.group(1))
    if len(asts) > 1:
        out["server_ast_changed"] = True
    # the stream is younger than two of its longest segments
    if case.mode == "live" and res.passes:
        p0 = res.passes[0]["pre"]
        if p0.get("ast"):
            age_us = M.us_of_iso(datetime.datetime.fromisoformat(case.now.replace("Z", "+00:00")).isoformat()) - \
                M.us_of_iso(p0["ast"])
            longest = max([r["tmpl_duration"] * 1_000_000 // r["dash_ts"] for r in p0["reps"]
                           if r.get("tmpl_duration") and r.get("dash_ts")] or [0])
            if age_us < 2 * longest:
                out["young_stream"] = True
    return out


def listed_slack_us(res, url: str):
    """for the listed segment behind `url`: how long after the first pass the segment stays inside the time
    shift buffer the manifest announces, counted as DASH does (segment end + timeShiftBufferDepth + one segment
    duration) – from the manifest's own numbers, not from the validator's bookkeeping"""
    if not res.passes:
        return None
    p0 = res.passes[0]
    now_us = M.us_of_iso(p0["now"])
    tsbd = p0["post"].get("tsbd_us")
    for rep in p0["post"]["reps"]:
        for sg in rep["segments"]:
            if sg.get("url") != url or tsbd is None or rep.get("period_ast_us") is None or not rep["dash_ts"]:
                continue
            ts = rep["dash_ts"]
            sd = rep["tmpl_duration"]
            if sd is None and rep.get("timeline"):
                sd = sum(d for _, d in rep["timeline"]) // len(rep["timeline"])
            if sd is None:
                return None
            if rep.get("timeline") is not None and sg["exp_dt"] is not None:
                decode = sg["exp_dt"]
            else:
                decode = (sg["exp_seq"] - rep["start_number"]) * sd
            end = rep["period_ast_us"] + (decode + sd - (rep["tmpl_pto"] or 0)) * 1_000_000 // ts
            return end + tsbd + sd * 1_000_000 // ts - now_us
    return None


def given_up_before_edit(res, c) -> dict:
    """timeline edit at entry k of a live session: when the entries up to k-1 (the predecessor the edit is
    measured against) were all declared validated without a request, the edit was never looked at – report the
    largest slack among those segments (the class of ledger short-segments-oldest-skipped)"""
    if not res.passes:
        return {}
    p0 = res.passes[0]["post"]
    owner_id = (res.applied or {}).get("owner_id")
    worst = None
    for rep in p0["reps"]:
        if rep.get("timeline") is None:
            continue
        if owner_id is not None and not (rep["id"] == owner_id or (res.applied or {}).get("owner") == "AdaptationSet"):
            continue
        lead = 0
        for sg in rep["segments"]:
            if sg["validated"] and sg["dt"] is None and sg["seq"] is None:
                lead += 1
            else:
                break
        if lead >= c["index"] and lead > 0:
            sl = [listed_slack_us(res, sg["url"]) for sg in rep["segments"][:lead]]
            if all(x is not None for x in sl):
                worst = max(sl + ([worst] if worst is not None else []))
    return {} if worst is None else {"slack_us": worst, "unexamined": True}


def oracle(case, res) -> list:
    """the property text on one session → list of failures (dicts)"""
    fails = []
    c = case.corruption

    def fail(what, **kw):
        d = {"case": case.json(), "what": what, **kw}
        if c is None:
            d["outside"] = negated_hypotheses(case, res)
            d["error_kinds"] = sorted({"seqNum" if "Sequence number error" in e["msg"] else
                                       "astChanged" if "availabilityStartTime has changed" in e["msg"] else
                                       "depthNoSegments" if "when num_segments == 0" in e["msg"] else "other"
                                       for e in res.errors})
        fails.append(d)

    if res.timed_out:
        fail("validator did not terminate within the wall-clock limit", wall=round(res.wall, 1))
        return fails
    if c is None:
        if res.crashed:
            fail("validator crashed on a pristine stream", crash=res.crashed)
        elif res.errors:
            fail("validator reports errors on a pristine stream", errors=[e["msg"][:160] for e in res.errors[:5]])
        elif not res.finished:
            fail("validator did not finish within its refresh budget on a pristine stream", loops=res.loops)
        return fails
    if res.applied is None and "target_url" in c and not c.get("probe"):
        # the corrupted response belongs to a segment the manifest lists and the server still offers; the
        # validator declared the segment done without ever asking for it and reports nothing
        u = res.unexamined
        if u and u["status"] == 200 and u.get("given_up") and not res.errors and not res.crashed:
            fail("a segment the manifest lists and the server serves was declared validated without being "
                 "examined: a corruption of it cannot be flagged", url=u["url"], at=u["now"],
                 slack_us=listed_slack_us(res, u["url"]), unexamined=True)
        return fails
    if res.applied is None or c.get("probe"):
        return fails
    if res.crashed:
        fail("validator crashed instead of reporting the corruption", crash=res.crashed, applied=res.applied)
        return fails
    if not res.errors:
        extra = {}
        if c["kind"] == "timeline" and case.mode == "live":
            # the edited entry lies among the leading segments the validator gave up without a request
            extra = given_up_before_edit(res, c)
        fail("corruption not flagged", applied=res.applied, **extra)
        return fails
    lines, allow_none = home_lines(case, res)
    located = [e for e in res.errors if (e["start"] is None and allow_none) or (e["start"] in lines)]
    if c["kind"] == "ast":
        located = [e for e in located if "availabilityStartTime" in e["msg"]]
    if not located:
        fail("errors reported, none located at the corrupted element", applied=res.applied,
             errors=[(e["start"], e["msg"][:120]) for e in res.errors[:5]], home=sorted(lines)[:12])
    return fails


# ------------------------------------------------------------------------------------------ correspondence

class Batch:
    """collects driver lines with a callback comparing the model's answer with the real one"""

    def __init__(self):
        self.lines, self.checks = [], []

    def add(self, ch, line, expect, info, canon=None):
        self.lines.append(line)
        self.checks.append((ch, expect, info, canon, 1, False))

    def add_group(self, ch, lines, expect, info, combine):
        """several driver lines answer one question: `combine(list of answers)` is compared"""
        if not lines:
            return
        self.lines += lines
        self.checks.append((ch, expect, info, combine, len(lines), True))

    def run(self):
        if not self.lines:
            return
        try:
            out = common.run_driver(self.lines)
            lines_all, checks_all = self.lines, self.checks
            self.lines, self.checks = [], []
        except Exception as e:
            chans = {id(c[0]): c[0] for c in self.checks}
            for ch in chans.values():
                ch.errors.append(f"driver: {e}")
            self.lines, self.checks = [], []
            return
        pos = 0
        for ch, expect, info, canon, n, grouped in checks_all:
            lines, got = lines_all[pos:pos + n], out[pos:pos + n]
            pos += n
            ch.evaluations += 1
            if grouped:
                g = canon(got)
            else:
                g = canon(got[0]) if canon else got[0]
            if g != expect:
                ch.disagreements.append({**info, "line": " || ".join(lines)[:1500],
                                         "model": g if isinstance(g, str) else repr(g),
                                         "impl": expect if isinstance(expect, str) else repr(expect)})


def frame_rate(rep) -> tuple:
    fr = rep.get("frame_rate")
    if not fr:
        return 24, 1
    if "/" in fr:
        a, c = fr.split("/")
        return int(a), int(c)
    try:
        return int(fr), 1
    except ValueError:
        return 24, 1


def effective_timelines(root) -> list:
    """per Representation in document order: raw S list of its effective SegmentTimeline (or None)"""
    out = []
    for p in root.findall(M._q("Period")):
        for a in p.findall(M._q("AdaptationSet")):
            at = a.find(M._q("SegmentTemplate"))
            for r in a.findall(M._q("Representation")):
                t = r.find(M._q("SegmentTemplate"))
                t = t if t is not None else at
                tl = None if t is None else t.find(M._q("SegmentTimeline"))
                out.append(None if tl is None else M.s_elems(tl))
    return out


def report_ops(res, ch, batch, info):
    """`vreport`: replay what the session found, step by step, through the model's bookkeeping (errors found
    on the validator itself / in the current manifest tree; archiving at every refresh) and compare the model's
    final report with `get_errors()` / `has_errors()` read after the session, as a user of the validator does"""
    if not res.report_obs or res.crashed or res.timed_out:
        return
    names: dict = {}

    def nm(i):
        return names.setdefault(i, len(names))
    known, ops, nhist = set(), [], 0
    for ob in res.report_obs:
        top_new = [i for i in ob["top"] if i not in known]
        known.update(top_new)
        if len(ob["hist"]) > nhist:
            # a refresh happened: what the outgoing tree still gained before it was archived, the archiving
            # itself, then what the new tree holds from its construction
            late = [i for h in ob["hist"][nhist:] for i in h if i not in known]
            known.update(late)
            if top_new or late:
                ops.append("F" + (",".join(str(nm(i)) for i in top_new) or "-") + "/" +
                           (",".join(str(nm(i)) for i in late) or "-"))
            ops += ["R"] * (len(ob["hist"]) - nhist)
            nhist = len(ob["hist"])
            top_new = []
        tree_new = [i for i in ob["tree"] if i not in known]
        known.update(tree_new)
        if top_new or tree_new:
            ops.append("F" + (",".join(str(nm(i)) for i in top_new) or "-") + "/" +
                       (",".join(str(nm(i)) for i in tree_new) or "-"))
    final = sorted(nm(i) for i in res.final_ids)
    expect = f"{M.b(res.final_has_errors)} " + (",".join(map(str, final)) or "-")
    batch.add(ch, "vreport " + (" ".join(ops) or "R"), expect if ops else expect,
              {**info, "refreshes": nhist, "what": "final report"},
              canon=lambda s: s.split(" ")[0] + " " + (",".join(map(str, sorted(int(x) for x in s.split(" ")[1].split(",")))) if s.split(" ")[1] != "-" else "-"))
    ch.count(f"refreshes:{min(nhist, 9)}")
    ch.count("errors-found:" + ("none" if not names else "some"))
    if names and nhist:
        # position of the first finding relative to the refreshes that follow it
        first = next(i for i, o in enumerate(ops) if o.startswith("F"))
        after = sum(1 for o in ops[first:] if o == "R")
        ch.count(f"refreshes-after-first-finding:{min(after, 6)}")
        ch.nontrivial.add((info["case"]["template"], json.dumps(info["case"]["query"], sort_keys=True),
                           json.dumps(info["case"]["corruption"], sort_keys=True), info["case"]["duration"],
                           info["case"]["now"], info["case"]["break_on_error"]))


def init_loads(data: bytes) -> bool:
    """does `InitSegment.load` keep this response?  (moov present and the boxes `process_moov`
    dereferences; the rule itself is checked by the `vinit` channel)"""
    import mp4walk
    try:
        boxes = mp4walk.walk(data)
    except Exception:
        return False
    mv = next((bx for bx in boxes if bx.type == "moov"), None)
    if mv is None:
        return False
    have = set()

    def desc(bx):
        for c in bx.children:
            have.add(c.type)
            desc(c)
    desc(mv)
    hd = mp4walk.find(mv, "trak/mdia/hdlr")
    need = {"trak", "mdia", "mdhd", "tkhd", "hdlr"}
    if hd is not None and hd.fields.get("handler_type") == "vide":
        need |= {"minf", "stbl", "stsd"}
    return need <= have


def correspond(case, res, chs, batch: Batch):
    """queue the model's questions about one session"""
    info = {"case": case.json()}
    if case.mode == "odvod":
        # the on-demand profile is not modelled: oracle and final-report bookkeeping only
        report_ops(res, chs["vreport"], batch, info)
        return
    init_data = {}
    by_url = {}
    for ex in res.exchanges:
        if ex.cls == "init" and ex.status == 200 and ex.rep not in init_data and init_loads(ex.data):
            init_data[ex.rep] = ex.data       # the response the validator keeps (init_segment.py:72-75)
        if ex.cls == "media":
            by_url[(ex.url, ex.pass_no)] = ex
    model_err = {"n": 0}

    # ---- vrep / vseg: every Representation, every pass
    for pi, p in enumerate(res.passes):
        pre = {r["id"]: r for r in p["pre"]["reps"]}
        for rpost in p["post"]["reps"]:
            rid = rpost["id"]
            rpre = pre.get(rid)
            if rpre is None or rpost["dash_ts"] is None or rpost["encrypted"] is None:
                continue
            if len(rpre["segments"]) != len(rpost["segments"]) or not rpost["segments"]:
                continue
            if any(a["oid"] != c_["oid"] for a, c_ in zip(rpre["segments"], rpost["segments"])):
                continue
            trex = M.trex_default_duration(init_data.get(rid))
            ctx = M.ctx_token(rpost, case.encrypted(), has_trex=trex is not None)
            toks, expect, ok = [], [], True
            for spre, spost in zip(rpre["segments"], rpost["segments"]):
                new_errs = spost["errors"][len(spre["errors"]):]
                kinds = M.classify_segment_errors(new_errs, spost)
                if spre["validated"]:
                    oc = "V"
                elif not spost["validated"]:
                    oc = "N"
                else:
                    ex = by_url.get((spost["url"], pi))
                    if ex is None:
                        oc = "X"
                    else:
                        ot = M.obs_token(ex.status, ex.data, ex.content_type, rpost, trex, rpost["iv_size"])
                        if ot is None:
                            ok = False
                            break
                        oc = "F" + ot
                        vk = [k for k in kinds if k != "chain"]
                        batch.add(chs["vseg"], f"vseg {ctx} {M.exp_token(spost)} {ot}", ",".join(vk) or "-",
                                  {**info, "rep": rid, "segment": spost["name"], "pass": pi})
                        key = (rid, spost["name"], tuple(vk), case.key())
                        if vk or ex.rewritten:
                            chs["vseg"].nontrivial.add(key)
                        for k in vk or ["clean"]:
                            chs["vseg"].count(f"kind:{k}")
                toks.append("|".join([M.exp_token(spre), M.b(spre["validated"]), M.res_token(spre), oc]))
                expect.append(M.seg_canon(spost, kinds))
                model_err["n"] += sum(1 for k in kinds if not k.startswith("other:") and not k.endswith("?"))
            if not ok:
                chs["vrep"].count("skipped:unreadable-segment")
                continue
            batch.add(chs["vrep"], f"vrep {ctx} {M.need_token(rpost)} " + " ".join(toks), " ".join(expect),
                      {**info, "rep": rid, "pass": pi})
            chs["vrep"].count(f"segments:{min(len(toks), 12)}")
            if len(toks) >= 2:
                chs["vrep"].nontrivial.add((rid, pi, case.key()))

    # ---- vavail: the availability interval of every segment and what the validator did with it before any
    # request (left for later / given up / fetched), at the instant of each pass
    if case.mode == "live":
        # first pass only: the interval is fixed when the segment is created, from the manifest of that moment
        # (a refreshed manifest may carry another mean segment duration or, with a symbolic start, another AST)
        for pi, p in enumerate(res.passes[:1]):
            tsbd = p["post"].get("tsbd_us")
            now_us = M.us_of_iso(p["now"])
            pre = {r["id"]: r for r in p["pre"]["reps"]}
            for rpost in p["post"]["reps"]:
                rpre = pre.get(rpost["id"])
                if rpre is None or tsbd is None or rpost.get("period_ast_us") is None or not rpost["dash_ts"] or \
                        len(rpre["segments"]) != len(rpost["segments"]):
                    continue
                sd = rpost["tmpl_duration"]
                if sd is None and rpost.get("timeline"):
                    sd = sum(d for _, d in rpost["timeline"]) // len(rpost["timeline"])
                if not sd:
                    continue
                cfg = ",".join(str(x) for x in (rpost["period_ast_us"], tsbd, rpost["dash_ts"], rpost["tmpl_pto"] or 0,
                                                rpost["start_number"], sd, now_us))
                # the loop over the segments stops once the requested duration is validated: a segment behind
                # the last one this pass dealt with was not looked at (its `N` is no decision)
                touched = [i for i, (a_, b_) in enumerate(zip(rpre["segments"], rpost["segments"]))
                           if b_["validated"] and not a_["validated"]]
                last_touched = max(touched) if touched else -1
                for si, (spre, spost) in enumerate(zip(rpre["segments"], rpost["segments"])):
                    if spre["oid"] != spost["oid"] or spre["validated"] or spost["avail_start_us"] is None:
                        continue
                    e = dict(spre)
                    if rpost.get("timeline") is None:
                        e["exp_dt"] = None      # the interval is fixed at creation, before a decode time is inherited
                    did = "N" if not spost["validated"] else ("F" if (spost["url"], pi) in by_url else "X")
                    real = f"{spost['avail_start_us']} {spost['avail_end_us']} {did}"
                    canon = None
                    if did == "N" and si > last_touched:
                        did = "unvisited"
                        real = real[:-2]
                        canon = (lambda t: t[:-2])
                    batch.add(chs["vavail"], f"vavail {cfg} {M.exp_token(e)}", real,
                              {**info, "rep": rpost["id"], "segment": spost["name"], "pass": pi}, canon=canon)
                    dur_us = sd * 1_000_000 // rpost["dash_ts"]
                    cls_ = "<1s" if dur_us < 1_000_000 else "<2s" if dur_us < 2_000_000 else "=2s" if dur_us == 2_000_000 \
                        else "<=4s" if dur_us <= 4_000_000 else ">4s"
                    where = "oldest" if si == 0 else "second" if si == 1 else "newest" if si == len(rpre["segments"]) - 1 \
                        else "interior"
                    chs["vavail"].count(f"decision:{did}:segment-duration{cls_}:{where}")
                    # the listing hypothesis of listed_segment_examined on the first pass: the segment ends
                    # after the left edge of the window
                    if pi == 0:
                        chs["vavail"].count("listed-ends-inside-window:" + M.b(spost["avail_start_us"] > now_us - tsbd))
                    chs["vavail"].nontrivial.add((rpost["id"], spost["name"], did, case.key()))

    last = res.passes[-1]["post"] if res.passes else None
    if last is None or not last.get("lines"):
        return
    try:
        root = M.parse_xml(last["lines"])
    except Exception as e:
        chs["vmpd"].errors.append(f"manifest unreadable: {e}")
        return

    # ---- vtl: SegmentTimeline expansion as Representation uses it
    for raw, rep in zip(effective_timelines(root), last["reps"]):
        if raw is None or rep.get("timeline") is None:
            continue
        if any(int(r) < 0 for _, _, r in raw if r is not None):
            continue
        line = "vtl " + " ".join(f"{'-' if t is None else t},{'-' if d is None else d},{r}" for t, d, r in raw)
        exp = "/".join(f"{t}:{d}" for t, d in rep["timeline"]) or "-"
        batch.add(chs["vtl"], line, exp, {**info, "rep": rep["id"]}, canon=lambda s: s.split(" ")[0])
        chs["vtl"].count(f"S-elements:{min(len(raw), 8)}")
        if len(raw) >= 2:
            chs["vtl"].nontrivial.add((tuple(raw), case.key()))

    # ---- vgen: expectations generated at load (pass 0, nothing validated yet)
    p0 = res.passes[0]["pre"]
    now_us = M.us_of_iso(datetime.datetime.fromisoformat(case.now.replace("Z", "+00:00")).isoformat())
    for rep in p0["reps"]:
        segs = rep["segments"]
        if not segs or rep["dash_ts"] is None or any(s["validated"] for s in segs):
            continue
        fn, fd = frame_rate(rep)
        audio = rep["content_type"] == "audio"
        real = "/".join(",".join([M.opt(s["exp_seq"]), M.opt(s["exp_dt"]), M.opt(s["exp_dur"]), str(s["tol"])])
                        for s in segs)
        if rep["timeline"] is not None:
            ent = rep["timeline"]
            sd = rep["tmpl_duration"] if rep["tmpl_duration"] is not None else sum(d for _, d in ent) // len(ent)
            need = "-"
            if rep["mode"] != "live" and rep["target_us"] is not None:
                need = str(rep["target_us"] * rep["dash_ts"] // 1_000_000)
            cfg = ",".join([M.b(rep["mode"] == "live"), M.b(audio), M.b("$Number$" in (rep["media"] or "")),
                            str(rep["tmpl_pto"]), str(rep["start_number"]), str(sd), str(rep["dash_ts"]),
                            str(fn), str(fd), need])
            frac = fd != 1 and not audio      # timescale // (num/den) is a float floor division in the validator
            if frac:
                real = "/".join(",".join(x.split(",")[:3] + ["*"]) for x in real.split("/"))
                chs["vgen"].count("fractional-frame-rate:tolerance-not-compared")
            batch.add(chs["vgen"], f"vgentl {cfg} " + ("/".join(f"{t}:{d}" for t, d in ent) or "-"), real,
                      {**info, "rep": rep["id"], "what": "timeline"},
                      canon=(lambda fr: lambda s: "/".join(",".join(x.split(",")[1:4] + (["*"] if fr else x.split(",")[4:]))
                                                           for x in s.split("/")) if s != "-" else "")(frac))
            chs["vgen"].count("timeline")
            chs["vgen"].nontrivial.add((rep["id"], "tl", case.key()))
            if p0.get("tsbd_us") is not None:
                short = any(re.fullmatch(r"(\S+: )?-?\d+ != -?\d+(\.\d+)?", e["msg"]) and
                            "segment_timeline" in e["where"] for e in rep["own_errors"])
                cfg = ",".join([M.b(rep["mode"] == "live"), M.opt(rep["target_us"]), str(p0["tsbd_us"]),
                                str(rep["dash_ts"])])
                batch.add(chs["vgen"], f"vtldepth {cfg} " + ("/".join(f"{t}:{d}" for t, d in ent) or "-"),
                          "timelineShort" if short else "-", {**info, "rep": rep["id"], "what": "timeline depth"})
                if short:
                    chs["vgen"].count("timeline-shorter-than-buffer")
                    model_err["n"] += 1
        elif rep["tmpl_duration"]:
            sd, ts = rep["tmpl_duration"], rep["dash_ts"]
            n = len(segs)
            if fd == 1:
                batch.add(chs["vgen"], f"vtol {M.b(audio)},{ts},{fn},{fd},{n}", ",".join(str(s["tol"]) for s in segs),
                          {**info, "rep": rep["id"], "what": "tolerance"})
            else:
                chs["vgen"].count("fractional-frame-rate:tolerance-not-compared")
            first = segs[0]["exp_seq"]
            if rep["mode"] == "live" and p0.get("tsbd_us") is not None and p0.get("ast") is not None:
                seg_us = _td_us(datetime.timedelta(seconds=sd / float(ts)))
                cfg = ",".join(map(str, [ts, sd, rep["start_number"], rep["tmpl_pto"], p0["tsbd_us"], now_us,
                                         M.us_of_iso(p0["ast"]), seg_us]))
                batch.add(chs["vgen"], f"vwin {cfg}", f"{first},{n}", {**info, "rep": rep["id"], "what": "window"})
                chs["vgen"].count("template-live")
                chs["vgen"].nontrivial.add((rep["id"], "win", case.key()))
            else:
                chs["vgen"].count("template-vod")
                exp_seq = [s["exp_seq"] for s in segs]
                chs["vgen"].evaluations += 1
                sn0 = rep["start_number"]
                chs["vgen"].count(f"vod-startNumber:{'1' if sn0 == 1 else '0' if sn0 == 0 else 'other'}")
                if exp_seq != list(range(sn0, sn0 + n)):
                    chs["vgen"].disagreements.append({**info, "rep": rep["id"], "what": "vod numbering",
                                                      "impl": exp_seq[:5]})

    # ---- vinit: every init response of the session
    for rep in last["reps"]:
        exs = [ex for ex in res.exchanges if ex.cls == "init" and ex.rep == rep["id"]]
        if not exs:
            continue
        lines = []
        for ex in exs:
            top, moov, video = [], [], False
            if ex.status in (200, 206):
                try:
                    import mp4walk
                    boxes = mp4walk.walk(ex.data)
                    top = [bx.type.replace(" ", "_") for bx in boxes]
                    mv = next((bx for bx in boxes if bx.type == "moov"), None)

                    def desc(bx):
                        for c in bx.children:
                            moov.append(c.type.replace(" ", "_"))
                            desc(c)
                    if mv is not None:
                        desc(mv)
                        hd = mp4walk.find(mv, "trak/mdia/hdlr")
                        video = hd is not None and hd.fields.get("handler_type") == "vide"
                except Exception:
                    lines = None
                    break
            lines.append(f"vinit 1,{ex.status},0,{M.b(video)} {','.join(top) or '-'} {','.join(moov) or '-'}")
        if lines is None:
            chs["vinit"].count("skipped:unreadable-init")
            continue
        real = sorted(set(k for k in M.classify_init_errors(rep["init_errors"]) if not k.startswith("other:")))

        def combine(answers):
            """the validator requests the init segment until one response loads (init_segment.py:72-75),
            then validates that one; when none loads, validate() adds `loadFailed`"""
            got = set()
            for a in answers:
                load, ok, val, _ = a.split(" ")
                if load != "-":
                    got.update(load.split(","))
                if ok == "1":
                    if val != "-":
                        got.update(val.split(","))
                    return ",".join(sorted(got)) or "-"
            got.add("loadFailed")
            return ",".join(sorted(got))
        batch.add_group(chs["vinit"], lines, ",".join(real) or "-", {**info, "rep": rep["id"]}, combine)
        rew = any(ex.rewritten for ex in exs)
        chs["vinit"].count("rewritten" if rew else "pristine")
        chs["vinit"].count(f"requests:{len(exs)}")
        if rew:
            chs["vinit"].nontrivial.add((rep["id"], case.key()))
        model_err["n"] += len(real)

    # ---- vmpd: attribute checks with their location – for EVERY manifest the session loaded (the errors of
    # the manifest tree are archived at the next refresh, so each manifest is judged in the first pass it
    # was in effect), not only for the last one
    seen_texts = []
    for pi, p in enumerate(res.passes):
        lines_ = p["post"].get("lines")
        if not lines_ or lines_ in seen_texts:
            continue
        seen_texts.append(lines_)
        try:
            root_p = root if lines_ == last["lines"] else M.parse_xml(lines_)
        except Exception:
            continue
        toks, where = M.doc_token(root_p, case.mode == "live")
        by_line = {}
        for key, ln in where.items():
            by_line.setdefault(ln, []).append(key)
        real = set()
        for e in p["post"].get("tree_errors", []):
            k = M.classify_mpd_error(e["msg"])
            if k is None:
                continue
            want = {"periodId": "period", "adpMimeType": "adp", "sDuration": "timeline", "sStart": "timeline"}.get(
                k, "rep" if k in ("repBandwidth", "repId", "repMimeType", "initialization", "media", "repAst",
                                  "repTsbd", "tmplDuration") else "mpd")
            keys = [x for x in by_line.get(e["start"], [])
                    if x.split(":")[0].replace("reptimeline", "timeline") == want]
            loc = keys[0] if keys else f"line{e['start']}"
            real.add(f"{loc}={k}")
        batch.add(chs["vmpd"], "vmpd " + " ".join(toks), ",".join(sorted(real)) or "-", {**info, "pass": pi},
                  canon=lambda s: ",".join(sorted(set(s.split(",")))) if s != "-" else "-")
        chs["vmpd"].count("corrupted-manifest" if (case.corruption or {}).get("kind") == "mpdattr" else "as-served")
        chs["vmpd"].count("manifest:" + ("first" if len(seen_texts) == 1 else "refreshed"))
        if real:
            chs["vmpd"].nontrivial.add((tuple(sorted(real)), pi, case.key()))
        model_err["n"] += len(real)

    # ---- vrefresh
    for i, rc in enumerate(res.refresh_checks):
        cfg = ",".join([M.b(rc["prev_id"] == rc["id"]), M.opt(M.us_of_iso(rc["prev_ast"])), M.opt(M.us_of_iso(rc["ast"])),
                        str(M.us_of_iso(rc["prev_pub"])), str(M.us_of_iso(rc["pub"])),
                        M.opt(None if rc["mup_us"] is None else rc["mup_us"])])
        real = [k for k in M.classify_refresh_errors(rc["top_errors"])]
        batch.add(chs["vrefresh"], f"vrefresh {cfg}", ",".join(real) or "-", {**info, "refresh": i})
        chs["vrefresh"].count("errors" if real else "clean")
        chs["vrefresh"].count("minimumUpdatePeriod:" + ("absent" if rc["mup_us"] is None else "present"))
        for k in real:
            chs["vrefresh"].count(f"kind:{k}:mup-" + ("absent" if rc["mup_us"] is None else "present"))
        chs["vrefresh"].nontrivial.add((cfg, case.key()))
        model_err["n"] += sum(1 for k in real if not k.startswith("other:"))
    # ---- vreport: the final report is the accumulation of everything found on the way
    report_ops(res, chs["vreport"], batch, info)
    # ---- verdict level: errors / no errors.  The sub-channels compare every modelled error; what is left
    # is a session whose only errors are of kinds the model does not know (the model says "no errors")
    if res.errors and model_err["n"] == 0 and not res.crashed and case.corruption is not None:
        chs["validator_run"].disagreements.append({
            **info, "what": "the validator reports errors, none of a kind the model knows (model verdict: clean)",
            "errors": [e["msg"][:160] for e in res.errors[:5]]})


def _td_us(td: datetime.timedelta) -> int:
    return (td.days * 86400 + td.seconds) * 1_000_000 + td.microseconds


# ------------------------------------------------------------------------------------------ single segments

def segment_plan(rng, wide: bool):
    """expectations x bytes for the `vsegx` channel.  One factor at a time around the correct expectation,
    each factor through: absent (None), zero, exact, both tolerance boundaries; and the bytes as served, with
    decode time 0 / a small decode time, and with sequence number 0 – so that `None` and `0` are told apart in
    every comparison (expected and observed side)."""
    import c18_run

    def plan(rep, seg, data):
        T, S = None, None
        try:
            import mp4walk
            bx = mp4walk.walk(data)
            T = mp4walk.find(bx, "moof/traf/tfdt").fields["base_media_decode_time"]
            S = mp4walk.find(bx, "moof/mfhd").fields["sequence_number"]
        except Exception:
            return
        ts = rep["dash_ts"]
        tol0 = seg["tol"]
        D = seg["exp_dur"] if seg["exp_dur"] is not None else 0
        pto = seg["pto"]
        bytes_variants = [("served", data, T, S)]
        for label, kind, delta in (("tfdt=0", "tfdt", -T), ("tfdt=small", "tfdt", ts * 2 - T), ("seq=0", "mfhd", -S),
                                   ("seq=1", "mfhd", 1 - S)):
            if delta == 0 or (not wide and label in ("tfdt=small", "seq=1")):
                continue
            try:
                d2, _ = c18_run.apply_corruption({"kind": kind, "delta": delta}, data)
            except Exception:
                continue
            bytes_variants.append((label, d2, T + delta if kind == "tfdt" else T, S + delta if kind == "mfhd" else S))
        # saio offset moved by the moof position (when the moof is not the first box) and by one
        mp = moof_position(data) or 0
        for label, delta in (("saio+moofpos", mp), ("saio-moofpos", -mp), ("saio+1", 1)):
            if delta == 0:
                continue
            try:
                d2, _ = c18_run.apply_corruption({"kind": "saio", "delta": delta}, data)
                yield f"{label}/exact", {"seq": S, "dt": T, "dur": D or None, "tol": tol0, "pto": min(pto, T)}, d2
            except Exception:
                pass
        # trun.data_offset moved by the size of a box header (8) either way: with a 16-byte mdat header
        # "8 too small" points at the second half of the header, not at the payload
        for label, delta in (("trun-8", -8), ("trun+8", 8)):
            try:
                d2, _ = c18_run.apply_corruption({"kind": "trun", "delta": delta}, data)
                yield f"{label}/exact", {"seq": S, "dt": T, "dur": D or None, "tol": tol0, "pto": min(pto, T)}, d2
            except Exception:
                pass
        for blabel, d, t, s_ in bytes_variants:
            good = {"seq": s_, "dt": t, "dur": D or None, "tol": tol0, "pto": min(pto, t)}
            yield f"{blabel}/exact", dict(good), d
            dts = [None, 0, t + tol0, t + tol0 + 1, t + ts, max(0, t - tol0), t - tol0 - 1]
            for v in dts:
                if v is not None and v < 0:
                    continue
                yield f"{blabel}/dt={'None' if v is None else v - t}", dict(good, dt=v), d
            for v in [None, 0, s_ + 1, max(0, s_ - 1)]:
                yield f"{blabel}/seq={'None' if v is None else v - s_}", dict(good, seq=v), d
            for v in [None, 0, D + ts, D + ts + 1, max(0, D - ts), max(0, D - ts - 1)]:
                yield f"{blabel}/dur={'None' if v is None else v - D}", dict(good, dur=v), d
            yield f"{blabel}/tol=0", dict(good, tol=0, dt=t + 1), d
            yield f"{blabel}/tol=0,exact", dict(good, tol=0), d
            yield f"{blabel}/all-none", dict(good, seq=None, dt=None, dur=None), d
            yield f"{blabel}/all-zero", dict(good, seq=0, dt=0, dur=0), d
            if wide:
                yield f"{blabel}/pto-late", dict(good, pto=t + 1), d
                for _ in range(3):
                    yield f"{blabel}/random", {"seq": rng.choice([None, 0, s_, s_ + 1]),
                                               "dt": rng.choice([None, 0, t, t + tol0, t + tol0 + 1]),
                                               "dur": rng.choice([None, 0, D, D + ts + 1]),
                                               "tol": rng.choice([0, tol0]), "pto": min(pto, t)}, d
    return plan


def direct_cases(ctx):
    import c18_run
    now = NOW_POOL[0]
    cases = [c18_run.Case("bbb", "hand_made.mpd", "vod", {"timeline": "1"}, 12, now),
             c18_run.Case("c18la", "hand_made.mpd", "vod", {"timeline": "1"}, 12, now),     # 16-byte mdat headers
             c18_run.Case("bbb", "hand_made.mpd", "live", {"depth": "30"}, 12, now),
             c18_run.Case("bbb", "manifest_e.mpd", "vod", {"drm": "clearkey"}, 12, now),
             c18_run.Case("bbb", "hand_made.mpd", "vod", {"drm": "clearkey", "events": "ping"}, 12, now)]
    if ctx.thorough:
        cases += [c18_run.Case("bbb", "hand_made.mpd", "vod", {}, 12, now),
                  c18_run.Case("bbb", "manifest_a.mpd", "live", {"depth": "30"}, 12, now),
                  c18_run.Case("tears", "hand_made.mpd", "vod", {"timeline": "1"}, 12, NOW_POOL[1]),
                  c18_run.Case("tears", "manifest_e.mpd", "live", {"depth": "30", "timeline": "1"}, 12, NOW_POOL[2]),
                  c18_run.Case("bbb", "hand_made.mpd", "live", {"depth": "40", "drm": "playready", "timeline": "1"}, 12,
                               NOW_POOL[3]),
                  c18_run.Case("bbb", "manifest_h.mpd", "vod", {}, 12, NOW_POOL[1])]
    return cases


TIMELINE_GRID = [
    # (label, S elements as (t | None, d, r) relative to t0 = start of the first entry, D = its duration)
    ("contiguous, t only on the first", [("t0", "D", 2), (None, "D", 0)]),
    ("later S with the implied t", [("t0", "D", 2), ("t0+3*D", "D", 1)]),
    ("later S@t leaves a gap", [("t0", "D", 2), ("t0+3*D+G", "D", 1)]),
    ("later S@t overlaps", [("t0", "D", 2), ("t0+3*D-G", "D", 0)]),
    ("gap after a single S", [("t0", "D", 0), ("t0+2*D", "D", 0), (None, "D", 3)]),
    ("every S carries t", [("t0", "D", 0), ("t0+D", "D", 0), ("t0+2*D", "D+G", 0), ("t0+3*D+G", "D", 0)]),
    ("t restarts at the first value", [("t0", "D", 1), ("t0", "D", 1)]),
    ("first S without t", [(None, "D", 2), (None, "D+G", 0)]),
    ("first S without t, later S with t", [(None, "D", 1), ("t0+5*D", "D", 0)]),
    ("one S", [("t0", "D", 0)]),
    ("one S repeated", [("t0", "D", 7)]),
    ("t = 0 on a later S", [("t0", "D", 1), ("0", "D", 0)]),
]


def run_timeline_grid(ctx, app, ch, batch):
    """`vtl`, fixed part: the real Manifest / SegmentTimeline classes parse a served manifest whose
    SegmentTimelines are rewritten by a fixed grid of S lists – S@t on the first, on later, on every element;
    implied, leaving a gap, overlapping, restarting; absent – and the expanded (start, duration) list is
    compared with the model.  No request is made."""
    import c18_run
    from lxml import etree
    for mode, q in (("vod", {"timeline": "1"}), ("live", {"timeline": "1", "depth": "30"})):
        case = c18_run.Case("bbb", "hand_made.mpd", mode, q, 12, NOW_POOL[0])
        with __import__("appboot").Clock(case.now):
            r = app.client().get(case.path())
        if r.status_code != 200:
            ch.errors.append(f"timeline grid: manifest {case.path()} -> {r.status_code}")
            continue
        xmls, raws = [], []
        for label, grid in TIMELINE_GRID:
            root = etree.fromstring(r.data)
            raw_all = []
            for tl in root.iter(M._q("SegmentTimeline")):
                first = tl.find(M._q("S"))
                t0, D = int(first.get("t", "0")), int(first.get("d"))
                G = max(1, D // 3)
                env = {"t0": t0, "D": D, "G": G}
                for s_ in tl.findall(M._q("S")):
                    tl.remove(s_)
                raw = []
                for t, d, rr in grid:
                    el = etree.SubElement(tl, M._q("S"))
                    dv_ = eval(d, {}, env)
                    el.set("d", str(dv_))
                    tv = None if t is None else eval(t, {}, env)
                    if tv is not None:
                        el.set("t", str(tv))
                    if rr:
                        el.set("r", str(rr))
                    raw.append((tv, dv_, rr))
                raw_all.append(raw)
            xmls.append(etree.tostring(root, xml_declaration=True, encoding="UTF-8"))
            raws.append((label, raw_all))
        for (label, raw_all), row in zip(raws, c18_run.load_only(app, case, xmls)):
            info = {"case": case.json(), "grid": label}
            if row["crashed"]:
                ch.oracle_failures.append({**info, "what": "the validator crashed parsing a SegmentTimeline",
                                           "crash": row["crashed"]})
                continue
            root = M.parse_xml(row["xml"])
            for raw, rep in zip(effective_timelines(root), row["snap"]["reps"]):
                if raw is None or rep.get("timeline") is None:
                    continue
                line = "vtl " + " ".join(f"{'-' if t is None else t},{'-' if d is None else d},{r_}" for t, d, r_ in raw)
                exp = "/".join(f"{t}:{d}" for t, d in rep["timeline"]) or "-"
                batch.add(ch, line, exp, {**info, "rep": rep["id"]}, canon=lambda s: s.split(" ")[0])
                ch.count(f"grid:{label}")
                ch.nontrivial.add((label, mode, rep["id"]))


def run_direct_channel(ctx, app, ch, batch):
    """`vsegx`: the real validate_segment on real MediaSegment objects with chosen expectations"""
    import c18_run
    rng = ctx.rng("vsegx")
    for case in direct_cases(ctx):
        rows = c18_run.run_direct(app, case, segment_plan(rng, ctx.thorough), per_rep=3,
                                  max_reps=None if ctx.thorough else 2)
        inits = {}
        for r in rows:
            if "inits" in r:
                inits = r["inits"]
        for r in rows:
            if "seg" not in r:
                if r.get("timed_out"):
                    ch.errors.append(f"direct session timed out: {case.path()}")
                continue
            rep, seg = r["rep"], r["seg"]
            if r["crashed"]:
                ch.oracle_failures.append({"case": case.json(), "what": "validate_segment crashed",
                                           "label": r["label"], "crash": r["crashed"]})
                continue
            trex = M.trex_default_duration(inits.get(rep["id"]))
            ot = M.obs_token(r["status"], r["data"], r["content_type"], rep, trex, rep["iv_size"])
            if ot is None:
                ch.count("skipped:unreadable")
                continue
            kinds = M.classify_segment_errors(seg["errors"], seg)
            ctx_tok = M.ctx_token(rep, case.encrypted(), has_trex=trex is not None)
            batch.add(ch, f"vseg {ctx_tok} {M.exp_token(seg)} {ot}", ",".join(kinds) or "-",
                      {"case": case.json(), "rep": rep["id"], "segment": seg["name"], "index": r["index"],
                       "label": r["label"]})
            for f_, v in (("dt", seg["exp_dt"]), ("seq", seg["exp_seq"]), ("dur", seg["exp_dur"])):
                ch.count(f"expected-{f_}:" + ("None" if v is None else "zero" if v == 0 else "positive"))
            ch.count("observed-tfdt:" + ("zero" if seg["dt"] == 0 else "positive"))
            ch.count("index:" + ("first" if r["index"] == 0 else "later"))
            ch.count("mdat-header:" + ot.split(";")[0].split(",")[11])
            ch.count("moof-position:" + ("0" if (moof_position(r["data"]) or 0) == 0 else "behind-a-leading-box"))
            for k in kinds or ["clean"]:
                ch.count(f"kind:{k}")
            ch.nontrivial.add((case.path(), rep["id"], r["index"], r["label"]))
        if len(batch.lines) > 3000:
            batch.run()


# ------------------------------------------------------------------------------------------ channels

RULES = {
    "validator_run": (
        "sessions of the real DashValidator against the real app: template x mode x supported option set x "
        "stream x clock, pristine and with one response rewritten by the catalogue (tfdt, mfhd, trun "
        "data_offset, saio offset, init box dropped, SegmentTimeline gap / S@d change, mandatory MPD attribute "
        "removed, availabilityStartTime changed on a later manifest load) plus tolerance probes; oracle = the "
        "property text; non-trivial = session in which at least one media segment was fetched and checked; "
        "distinct by full case"),
    "vrep": "one Representation.validate pass: segments with their pre-pass expectations and what was fetched "
            "(bytes read with mp4walk) vs the model's post-pass expectations, results and errors per segment; "
            "non-trivial = at least two segments; distinct by (representation, pass, case)",
    "vseg": "one fetched media segment: MediaSegment.validate_segment error kinds in order vs the model; "
            "non-trivial = the response was rewritten or an error was reported",
    "vsegx": "real MediaSegment objects created on real, loaded Representations (first, middle, last generated "
             "segment; static and live; $Time$ and $Number$; clear and encrypted) with chosen expectations – each of "
             "expected sequence number / decode time / duration through None, 0, exact and both tolerance "
             "boundaries – over the served bytes and bytes patched to decode time 0 / small and sequence number "
             "0 / 1; real validate_segment error kinds in order vs the model; distinct by (session, "
             "representation, segment, variant)",
    "vreport": "every session: the errors found step by step (on the validator itself / in the manifest tree of "
               "the moment; archiving at every refresh) replayed through the model's bookkeeping vs get_errors() and "
               "has_errors() read after the session; sessions with 0..9+ refreshes, corruptions at the first, an "
               "interior and the last refresh, stopped at the first failing pass or run to the end; non-trivial = "
               "at least one finding and one refresh; distinct by full case",
    "vtl": "SegmentTimeline S elements (read with lxml) vs the validator's expanded (start, duration) list; "
           "non-trivial = at least two S elements",
    "vgen": "expectations generated at load: timeline mode (sequence number, decode time, duration, tolerance per "
            "segment), template mode ($Number$ window at the session clock, tolerances, VOD numbering)",
    "vavail": "live sessions, first pass, every listed segment: the availability interval the "
              "validator attached to the segment when it was created from the first manifest (start = complete, end = start + timeShiftBufferDepth + one segment "
              "duration) and what it did with the segment at the instant of the pass – left for later / given up "
              "without a request / fetched – vs the model's segmentAvailability and availDecision on the manifest's "
              "numbers; streams with 0.5 s … 10 s segments, $Time$ and $Number$, several clock phases; "
              "distinct by (representation, segment, decision, case)",
    "vinit": "init segment: top-level and moov box inventory (mp4walk) vs the set of error kinds the validator "
             "attached to the InitSegment; non-trivial = rewritten init segment",
    "vmpd": "manifest as the validator saw it (lxml): presence of the mandatory attributes per element vs the "
            "set of (element, error kind) the validator reported, located by manifest line; non-trivial = at "
            "least one attribute error",
    "vrefresh": "every manifest refresh: previous/new availabilityStartTime, publishTime, minimumUpdatePeriod, "
                "MPD@id vs the validator's top-level errors",
}


def moof_position(data: bytes):
    """offset of the first top-level moof (top-level box headers only); None when there is none"""
    import struct
    pos = 0
    while pos + 8 <= len(data):
        size, typ = struct.unpack(">I4s", data[pos:pos + 8])
        if size == 1 and pos + 16 <= len(data):
            (size,) = struct.unpack(">Q", data[pos + 8:pos + 16])
        if typ == b"moof":
            return pos
        if size < 8:
            return None
        pos += size
    return None


def shared_state() -> dict:
    """class-level and module-level mutable objects of the validator package (dict / list / set attributes of
    its classes, UPPER_CASE module constants): a session must not leave anything behind in them"""
    import sys
    out = {}
    for name, mod in list(sys.modules.items()):
        if not name.startswith("dashlive.mpeg.dash.validator") or mod is None:
            continue
        for k, v in list(vars(mod).items()):
            if k.isupper() and isinstance(v, (dict, list, set, tuple, str, int, float)):
                out[f"{name}.{k}"] = repr(v)
            if isinstance(v, type) and v.__module__ == name:
                for ck, cv in list(vars(v).items()):
                    if ck.startswith("__") or callable(cv) or isinstance(cv, (property, staticmethod, classmethod)):
                        continue
                    if isinstance(cv, (dict, list, set, tuple)):
                        out[f"{name}.{k}.{ck}"] = repr(cv) if not isinstance(cv, set) else repr(sorted(map(repr, cv)))
    return out


def verdict_signature(res) -> tuple:
    """what a user sees of a session, with object addresses (they appear in ids the validator invents) removed"""
    msgs = sorted(re.sub(r"\d{9,}", "#", e["msg"]) for e in res.errors)
    return (res.finished, bool(res.crashed), res.loops, tuple(msgs))


_STATE = {"shared": None, "first": {}}


def run_sessions(app, cases, chs, batch, limit_s=None):
    import c18_run
    run = chs["validator_run"]
    t0 = time.time()
    results = []
    if _STATE["shared"] is None:
        c18_run.run_case(app, c18_run.Case("bbb", "hand_made.mpd", "vod", {}, 4, NOW_POOL[0]))   # imports everything
        _STATE["shared"] = shared_state()
    for case in cases:
        if limit_s is not None and time.time() - t0 > limit_s:
            run.count("skipped:time-budget")
            continue
        res = c18_run.run_case(app, case, wall_limit=WALL_LIMIT)
        results.append((case, res))
        run.evaluations += 1
        now_state = shared_state()
        if now_state != _STATE["shared"]:
            changed = sorted(k for k in set(now_state) | set(_STATE["shared"])
                             if now_state.get(k) != _STATE["shared"].get(k))
            run.disagreements.append({"case": case.json(), "what": "the session changed shared state of the "
                                      "validator package", "changed": changed[:6]})
            _STATE["shared"] = now_state
        _STATE["first"].setdefault(case.key(), verdict_signature(res))
        c = case.corruption
        if c is None:
            run.count(f"pristine-stream:{case.stream}:{case.mode}")
            if case.mode == "live":
                n_patch = sum(1 for ex in res.exchanges if ex.cls == "patch")
                n_man = sum(1 for ex in res.exchanges if ex.cls == "manifest")
                if n_patch + n_man - 1 >= 3 and any(k in case.query for k in ("drm", "acodec", "abr")):
                    run.count("hand-on:" + ("patch-chain" if n_patch else "reload") + f":{case.stream}:" +
                              ",".join(f"{k}={case.query[k]}" for k in ("drm", "acodec", "abr") if k in case.query))
        label = "pristine" if c is None else (("probe:" if c.get("probe") else "") + c["kind"])
        if c is not None and res.applied is None:
            run.count(f"not-applicable:{label}")
            if "target_url" in c:
                u = res.unexamined or {}
                run.count(f"listed-segment-not-requested:{c['place']}:" +
                          ("given-up" if u.get("given_up") else "left-for-later") + f":server-{u.get('status')}")
                for f in oracle(case, res):
                    run.oracle_failures.append(f)
                try:
                    correspond(case, res, chs, batch)
                except Exception as e:
                    run.errors.append(f"correspond crashed on {case.path()} {c}: {type(e).__name__}: {e}")
            continue
        run.count(f"{case.mode}:{label}")
        if c is not None and "when" in c:
            run.count(f"attribute:{c['elem']}@{c['attr']}:{case.mode}:{c['when']}")
        if c is not None and "at" in c:
            run.count(f"refresh-position:{c['kind']}:{c['at']}:" + ("long" if c.get("loads", 0) >= 6 else "short")
                      + (":run-to-end" if not case.break_on_error else ":stop-at-error"))
        if c is not None and "place" in c:
            run.count(f"placement:{c['kind']}:{c['place']}:{case.mode}:{addressing(case)}")
        run.count(f"template:{case.template}")
        if case.mode == "live":
            run.count(f"live-mup:{case.query.get('mup', 'default')}")
        run.count("verdict:" + ("crash" if res.crashed else "errors" if res.errors else "clean"))
        if any(ex.cls == "media" for ex in res.exchanges):
            run.nontrivial.add(case.key())
        for f in oracle(case, res):
            run.oracle_failures.append(f)
        run.sample({"url": case.path(), "corruption": c, "finished": res.finished, "loops": res.loops,
                    "requests": len(res.exchanges), "errors": [e["msg"][:100] for e in res.errors[:2]]}, limit=4)
        try:
            correspond(case, res, chs, batch)
        except Exception as e:
            import traceback
            traceback.print_exc()
            run.errors.append(f"correspond crashed on {case.path()} {c}: {type(e).__name__}: {e}")
        # keep the memory bounded: segment bytes are not needed once the model's questions are queued
        for ex in res.exchanges:
            if ex.cls == "media" and ex.status in (200, 206):
                ex.moof_pos = moof_position(ex.data)
            if ex.cls in ("media", "init"):
                ex.data = b""
        if len(batch.lines) > 3000:
            batch.run()
    return results


def channels(ctx):
    import segchecks
    import c18_layouts
    chs = {name: Channel(name, rule=rule) for name, rule in RULES.items()}
    app = segchecks.get_app()
    c18_layouts.ensure(app)
    batch = Batch()
    rng = ctx.rng("validator_run")
    pristine = gen_pristine(ctx, rng)
    budget = 75 if not ctx.thorough else 520
    t0 = time.time()
    n_fixed = _STATE.get("n_fixed", 0)
    done = run_sessions(app, pristine[:n_fixed], chs, batch, limit_s=None)
    done += run_sessions(app, pristine[n_fixed:], chs, batch, limit_s=max(5, budget * .45 - (time.time() - t0)))
    corrupted = []
    per_base = 8 if not ctx.thorough else 16
    for case, res in done:
        if res.errors or res.crashed or not res.finished:
            continue
        corrupted += gen_corruptions(ctx, rng, case, res, per_base)
    # make sure every kind of the catalogue is exercised even when the budget cuts the list
    corrupted.sort(key=lambda c: 0)
    kinds_first, rest, seen, attr_first = [], [], {}, []
    for c in corrupted:
        k = (c.corruption["kind"], c.mode)
        if "when" in c.corruption:
            # one session per (attribute, static|live, first|refreshed manifest) before anything else
            k += (c.corruption["elem"], c.corruption["attr"], c.corruption["when"])
            limit = 1 if not ctx.thorough else 3
            if seen.get(k, 0) < limit:
                seen[k] = seen.get(k, 0) + 1
                attr_first.append(c)
            else:
                rest.append(c)
            continue
        if c.corruption["kind"] == "initbox":
            # a top-level box, a box process_moov needs, a box of the mandatory list – static and live
            leaf = c.corruption["box"].split("/")[-1]
            k += ("top" if leaf in ("ftyp", "moov") else
                  "parse" if leaf in ("trak", "tkhd", "mdia", "mdhd", "hdlr", "minf", "stbl", "stsd") else "mandatory",)
            if seen.get(k, 0) < (1 if not ctx.thorough else 8):
                seen[k] = seen.get(k, 0) + 1
                attr_first.append(c)
            else:
                rest.append(c)
            continue
        if c.corruption["kind"] == "timeline":
            # every kind of SegmentTimeline edit of the catalogue, static and live, before the sampled rest
            k += (c.corruption["op"],)
            if seen.get(k, 0) < (2 if not ctx.thorough else 12):
                seen[k] = seen.get(k, 0) + 1
                attr_first.append(c)
            else:
                rest.append(c)
            continue
        if "place" in c.corruption:
            # … in static and live sessions, $Time$ and $Number$ addressing
            k += (c.corruption["place"], addressing(c))
            if "target_url" in c.corruption:
                import c18_layouts
                k = ("listed", c.corruption["place"], c.stream if c.stream in c18_layouts.SHORT else addressing(c))
                if seen.get(k, 0) < (1 if not ctx.thorough else 6):
                    seen[k] = seen.get(k, 0) + 1
                    attr_first.insert(0, c)
                else:
                    rest.append(c)
                continue
            if "leading" in c.corruption:
                k += (c.corruption["delta"] > 0, abs(c.corruption["delta"]) > 8)
            limit = 1 if not ctx.thorough else 8
            if seen.get(k, 0) < limit:
                seen[k] = seen.get(k, 0) + 1
                kinds_first.append(c)
            else:
                rest.append(c)
            continue
        if c.corruption["kind"] in ("ast", "mpdid"):
            # every cross-refresh corruption on every shape of manifest update announcement, at every position
            # among the refreshes, in short and in long (>= 5 refreshes) sessions
            k += (c.query.get("mup", "default"), c.corruption.get("at"), c.corruption.get("loads", 0) >= 6)
            if c.corruption.get("at") == "any":
                k += (abs(c.corruption.get("seconds", 0)) > 30,)
            limit = 1 if not ctx.thorough else 4      # the rest of them run after the other kinds had their turn
            if seen.get(k, 0) < limit:
                seen[k] = seen.get(k, 0) + 1
                kinds_first.insert(0, c)
            else:
                rest.append(c)
            continue
        if seen.get(k, 0) < (4 if not ctx.thorough else 10 ** 6):
            seen[k] = seen.get(k, 0) + 1
            kinds_first.append(c)
        else:
            rest.append(c)
    run_sessions(app, attr_first + kinds_first + rest, chs, batch, limit_s=max(10, budget - (time.time() - t0)))
    # history: the first pristine and the first corrupted session again, after everything else ran in this
    # process (other streams, modes, templates, corruptions) – the answer must be the first answer
    import c18_run
    again = [c for c, _ in done[:1]] + (attr_first + kinds_first)[:2]
    for case in again:
        res2 = c18_run.run_case(app, case, wall_limit=WALL_LIMIT)
        first = _STATE["first"].get(case.key())
        chs["validator_run"].evaluations += 1
        chs["validator_run"].count("re-issued-session")
        if first is not None and verdict_signature(res2) != first:
            chs["validator_run"].disagreements.append({
                "case": case.json(), "what": "the same session gives another answer after the other sessions ran",
                "first": repr(first)[:400], "again": repr(verdict_signature(res2))[:400]})
    run_direct_channel(ctx, app, chs["vsegx"], batch)
    run_timeline_grid(ctx, app, chs["vtl"], batch)
    batch.run()
    run = chs["validator_run"]
    # verdict-level correspondence: a disagreement in any sub-channel is a verdict disagreement of its session
    for name in ("vrep", "vseg", "vsegx", "vtl", "vgen", "vavail", "vinit", "vmpd", "vrefresh", "vreport"):
        yield chs[name]
    yield run


# ------------------------------------------------------------------------------------------ search / replay

def _run_one(case_json):
    import c18_run
    import c18_layouts
    import segchecks
    app = segchecks.get_app()
    c18_layouts.ensure(app)
    case = c18_run.Case.from_json(case_json)
    res = c18_run.run_case(app, case, wall_limit=WALL_LIMIT)
    return case, res


def search(ctx, disagreements):
    """Layer C: look for a session on which the real validator violates C18, starting from the
    sessions whose model/implementation comparison broke"""
    import c18_run
    import segchecks
    app = segchecks.get_app()
    import c18_layouts
    c18_layouts.ensure(app)
    seen = set()
    rng = ctx.rng("search")
    seeds = []
    for d in disagreements:
        cj = d.get("case")
        if cj and json.dumps(cj, sort_keys=True) not in seen:
            seen.add(json.dumps(cj, sort_keys=True))
            seeds.append(c18_run.Case.from_json(cj))
    t0 = time.time()
    for case in seeds:
        res = c18_run.run_case(app, case, wall_limit=WALL_LIMIT)
        f = oracle(case, res)
        if f:
            return f[0]
        # the same session pristine / with every applicable catalogue corruption
        base = c18_run.Case(case.stream, case.template, case.mode, dict(case.query), case.duration, case.now)
        bres = c18_run.run_case(app, base, wall_limit=WALL_LIMIT)
        f = oracle(base, bres)
        if f:
            return f[0]
        for c in gen_corruptions(ctx, rng, base, bres, 40):
            r = c18_run.run_case(app, c, wall_limit=WALL_LIMIT)
            f = oracle(c, r)
            if f:
                return f[0]
            if time.time() - t0 > 240:
                return None
    # widen: fresh seeded sessions
    class _T:
        thorough = True
        tier = "thorough"
    pr = gen_pristine(_T, rng)
    rng.shuffle(pr)
    for base in pr[:40]:
        bres = c18_run.run_case(app, base, wall_limit=WALL_LIMIT)
        f = oracle(base, bres)
        if f:
            return f[0]
        for c in gen_corruptions(ctx, rng, base, bres, 6):
            r = c18_run.run_case(app, c, wall_limit=WALL_LIMIT)
            f = oracle(c, r)
            if f:
                return f[0]
        if time.time() - t0 > 400:
            break
    return None


def replay(ctx, payload):
    f = payload.get("failure") or {}
    if "case" not in f:
        return {"fails": False, "note": "replay names a broken obligation, no input", "payload": payload.get("broken")}
    case, res = _run_one(f["case"])
    fails = oracle(case, res)
    return {"fails": bool(fails), "failures": fails, "url": case.path(), "corruption": case.corruption,
            "finished": res.finished, "loops": res.loops, "crashed": res.crashed,
            "errors": [(e["start"], e["msg"][:160]) for e in res.errors[:8]]}


def replay_finding(ctx, finding):
    """ledger witnesses: a case on which the real validator still misbehaves"""
    w = finding["witness"]
    case, res = _run_one(w["case"])
    expect = w.get("expect", "oracle")
    if expect == "oracle":
        return bool(oracle(case, res))
    if expect == "not-finished":
        return (not res.finished) and not res.errors
    if expect == "errors":
        return bool(res.errors)
    return None


def matches_finding(finding, failure):
    """an oracle failure is covered by a ledger entry only when it lies in the entry's own region
    (the negated hypothesis recorded with the witness) – never by its symptom alone"""
    region = (finding.get("witness") or {}).get("region") or {}
    case = failure.get("case") or {}
    if not region or not case:
        return False
    if "outside" in region:
        # the negated hypothesis itself (computed from the served data) plus the one symptom it explains
        return not case.get("corruption") and bool((failure.get("outside") or {}).get(region["outside"])) and \
            set(failure.get("error_kinds") or ["-"]) <= set(region.get("kinds", []))
    c = case.get("corruption") or {}
    q = case.get("query") or {}
    if "attr" in region:
        return c.get("kind") == "mpdattr" and c.get("attr") == region["attr"] and \
            case.get("mode") == region.get("mode", case.get("mode"))
    if "skipped_slack_below_us" in region:
        # the listed segment leaves the announced buffer (+ one segment) within the validator's safety margin
        return bool(c) and failure.get("unexamined") is True and failure.get("slack_us") is not None and \
            failure["slack_us"] < region["skipped_slack_below_us"]
    if "initbox" in region:
        return c.get("kind") == "initbox" and c.get("box", "").split("/")[-1] in region["initbox"] and \
            c.get("rep", "").endswith("_enc") and "_v" not in c.get("rep", "")
    if c:
        return False                      # every other entry is about pristine streams
    if "addressing" in region:
        return case.get("stream") in region["stream"] and case.get("mode") == region["mode"] and \
            not q.get("timeline") and case.get("template") != "manifest_a.mpd"
    if "stream" in region:
        return case.get("stream") in region["stream"] and \
            case.get("mode") in region.get("modes", [case.get("mode")]) and \
            case.get("template") in region.get("templates", [case.get("template")])
    if "depth_below" in region:
        return case.get("mode") == "live" and "depth" in q and int(q["depth"]) < region["depth_below"]
    if "vod_duration_above" in region:
        return case.get("mode") == "vod" and case.get("duration", 0) > region["vod_duration_above"]
    return False
