"""C19 – ISO-8601 time text is faithful to the value it encodes.

Layer A: lean/DashLive/Props/C19.lean (duration_roundtrip, duration_lexical,
datetime_roundtrip, tc_roundtrip_partial/general, td_roundtrip, tc_mono …).
Layer B: channels `isodur`, `isoparse`, `isodt`, `tcconv` – the real functions of
dashlive/utils/date_time.py (reached directly, through the template filters of
server/template_tags.py and through utils/objects.py) against the Lean model.
Layer C: the property text evaluated on the real code with the independent
readers of harness/c19_oracle.py (own xs:duration / xs:dateTime scanners, own
day count) – never dashlive's parser, never the Lean model.
"""
from __future__ import annotations

import datetime
import json
import math
import struct
from fractions import Fraction

import common
from common import Channel
import c19_oracle as orc

PROP = "C19"
CLAIM = True
MANIFEST_ENTRY = {
    "design_ref": "7 C19",
    "level_text": (
        "Lean 4 proofs over all values: the text written by toIsoDuration (integer back end: carry, H/M/S "
        "fields, zero stripping; the float front end is a parameter constrained to 'nearest millisecond, either "
        "neighbour on a tie') is read back by the model of from_isodatetime to within 500 us (duration_roundtrip, "
        "exact form duration_parse_render) and is a valid xs:duration with minutes and seconds < 60 "
        "(duration_lexical); the text written by to_iso_datetime is read back to the same fields, microseconds "
        "and offset for every valid date-time and every whole-minute offset (datetime_roundtrip, "
        "datetime_roundtrip_instant); the tick conversions are floor divisions, monotone (tc_mono) and invert "
        "each other to within one tick for timescales <= 10^6 (tc_roundtrip_partial, td_roundtrip, with the "
        "general loss bound tc_roundtrip_general and a decide-d counterexample at timescale 10^7). The "
        "hand-written model is tied to the code on every run by differential correspondence channels "
        "(isodur / isodurf / isoparse / isodt / tcconv / tdconv) and the property text is evaluated on the real "
        "functions by independent xs:duration / xs:dateTime readers."),
    "level_note": (
        "Trusted: Lean kernel (+propext, Classical.choice, Quot.sound); the correspondence harness and compiled "
        "driver; IEEE-754 double arithmetic of CPython and of Lean Float for the millisecond rounding step; the "
        "deterministic reading of the two regular expressions (argued in the model, exercised by the isoparse "
        "channel with valid, mutated and malformed texts); ASCII digits only; |offset| < 24 h in whole minutes; "
        "durations < 2^32 s given as microsecond-granular values. Known finding D3 (timescale > 10^6) is a "
        "representation limit recorded in the ledger."),
    "technique": "Lean 4 proof (list/digit lemmas, omega) + model/implementation correspondence + independent-reader oracle",
}
PROP_FILES = ["DashLive/Props/C19.lean", "DashLive/Props/GenTie.lean"]
LEAN_TARGETS = ["DashLive.Props.C19", "DashLive.Props.GenTie"]


def _gen_arith():
    """Gen/Arith.lean is translated from /repo's source text; Props/GenTie.lean ties it to the model"""
    import gen_arith
    gen_arith.main()

GENERATORS = [_gen_arith]
TRUSTED = [
    "IEEE-754 double arithmetic (CPython float, Lean Float) for int((secs - floor(secs)) * 1000 + 0.5); the driver's "
    "Float re-implementation is compared bit-for-bit input by input (channel isodurf) and its result is checked "
    "against the hypothesis `Admissible` of duration_roundtrip on every float case",
    "duration_re / date_time_re / FixedOffsetTimeZone.tzinfo_re read as deterministic greedy recognisers "
    "(Python `re` backtracking cannot find another match: every \\d+ is followed by a non-digit literal)",
    "CPython datetime/timedelta (isoformat(), constructor range checks, timedelta(seconds=float) rounding to the "
    "nearest microsecond)",
    "harness/c19_oracle.py: independent xs:duration / xs:dateTime scanners and day count used by the oracle",
]
ASSUMPTIONS = [
    "a duration case encodes the value whole + micros/10^6 s exactly; the float form passes the nearest double, "
    "so on an exact tie (micros = 500 mod 1000) either neighbouring millisecond is accepted (both are 500 us away)",
    "durations below 2^32 s (136 years): beyond that a double no longer resolves microseconds",
    "date-times: years 1..9999, offsets in whole minutes with |offset| < 24 h (what isoformat() accepts), or naive "
    "(written with Z by to_iso_datetime, hence read back as UTC: compared as offset 0)",
    "ASCII text only (Python's \\d, int() and float() also accept other Unicode digits: not modelled, not generated)",
    "texts without 'T' that do not start with 'P' take the strptime branches of from_isodatetime: outside C19, the "
    "model answers `other` and the case is not compared",
    "'within one tick' for timedelta -> timecode -> timedelta is measured at timedelta's 1 us resolution: "
    "(d - d') * timescale < 10^6 + timescale (DESIGN 7 C19); in the tick domain the loss is <= 1 tick (td_roundtrip_ticks)",
    "timecode -> timedelta -> timecode is only claimed for timescale <= 10^6 (ledger D3-timescale-above-1MHz)",
]

US = datetime.timedelta(microseconds=1)
MIN = datetime.timedelta(minutes=1)
TWO32 = 2 ** 32


# ------------------------------------------------------------------ real code

_impl = None


def impl():
    """the real functions, imported lazily from the tree under test"""
    global _impl
    if _impl is None:
        from dashlive.utils import date_time as dt
        from dashlive.utils import timezone as tz
        from dashlive.utils import objects as ob
        try:
            from dashlive.server import template_tags as tt
        except Exception:  # the filters are thin wrappers; the utils route still runs
            tt = None
        _impl = (dt, tz, ob, tt)
    return _impl


def exc_kind(e: BaseException) -> str:
    # "the text is rejected": ValueError, or OverflowError when a field does not fit a C int / a timedelta
    return "err" if isinstance(e, (ValueError, OverflowError)) else f"exc:{type(e).__name__}"


def canon_value(v) -> str:
    """canonical form of what from_isodatetime returned"""
    if v is None:
        return "none"
    if isinstance(v, datetime.timedelta):
        return f"dur {v // US}"
    if isinstance(v, datetime.datetime):
        if v.tzinfo is None:
            off = "naive"
        else:
            o = v.tzinfo.utcoffset(None)
            off = str(o // MIN) if o % MIN == datetime.timedelta(0) else f"sub-minute:{o}"
        return f"dt {v.year} {v.month} {v.day} {v.hour} {v.minute} {v.second} {v.microsecond} {off}"
    return "other"


def parse_real(text: str):
    dt = impl()[0]
    try:
        return dt.from_isodatetime(text), None
    except Exception as e:  # noqa: BLE001
        return None, exc_kind(e)


def hex_of(text: str) -> str:
    return text.encode("ascii").hex() or "-"


# ------------------------------------------------------------------ durations

DUR_ROUTES = ("utils", "filter", "flatten", "as_python")


def dur_argument(whole: int, us: int, form: str):
    dec = f"{whole}.{us:06d}"
    if form == "float":
        return float(dec)                        # nearest double to the decimal value
    if form == "str":
        return dec
    # legal but unusual spellings of the same number (float() reads them all to the same double)
    if form == "str-short":
        return dec.rstrip("0").rstrip(".") or "0"
    if form == "str-padded":
        return f" +00{dec} "
    if form == "str-exp":
        return f"{whole}{us:06d}e-6" if whole else f"{us}e-6"
    if form == "int" and us == 0:
        return whole
    return datetime.timedelta(seconds=whole, microseconds=us)


STR_FORMS = ("str", "str-short", "str-padded", "str-exp")


def render_duration(whole: int, us: int, form: str, route: str) -> str:
    dt, _, ob, tt = impl()
    arg = dur_argument(whole, us, form)
    if route == "filter" and tt is not None:
        return tt.isoDuration(arg)
    if route == "flatten" and form == "timedelta":
        return ob.flatten(arg)
    if route == "as_python" and form == "timedelta":
        s = ob.as_python(arg)
        pre, post = 'utils.from_isodatetime("', '")'
        if not (s.startswith(pre) and s.endswith(post)):
            raise AssertionError(f"as_python wrapper changed: {s!r}")
        return s[len(pre):-len(post)]
    return dt.toIsoDuration(arg)


def oracle_isodur(whole: int, us: int, text, back) -> list[str]:
    """C19, duration clause, on one rendered text and its parse-back"""
    v = whole * 1000000 + us
    fails = []
    if not isinstance(text, str):
        return [f"toIsoDuration did not return text: {text!r}"]
    try:
        f = orc.read_duration(text)
    except orc.Lexical as e:
        fails.append(f"text {text!r} is not a valid xs:duration ({e})")
    else:
        if f.get("minutes", 0) >= 60:
            fails.append(f"minutes field of {text!r} is not below 60")
        if f.get("seconds", 0) >= 60:
            fails.append(f"seconds field of {text!r} is not below 60")
        try:
            val = orc.duration_micros(f)
            if abs(val - v) > 500:
                fails.append(f"text {text!r} denotes {float(val) / 1e6:.6f} s, more than 0.5 ms from {v / 1e6:.6f} s")
        except orc.Lexical as e:
            fails.append(f"text {text!r}: {e}")
    value, err = back
    if err is not None:
        fails.append(f"from_isodatetime({text!r}) raised {err}")
    elif not isinstance(value, datetime.timedelta):
        fails.append(f"from_isodatetime({text!r}) is not a timedelta: {value!r}")
    elif abs(value // US - v) > 500 or value % US:
        fails.append(f"from_isodatetime({text!r}) = {value // US} us, more than 500 us from {v} us")
    return fails


def run_isodur(case):
    whole, us, form, route = case
    try:
        text = render_duration(whole, us, form, route)
    except Exception as e:  # noqa: BLE001
        return None, (None, exc_kind(e)), [f"toIsoDuration raised {type(e).__name__}: {e}"]
    back = parse_real(text) if isinstance(text, str) else (None, "err")
    return text, back, oracle_isodur(whole, us, text, back)


def isodur_failure(case, fails, text=None):
    whole, us, form, route = case
    return {"kind": "isodur", "input": {"whole": whole, "micros": us, "form": form, "route": route},
            "what": fails, "text": text}


def shrink_isodur(case):
    whole, us, form, route = case
    best = case
    for w in (0, whole % 60, whole % 3600, whole % 86400):
        for r in ("utils", route):
            cand = (w, us, form, r)
            if cand < best and run_isodur(cand)[2]:
                best = cand
    return best


WHOLES = [0, 1, 5, 9, 10, 59, 60, 61, 599, 3599, 3600, 3601, 3659, 35999, 86399, 86400, 359999, 360000,
          31535999, 31536000, 2 ** 31 - 1, 2 ** 31, 2 ** 31 + 1, 3155760000, 2 ** 32 - 1]
US_EDGES = [0, 1, 499, 500, 501, 999, 1000, 1499, 1500, 1501, 100000, 499999, 500000, 500500, 560000,
            7300, 7800, 998499, 998500, 999499, 999500, 999501, 999600, 999999]
EXHAUSTIVE_WHOLES = [0, 59, 3599, 86399, 31535999]


def gen_isodur(rng, n):
    forms = ("float", "str", "timedelta")
    out = []
    for w in WHOLES:                      # every edge fraction against every representative whole part
        for i, u in enumerate(US_EDGES):
            out.append((w, u, forms[(i + w) % 3], "utils"))
    # zero and the rounding / carry edges in every form and spelling (falsy values, unusual spellings)
    for w in (0, 5, 59, 3599):
        for u in (0, 500, 1500, 999499, 999500, 999999):
            for f in ("float", "timedelta", "int") + STR_FORMS:
                if f != "int" or u == 0:
                    out.append((w, u, f, "utils"))
    while len(out) < n:
        k = rng.random()
        if k < .35:
            whole = rng.choice(WHOLES)
        elif k < .7:
            whole = int(10 ** rng.uniform(0, 9.49))        # log-uniform up to ~100 years
        else:
            whole = rng.randrange(0, 200000)
        k = rng.random()
        if k < .15:
            us = rng.randrange(0, 1000) * 1000 + 500       # exact ties
        elif k < .3:
            us = rng.randrange(999000, 1000000)            # carry region
        elif k < .4:
            us = rng.choice(US_EDGES)
        elif k < .5:
            us = rng.randrange(0, 1000) * 1000             # whole milliseconds
        else:
            us = rng.randrange(0, 1000000)
        form = rng.choice(forms)
        if form == "str" and rng.random() < .4:
            form = rng.choice(STR_FORMS)
        if us == 0 and rng.random() < .3:
            form = "int"
        route = rng.choice(DUR_ROUTES if form == "timedelta" else DUR_ROUTES[:2])
        out.append((min(whole, TWO32 - 1), us, form, route))
    return out


def double_bits(x: float) -> int:
    return struct.unpack("<Q", struct.pack("<d", x))[0]


def eval_isodur(cases, ch: Channel, keys, sample=True):
    """one batch of duration cases: real code, oracle, three model channels"""
    reals = [run_isodur(c) for c in cases]
    lines = [f"isodur {c[0]} {c[1]}" for c in cases]
    fidx = [i for i, c in enumerate(cases) if c[2] == "float"]
    lines += [f"isodurf {double_bits(dur_argument(*cases[i][:3]))}" for i in fidx]
    pidx = [i for i, r in enumerate(reals) if isinstance(r[0], str) and r[0].isascii()]
    lines += [f"isoparse {hex_of(reals[i][0])}" for i in pidx]
    try:
        model = common.run_driver(lines)
    except Exception as e:  # noqa: BLE001
        ch.errors.append(f"driver: {e}")
        return
    n = len(cases)
    m_set, m_float, m_parse = model[:n], model[n:n + len(fidx)], model[n + len(fidx):]
    fmap = dict(zip(fidx, m_float))
    pmap = dict(zip(pidx, m_parse))
    for i, (c, (text, back, fails)) in enumerate(zip(cases, reals)):
        whole, us, form, route = c
        ch.evaluations += 1
        tie = us % 1000 == 500
        carry = us >= 999500
        ch.count(f"form={form}")
        ch.count(f"route={route}")
        ch.count("fraction=" + ("tie" if tie else "whole-ms" if us % 1000 == 0 else "rounds"))
        if carry:
            ch.count("carry-into-seconds")
            if whole % 60 == 59:
                ch.count("carry-into-minutes")
            if whole % 3600 == 3599:
                ch.count("carry-into-hours")
        ch.count("magnitude=" + ("<1min" if whole < 60 else "<1h" if whole < 3600 else "<1d" if whole < 86400
                                  else "<1y" if whole < 31536000 else ">=1y"))
        if us % 1000 != 0 or carry:
            keys.add(c)
        if fails:
            mini = shrink_isodur(c)
            t2, _, f2 = run_isodur(mini)
            ch.oracle_failures.append(isodur_failure(mini, f2 or fails, t2))
        admissible = m_set[i].split("|")
        if text not in admissible:
            ch.disagreements.append({"kind": "isodur", "input": isodur_failure(c, [])["input"],
                                     "model": admissible, "impl": text})
        if i in fmap:
            parts = fmap[i].split(" ")
            if len(parts) != 3 or parts[0] != text:
                ch.disagreements.append({"kind": "isodurf", "input": isodur_failure(c, [])["input"],
                                         "model": fmap[i], "impl": text})
            else:
                mw, ms = int(parts[1]), int(parts[2])
                # the hypothesis of duration_roundtrip, checked on the float front end
                if mw != whole or not (1000 * ms <= us + 500 and us <= 1000 * ms + 500):
                    ch.disagreements.append({"kind": "isodurf-front-end-spec",
                                             "input": isodur_failure(c, [])["input"],
                                             "model": fmap[i], "note": "float front end outside `Admissible`"})
        if i in pmap:
            got = back[1] if back[1] is not None else canon_value(back[0])
            if pmap[i] != got:
                ch.disagreements.append({"kind": "isoparse", "input": {"text": text}, "model": pmap[i], "impl": got})
        if sample and (tie or carry or i % 997 == 0):
            ch.sample({"input": isodur_failure(c, [])["input"], "text": text, "model_admissible": admissible,
                       "parsed_back_us": (back[0] // US) if isinstance(back[0], datetime.timedelta) else back[1]},
                      limit=6)


class KeySet:
    """distinct non-trivial case keys: a set for sampled cases plus a byte map for the
    exhaustive grid (whole part index x microsecond fraction), never double counted"""

    def __init__(self, grid_rows: int = 0):
        self.s: set = set()
        self.grid = bytearray(grid_rows * 1000000)
        self.n_grid = 0

    def add(self, key):
        self.s.add(key)

    def add_grid(self, row: int, us: int, key):
        if key in self.s:
            return
        i = row * 1000000 + us
        if not self.grid[i]:
            self.grid[i] = 1
            self.n_grid += 1

    def __len__(self):
        return len(self.s) + self.n_grid


class _GridAdder:
    def __init__(self, ks: KeySet, row: int):
        self.ks, self.row = ks, row

    def add(self, key):
        self.ks.add_grid(self.row, key[1], key)


def bits_double(b: int) -> float:
    return struct.unpack("<d", struct.pack("<Q", b))[0]


RAW_SLACK = Fraction(1, 1000)     # 1 ns, in microseconds: far above double noise, far below any rounding step


def run_rawfloat(bits: int):
    """toIsoDuration of an arbitrary double (not microsecond-granular): the value is the double itself"""
    x = bits_double(bits)
    v = Fraction(x) * 1000000
    dt = impl()[0]
    try:
        text = dt.toIsoDuration(x)
    except Exception as e:  # noqa: BLE001
        return None, [f"toIsoDuration({x!r}) raised {type(e).__name__}: {e}"]
    fails = []
    if not isinstance(text, str):
        return text, [f"toIsoDuration did not return text: {text!r}"]
    try:
        f = orc.read_duration(text)
        if f.get("minutes", 0) >= 60 or f.get("seconds", 0) >= 60:
            fails.append(f"minutes / seconds field of {text!r} is not below 60")
        val = orc.duration_micros(f)
        if abs(val - v) > 500 + RAW_SLACK:
            fails.append(f"text {text!r} is more than 0.5 ms from {x!r} s")
    except orc.Lexical as e:
        fails.append(f"text {text!r} is not a valid xs:duration ({e})")
    value, err = parse_real(text)
    if err is not None or not isinstance(value, datetime.timedelta):
        fails.append(f"from_isodatetime({text!r}) gave {err or value!r}")
    elif abs(value // US - v) > 500 + RAW_SLACK:
        fails.append(f"from_isodatetime({text!r}) = {value // US} us, more than 500 us from {x!r} s")
    return text, fails


RAW_FLOATS = [0.1, 0.2 + 0.1, 1 / 3, 2 / 3, 0.0005, 0.0015, 0.0025, 1e-7, 4.9995, 0.9995, 59.9995, 3599.9995,
              1e-9, 5e-324, 2.0 ** -20, 123456.789, math.pi, 1e9 + 0.0005, 2.0 ** 32 - 0.5, 2.0 ** 31 + 0.9996,
              0.9994999999999999, 0.9995000000000001, 0.49999999999999994, 1 - 2.0 ** -53, 5.0, 1e-300,
              0.29999999999999993, 86399.9995, 2.0 ** 53 / 2 ** 22 + 0.25, 1.0005, 1.9999999999999998]


def eval_rawfloat(rng, n, ch: Channel, keys):
    xs = list(RAW_FLOATS)
    for x in list(xs):                              # the doubles next to each one
        xs += [math.nextafter(x, 0.0), math.nextafter(x, math.inf)]
    while len(xs) < n:
        k = rng.random()
        if k < .4:
            xs.append(rng.random() * 10 ** rng.uniform(-3, 9))
        elif k < .6:
            xs.append(rng.randrange(0, 10 ** 6) / rng.choice([3, 7, 9, 11, 13, 1001]))
        else:                                       # doubles around a rounding half-way point
            x = (rng.randrange(0, 10 ** rng.randrange(1, 9)) + 0.5) / 1000
            for _ in range(rng.randrange(0, 3)):
                x = math.nextafter(x, rng.choice([0.0, math.inf]))
            xs.append(x)
    xs = [x for x in xs if 0 <= x < TWO32]
    try:
        model = common.run_driver([f"isodurf {double_bits(x)}" for x in xs])
    except Exception as e:  # noqa: BLE001
        ch.errors.append(f"driver: {e}")
        return
    for x, mo in zip(xs, model):
        ch.evaluations += 1
        ch.count("form=raw-double")
        bits = double_bits(x)
        text, fails = run_rawfloat(bits)
        if (Fraction(x) * 1000000).denominator != 1:
            keys.add(("raw", bits))
        if fails:
            ch.oracle_failures.append({"kind": "isodur-raw", "input": {"bits": bits, "value": repr(x)},
                                       "what": fails, "text": text})
        if mo.split(" ")[0] != text:
            ch.disagreements.append({"kind": "isodur-raw", "input": {"bits": bits, "value": repr(x)},
                                     "model": mo, "impl": text})


def channel_isodur(ctx):
    ch = Channel("isodur", rule=(
        "durations whole + micros/10^6 s given as float / str / timedelta to toIsoDuration (directly, via the "
        "isoDuration filter, via objects.flatten / as_python): text must be in the model's admissible set "
        "(isodur), equal the Float re-implementation bit for bit (isodurf, which must also satisfy `Admissible`), "
        "and parse back identically in model and code (isoparse); oracle = independent xs:duration reader. "
        "Also int arguments and unusual spellings of str arguments (trimmed zeros, sign/zeros/blanks, exponent), "
        "arbitrary doubles (1/3, 0.1+0.2, neighbours of rounding half-way points, 5e-324 .. 2^32; value = the "
        "double itself, isodurf bit for bit), and the first 3000 cases re-issued in reverse order at the end. "
        "Representative whole parts x edge fractions, then seeded: 15 % exact ties, 15 % carry region, "
        "log-uniform magnitudes up to 100 years; thorough adds every one of the 10^6 microsecond fractions for "
        f"whole parts {EXHAUSTIVE_WHOLES}. non-trivial = the fraction is not a whole millisecond or carries; "
        "distinct by (whole, micros, form, route)"))
    ks = KeySet(len(EXHAUSTIVE_WHOLES) if ctx.thorough else 0)
    ch.nontrivial = ks
    if impl()[3] is None:
        ch.count("template_tags not importable: filter route falls back to utils")
    rng = ctx.rng("isodur")
    cases = gen_isodur(rng, ctx.scale(20000, 100000))
    eval_isodur(cases, ch, ks)
    eval_rawfloat(rng, ctx.scale(3000, 30000), ch, ks)
    # the same calls again, later and in reverse order: the answer may not depend on what came before
    eval_isodur(list(reversed(cases[:3000])), ch, ks, sample=False)
    ch.count("re-issued-in-reverse-order", 3000)
    if ctx.thorough:
        forms = ("float", "str", "timedelta")
        for row, whole in enumerate(EXHAUSTIVE_WHOLES):
            for lo in range(0, 1000000, 250000):
                cases = [(whole, us, forms[(us + row) % 3], "utils") for us in range(lo, lo + 250000)]
                eval_isodur(cases, ch, _GridAdder(ks, row), sample=False)
        ch.count("exhaustive-microsecond-grids", len(EXHAUSTIVE_WHOLES))
    return ch


# ------------------------------------------------------------------ from_isodatetime on arbitrary text

ALPHABET = "0123456789PTYMDHS:.Z+- \n"


def _num(rng, maxdigits=5):
    k = rng.random()
    if k < .5:
        s = str(rng.randrange(0, 100))
    elif k < .8:
        s = str(rng.randrange(0, 10 ** rng.randrange(1, maxdigits + 1)))
    else:
        s = rng.choice(["0", "00", "01", "007", "59", "60", "24", "99"])
    return s


def _fraction(rng, maxdigits):
    n = rng.choice([0, 1, 1, 2, 3, 3, 6, 6, maxdigits, rng.randrange(0, maxdigits + 1)])
    f = "".join(rng.choice("0123456789") for _ in range(n))
    if n > 6:
        tail = f[6:]
        if int(tail) * 2 == 10 ** len(tail):       # an exact half microsecond: float-dependent, not generated
            f = f[:-1] + "1"
    return f


def gen_duration_text(rng):
    parts = ["P"]
    big = rng.random() < .25
    if big:
        for u in "YMD":
            if rng.random() < .5:
                parts.append(_num(rng) + u)
    parts.append("T")
    colon = rng.random() < .25
    if rng.random() < .6:
        parts.append((_num(rng, 2) if not big else _num(rng)) + (":" if colon else "H"))
    if rng.random() < .6:
        parts.append(_num(rng, 3) + (":" if colon and rng.random() < .8 else "M"))
    k = rng.random()
    if k < .8:
        sec = _num(rng, 3)
        if rng.random() < .6:
            frac = _fraction(rng, 6 if big else 9)
            sec = rng.choice([sec, sec, sec, ""]) + "." + frac
        parts.append(sec + ("" if (colon and rng.random() < .7) or rng.random() < .05 else "S"))
    return "".join(parts)


def gen_datetime_text(rng):
    if rng.random() < .6:            # mostly-valid stream: every field in range
        y = rng.choice([1, 9, 99, 1970, 2000, 2023, 2024, 9999, rng.randrange(1, 10000)])
        mo = rng.randrange(1, 13)
        d = rng.randrange(1, 29)
        h, mi, s = rng.randrange(24), rng.randrange(60), rng.randrange(60)
    else:                            # field boundaries, just inside and just outside
        y = rng.choice([1, 9, 99, 1970, 2000, 2023, 2024, 9999, 10000, 0, rng.randrange(1, 10000)])
        mo = rng.choice([1, 2, 12, 13, 0, rng.randrange(1, 13)])
        d = rng.choice([1, 28, 29, 30, 31, 32, 0, rng.randrange(1, 29)])
        h = rng.choice([0, 23, 24, rng.randrange(0, 24)])
        mi = rng.choice([0, 59, 60, rng.randrange(0, 60)])
        s = rng.choice([0, 59, 60, 61, rng.randrange(0, 60)])
    pad = rng.random() < .8

    def f(v, w):
        return f"{v:0{w}d}" if pad else str(v)
    sec = f(s, 2)
    k = rng.random()
    if k < .55:
        sec += "." + _fraction(rng, 9)
    elif k < .6:
        sec = "." + _fraction(rng, 6)
    elif k < .63:
        sec += ".5.5"
    k = rng.random()
    if k < .3:
        tz = "Z"
    elif k < .45:
        tz = ""
    elif k < .85:
        oh, om = rng.choice([(0, 0), (5, 30), (14, 0), (23, 59), (24, 0), (99, 99), (1, 0), (rng.randrange(24), rng.randrange(60))])
        tz = rng.choice("+-") + (f"{oh:02d}:{om:02d}" if rng.random() < .8 else f"{oh}:{om}")
    else:
        tz = rng.choice(["z", "+05", "+0530", "-5", "+05:", "+:30", "UTC", "+05:30Z", "ZZ"])
    return f"{f(y, 4)}-{f(mo, 2)}-{f(d, 2)}T{f(h, 2)}:{f(mi, 2)}:{sec}{tz}"


def mutate(rng, t):
    for _ in range(rng.choice([1, 1, 2])):
        k = rng.randrange(5)
        i = rng.randrange(len(t) + 1)
        c = rng.choice(ALPHABET)
        if k == 0 and t:
            i = min(i, len(t) - 1)
            t = t[:i] + t[i + 1:]
        elif k == 1:
            t = t[:i] + c + t[i:]
        elif k == 2 and t:
            i = min(i, len(t) - 1)
            t = t[:i] + c + t[i + 1:]
        elif k == 3 and t:
            i = min(i, len(t) - 1)
            t = t[:i] + t[i] + t[i:]
        elif len(t) > 1:
            i = min(i, len(t) - 2)
            t = t[:i] + t[i + 1] + t[i] + t[i + 2:]
    return t


FIXED_TEXTS = [
    "", "P", "PT", "PT0S", "PT5S\n", "PT5S\n\n", "PT5MS", "PT.S", "PT1.2.3S", "PT5.", "PT.5", "PT5", "PT1:2", "PT1:2:3",
    "PT01:45:19", "PT1:", "PT1H", "PT2M", "P5M", "P1Y2M3DT4H5M6.789S", "P0Y0M0DT0H18M28.976S", "PT14H00M00S", "T5S", "pt5s",
    "PT1H2M5.05S", "PT0.0000004S", "PT0.0000006S", "P1D", "PT1M0.00S", "PTS", "PT5SS", "PT5S ", " PT5S",
    "2009-02-27T10:00:00Z", "2022-09-21T15:35:31.541000+00:00", "2022-10-18T14:22:24", "2013-07-25T09:57:31.123Z",
    "2023-07-25T12:34:56.000001+05:30", "2023-07-25T12:34:56.1234567Z", "2023-07-25T12:34:56.9999999-00:00",
    "2023-07-25T12:34:56.Z", "2023-07-25T12:34:.5Z", "2023-07-25T12:34:.Z", "2023-07-25T12:34:56.5.5Z",
    "2023-02-29T00:00:00Z", "2024-02-29T00:00:00Z", "1900-02-29T00:00:00Z", "2000-02-29T00:00:00Z",
    "2023-07-25T24:00:00Z", "2023-07-25T12:34:60Z", "0000-01-01T00:00:00Z", "10000-01-01T00:00:00Z",
    "2023-07-25T12:34:56Z\n", "2023-07-25T12:34:56+99:99", "2023-7-5T1:2:3Z", "2023-07-25T12:34:56z",
    "2023-07-25", "12:34:56Z", "25/07/2023", "T", "Z", "2023-07-25T", "2023-07-25T12:34:56+05:30:15",
]


FIXED_TEXTS += [
    # zone spellings
    "2023-07-25T12:34:56-03:30", "2023-07-25T12:34:56-00:30", "2023-07-25T12:34:56+12:45", "2023-07-25T12:34:56+14:00",
    "2023-07-25T12:34:56-14:00", "2023-07-25T12:34:56+15:00", "2023-07-25T12:34:56-23:59", "2023-07-25T12:34:56+24:00",
    "2023-07-25T12:34:56-00:00", "2023-07-25T12:34:56+0:0", "2023-07-25T12:34:56+00:60", "2023-07-25T12:34:56 05:30",
    "2023-07-25T12:34:56%2B05:30", "2023-07-25T12:34:56.25-03:30", "2023-07-25T12:34:56.499999+12:45",
    # text that looks like something else
    "0x1F", "true", "null", "None", "none", "now", "epoch", "{0}", "{start}", "%50T5S", "P%54", "&nbsp;", "&#0;", "PT5S&", "PT5S;",
    "PT1=2S", "P T5S", "PT 5S", "PT5 S", "PT+5S", "PT-5S", "-PT5S", "PT5e0S", "PT0x5S", "PT5_0S", "PT5,5S", "PT1H2M3S4",
    "1T", "T1", "P1T", "PT1T", "2023-07-25T12:34:56ZPT5S", "PT5S2023-07-25T12:34:56Z", "\n", "P\n", "PT\n", "PT5S\r\n", "\x00PT5S",
    # sizes: 1 KB, 4096 +- 1, 64 KB of digits / fraction digits / junk
    "PT" + "0" * 1024 + "5S", "PT5." + "1" * 1024 + "S", "PT" + "9" * 4095 + "S", "PT" + "9" * 4096 + "S", "PT" + "9" * 4097 + "S",
    "P" + "1" * 4301 + "Y", "PT0." + "0" * 65536 + "1S", "PT" + ":" * 1024, "P" + "T" * 4097,
    "2023-07-25T12:34:56." + "1" * 4097 + "Z", "2023-07-25T12:34:56." + "9" * 65536, "0" * 4096 + "2023-07-25T12:34:56Z",
    "2023-07-25T12:34:56+" + "0" * 4097 + ":00", "9" * 4301 + "-07-25T12:34:56Z",
]


def gen_texts(rng, n):
    out = list(FIXED_TEXTS)
    while len(out) < n:
        k = rng.random()
        if k < .3:
            out.append(gen_duration_text(rng))
        elif k < .55:
            out.append(gen_datetime_text(rng))
        elif k < .75:
            out.append(mutate(rng, gen_duration_text(rng)))
        elif k < .93:
            out.append(mutate(rng, gen_datetime_text(rng)))
        else:
            out.append("".join(rng.choice(ALPHABET) for _ in range(rng.randrange(0, 12))))
    return out


def model_dur(mo: str) -> int:
    """microseconds of a model answer `dur <n>` (very long numerals only need their magnitude)"""
    d = mo.split(" ")[1]
    return int(d) if len(d) <= 60 else 10 ** 60


def channel_isoparse(ctx):
    ch = Channel("isoparse", rule=(
        "from_isodatetime on ASCII texts: fixed edge list, generated durations (all of duration_re: Y/M/D, H/M/S "
        "and colon forms, 0-9 fraction digits, missing S) and date-times (unpadded fields, out-of-range fields, "
        "fractions, zones Z / none / +-h:mm / malformed), 1-2 character mutations of those, random strings over "
        "the alphabet; result canonicalised to none / err / dur us / dt fields offset. non-trivial = the text is "
        "accepted (a duration or date-time value) or is a mutation/malformed text that is rejected; distinct by text"))
    rng = ctx.rng("isoparse")
    texts = gen_texts(rng, ctx.scale(30000, 300000))
    try:
        model = common.run_driver([f"isoparse {hex_of(t)}" for t in texts])
    except Exception as e:  # noqa: BLE001
        ch.errors.append(f"driver: {e}")
        return ch
    for t, mo in zip(texts, model):
        ch.evaluations += 1
        value, err = parse_real(t)
        got = err if err is not None else canon_value(value)
        kind = mo.split(" ")[0]
        ch.count(f"model={kind}")
        if mo == "other":
            ch.count("strptime-branch-not-compared")
            continue
        if kind == "dur" and "." in t:
            # the parser adds the seconds as a double: exact only inside the assumed domain
            us = model_dur(mo)
            frac = t.split(".", 1)[1].rstrip("S\n")
            digits = len(frac)
            half = digits > 6 and frac[6] == "5" and set(frac[7:]) <= {"0"}
            if us >= TWO32 * 1000000 or (digits > 6 and us >= 2 ** 20 * 1000000) or half:
                ch.count("fraction-on-a-value-beyond-double-resolution-not-compared")
                continue
        if kind == "dur" and model_dur(mo) >= 10 ** 9 * 86400 * 1000000:
            ch.count("beyond-timedelta-range-not-compared")     # OverflowError of timedelta: not modelled
            continue
        if kind in ("dur", "dt", "err"):
            ch.nontrivial.add(t)
        if mo != got:
            ch.disagreements.append({"kind": "isoparse", "input": {"text": t}, "model": mo, "impl": got})
        if kind in ("dur", "dt") and ch.evaluations % 7 == 0:
            ch.sample({"text": t, "result": got}, limit=5)
    return ch


# ------------------------------------------------------------------ date-times

DT_ROUTES = ("utils", "filter", "flatten", "as_python")
EPOCH_AWARE = datetime.datetime(1970, 1, 1, tzinfo=datetime.timezone.utc)
EPOCH_NAIVE = datetime.datetime(1970, 1, 1)


def build_datetime(case):
    y, mo, d, h, mi, s, us, off, tzkind, _route = case
    _, tz, _, _ = impl()
    if off is None:
        tzinfo = None
    elif tzkind == "utc" and off == 0:
        tzinfo = tz.UTC()
    elif tzkind == "fixed":
        tzinfo = tz.FixedOffsetTimeZone(f"{'-' if off < 0 else '+'}{abs(off) // 60:02d}:{abs(off) % 60:02d}")
    else:
        tzinfo = datetime.timezone(datetime.timedelta(minutes=off))
    return datetime.datetime(y, mo, d, h, mi, s, us, tzinfo=tzinfo)


def instant_of(d: datetime.datetime) -> int:
    return (d - (EPOCH_NAIVE if d.tzinfo is None else EPOCH_AWARE)) // US


def render_datetime(d, route):
    dt, _, ob, tt = impl()
    if route == "filter" and tt is not None:
        return tt.isoDateTime(d)
    if route == "flatten":
        return ob.flatten(d)
    if route == "as_python":
        s = ob.as_python(d)
        pre, post = 'utils.from_isodatetime("', '")'
        if not (s.startswith(pre) and s.endswith(post)):
            raise AssertionError(f"as_python wrapper changed: {s!r}")
        return s[len(pre):-len(post)]
    return dt.to_iso_datetime(d)


def oracle_isodt(d: datetime.datetime, text, back) -> list[str]:
    """C19, date-time clause"""
    fails = []
    want_off = 0 if d.tzinfo is None else d.utcoffset() // MIN
    want_instant = instant_of(d)
    if not isinstance(text, str):
        return [f"to_iso_datetime did not return text: {text!r}"]
    try:
        p = orc.read_datetime(text)
    except orc.Lexical as e:
        fails.append(f"text {text!r} is not a valid ISO-8601 date-time ({e})")
    else:
        if p["instant"] != want_instant:
            fails.append(f"text {text!r} denotes another instant ({p['instant']} us, wanted {want_instant} us)")
        if (p["offset"] or 0) != want_off or (p["offset"] is None):
            fails.append(f"text {text!r} carries offset {p['offset']} min, wanted {want_off}")
        if p["fraction"] * 1000000 != d.microsecond:
            fails.append(f"text {text!r} carries fraction {p['fraction']}, wanted {d.microsecond} us")
    value, err = back
    if err is not None:
        fails.append(f"from_isodatetime({text!r}) raised {err}")
    elif not isinstance(value, datetime.datetime):
        fails.append(f"from_isodatetime({text!r}) is not a datetime: {value!r}")
    else:
        try:
            got_off = None if value.tzinfo is None else value.utcoffset() // MIN
            got_instant = instant_of(value)
        except Exception as e:  # noqa: BLE001
            fails.append(f"parsed value unusable: {type(e).__name__}: {e}")
        else:
            if got_off != want_off:
                fails.append(f"from_isodatetime({text!r}) has offset {got_off} min, wanted {want_off}")
            if got_instant != want_instant:
                fails.append(f"from_isodatetime({text!r}) is {got_instant - want_instant} us away from the original instant")
            if value.microsecond != d.microsecond:
                fails.append(f"from_isodatetime({text!r}) has microsecond {value.microsecond}, wanted {d.microsecond}")
    return fails


def run_isodt(case):
    try:
        d = build_datetime(case)
    except Exception as e:  # noqa: BLE001
        return None, None, (None, "err"), [f"case could not be built: {e}"]
    try:
        text = render_datetime(d, case[9])
    except Exception as e:  # noqa: BLE001
        return d, None, (None, exc_kind(e)), [f"to_iso_datetime raised {type(e).__name__}: {e}"]
    back = parse_real(text) if isinstance(text, str) else (None, "err")
    try:
        # read-only calls between the checked operations: they may not change what follows
        for x in (d, back[0]):
            if isinstance(x, datetime.datetime) and x.tzinfo is not None:
                repr(x.tzinfo), str(x), x.tzname(), x.dst(), x.tzinfo.utcoffset(None)
    except Exception:  # noqa: BLE001 (a zone the standard library refuses is judged by the oracle below)
        pass
    return d, text, back, oracle_isodt(d, text, back)


def isodt_input(case):
    y, mo, d, h, mi, s, us, off, tzkind, route = case
    return {"year": y, "month": mo, "day": d, "hour": h, "minute": mi, "second": s, "micro": us,
            "offset": off, "tz": tzkind, "route": route}


def isodt_case(j):
    return (j["year"], j["month"], j["day"], j["hour"], j["minute"], j["second"], j["micro"],
            j["offset"], j.get("tz", "std"), j.get("route", "utils"))


def shrink_isodt(case):
    cur = list(case)
    simple = [2000, 1, 1, 0, 0, 0]
    for i, v in enumerate(simple):
        cand = list(cur)
        cand[i] = v
        if cand != cur and run_isodt(tuple(cand))[3]:
            cur = cand
    for cand in ([*cur[:8], "std", "utils"], [*cur[:7], 0, "std", "utils"]):
        if cand != cur and run_isodt(tuple(cand))[3]:
            cur = cand
    return tuple(cur)


DIM = (31, 28, 31, 30, 31, 30, 31, 31, 30, 31, 30, 31)
OFFSETS = [None, 0, 0, 1, -1, 59, -59, 60, -60, 330, -330, 345, 570, -570, 600, 840, -720, 1439, -1439]
US_DT = [0, 1, 9, 10, 99, 100, 999, 1000, 123456, 500000, 541000, 100000, 999999, 999990, 900000, 3, 7, 29]


# calendar edges: first / last second of a day, month, year; Feb 28/29 -> Mar 1 in leap and non-leap years;
# far past and far future (NTP era 2036-02-07, 2038-01-19, tkhd 2040-02-06)
GRID_MOMENTS = [
    (1, 1, 1, 0, 0, 0), (100, 1, 1, 0, 0, 0), (999, 12, 31, 23, 59, 59), (1479, 6, 15, 12, 0, 0),
    (1900, 2, 28, 23, 59, 59), (1900, 3, 1, 0, 0, 0), (1969, 12, 31, 23, 59, 59), (1970, 1, 1, 0, 0, 0),
    (1999, 12, 31, 23, 59, 59), (2000, 1, 1, 0, 0, 0), (2000, 2, 29, 23, 59, 59), (2000, 3, 1, 0, 0, 0),
    (2023, 2, 28, 23, 59, 59), (2023, 3, 1, 0, 0, 0), (2023, 4, 30, 23, 59, 59), (2023, 5, 1, 0, 0, 0),
    (2023, 7, 25, 12, 34, 56), (2023, 7, 25, 12, 34, 0), (2023, 7, 25, 12, 0, 0), (2023, 7, 25, 0, 0, 0),
    (2024, 2, 28, 23, 59, 59), (2024, 2, 29, 0, 0, 0), (2024, 2, 29, 23, 59, 59), (2024, 3, 1, 0, 0, 0),
    (2024, 12, 31, 23, 59, 59), (2025, 1, 1, 0, 0, 0), (2036, 2, 7, 6, 28, 15), (2036, 2, 7, 6, 28, 16),
    (2038, 1, 19, 3, 14, 7), (2038, 1, 19, 3, 14, 8), (2040, 2, 6, 6, 28, 15), (2100, 2, 28, 23, 59, 59),
    (2100, 3, 1, 0, 0, 0), (9999, 12, 31, 23, 59, 59),
]
GRID_PHASES = [0, 1, 250000, 499999, 500000, 750000, 999999, 100000, 10, 999990]
# naive, UTC, and legal but unusual offsets (-03:30, -00:30, +12:45, +-14:00 and beyond, +-23:59, +-1 min)
GRID_OFFSETS = [None, 0, -210, -30, 765, 840, -840, 900, 1439, -1439, 1, -1, 330, -300]


def grid_isodt():
    out = []
    i = 0
    for m in GRID_MOMENTS:
        for us in GRID_PHASES:
            for off in GRID_OFFSETS:
                tzkind = "naive" if off is None else ("utc", "fixed", "std")[i % 3]
                out.append((*m, us, off, tzkind, DT_ROUTES[i % 4]))
                i += 1
    return out


def gen_isodt(rng, n):
    out = grid_isodt()
    while len(out) < n:
        y = rng.choice([1, 2, 999, 1000, 1900, 1970, 2000, 2023, 2024, 2038, 9999]) if rng.random() < .4 \
            else rng.randrange(1, 10000)
        mo = rng.randrange(1, 13)
        leap = y % 4 == 0 and (y % 100 != 0 or y % 400 == 0)
        dim = DIM[mo - 1] + (1 if mo == 2 and leap else 0)
        d = rng.choice([1, dim, rng.randrange(1, dim + 1)])
        h = rng.choice([0, 23, rng.randrange(24)])
        mi = rng.choice([0, 59, rng.randrange(60)])
        s = rng.choice([0, 59, rng.randrange(60)])
        us = rng.choice(US_DT) if rng.random() < .3 else rng.randrange(1000000)
        off = rng.choice(OFFSETS) if rng.random() < .6 else rng.randrange(-1439, 1440)
        tzkind = "naive" if off is None else rng.choice(["utc", "fixed", "std"])
        out.append((y, mo, d, h, mi, s, us, off, tzkind, rng.choice(DT_ROUTES)))
    return out


def eval_isodt(cases, ch: Channel, keys, sample=True):
    reals = [run_isodt(c) for c in cases]
    lines = [f"isodt {c[0]} {c[1]} {c[2]} {c[3]} {c[4]} {c[5]} {c[6]} {'naive' if c[7] is None else c[7]}" for c in cases]
    pidx = [i for i, r in enumerate(reals) if isinstance(r[1], str) and r[1].isascii()]
    lines += [f"isoparse {hex_of(reals[i][1])}" for i in pidx]
    try:
        model = common.run_driver(lines)
    except Exception as e:  # noqa: BLE001
        ch.errors.append(f"driver: {e}")
        return
    pmap = dict(zip(pidx, model[len(cases):]))
    for i, (c, (d, text, back, fails)) in enumerate(zip(cases, reals)):
        ch.evaluations += 1
        off, us = c[7], c[6]
        ch.count("offset=" + ("naive" if off is None else "zero" if off == 0 else "east" if off > 0 else "west"))
        ch.count("micro=" + ("zero" if us == 0 else "nonzero"))
        ch.count(f"route={c[9]}")
        ch.count(f"tz={c[8]}")
        if us != 0 or off not in (None, 0):
            keys.add(c)
        if fails:
            mini = shrink_isodt(c)
            _, t2, _, f2 = run_isodt(mini)
            ch.oracle_failures.append({"kind": "isodt", "input": isodt_input(mini), "what": f2 or fails, "text": t2})
        want = None if d is None or text is None else f"{text} {instant_of(d)}"
        if model[i] != want:
            ch.disagreements.append({"kind": "isodt", "input": isodt_input(c), "model": model[i], "impl": want})
        if i in pmap:
            got = back[1] if back[1] is not None else canon_value(back[0])
            if pmap[i] != got:
                ch.disagreements.append({"kind": "isoparse", "input": {"text": text}, "model": pmap[i], "impl": got})
        if sample and i % 499 == 0:
            ch.sample({"input": isodt_input(c), "text": text,
                       "parsed_back": back[1] if back[1] is not None else canon_value(back[0])}, limit=5)


def channel_isodt(ctx):
    ch = Channel("isodt", rule=(
        "fixed grid of calendar edges (first/last second of day, month, year; Feb 28/29 -> Mar 1 in leap and "
        "non-leap years; years 1, 100, 1479, 1900, 1970, 2036-02-07, 2038-01-19, 2040-02-06, 2100, 9999) x "
        "sub-second phases .0 .000001 .25 .499999 .5 .75 .999999 x offsets naive, Z, -03:30, -00:30, +12:45, "
        "+-14:00, +15:00, +-23:59, +-00:01 (4760 cases, re-issued in reverse order at the end), then seeded "
        "valid date-times (years 1..9999, month ends, leap days, all field extremes) with microseconds and offsets "
        "naive / 0 / +-1 min .. +-23:59 built with dashlive's UTC and FixedOffsetTimeZone and datetime.timezone, "
        "rendered by to_iso_datetime (directly, isoDateTime filter, objects.flatten / as_python): text and instant "
        "equal the model's (isodt), parse-back equal in model and code (isoparse); oracle = independent "
        "xs:dateTime reader + instant/offset/microsecond of the parsed-back value; thorough adds every one of the "
        "10^6 microsecond values for two base date-times. non-trivial = non-zero microseconds or a non-zero "
        "offset; distinct by all fields, tz kind and route"))
    grids = [(2023, 7, 25, 12, 34, 56, 330, "fixed"), (1999, 12, 31, 23, 59, 59, -1, "std")]
    ks = KeySet(len(grids) if ctx.thorough else 0)
    ch.nontrivial = ks
    rng = ctx.rng("isodt")
    cases = gen_isodt(rng, ctx.scale(20000, 100000))
    eval_isodt(cases, ch, ks)
    # the calendar grid again, later and in reverse order (the answer may not depend on earlier calls)
    eval_isodt(list(reversed(cases[:2000])), ch, ks, sample=False)
    ch.count("re-issued-in-reverse-order", 2000)
    if ctx.thorough:
        for row, g in enumerate(grids):
            for lo in range(0, 1000000, 250000):
                cases = [(*g[:6], us, g[6], g[7], "utils") for us in range(lo, lo + 250000)]

                class _A:
                    def add(self, key, row=row):
                        ks.add_grid(row, key[6], key)
                eval_isodt(cases, ch, _A(), sample=False)
        ch.count("exhaustive-microsecond-grids", len(grids))
    return ch


# ------------------------------------------------------------------ tick conversions

TIMESCALES = [1, 2, 3, 24, 25, 30, 48, 50, 60, 90, 200, 240, 600, 1000, 1001, 12800, 22050, 24000, 30000, 44100,
              48000, 60000, 90000, 240000, 600000, 999999, 1000000, 1000001, 2000000, 3000000, 9999999, 10000000]
# timedelta values at the carries of its (days, seconds, microseconds) representation and the usual limits
TD_POOL = [0, 1, -1, 999999, 1000000, 1000001, -999999, -1000000, -1000001, 86399999999, 86400000000, 86400000001,
           -86399999999, -86400000000, -86400000001, 2 ** 31 - 1, 2 ** 31, 2 ** 31 + 1, 2 ** 32 - 1, 2 ** 32,
           2 ** 32 + 1, 2 ** 33, 2 ** 31 * 1000000 - 1, 2 ** 31 * 1000000, 2 ** 31 * 1000000 + 1, 2 ** 53 - 1, 2 ** 53,
           2 ** 53 + 1, 499, 500, 501, 41, 3, 86400 * 10 ** 6 * 10 ** 6 - 1]
H_TS = 1000000   # hypothesis of tc_roundtrip_partial


def td_of(us: int) -> datetime.timedelta:
    return datetime.timedelta(microseconds=us)


def run_tcconv(tc: int, ts: int, step: int, restrict: bool = True):
    """timecode -> timedelta -> timecode on the real code + oracle clauses.
    restrict: evaluate the 'within one tick' clause only inside the hypothesis ts <= 10^6"""
    dt = impl()[0]
    fails = []
    try:
        td = dt.timecode_to_timedelta(tc, ts)
        td_b = dt.timecode_to_timedelta(tc + step, ts)
        tc2 = dt.timedelta_to_timecode(td, ts)
    except Exception as e:  # noqa: BLE001
        return None, [f"raised {type(e).__name__}: {e}"]
    if not isinstance(td, datetime.timedelta) or not isinstance(tc2, int):
        return None, [f"unexpected result types {type(td).__name__}, {type(tc2).__name__}"]
    if td_b < td:
        fails.append(f"tc->td not monotone: toTd({tc})={td // US} us > toTd({tc + step})={td_b // US} us")
    if (not restrict or ts <= H_TS) and abs(tc2 - tc) > 1:
        fails.append(f"tc->td->tc: {tc} ticks at timescale {ts} come back as {tc2} (more than one tick)")
    return (td // US, tc2), fails


def run_tdconv(us: int, ts: int, step: int, denom: int):
    """timedelta -> timecode -> timedelta (+ multiply/scale) on the real code + oracle clauses"""
    dt = impl()[0]
    fails = []
    try:
        tc = dt.timedelta_to_timecode(td_of(us), ts)
        tc_b = dt.timedelta_to_timecode(td_of(us + step), ts)
        back = dt.timecode_to_timedelta(tc, ts)
        mul = dt.multiply_timedelta(td_of(us), ts)
        sc = dt.scale_timedelta(td_of(us), ts, denom)
    except Exception as e:  # noqa: BLE001
        return None, [f"raised {type(e).__name__}: {e}"]
    if not isinstance(tc, int) or not isinstance(back, datetime.timedelta):
        return None, [f"unexpected result types {type(tc).__name__}, {type(back).__name__}"]
    if tc_b < tc:
        fails.append(f"td->tc not monotone: toTc({us} us)={tc} > toTc({us + step} us)={tc_b}")
    b = back // US
    # within one tick, at the 1 us resolution of timedelta (see ASSUMPTIONS)
    if not (b <= us and (us - b) * ts < 1000000 + ts):
        fails.append(f"td->tc->td: {us} us at timescale {ts} comes back as {b} us (more than one tick)")
    numer = None
    if abs(mul) < 2 ** 49:                        # beyond that the float of scale_timedelta is not exact
        numer = int(sc) if denom == 1 else round(sc * denom)
    return (tc, b, mul, numer), fails


TD_MAX_US = 86400 * 10 ** 6 * 10 ** 9 - 1      # timedelta.max in microseconds
DAY_LIMIT = 86400 * 10 ** 9                    # ticks-as-seconds would leave timedelta's range here
CLOCK_YEARS = (2023, 2024, 2026, 2027, 2032, 2038, 2050, 2075, 2100)


def representable(tc: int, ts: int, step: int) -> bool:
    """both timecodes denote a duration a timedelta can hold (so the function has a value to return)"""
    return all(abs(t * 1000000 // ts) <= TD_MAX_US for t in (tc, tc + step))


def epoch_seconds(year: int, frac: float = 0.0) -> int:
    days = orc.day_number(year, 1, 1) - orc.EPOCH_DAY
    return days * 86400 + int(frac * 365 * 86400)


def residue_timecode(ts: int, r: int, k: int) -> int:
    """a timecode whose scaled value tc*10^6 leaves (about) remainder r modulo ts: the places where
    floor, round-half-even and round-half-up of tc*10^6/ts differ"""
    import math
    g = math.gcd(1000000, ts)
    m = ts // g
    if m == 1:
        return k
    a = (1000000 // g) % m
    return ((r // g) * pow(a, -1, m)) % m + m * k


def gen_ticks(rng, n):
    out = []
    for ts in TIMESCALES:
        for tc in (0, 1, 2, 19, 240, 461824, ts - 1, ts, ts + 1, 86400 * ts - 1, 2 ** 32, 2 ** 40 + 12345):
            out.append((tc, ts, 1))
        # ticks since the Unix epoch at present and future clocks ("start=epoch" streams)
        for y in CLOCK_YEARS:
            out.append((epoch_seconds(y, .37) * ts + (ts // 3), ts, 1))
        # magnitudes at which an intermediate "ticks as seconds/days" value would overflow
        for tc in (DAY_LIMIT - 1, DAY_LIMIT, DAY_LIMIT + 1, 86400 * 2 ** 31 - 1, 86400 * 2 ** 31, 2 ** 53 + 1,
                   2 ** 63 - 1, 2 ** 63, 2 ** 64 + 1):
            out.append((tc, ts, 1))
        for e in (31, 32, 33, 53):                 # 2^31, 2^32, 2^33 (PTS wrap), 2^53 +- 1, 2^63 - 1
            for dlt in (-1, 0, 1):
                out.append((2 ** e + dlt, ts, 1))
        out.append((2 ** 63 - 1, ts, 1))
        # rounding boundaries of tc*10^6/ts
        for r in (0, 1, ts // 2 - 1, ts // 2, ts // 2 + 1, ts - 1):
            out.append((residue_timecode(ts, max(0, r), 7), ts, 1))
    while len(out) < n:
        ts = rng.choice(TIMESCALES) if rng.random() < .5 else (
            rng.randrange(1, 10 ** 7 + 1) if rng.random() < .5 else int(10 ** rng.uniform(0, 7)))
        ts = max(1, ts)
        k = rng.random()
        if k < .3:
            tc = rng.randrange(0, 2 ** rng.randrange(1, 45))
        elif k < .5:
            tc = max(0, ts * rng.randrange(0, 100000) + rng.choice([-1, 0, 1]))
        elif k < .65:
            tc = rng.randrange(0, 10000)
        elif k < .8:       # epoch-anchored "now" at clocks 2023..2100
            tc = epoch_seconds(rng.randrange(2023, 2101), rng.random()) * ts + rng.randrange(0, ts)
        elif k < .95:      # rounding boundaries, small and epoch-sized
            r = rng.choice([0, 1, ts // 2 - 1, ts // 2, ts // 2 + 1, ts - 1, rng.randrange(0, ts)])
            tc = residue_timecode(ts, max(0, r), rng.choice([0, 1, rng.randrange(0, 10 ** 6), 4 * 10 ** 9 // 3]))
        elif k < .97:
            tc = rng.choice([DAY_LIMIT, 86400 * 2 ** 31, 2 ** 53, 2 ** 63]) + rng.randrange(-2, 3)
        else:
            tc = -rng.randrange(1, 10 ** 9)
        out.append((tc, ts, rng.choice([1, 1, 2, rng.randrange(1, 1000)])))
    return [c for c in out if representable(*c)]


def shrink_ticks(tc: int, ts: int):
    """smallest failing timecode found: small values first, then bisection on the magnitude"""
    for t in range(0, 64):
        if run_tcconv(t, ts, 1)[1]:
            return t
    if tc > 64 and not run_tcconv(tc // 2, ts, 1)[1]:
        lo, hi = tc // 2, tc                       # lo passes, hi fails
        for _ in range(80):
            if hi - lo <= 1:
                break
            mid = (lo + hi) // 2
            if run_tcconv(mid, ts, 1)[1]:
                hi = mid
            else:
                lo = mid
        return hi
    return tc


def channel_tcconv(ctx):
    ch = Channel("tcconv", rule=(
        "(timecode, timescale) and (timedelta, timescale) pairs: usual media timescales, 10^6 +-1, up to 10^7, "
        "seeded uniform and log-uniform timescales 1..10^7; timecodes at multiples of the timescale +-1, up to "
        "2^45, ticks since the Unix epoch at clocks 2023..2100 (up to 4e16), the magnitudes 86400e9, 86400*2^31, "
        "2^53, 2^63, 2^64 +-1 (all durations a timedelta can hold), timecodes with tc*10^6 mod ts in "
        "{0, 1, ts/2-1, ts/2, ts/2+1, ts-1}, a few negative; an exception from the real function is an oracle "
        "failure; results of timecode_to_timedelta, timedelta_to_timecode, multiply_timedelta and "
        "scale_timedelta (numerator) equal the model's; oracle: monotone against a second point, inverse within "
        "one tick (tc->td->tc only for timescale <= 10^6, the hypothesis of tc_roundtrip_partial). non-trivial = "
        "the division is inexact (a remainder is dropped); distinct by (direction, value, timescale)"))
    rng = ctx.rng("tcconv")
    cases = gen_ticks(rng, ctx.scale(30000, 400000))
    tds = []
    for (tc, ts, step) in cases[: len(cases) // 2 + 400]:
        # timedelta side: the same population mapped to microseconds, plus sub-tick offsets
        us = tc * 1000000 // ts + rng.choice([0, 0, 1, -1, rng.randrange(0, 1000000)])
        if abs(us) < 86400 * 10 ** 6 * 10 ** 6:
            tds.append((us, ts, step, rng.choice([1, 1, 2, 3, 1001, ts])))
    tds = [(us, ts, 1, (1, 2, ts)[i % 3]) for ts in TIMESCALES for i, us in enumerate(TD_POOL)] + tds
    lines = [f"tcconv {tc} {ts}" for tc, ts, _ in cases] + [f"tdconv {us} {ts}" for us, ts, _, _ in tds]
    try:
        model = common.run_driver(lines)
    except Exception as e:  # noqa: BLE001
        ch.errors.append(f"driver: {e}")
        return ch
    for (tc, ts, step), mo in zip(cases, model):
        ch.evaluations += 1
        got, fails = run_tcconv(tc, ts, step)
        ch.count("tc->td: timescale " + ("<=10^6" if ts <= H_TS else ">10^6"))
        if (tc * 1000000) % ts:
            ch.nontrivial.add(("tc", tc, ts))
        if fails:
            small = shrink_ticks(tc, ts)
            ch.oracle_failures.append({"kind": "tcconv", "input": {"timecode": small, "timescale": ts, "step": 1},
                                       "what": run_tcconv(small, ts, 1)[1] or fails})
        want = None if got is None else f"{got[0]} {got[1]}"
        if mo != want:
            ch.disagreements.append({"kind": "tcconv", "input": {"timecode": tc, "timescale": ts}, "model": mo, "impl": want})
        if ch.evaluations % 1999 == 0:
            ch.sample({"timecode": tc, "timescale": ts, "timedelta_us": got and got[0], "back": got and got[1]}, limit=4)
    for (us, ts, step, denom), mo in zip(tds, model[len(cases):]):
        ch.evaluations += 1
        got, fails = run_tdconv(us, ts, step, denom)
        ch.count("td->tc: timescale " + ("<=10^6" if ts <= H_TS else ">10^6"))
        if (us * ts) % 1000000:
            ch.nontrivial.add(("td", us, ts))
        if fails:
            ch.oracle_failures.append({"kind": "tdconv", "input": {"micros": us, "timescale": ts, "step": step, "denom": denom},
                                       "what": fails})
        m = mo.split(" ")
        if got is None or len(m) != 4:
            ok = False
        else:
            ok = [str(got[0]), str(got[1]), str(got[2])] == m[:3] and (got[3] is None or str(got[3]) == m[3])
            if got[3] is None:
                ch.count("scale_timedelta beyond 2^49: not compared")
        if not ok:
            ch.disagreements.append({"kind": "tdconv", "input": {"micros": us, "timescale": ts, "denom": denom},
                                     "model": mo, "impl": None if got is None else list(got)})
    return ch


# ------------------------------------------------------------------ check.py interface

def module_state() -> dict:
    """module- and class-level objects of date_time.py / timezone.py that a call could mutate"""
    dt, tz, _, _ = impl()
    out = {}
    for mod in (dt, tz):
        for name, v in vars(mod).items():
            if name.startswith("__") or callable(v) and not isinstance(v, type) or isinstance(v, type(datetime)):
                continue
            if isinstance(v, type):
                if v.__module__ == mod.__name__:
                    for a, av in vars(v).items():
                        if not a.startswith("__") and not callable(av):
                            out[f"{mod.__name__}.{name}.{a}"] = repr(av)
            else:
                out[f"{mod.__name__}.{name}"] = repr(v)
    return out


def channels(ctx):
    before = module_state()
    for make in (channel_isodur, channel_isoparse, channel_isodt, channel_tcconv):
        ch = make(ctx)
        after = module_state()
        if after != before:
            changed = sorted(k for k in set(before) | set(after) if before.get(k) != after.get(k))
            # not a violation by itself: reported next to its first visible consequence
            ch.count("module-level state changed during the channel: " + ", ".join(changed[:5]))
            for x in ch.oracle_failures[:20] + ch.disagreements[:20]:
                x["module_state_changed"] = {k: [before.get(k), after.get(k)] for k in changed[:5]}
            before = after
        ch.count("module-level objects snapshotted", len(after))
        yield ch


def eval_failure_input(kind: str, j: dict, restrict: bool = True):
    """re-run the oracle on a recorded input; returns the list of failed clauses"""
    if kind in ("isodur", "isodurf", "isodurf-front-end-spec"):
        return run_isodur((j["whole"], j["micros"], j.get("form", "float"), j.get("route", "utils")))[2]
    if kind == "isodur-raw":
        return run_rawfloat(j["bits"])[1]
    if kind == "isodt":
        return run_isodt(isodt_case(j))[3]
    if kind == "tcconv":
        return run_tcconv(j["timecode"], j["timescale"], j.get("step", 1), restrict)[1]
    if kind == "tdconv":
        return run_tdconv(j["micros"], j["timescale"], j.get("step", 1), j.get("denom", 1))[1]
    if kind == "isoparse":
        # a text the model and the code read differently: it violates C19 only if it is a text the code
        # itself writes for some value; try to read it independently and round-trip that value
        t = j.get("text") or ""
        try:
            f = orc.read_duration(t)
            v = orc.duration_micros(f)
            if v.denominator == 1 and 0 <= v < TWO32 * 1000000:
                return run_isodur((int(v) // 1000000, int(v) % 1000000, "timedelta", "utils"))[2]
        except orc.Lexical:
            pass
        try:
            p = orc.read_datetime(t)
            us = p["fraction"] * 1000000
            if us.denominator == 1:
                return run_isodt((p["year"], p["month"], p["day"], p["hour"], p["minute"], p["second"], int(us),
                                  p["offset"], "std" if p["offset"] is not None else "naive", "utils"))[3]
        except (orc.Lexical, ValueError):
            pass
    return []


def search(ctx, disagreements):
    """Layer C: an input on which the real code violates C19 (oracle only, no model)"""
    for d in disagreements:
        kind, j = d.get("kind"), d.get("input") or {}
        try:
            fails = eval_failure_input(kind, j)
        except Exception:  # noqa: BLE001
            fails = []
        if fails:
            return {"kind": "isodur" if kind.startswith("isodur") else kind if kind != "isoparse" else "isoparse-derived",
                    "input": j, "what": fails}
    rng = ctx.rng("search")
    for c in gen_isodur(rng, 40000):
        fails = run_isodur(c)[2]
        if fails:
            mini = shrink_isodur(c)
            t, _, f2 = run_isodur(mini)
            return isodur_failure(mini, f2 or fails, t)
    for whole in (0, 59, 3599):                           # the rounding boundaries, exhaustively
        for us in list(range(999000, 1000000)) + list(range(0, 3000)) + [k * 1000 + r for k in range(1000) for r in (499, 500, 501)]:
            c = (whole, us, "timedelta", "utils")
            fails = run_isodur(c)[2]
            if fails:
                return isodur_failure(c, fails, run_isodur(c)[0])
    for c in gen_isodt(rng, 40000):
        fails = run_isodt(c)[3]
        if fails:
            mini = shrink_isodt(c)
            _, t, _, f2 = run_isodt(mini)
            return {"kind": "isodt", "input": isodt_input(mini), "what": f2 or fails, "text": t}
    for (tc, ts, step) in gen_ticks(rng, 40000):
        fails = run_tcconv(tc, ts, step)[1]
        if fails:
            return {"kind": "tcconv", "input": {"timecode": tc, "timescale": ts, "step": step}, "what": fails}
        us = tc * 1000000 // ts + rng.randrange(0, 1000)
        fails = run_tdconv(us, ts, step, 1)[1]
        if fails:
            return {"kind": "tdconv", "input": {"micros": us, "timescale": ts, "step": step, "denom": 1}, "what": fails}
    return None


def replay(ctx, payload):
    f = payload.get("failure") or {}
    if "kind" not in f or "input" not in f:
        return {"fails": False, "note": "replay names a broken obligation, no input", "payload": payload.get("broken")}
    kind = "isoparse" if f["kind"] == "isoparse-derived" else f["kind"]
    fails = eval_failure_input(kind, f["input"], restrict=False)
    return {"fails": bool(fails), "failures": fails, "kind": f["kind"], "input": f["input"]}


def replay_finding(ctx, finding):
    w = finding["witness"]
    return bool(eval_failure_input(w.get("kind", "tcconv"), w, restrict=False))


def matches_finding(finding, failure):
    """D3: timecode -> timedelta -> timecode loses more than one tick, timescale above 10^6"""
    if not str(finding.get("id", "")).startswith("D3"):
        return False
    if failure.get("kind") != "tcconv":
        return False
    what = failure.get("what") or []
    return (failure.get("input", {}).get("timescale", 0) > H_TS and bool(what)
            and all(w.startswith("tc->td->tc") for w in what))


if __name__ == "__main__":
    print(json.dumps(MANIFEST_ENTRY, indent=1))
