"""C07 – options given to a manifest reach its media requests with the same meaning.

Layer A: lean/DashLive/Props/C07.lean (codec_roundtrip_<kind>, transport_id / transport_query,
forwarding_complete / forwarding_minimal, media_side_same_value, inject_roundtrip_*; phase 2:
supported_options_survive(_table), unsupported_options_dropped_consistently,
request_to_media_same_value(_generated) over the model of calculate_options with restrictions /
features / stream defaults, check_option_values, remove_unsupported_features,
remove_unused_parameters and ServeManifest's adjustments; and the `decide +kernel` obligations over the
*generated* tables Gen/Options.lean and Gen/Manifests.lean).
Layer B: translators harness/gen_options.py and harness/gen_manifests.py (re-run every check,
cross-checked against the live objects) + channels `optcodec`, `optforward`, `optfilter`, `opt_e2e`.

Date-times (C19, lean/DashLive/Props/C07Dt.lean): `to_iso_datetime` writes a value without zone
with `Z` and `from_isodatetime` reads that back aware, so the text round trip holds on *aware*
values only (`c19_text_roundtrip_partial`).  A `start=<text without zone>` never reaches a URL as a
naive value: `check_option_values` (C16, base.py:147-149) makes it aware (UTC) on the manifest side
before anything is generated; the model has this as `DTCodec.check`, `opt_e2e`/`optfilter` generate
such requests and the media side is observed to get the aware value the MPD advertises.
Layer C: the property text on the real code – unit level (from_string(to_string(v)) == v on the
registered option objects) and end to end (manifest rendered by the booted app, init/media URLs taken
from the XML as a client would, re-parsed by the media handler's own option parser, compared field by
field with what the manifest request resolved; options without the usage bit absent from the URL).
"""
from __future__ import annotations

import logging

import common
import gen_manifests
import gen_options
from common import Channel

PROP = "C07"
CLAIM = True
MANIFEST_ENTRY = {
    "design_ref": "7 C07",
    "level_text": (
        "Lean 4 proof over a model of the option layer and a registry table generated from the imported "
        "OptionsRepository on every run: for every codec kind and every canonical value, parsing the URL text "
        "of a value gives the value back (codec_roundtrip_<kind>; DRM selections of any length by structure; "
        "date-times under the named date-time text laws, C19); the query string written by dict_to_cgi_params "
        "transports every byte string unchanged (transport_id, transport_query – no side condition after fix "
        "b9109f8); an option is in the parameter set of a media type iff it has that usage bit and a non-default "
        "value (forwarding_complete / forwarding_minimal, table obligations by decide +kernel over all 55 rows); "
        "composition manifest options -> URL -> media handler's calculate_options yields the identical value "
        "with the same stream defaults on both sides (media_side_same_value). The model is tied to the code by "
        "differential correspondence on every registered option and by an end-to-end check through the booted "
        "application."),
    "level_note": (
        "Trusted: Lean kernel (+propext, Classical.choice, Quot.sound), translator gen_options.py (kind "
        "assignment by identity of the registered callables, cross-checked dynamically), correspondence harness "
        "and compiled driver, Werkzeug/urllib as the transport (modelled, tied by correspondence), text as UTF-8 "
        "bytes. Date-time text round trip is an explicit hypothesis (DtCodecLaws, proved in C19's model); floats "
        "are the non-negative multiples of 0.1 below 1e15; time-of-day injection positions are translated to "
        "segment numbers by design (same meaning, not same value)."),
    "technique": "Lean 4 proof (structural induction, decide +kernel over a generated table) + translator + "
                 "model/implementation correspondence + end-to-end oracle on the booted application",
}
PROP_FILES = ["DashLive/Props/C07.lean", "DashLive/Props/C07Dt.lean"]
LEAN_TARGETS = ["DashLive.Props.C07", "DashLive.Props.C07Dt"]
GENERATORS = [gen_options.main, gen_manifests.main]
TRUSTED = [
    "harness/gen_manifests.py: manifest_map (features, restrictions incl. the str-valued one, segment_timeline) and "
    "the literal name sets of remove_unsupported_features / remove_unused_parameters read with ast; an "
    "unrecognised shape aborts the run; cross-checked by channel optfilter on every template",
    "harness/gen_options.py: codec kind assigned from the identity of the registered from_string/to_string "
    "callables (closure cells, lambda byte code); an unknown callable or pair aborts the run; the table is "
    "cross-checked against the live DashOption objects (defaults, usage, names) in channel optcodec",
    "text modelled as UTF-8 bytes; str.lower() as ASCII lower-casing (no non-ASCII cased letters generated "
    "for the DRM codec); int()/float() on ASCII digits/whitespace only",
    "Werkzeug request.args (urllib.parse.parse_qsl, keep_blank_values) and urllib quote_plus/unquote_plus: "
    "modelled (parseQsl, quotePlus, unquotePlus) and compared with the real functions on every run",
    "the driver's date-time codec (canonical ISO text as its own value) – only used for correspondence",
]
ASSUMPTIONS = [
    "DtCodecLaws (date-time text: parse(render d) = d [C19], rendered text starts with a digit, has no ',' or '=', "
    "is not a decimal integer) is a named hypothesis of the theorems that mention date-times",
    "float option values are non-negative multiples of 0.1 below 1e15 (every documented choice of playready__version)",
    "a DRM selection is compared as a set of (system, locations): the shorthand 'all' re-orders the systems",
    "availabilityStartTime / timeShiftBufferDepth are compared with the values the manifest advertises "
    "(MPD@availabilityStartTime, MPD@timeShiftBufferDepth): the manifest resolves keywords and clamps the depth",
    "verr/aerr/terr/vcorrupt positions given as a time of day are translated by the manifest to segment numbers "
    "(or dropped when older than the time shift buffer); the oracle accepts exactly that translation",
    "on-demand profile (odvod): OnDemandMedia reads no option, so only what is written into a BaseURL is compared",
    "live timing options are compared only for live manifests; DRM/event specific options only when that DRM "
    "system / event type is selected (property: options that influence media generation)",
    "fixture stream 'tears' has no encrypted files: no DRM selection is generated for it",
    "date-time values are aware: a start time without zone is made aware (UTC) by check_option_values before "
    "it is used or forwarded (C19: the text round trip of a naive value does not hold, c19_text_roundtrip_partial); "
    "the unit-level round-trip oracle therefore generates aware date-times only",
    "request_to_media_same_value keeps two explicit hypotheses: what the manifest's timing writes back "
    "(availabilityStartTime, timeShiftBufferDepth; C08) is a canonical value, and an escaped licence URL does not "
    "un-escape to a spelling of 'none'",
    "a start time in the future (negative MPD@timeShiftBufferDepth, C08's subject) is not compared for depth and "
    "time-of-day injection",
    "opt_e2e's predicted query string takes the texts of start, depth and the translated verr/aerr/terr/vcorrupt "
    "from the actual URL (their values are checked by the oracle against MPD@availabilityStartTime, "
    "MPD@timeShiftBufferDepth and an independent time-to-segment translation); every other key, the order, the "
    "escaping and the absence of all other options are predicted by the model",
]


def _quiet():
    logging.disable(logging.CRITICAL)


# ------------------------------------------------------------------ dynamic cross-check of the table
def table_crosscheck(ch: Channel):
    """the generated table against the live objects (names, usage, defaults by value, choices)"""
    import c07_lib as L
    from dashlive.server.options.repository import OptionsRepository
    rows, opts, d = L.registry()
    src = gen_options.render(d)
    on_disk = gen_options.OUT.read_text() if gen_options.OUT.exists() else ""
    ch.evaluations += 1
    if src != on_disk:
        ch.disagreements.append({"op": "table", "what": "Gen/Options.lean differs from the live registry"})
    defaults = OptionsRepository.get_default_options()
    lines = []
    for row, opt in zip(rows, opts):
        ch.evaluations += 1
        cont = defaults[row["pfx"]] if row["pfx"] else defaults
        live_default = L.enc_val(row["kbase"], cont[row["full"]])
        lines.append((f"optfrom {row['kspec']} {L.hx(row['dflt'])}", live_default, row))
        if (opt.cgi_name, opt.short_name, opt.prefix, opt.full_name, int(opt.usage)) != \
                (row["cgi"], row["short"], row["pfx"], row["full"], row["usage"]):
            ch.disagreements.append({"op": "table", "row": row["cgi"], "what": "row differs from the live DashOption"})
    got = common.run_driver([ln[0] for ln in lines])
    for (line, live, row), mo in zip(lines, got):
        if mo != live:
            ch.disagreements.append({"op": "table-default", "option": row["cgi"], "model": mo, "impl": live})
    cgi_map = OptionsRepository.get_cgi_map()
    if sorted(cgi_map) != sorted(r["cgi"] for r in rows):
        ch.disagreements.append({"op": "table", "what": "get_cgi_map() and the table list different names"})


def channels(ctx):
    _quiet()
    import c07_unit
    import c07_e2e
    ch = Channel("optcodec", rule=(
        "every registered DashOption's own from_string (hostile, malformed and valid texts per codec kind) and "
        "to_string (generated canonical values) vs the Lean model, plus the generated table vs the live registry; "
        "non-trivial = from_string on a text that is not empty/'none'/alphanumeric, or to_string of a value "
        "that is not None/False/True/empty; distinct by (kind, text or value)"))
    try:
        table_crosscheck(ch)
        c07_unit.run_optcodec(ctx, ch)
    except Exception as e:
        import traceback
        traceback.print_exc()
        ch.errors.append(f"{type(e).__name__}: {e}")
    yield ch
    ch = Channel("optforward", rule=(
        "OptionsContainer.generate_cgi_parameters (random option subsets, stream defaults, usage masks, exclude "
        "sets, remove_defaults on/off, remove_unused_parameters applied or not), dict_to_cgi_params and "
        "flask.request.args on the result vs the model (optgen, optquery, optparse); non-trivial = non-empty "
        "parameter set; distinct by result"))
    try:
        c07_unit.run_optforward(ctx, ch)
    except Exception as e:
        import traceback
        traceback.print_exc()
        ch.errors.append(f"{type(e).__name__}: {e}")
    yield ch
    ch = Channel("optfilter", rule=(
        "the option handling of a manifest request before URLs are built – calculate_options with the "
        "template's restrictions and features and stream defaults, check_option_values, "
        "remove_unsupported_features, ServeManifest's patch/segmentTimeline adjustments, "
        "remove_unused_parameters – and the media handler's calculate_options, on every template x a list of "
        "hostile argument sets (unknown DRM/time method, time of day or zone-less start, empty positions, "
        "event limits, out-of-range spans, restricted values) and random option subsets, vs the model "
        "(optserve, optcalc: same refusal or the same field values); non-trivial = at least one argument; "
        "distinct by (template, mode, arguments, stream defaults)"))
    try:
        c07_unit.run_optfilter(ctx, ch)
    except Exception as e:
        import traceback
        traceback.print_exc()
        ch.errors.append(f"{type(e).__name__}: {e}")
    yield ch
    ch = Channel("opt_e2e", rule=(
        "manifest requests on the booted app (9 templates x live/vod/odvod, streams bbb and tears [stream "
        "defaults]) with a random subset of the 55 options (12% with a hostile argument set); oracle = property "
        "text on the init/media URLs of the XML; correspondence = the query string of every media type predicted "
        "by the model from the *request* (optreqquery: restrictions, features, value check, filters, "
        "generate_cgi_parameters, escaping), the model's refusal for every 400, the handler's option pipeline "
        "(optserve) and the model's parse of every URL (optmedia) vs the real application; non-trivial = "
        "status 200 with at least one option and one media URL; distinct by URL"))
    try:
        c07_e2e.run_e2e(ctx, ch)
    except Exception as e:
        import traceback
        traceback.print_exc()
        ch.errors.append(f"{type(e).__name__}: {e}")
    yield ch


# ------------------------------------------------------------------ Layer C search / replay
def _unit_failure(rng, n_per_option):
    import c07_lib as L
    import c07_unit
    rows, opts, _ = L.registry(strict=False)
    for row, opt in zip(rows, opts):
        for _ in range(n_per_option):
            v = L.gen_value(row["kspec"], rng)
            f = c07_unit.roundtrip_failure(opt, row, v)
            if f:
                while isinstance(v, list) and len(v) > 1:        # shrink list values
                    for k in range(len(v)):
                        w = v[:k] + v[k + 1:]
                        g = c07_unit.roundtrip_failure(opt, row, w)
                        if g:
                            v, f = w, g
                            break
                    else:
                        break
                return {"unit": row["cgi"], "kind": row["kspec"], "value": L.spec_of_value(row["kspec"], v), **f}
    return None


def search(ctx, disagreements):
    """look for an input on which the real code violates C07"""
    _quiet()
    import c07_lib as L
    import c07_e2e
    rows, _, _ = L.registry(strict=False)
    # 0. the fixed request histories
    import c07_grid
    for probe in c07_grid.PROBES:
        try:
            hf = c07_e2e.run_history(c07_grid.DISTURB, probe, rows)
        except Exception:
            hf = []
        if hf:
            return {"case": probe, "url": c07_e2e.case_url(probe), "history": c07_grid.DISTURB, "first_failure": hf[0]}
    # 1. the cases the correspondence disagreed on
    for d in disagreements:
        case = d.get("case")
        if isinstance(case, dict) and "manifest" in case:
            try:
                fails, _, _ = c07_e2e.run_case(case, rows, want_model=False)
            except Exception:
                fails = []
            if fails:
                mini = c07_e2e.shrink(case, rows)
                mf, _, _ = c07_e2e.run_case(mini, rows, want_model=False)
                return {"case": mini, "url": c07_e2e.case_url(mini), "first_failure": (mf or fails)[0]}
    # 2. unit level round trip on every registered option
    f = _unit_failure(ctx.rng("search-unit"), 300)
    if f:
        return f
    # 3. end to end
    rng = ctx.rng("search-e2e")
    for _ in range(ctx.scale(700, 3000)):
        case = c07_e2e.gen_case(rng, rows)
        try:
            fails, _, _ = c07_e2e.run_case(case, rows, want_model=False)
        except Exception:
            continue
        if fails:
            mini = c07_e2e.shrink(case, rows)
            mf, _, _ = c07_e2e.run_case(mini, rows, want_model=False)
            return {"case": mini, "url": c07_e2e.case_url(mini), "first_failure": (mf or fails)[0]}
    return None


def _replay_failure(f):
    import c07_lib as L
    import c07_e2e
    import c07_unit
    rows, opts, _ = L.registry(strict=False)
    if "case" in f and isinstance(f["case"], dict) and "manifest" in f["case"] and isinstance(f.get("history"), list):
        # a request history: probe, the requests in between, the probe's URLs and the probe again
        case = {k: v for k, v in f["case"].items() if k != "_reissue"}
        fails = c07_e2e.run_history(f["history"], case, rows)
        return {"fails": bool(fails), "failures": fails[:5], "url": c07_e2e.case_url(case),
                "history": [c07_e2e.case_url(h) for h in f["history"]]}
    if "case" in f and isinstance(f["case"], dict) and "manifest" in f["case"]:
        case = {k: v for k, v in f["case"].items() if k != "_reissue"}
        fails, _, stats = c07_e2e.run_case(case, rows, want_model=False)
        history = "none (fresh process)"
        if not fails:
            # the failure may need what came before it: re-create the history of the channel – the fixed grid
            # (all stream-default sets, both streams, every template and mode) – and ask again
            import c07_grid
            first = None
            for h in c07_grid.grid():
                try:
                    _, _, st = c07_e2e.run_case(h, rows, want_model=False)
                except Exception:
                    continue
                if first is None and c07_e2e.case_url(h) == c07_e2e.case_url(case) and \
                        h.get("defaults", "A") == case.get("defaults", "A") and h["now"] == case["now"]:
                    first = (st["status"], tuple(sorted(st.get("url_list", []))))
            fails, _, stats = c07_e2e.run_case(case, rows, want_model=False)
            history = "the fixed grid of opt_e2e (harness/c07_grid.py) before the case"
            again = (stats["status"], tuple(sorted(stats.get("url_list", []))))
            if not fails and first is not None and first != again:
                fails = [{"what": "re-issued after the grid, the request advertises other media URLs",
                          "first": list(first[1])[:6], "now": list(again[1])[:6]}]
        return {"fails": bool(fails), "failures": fails[:5], "url": c07_e2e.case_url(case),
                "status": stats["status"], "history": history}
    if "unit" in f:
        for row, opt in zip(rows, opts):
            if row["cgi"] == f["unit"]:
                v = decode_value(row, f["value"])
                r = c07_unit.roundtrip_failure(opt, row, v)
                return {"fails": bool(r), "failure": r, "unit": f["unit"], "value": f["value"]}
        return {"fails": False, "note": f"option {f['unit']} is no longer registered"}
    return None


def decode_value(row, spec: str):
    """valspec → python value (inverse of c07_lib.enc_val, for replays)"""
    import datetime
    import c07_lib as L
    import c07_e2e
    from dashlive.drm.location import DrmLocation
    body = spec[1:]

    def dt(text):
        if len(text) == 9:
            return datetime.datetime.strptime(text, "%H:%M:%SZ").time()
        return c07_e2e.parse_xs_datetime(text)
    if spec == "N":
        return None
    if spec[0] == "B":
        return body == "1"
    if spec[0] == "I":
        return int(body)
    if spec[0] == "F":
        return int(body) / 10.0
    if spec[0] == "S":
        return L.unhx(body or "-")
    if spec[0] == "L":
        return [L.unhx(i) for i in body.split(",")] if body else []
    if spec[0] == "D":
        out = []
        for e in (body.split(",") if body else []):
            n, m = e.split("/")
            locs = {loc for loc in DrmLocation if int(m) & {"cenc": 1, "moov": 2, "pro": 4}[loc.value]}
            out.append((L.unhx(n), locs))
        return out
    if spec[0] == "A":
        return dt(L.unhx(body))
    if spec[0] == "E":
        out = []
        for e in (body.split(",") if body else []):
            c, p = e.split("/")
            out.append((int(c), None if p == "-" else int(p[1:]) if p[0] == "n" else dt(L.unhx(p[1:]))))
        return out
    raise ValueError(spec)


def replay(ctx, payload):
    _quiet()
    f = payload.get("failure") or {}
    r = _replay_failure(f) if f else None
    if r is None:
        return {"fails": False, "note": "replay names a broken obligation, no input", "payload": payload.get("broken")}
    return r


def replay_finding(ctx, finding):
    _quiet()
    w = finding["witness"]
    import c07_e2e
    if "manifest" in w:
        import urllib.parse
        case = {"mode": w["mode"], "stream": w.get("stream", "bbb"), "manifest": w["manifest"],
                "params": dict(urllib.parse.parse_qsl(w["query"], keep_blank_values=True)), "now": w["now"]}
        r = _replay_failure({"case": case})
    else:
        r = _replay_failure(w)
    return bool(r and r.get("fails"))


def matches_finding(finding, failure):
    return False
