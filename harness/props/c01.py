"""C01 – every segment a live manifest advertises is retrievable.

Layer A: lean/DashLive/Props/C01.lean (C01_time_partial, C01_number_partial, C01_init).
Layer B: `firstlast`, `liveindex` (pure: the real Representation methods and the real
LiveMedia.calculate_media_segment_index vs the model), `live_e2e` (real app: every live
template x streams x option vectors; statuses vs the model's verdicts).
Layer C: listed and end <= T  =>  200;  $Number$ in the ISO 23009-1 window => 200; init => 200.
"""
from __future__ import annotations

import datetime

import common
from common import Channel
import segpure

PROP = "C01"
CLAIM = True
MANIFEST_ENTRY = {
    "design_ref": "7.0, 7 C01",
    "level_text": (
        "Lean 4 theorems for every representation layout, reference duration, clock (elapsed time), buffer "
        "depth and timeline position: each expanded SegmentTimeline entry whose end is not later than now is "
        "accepted by the handler's availability test and first/last gate (C01_time_partial, via "
        "timeline_is_slice + the floor/leeway arithmetic), each $Number$ inside the ISO/IEC 23009-1 5.3.9.5.3 "
        "window computed from the manifest's own numbers is accepted (C01_number_partial), and the init "
        "decision never consults the window (C01_init). Hand-written model tied to the code every run by "
        "correspondence on the real Representation/DashTiming/LiveMedia code and on statuses returned by the "
        "real Flask app for URLs taken from real manifests."
        " The functions on this path (timedelta_to_timecode, get_segment_index with its loop, generateSegmentTimeline, the media handler's index calculation) are in addition translated from the source text into Lean on every run and proved equal to the model (Props/GenTie*.lean); Props/Generated.lean states C01 about the translated definitions only."),
    "level_note": (
        "Explicit hypotheses: leeway covers half the longest segment (+rounding) for $Time$ and two segment "
        "durations for $Number$, half the longest segment <= segment_duration, durations >= 1 us. leeway=0 is "
        "an accepted option value outside them (ledger D9, with a decide-d witness). D8 (start_number missing "
        "from $Time$ requests) repaired by a fix: commit. Float steps (timescale_to_timedelta, scale_timedelta) "
        "are parameters/validated below 2^53. URL round trip of start/depth is exercised end to end, its "
        "codecs are proved under C07/C19. Flask routing, DB lookup, MP4 re-encoding not modelled."),
    "technique": "Lean 4 proof (slice of the global sequence + floor-division/leeway inequalities via linarith) + source-to-Lean translation re-proved equal to the model each run + model/implementation correspondence",
}
PROP_FILES = ["DashLive/Props/C01.lean", "DashLive/Props/GenTie.lean", "DashLive/Props/GenTieTimeline.lean", "DashLive/Props/GenTieLiveIndex.lean", "DashLive/Props/Generated.lean"]
LEAN_TARGETS = ["DashLive.Props.C01", "DashLive.Props.GenTie", "DashLive.Props.GenTieTimeline", "DashLive.Props.GenTieLiveIndex", "DashLive.Props.Generated"]


def _gen_options():
    """Props/C01.lean reads the default leeway from the option-registry table (C07's translator)"""
    import gen_options
    gen_options.main()


def _gen_arith():
    """Gen/Arith.lean (incl. the `while` loop of get_segment_index) is translated from /repo's source
    text; Props/GenTie.lean proves it equal to the model (`tie_getSegmentIndex`)"""
    import gen_arith
    import gen_timeline
    gen_arith.main()
    gen_timeline.main()
    import gen_liveindex
    gen_liveindex.main()


GENERATORS = [_gen_options, _gen_arith]
TRUSTED = [
    "harness/gen_arith.py, gen_timeline.py, gen_liveindex.py, pytolean.py: Python source text -> Lean translation of get_segment_index, generateSegmentTimeline and the media handler index calculation (semantics of the accepted subset, see DESIGN 4); Props/GenTie*.lean prove the translated definitions equal to the model",
    "harness/segwalk.py (client-side MPD reading incl. the ISO/IEC 23009-1 5.3.9.5.3 window), mp4walk, mp4synth, /verif/shims",
    "timescale_to_timedelta (float) is a model parameter fed with the implementation's value; ConvSpec (within 1 us) is checked on every value used",
]
ASSUMPTIONS = [
    "generated leeway satisfies LeewayTime / LeewayNumber; layouts satisfy positive advertised durations of at least 1 us and floor(dmax/2) <= segment_duration",
    "E*ts/10^6 < 2^53 so that scale_timedelta's float division is exact",
]


def _driver(ch, lines):
    try:
        return common.run_driver(lines)
    except Exception as e:
        ch.errors.append(f"driver: {e}")
        return [None] * len(lines)


def gen_live(rng, lay: segpure.Layout):
    """clock/depth/leeway inside the theorems' hypotheses"""
    M_us = max(1, sum(lay.durs) * 10 ** 6 // lay.ts)
    E_us = rng.choice([
        rng.randrange(1, 120) * 10 ** 6 + rng.randrange(10 ** 6),
        rng.randrange(1, 50) * M_us + rng.randrange(M_us),
        rng.randrange(10 ** 6, 50 * 365 * 86400 * 10 ** 6)])
    if E_us * lay.ts >= 2 ** 52 * 10 ** 6:
        E_us = rng.randrange(10 ** 6, (2 ** 52 * 10 ** 6) // lay.ts)
    depth = rng.choice([1, 5, 30, 60, 120, rng.randrange(1, 400)])
    if depth * lay.ts > 20_000_000:
        depth = max(1, 20_000_000 // lay.ts)
    return E_us, depth


def hyp_ok(lay, sd, leeway_s):
    dmax = max(lay.durs)
    lee_us = leeway_s * 10 ** 6
    adv = lay.durs[:-1] + [lay.durs[-1] + lay.R - sum(lay.durs)]
    return (all(a * 10 ** 6 >= lay.ts for a in adv)
            and (dmax // 2 + 1) * 10 ** 6 + lay.ts <= lee_us * lay.ts
            and dmax // 2 <= sd
            and 2 * sd * 10 ** 6 + lay.ts <= lee_us * lay.ts
            and lay.ts <= sd * 10 ** 6)


def ch_pure(ctx) -> Channel:
    from dashlive.server.requesthandler.media_requests import LiveMedia
    from dashlive.utils.date_time import timedelta_to_timecode
    ch = Channel("liveindex", rule=(
        "generated layouts x clocks x depth x leeway (inside the hypotheses) ; requests = every kind of "
        "expanded timeline entry (first, last, loop boundary, random), every in-window $Number$ boundary, and "
        "requests just outside the window; real LiveMedia.calculate_media_segment_index and "
        "calculate_first_and_last_segment_number vs the model; non-trivial = accepted request in a window "
        "that has moved at least one loop from the origin; distinct by (layout, clock, request)"))
    rng = ctx.rng("liveindex")
    lines, recs = [], []
    for _ in range(ctx.scale(220, 15000)):
        lay = segpure.gen_layout(rng)
        E_us, depth = gen_live(rng, lay)
        now = segpure.START + datetime.timedelta(microseconds=E_us)
        # leeway that satisfies the hypotheses (sometimes exactly the minimum)
        _, rep0, _ = segpure.make_objects(lay, "live", now=now, depth=depth)
        sd = rep0.segment_duration
        need = max((max(lay.durs) // 2 + 1) * 10 ** 6 + lay.ts, 2 * sd * 10 ** 6 + lay.ts)
        lee = -(-need // (lay.ts * 10 ** 6))
        lee = rng.choice([lee, lee, lee + 1, max(lee, 16), lee + rng.randrange(0, 30)])
        if not hyp_ok(lay, sd, lee):
            ch.count("skipped:outside-hypotheses")
            continue
        _, rep, timing = segpure.make_objects(lay, "live", now=now, depth=depth, leeway=lee)
        E = segpure.td_us(timing.elapsedTime)
        tsbd = timing.timeShiftBufferDepth
        lw = segpure.td_us(timing.leeway)
        # first/last
        try:
            fl = rep.calculate_first_and_last_segment_number()
            fl_impl = f"{fl[0]} {fl[1]}"
        except Exception as e:
            fl_impl = f"exception:{type(e).__name__}"
        lines.append(f"firstlast {lay.ts} {sd} {lay.sn} {E} {tsbd}")
        recs.append(("firstlast", lay, fl_impl, None, None))
        # listed entries
        try:
            nodes = rep.generateSegmentTimeline()
        except Exception as e:
            # the manifest of this layout at this clock cannot be generated at all
            ch.oracle_failures.append({"kind": "timeline-raises", "layout": lay.json(), "E_us": E, "depth": tsbd,
                                       "what": f"generateSegmentTimeline raises {type(e).__name__}: {e}"})
            continue
        exp = segpure.expand_nodes(nodes)
        reqs = []
        idx = {0, 1, len(exp) - 1, len(exp) - 2} | {rng.randrange(len(exp)) for _ in range(3)} if exp else set()
        for i in sorted(i for i in idx if 0 <= i < len(exp)):
            t, d = exp[i]
            listed_ok = (t + d) * 10 ** 6 <= E * lay.ts
            reqs.append(("t", t, "listed" if listed_ok else "listed-future"))
        if exp:
            reqs.append(("t", max(0, exp[0][0] - 3 * max(lay.durs) - lee * lay.ts), "too-old"))
            reqs.append(("t", exp[-1][0] + 3 * max(lay.durs), "too-new"))
        # $Number$ window from the DASH formula
        ts = lay.ts
        kmax = (E * ts) // (sd * 10 ** 6) - 1
        kmin = max(0, -(-((E - tsbd * 10 ** 6) * ts - 2 * sd * 10 ** 6) // (sd * 10 ** 6)))
        for k in {kmin, kmin + 1, kmax, kmax - 1, (kmin + kmax) // 2}:
            if k >= 0 and (k + 1) * sd * 10 ** 6 <= E * ts <= (k + 2) * sd * 10 ** 6 + tsbd * 10 ** 6 * ts:
                reqs.append(("n", lay.sn + k, "window"))
        reqs.append(("n", lay.sn + kmax + 3, "too-new"))
        reqs.append(("n", lay.sn + max(0, kmin - 3 - lee * ts // sd - 2), "too-old"))
        reqs.append(("n", lay.sn - 1, "below-start-number"))
        for kind, val, tag in reqs:
            tc = val if kind == "t" else (val - lay.sn) * sd
            conv = segpure.td_us(rep.timescale_to_timedelta(tc)) if tc >= 0 else 0
            if tc >= 0 and abs(conv * ts - tc * 10 ** 6) > ts:
                ch.oracle_failures.append({"kind": "convspec", "what": "timescale_to_timedelta off by more than 1 us",
                                           "tc": tc, "ts": ts, "conv": conv})
            try:
                r = LiveMedia.calculate_media_segment_index(
                    None, "live", rep, timing, val if kind == "n" else None, val if kind == "t" else None)
                impl = f"ok {r[0]} {r[1]} {r[2]}"
            except ValueError:
                impl = "404"
            except Exception as e:
                impl = f"exception:{type(e).__name__}"
            lines.append(f"liveindex {lay.durs_arg()} {ts} {sd} {lay.sn} {lay.R} {E} {tsbd} {lw} {kind} {val} {conv}")
            recs.append((tag, lay, impl, (kind, val), (E, tsbd, lee)))
    model = _driver(ch, lines)
    for (tag, lay, impl, rq, win), mo, line in zip(recs, model, lines):
        ch.evaluations += 1
        ch.count(f"{tag}:{impl.split()[0]}")
        if mo is not None and mo != impl:
            ch.disagreements.append({"line": line, "tag": tag, "model": mo, "impl": impl})
        if tag in ("listed", "window"):
            if win[0] * lay.ts >= lay.R * 10 ** 6:
                ch.nontrivial.add((lay.key(), win, rq))
            if not impl.startswith("ok"):
                ch.oracle_failures.append({
                    "kind": "advertised-not-retrievable", "tag": tag, "layout": lay.json(),
                    "request": rq, "window": {"E_us": win[0], "tsbd": win[1], "leeway_s": win[2]},
                    "what": f"{tag} segment refused: {impl}"})
        ch.sample({"line": line, "impl": impl}, limit=3)
    return ch


# ------------------------------------------------------------------ e2e

def live_templates():
    from dashlive.server.manifests import manifest_map
    return sorted(name for name, m in manifest_map.items() if "live" in m.supported_modes())


OPTION_POOL = [
    ("timeline", ["1"]), ("depth", ["20", "40", "60", "120", "30", "1800", "-5", "0", "3600", "600"]), ("leeway", ["16", "20", "30", "60"]),
    ("mup", ["-1", "4", "8", "30", "0", "none"]), ("abr", ["0", "1"]), ("base", ["0", "1"]), ("acodec", ["mp4a", "ec-3", "any"]),
    ("events", ["ping", "scte35", "ping,scte35"]), ("patch", ["1"]),
    ("drm", ["all", "clearkey", "playready-pro", "marlin", "playready-moov", "playready-cenc,clearkey"]),
    # options that do not decide availability but travel with every media URL (usage bits audio/video/text)
    ("bugs", ["saio"]), ("ping__count", ["3"]), ("ping__interval", ["200"]), ("ping__inband", ["0", "1"]),
    ("scte35__count", ["2"]), ("scte35__inband", ["0", "1"]), ("playready__version", ["2.0", "3.0", "4.0"]),
    ("playready__piff", ["0", "1"]), ("time", ["direct", "head", "iso", "http-ntp", "ntp"]), ("drift", ["10"]),
    ("tcodec", ["im1t|etd1"]), ("main_audio", ["ec-3", "mp4a"]),
]
_P_OPT = {"bugs": .12, "ping__count": .12, "ping__interval": .1, "ping__inband": .12, "scte35__count": .1,
          "scte35__inband": .1, "playready__version": .12, "playready__piff": .12, "time": .15, "drift": .1,
          "tcodec": .1, "main_audio": .1}


def e2e_cases(ctx, rng, count):
    names = live_templates()
    out = []
    for i in range(count):
        stream = ["bbb", "tears", "syn1", "syn2", "syn3", "syn4", "syn5", "syn6", "syn7", "syn8", "syn9", "synbig", "syn10", "bbbd", "sgodd"][i % 15]
        man = names[(i // 5) % len(names)]
        opts = {}
        for k, vals in OPTION_POOL:
            if rng.random() < _P_OPT.get(k, .3):
                opts[k] = rng.choice(vals)
        if stream not in ("bbb", "bbbd"):       # only bbb / bbbd have encrypted tracks (C16 covers the error case)
            for k in ("drm", "playready__version", "playready__piff"):
                opts.pop(k, None)
        start = rng.choice(["epoch", "year", "month", "today", "now", "explicit"])
        now = datetime.datetime(rng.choice([2021, 2023, 2024, 2031]), rng.randrange(1, 13), rng.randrange(1, 28),
                                rng.randrange(24), rng.randrange(60), rng.randrange(60),
                                rng.choice([0, 0, 500000, rng.randrange(10 ** 6)]),
                                tzinfo=datetime.timezone.utc)
        if stream == "syn5":
            # decode times crossing 2^31 / 2^32 / 2^33 ticks of the 1024 Hz video track (loop = 2^13 ticks)
            P = [2 ** 32, 2 ** 31, 2 ** 33, 2 ** 32][(i // 7) % 4]
            ast_ = datetime.datetime(rng.choice([2021, 2024]), rng.randrange(1, 13), rng.randrange(1, 28),
                                     rng.randrange(24), rng.randrange(60), rng.randrange(60), tzinfo=datetime.timezone.utc)
            now = ast_ + datetime.timedelta(seconds=P // 1024) + datetime.timedelta(seconds=rng.choice([1, 3, 7, 12, 19]),
                                                                                   microseconds=rng.choice([0, 250000, 999999]))
            start = "pow2"
        if stream == "syn6" and (i // 8) % 2 == 0:
            # a young stream whose media files start at decode time 8 s: positions on the live timeline
            # below the first stored decode time must still be served
            ast_ = now.replace(microsecond=0) - datetime.timedelta(seconds=rng.choice([9, 12, 20, 31, 45, 70]))
            start = "pow2"
            opts.setdefault("depth", rng.choice(["30", "60", "120"]))
        if i % 5 == 2 and start != "pow2":
            # calendar boundaries: the symbolic starts shortly after the instant they resolve to (where the
            # code moves availabilityStartTime back by a day), with a SegmentTimeline and with $Number$
            cal = [("today", (5, 1, 0, 0, 30, 500000)), ("month", (3, 1, 8, 0, 30, 500000)),
                   ("year", (1, 1, 12, 0, 7, 300000)), ("today", (12, 31, 0, 0, 59, 999999)),
                   ("month", (1, 1, 0, 0, 1, 0)), ("year", (1, 1, 0, 0, 0, 250000)),
                   ("now", (2, 29, 23, 59, 59, 900000)),
                   # a whole number of days (plus less than a second) after the start: elapsed time with a zero
                   # seconds-within-the-day component
                   ("month", (5, 3, 0, 0, 0, 400000)), ("year", (3, 1, 0, 0, 0, 999999)),
                   ("2024-04-01T00:00:00Z", (5, 1, 0, 0, 0, 400000)), ("2024-02-10T17:45:12Z", (3, 11, 17, 45, 12, 700000)),
                   # a drifting server clock next to the instant where a symbolic start changes its meaning
                   # (today: 00:01:00; month / year: 00:00:00 on the 1st and 2nd)
                   ("today", (5, 1, 0, 1, 4, 500000), "10"), ("today", (5, 1, 0, 0, 57, 500000), "-10"),
                   ("year", (1, 2, 0, 0, 3, 500000), "10"), ("month", (3, 2, 0, 0, 3, 500000), "10"),
                   ("month", (3, 1, 0, 0, 3, 500000), "10"), ("year", (1, 1, 0, 0, 3, 500000), "10"),
                   ][(i // 5) % 17]
            start = cal[0]
            mo, d, h, mi, se, us = cal[1]
            now = datetime.datetime(2024, mo, d, h, mi, se, us, tzinfo=datetime.timezone.utc)
            if len(cal) > 2:
                opts["drift"] = cal[2]
            else:
                opts.pop("drift", None)
            man = "hand_made.mpd"
            if (i // 35) % 2 == 0:
                opts["timeline"] = "1"
            else:
                opts.pop("timeline", None)
        if i % 9 == 4 and start != "pow2" and i % 5 != 2:
            # an explicit start written with a UTC offset: every sign / whole / fractional hour form in turn
            off = [-330, 120, -570, 345, -30, 840, -720, -60, 765][(i // 9) % 9]
            age = rng.choice([rng.randrange(70, 4000), rng.randrange(4000, 10 ** 7)])
            st_ = (now - datetime.timedelta(seconds=age)).replace(microsecond=0)
            loc = st_ + datetime.timedelta(minutes=off)
            start = loc.strftime("%Y-%m-%dT%H:%M:%S") + f"{'%2B' if off >= 0 else '-'}{abs(off) // 60:02d}:{abs(off) % 60:02d}"
        if start == "pow2":
            opts["start"] = ast_.strftime("%Y-%m-%dT%H:%M:%SZ")
        elif start == "explicit":
            age = rng.choice([rng.randrange(70, 4000), rng.randrange(4000, 10 ** 7)])
            st_ = (now - datetime.timedelta(seconds=age)).replace(microsecond=0)
            if rng.random() < .35:   # explicit start with a non-UTC offset ('+' URL-encoded)
                off = rng.choice([120, -330, 345, -60, 840, -720])
                loc = st_ + datetime.timedelta(minutes=off)
                opts["start"] = loc.strftime("%Y-%m-%dT%H:%M:%S") + f"{'%2B' if off >= 0 else '-'}{abs(off) // 60:02d}:{abs(off) % 60:02d}"
            else:
                opts["start"] = st_.strftime("%Y-%m-%dT%H:%M:%SZ")
        elif i % 17 == 7 and i % 5 != 2:
            # a very old stream: segment numbers beyond 2^32
            opts["start"] = rng.choice(["1000-01-01T00:00:00Z", "0100-06-01T12:00:00Z", "1479-12-31T23:59:59Z"])
        else:
            opts["start"] = start
        if stream in ("bbb", "bbbd") and (i // 15) % 2 == 1 and i % 5 != 2:
            # a time-shift buffer given in the URL that is DEEPER than what a media request falls back to (the
            # server default, or the stream's stored default): every media type – the text track included – has
            # to receive it through its own URLs
            opts["depth"] = "3600" if stream == "bbb" else "600"
            man = "hand_made.mpd"
            if (i // 30) % 2 == 0:
                opts["timeline"] = "1"
            else:
                opts.pop("timeline", None)
            opts.pop("drift", None)
            opts["start"] = (now - datetime.timedelta(seconds=3 * 3600 + 17)).strftime("%Y-%m-%dT%H:%M:%SZ")
        if stream == "syn9" and (i // 15) % 2 == 0:
            # the stream's stored defaults decide start, depth, leeway and update period: none of them in the URL
            for k in ("start", "depth", "leeway", "mup"):
                opts.pop(k, None)
            if now.year < 2023:
                now = now.replace(year=2023)
        if stream == "syn9" and (i // 15) % 2 == 1:
            # the URL spells options with exactly the SERVER's default values although the stream's stored
            # defaults differ: an explicit value wins over the stream default on the manifest side, so it has
            # to reach the media side as well (it must not be dropped as "equal to the default")
            from dashlive.server.options.repository import OptionsRepository
            sd_ = OptionsRepository.get_default_options()
            opts["depth"] = str(int(sd_.timeShiftBufferDepth))
            opts["leeway"] = str(int(sd_.leeway))
            opts["start"] = "year" if (i // 30) % 2 == 0 else "epoch"
            opts.pop("mup", None)
        # (`year` is the server default: the calendar cases leave it out of the URL half of the time)
        q = "&".join(f"{k}={v}" for k, v in opts.items() if not (k == "start" and v == "year" and i % 10 == 2))
        out.append((stream, f"/dash/live/{stream}/{man}?{q}", now, opts))
    return out


def ch_e2e(ctx) -> Channel:
    import appboot
    import segchecks
    from props import c02
    from dashlive.server.options.repository import OptionsRepository
    ch = Channel("live_e2e", rule=(
        "every live-capable manifest template (discovered from the server's manifest_map) x streams bbb, tears, "
        "syn1..syn10, synbig, bbbd (irregular/drifting tracks, fragments numbered from 0 and 7, first decode time "
        "8 s, NTSC, two segments, stored stream defaults, default sample durations, segments larger than the "
        "loader's cache window, a stored DRM default) x random subsets of every option with a media usage bit "
        "(incl. negative/zero/none values) x start=epoch|year|month|today|now|explicit (UTC offsets in turn) + "
        "fixed classes: 17 calendar instants (symbolic boundaries, whole days + < 1 s, drift next to a boundary), "
        "deep-buffer, very old starts, 2^31/2^32/2^33 ticks, young streams, URL values equal to the server default; "
        "every Representation's init URL and the first two, quarter, half, last three and width-boundary entries of "
        "the listed $Time$ entries / in-window $Number$ values fetched at the same clock through BaseURL + template + "
        "query as the manifest spells them; statuses vs model and vs the property; non-trivial = fetched media "
        "segment; distinct by (url, clock, representation, value)"))
    app = segchecks.get_app()
    client = app.client()
    rng = ctx.rng("live_e2e")
    default_leeway = int(OptionsRepository.get_default_options().leeway)
    lines, recs = [], []
    with appboot.Clock("2023-01-01T00:00:00Z") as clock:
        for stream, url, now, opts in e2e_cases(ctx, rng, ctx.scale(120, 930)):
            trk = segchecks.tracks(app, stream)
            mpd, status, fetches = segchecks.walk_manifest(app, client, clock, stream, url, now, rng,
                                                           per_rep=ctx.scale(5, 12), want_init=True)
            ch.count(f"manifest:{url.split('/')[4].split('?')[0]}:status={status}")
            if mpd is None:
                continue
            for k in opts:
                ch.count(f"option:{k}")
            leeway_us = (int(opts["leeway"]) * 10 ** 6 if "leeway" in opts
                         else segchecks.stream_leeway_us(stream, default_leeway))
            with app.ctx() as models:
                reps = {mf.name: mf.representation for mf in models.Stream.get(directory=stream).media_files}
            for f in fetches:
                ch.evaluations += 1
                if f.mode == "init":
                    ch.count(f"init:status={f.status}")
                    if f.status != 200:
                        ch.oracle_failures.append({"kind": "init-not-retrievable", "fetch": f.json(),
                                                   "what": f"init segment of a listed Representation answered {f.status}"})
                    continue
                if f.rep_id not in trk:
                    continue
                t = trk[f.rep_id]
                lines.append(c02.model_request(t, f, mpd, leeway_us, reps[f.rep_id]))
                recs.append((t, f, mpd))
    model = _driver(ch, lines)
    for (t, f, mpd), mo, line in zip(recs, model, lines):
        ch.count(f"{f.mode}:status={f.status}")
        ch.nontrivial.add((f.manifest, f.now, f.rep_id, f.value))
        if mo is not None:
            pred = 404 if mo == "404" else 200 if mo.startswith("ok") else mo
            if pred == 200:
                # the handler decided to serve; an in-band event whose id needs more than 32 bits is then refused
                # while the emsg box is built (ledger: D13j seen from C01) – predicted exactly, so that any other
                # 400 remains a disagreement
                _, mod_, origin_, _num = mo.split()
                stored_ = t.stored_tfdt[int(mod_) - 1] if t.has_tfdt else sum(t.durs[:int(mod_) - 1])
                if segchecks.event_id_overflow(f.url, f.mode, f.value, f.adv_d, t,
                                               tfdt=stored_ + int(origin_), dur=t.durs[int(mod_) - 1]):
                    pred = 400
            if pred != f.status:
                ch.disagreements.append({"fetch": f.json(), "line": line, "model": mo, "impl_status": f.status})
        if f.end_le_now and f.status != 200:
            ch.oracle_failures.append({"kind": "advertised-not-retrievable", "fetch": f.json(),
                                       "what": f"addressable segment answered {f.status}"})
        ch.sample({"url": f.url, "now": f.now, "status": f.status}, limit=3)
    return ch


def channels(ctx):
    yield ch_pure(ctx)
    yield ch_e2e(ctx)


# ------------------------------------------------------------------ ledger / search / replay

def matches_finding(finding, failure):
    """D9 (class leeway-too-small): the failing request lies outside LeewayTime / LeewayNumber.
    D28 (class clock-drift-option): the manifest was asked for with drift=N (N != 0) and the refused entry
    is listed although its midpoint precedes the time-shift window as of the request instant – an entry no
    manifest without drift lists."""
    if failure.get("kind") != "advertised-not-retrievable":
        return False
    if finding.get("class") == "clock-drift-option":
        import re
        f = failure.get("fetch") or {}
        m = re.search(r"[?&]drift=(-?\d+)", f.get("manifest", ""))
        return bool(m and int(m.group(1)) != 0 and f.get("before_window") is True)
    if finding.get("class") == "event-id-beyond-32-bits":
        import segchecks
        f = failure.get("fetch") or {}
        if not f.get("stream"):
            return False
        t = segchecks.tracks(segchecks.get_app(), f["stream"]).get(f.get("rep_id"))
        return bool(t and f.get("status") == 400 and
                    segchecks.event_id_overflow(f["url"], f["mode"], f["value"], f.get("adv_d"), t))
    if finding.get("class") != "leeway-too-small":
        return False
    f = failure.get("fetch")
    if not f:
        return False
    import re
    import segchecks
    from dashlive.server.options.repository import OptionsRepository
    t = segchecks.tracks(segchecks.get_app(), f["stream"]).get(f["rep_id"])
    if t is None:
        return False
    m = re.search(r"[?&]leeway=(\d+)", f["url"])
    lee_us = (int(m.group(1)) * 10 ** 6 if m else
              segchecks.stream_leeway_us(f["stream"], int(OptionsRepository.get_default_options().leeway)))
    # the class concerns the OLD edge of the window only: a refusal further inside it is not this finding
    off = f.get("win_off_us")
    if f["mode"] == "number" and f.get("listed_index") is None:
        near_edge = off is None or off * t.ts < (2 * t.sd + 1) * 10 ** 6
        return near_edge and not (2 * t.sd * 10 ** 6 + t.ts <= lee_us * t.ts)
    near_edge = off is None or off * t.ts < (max(t.durs) // 2 + 1) * 10 ** 6
    return near_edge and not ((max(t.durs) // 2 + 1) * 10 ** 6 + t.ts <= lee_us * t.ts and max(t.durs) // 2 <= t.sd)


def replay_finding(ctx, finding):
    """D9: leeway=0 – the first listed entry is refused; D28: drift=10 – the oldest listed entries are refused"""
    import appboot
    import segchecks
    import segwalk
    w = finding["witness"]
    app = segchecks.get_app()
    client = app.client()
    now = datetime.datetime.fromisoformat(w["now"].replace("Z", "+00:00"))
    with appboot.Clock(now) as clock:
        import random
        mpd, status, fetches = segchecks.walk_manifest(app, client, clock, w["stream"], w["manifest"], now,
                                                       random.Random(0), per_rep=400, want_init=False)
        bad = [f for f in fetches if f.end_le_now and f.status != 200]
        if finding.get("class") == "clock-drift-option":
            return any(f.before_window for f in bad)
        if finding.get("class") == "event-id-beyond-32-bits":
            trk = segchecks.tracks(app, w["stream"])
            return any(f.status == 400 and segchecks.event_id_overflow(f.url, f.mode, f.value, f.adv_d, trk[f.rep_id])
                       for f in bad if f.rep_id in trk)
        return bool(bad)


def search(ctx, disagreements):
    import types
    c2 = types.SimpleNamespace(tier="thorough", thorough=True, seed=ctx.seed + 104729,
                               rng=lambda name: common.rng_for(ctx.seed + 104729, name),
                               scale=lambda q, t: t if ctx.thorough else max(q, t // 5))
    for fn in (ch_pure, ch_e2e):
        ch = fn(c2)
        if ch.oracle_failures:
            return ch.oracle_failures[0]
    return None


def replay(ctx, payload):
    f = payload.get("failure") or {}
    if "fetch" in f:
        # re-create the history: the manifest is requested again at the same clock and the segment is fetched
        # through the URL *this* manifest spells out for the same Representation and $Time$/$Number$ value
        import appboot
        import random
        import segchecks
        ft = f["fetch"]
        app = segchecks.get_app()
        now = datetime.datetime.fromisoformat(ft["now"].replace("Z", "+00:00"))
        with appboot.Clock(now) as clock:
            mpd, status, fetches = segchecks.walk_manifest(app, app.client(), clock, ft["stream"], ft["manifest"], now,
                                                           random.Random(0), per_rep=10 ** 6, want_init=ft["mode"] == "init")
        same = [x for x in fetches if x.rep_id == ft["rep_id"] and x.mode == ft["mode"] and x.value == ft["value"]]
        bad = [x for x in same if x.status != 200 and (x.mode == "init" or x.end_le_now)]
        return {"fails": bool(bad), "manifest_status": status, "listed": bool(same),
                "status": [x.status for x in same], "url": [x.url for x in same][:1], "now": ft["now"]}
    if "layout" in f and "request" in f:
        from dashlive.server.requesthandler.media_requests import LiveMedia
        lay = segpure.Layout.from_json(f["layout"])
        w = f["window"]
        now = segpure.START + datetime.timedelta(microseconds=w["E_us"])
        _, rep, timing = segpure.make_objects(lay, "live", now=now, depth=w["tsbd"], leeway=w["leeway_s"])
        kind, val = f["request"]
        try:
            r = LiveMedia.calculate_media_segment_index(None, "live", rep, timing,
                                                        val if kind == "n" else None, val if kind == "t" else None)
            return {"fails": False, "result": list(r)}
        except ValueError as e:
            return {"fails": True, "error": str(e)}
    return {"fails": False, "note": "replay names a broken obligation", "payload": payload.get("broken")}
