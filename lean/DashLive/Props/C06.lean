import DashLive.Lemmas.Vod
import DashLive.Props.C02
/-!
# C06 – static manifests describe the stored media completely and exactly

Property theorems only.  Model: `Model/Segments.lean` (`vodIndex`, `timelineVod`,
`servedTfdt`), `Model/Indexing.lean` (segment extents of `Representation.load`,
byte ranges of `generateSegmentList`).
-/
namespace DashLive.Segments

/-- **VOD `$Number$` enumeration.**  Numbers `sn … sn+n−1` map to stored segments
`1 … n` with origin 0; every number past the end – and every number below `sn` – is
refused (404). -/
theorem vod_numbers (n sd sn : Nat) (k : Int) :
    vodIndex n sd sn (.number k) =
      if (sn : Int) ≤ k ∧ k ≤ (n : Int) + sn - 1 then .ok (1 + k - sn).toNat 0 k else .notFound := by
  unfold vodIndex firstLastVod
  simp only
  by_cases h : (sn : Int) ≤ k ∧ k ≤ (n : Int) + sn - 1
  · have : ¬ (k < (sn : Int) ∨ k > (n : Int) + sn - 1) := by omega
    simp [h, this]
  · have : (k < (sn : Int) ∨ k > (n : Int) + sn - 1) := by omega
    simp [h, this]

/-- the `j`-th enumerated number (0-based) is served from stored segment `j+1`;
the next one past the end is refused -/
theorem vod_numbers_enumerated (n sd sn j : Nat) :
    (j < n → vodIndex n sd sn (.number ((sn : Int) + j)) = .ok (j + 1) 0 ((sn : Int) + j)) ∧
    (vodIndex n sd sn (.number ((sn : Int) + n)) = .notFound) := by
  constructor
  · intro hj
    rw [vod_numbers]
    have : (sn : Int) ≤ (sn : Int) + j ∧ (sn : Int) + j ≤ (n : Int) + sn - 1 := by omega
    simp only [this, and_self, if_true]
    congr 1
    omega
  · rw [vod_numbers]
    have : ¬ ((sn : Int) ≤ (sn : Int) + n ∧ (sn : Int) + n ≤ (n : Int) + sn - 1) := by omega
    simp only [this, if_false]

/-- **the VOD SegmentTimeline is exactly the stored media**: its DASH expansion is
`[(P_i, d_i) | i < n]` – every stored segment once, starting at 0, nothing after the
last (this is what the `fix:` for D18 established; before it a track shorter than the
timing reference wrapped around and listed an extra entry). -/
theorem vod_timeline_exact (durs : List Nat) (fuel : Nat) (hn : 0 < durs.length)
    (hpos : ∀ m, m < durs.length → 1 ≤ durAt durs m) (hf : durs.length ≤ fuel) :
    expand (timelineVod durs fuel)
      = (List.range' 0 durs.length).map (fun i => ((prefixSum durs i : Int), (durAt durs i : Int))) := by
  unfold timelineVod
  have hpos' : ∀ m, m < durs.length → 0 < advDur durs 0 m := by
    intro m hm; rw [advDur_zero]; have := hpos m hm; omega
  rw [tlLoop_expand durs 0 0 _ hpos' _ _ hn]
  have h0 : (prefixSum durs 0 : Int) = 0 := by simp [prefixSum_zero]
  have h1 := rawLoop_vod durs hpos durs.length 0 fuel (by omega) hn hf
  have h2 := accumulate_durs durs durs.length 0 (by omega)
  rw [h0] at h1 h2
  rw [h1, h2]

theorem sum_cast (l : List Nat) : (l.map (fun (d : Nat) => (d : Int))).sum = (l.sum : Int) := by
  induction l with
  | nil => rfl
  | cons d ds ih => simp only [List.map_cons, List.sum_cons, ih]; push_cast; rfl

/-- total duration of the VOD timeline = stored media duration; first `t` is 0 -/
theorem vod_timeline_total (durs : List Nat) (fuel : Nat) (hn : 0 < durs.length)
    (hpos : ∀ m, m < durs.length → 1 ≤ durAt durs m) (hf : durs.length ≤ fuel) :
    ((expand (timelineVod durs fuel)).map (·.2)).sum = (durs.sum : Int) ∧
    (expand (timelineVod durs fuel)).length = durs.length := by
  rw [vod_timeline_exact durs fuel hn hpos hf]
  constructor
  · simp only [List.map_map, Function.comp_def]
    rw [range'_map_durAt]
    exact sum_cast durs
  · simp

/-- **VOD `$Time$` addressing** (partial): when the cumulative position `P_k` of stored
segment `k+1` lies within `[k·sd − sd/4, (k+1)·sd − sd/4)` the request `$Time$ = P_k` is
served from that segment.  (`(t + sd/4) // sd`, representation.py:494-497; the code
carries a TODO for irregular durations – finding D11.) -/
theorem vod_time_partial (durs : List Nat) (sd sn k : Nat) (hk : k < durs.length)
    (hreg : k * sd ≤ prefixSum durs k + sd / 4 ∧ prefixSum durs k + sd / 4 < (k + 1) * sd) :
    vodIndex durs.length sd sn (.time (prefixSum durs k)) = .ok (k + 1) 0 ((k : Int) + sn) := by
  have hq : (prefixSum durs k + sd / 4) / sd = k := by
    apply Nat.div_eq_of_lt_le
    · exact hreg.1
    · exact hreg.2
  unfold vodIndex firstLastVod
  simp only [hq]
  have : ¬ ((k : Int) + sn < (sn : Int) ∨ (k : Int) + sn > (durs.length : Int) + sn - 1) := by omega
  simp only [this, if_false]
  congr 1
  omega

/-- … and the time just past the end of the media is refused, under the matching
condition `n·sd ≤ Σ durs + sd/4` (otherwise – a short last segment – it is served from
the last stored segment: same finding D11). -/
theorem vod_time_past_end (durs : List Nat) (sd sn : Nat) (hsd : 0 < sd)
    (hreg : durs.length * sd ≤ durs.sum + sd / 4) :
    vodIndex durs.length sd sn (.time durs.sum) = .notFound := by
  have hq : durs.length ≤ (durs.sum + sd / 4) / sd := (Nat.le_div_iff_mul_le hsd).mpr hreg
  unfold vodIndex firstLastVod
  simp only
  have h1 : (durs.length : Int) ≤ (((durs.sum + sd / 4) / sd : Nat) : Int) := by exact_mod_cast hq
  have : ((((durs.sum + sd / 4) / sd : Nat) : Int) + sn < (sn : Int) ∨
      (((durs.sum + sd / 4) / sd : Nat) : Int) + sn > (durs.length : Int) + sn - 1) := by
    generalize (((durs.sum + sd / 4) / sd : Nat) : Int) = q at *
    omega
  simp only [this, if_true]

/-- **fetched in order the VOD segments form one gapless track** starting at the file's
first decode time `st`: number `sn + j` carries decode time `st + P_j`, consecutive
segments differ by the stored duration, and the last one ends at `st + Σ durs`. -/
theorem vod_gapless (durs : List Nat) (st j : Nat) (hj : j < durs.length) :
    servedTfdt durs (some fun k => st + prefixSum durs k) (j + 1) 0 = st + prefixSum durs j ∧
    servedTfdt durs none (j + 1) 0 = prefixSum durs j ∧
    prefixSum durs (j + 1) = prefixSum durs j + durAt durs j ∧
    prefixSum durs durs.length = durs.sum := by
  refine ⟨by simp [servedTfdt], by simp [servedTfdt], prefixSum_succ hj, prefixSum_length durs⟩

/-! ### negative witness (D11) -/

/-- irregular durations: the third segment (`P_2 = 800`) of `[100,700,100,700]`,
`sd = 400`, is served from stored segment 3 … but `$Time$ = P_1 = 100` is served from
stored segment 1, not 2 -/
example : vodIndex 4 400 1 (.time (prefixSum [100, 700, 100, 700] 1)) = .ok 1 0 1 := by decide

example : ¬ (1 * 400 ≤ prefixSum [100, 700, 100, 700] 1 + 400 / 4) := by decide

/-- non-vacuity: a regular track satisfies the hypothesis at every index -/
example : ∀ k, k < 4 → k * 960 ≤ prefixSum [960, 960, 960, 950] k + 960 / 4 ∧
    prefixSum [960, 960, 960, 950] k + 960 / 4 < (k + 1) * 960 := by decide

end DashLive.Segments

namespace DashLive.Indexing

/-- **on-demand byte ranges tile the stored file.**  For a file whose top-level boxes lie
back to back from `a` to `e`, start with `ftyp`, and are all of the kinds the indexing
loop attributes (`ftyp moov sidx free moof mdat`), the indexed segments lie back to back
from `a` to `e`: the initialization range ends where the first media range begins, every
range begins where the previous one ends and the last ends at the end of the file. -/
theorem ranges_tile_partial (first : Box) (rest : List Box) (a e : Nat)
    (hfirst : first.kind = .ftyp) (ht : BoxTile (first :: rest) a e) (hk : Known (first :: rest)) :
    Tile (index (first :: rest)) a e ∧ index (first :: rest) ≠ [] := by
  unfold index
  simp only [List.foldl_cons]
  simp only [BoxTile] at ht
  have h0 : step [] first = [{ pos := first.pos, size := first.size }] := by
    unfold step; simp [hfirst]
  rw [h0]
  have hrev : RevTile [({ pos := first.pos, size := first.size } : Seg)] a (first.pos + first.size) := by
    simp [RevTile, ht.1]
  obtain ⟨h1, h2⟩ := foldl_tile rest _ a _ e hrev (by simp) ht.2
    (fun x hx => hk x (List.mem_cons_of_mem _ hx))
  exact ⟨revTile_reverse h1, by simpa using h2⟩

/-- every indexed segment starts on an `ftyp` or a `moof` box: a media range begins on the
first box of a fragment -/
theorem segments_start_on_moof (boxes : List Box) :
    ∀ acc : List Seg, (∀ s ∈ acc, ∃ b ∈ boxes, (b.kind = .ftyp ∨ b.kind = .moof) ∧ b.pos = s.pos) →
      ∀ bs : List Box, (∀ b ∈ bs, b ∈ boxes) →
      ∀ s ∈ bs.foldl step acc, ∃ b ∈ boxes, (b.kind = .ftyp ∨ b.kind = .moof) ∧ b.pos = s.pos := by
  intro acc hacc bs
  induction bs generalizing acc with
  | nil => intro _ s hs; exact hacc s hs
  | cons b rest ih =>
    intro hsub
    simp only [List.foldl_cons]
    apply ih
    · intro s hs
      unfold step at hs
      by_cases h1 : (b.kind == .ftyp || b.kind == .moof) = true
      · simp only [h1, if_true, List.mem_cons] at hs
        rcases hs with hs | hs
        · refine ⟨b, hsub b List.mem_cons_self, ?_, by rw [hs]⟩
          cases hkk : b.kind <;> simp_all
        · exact hacc s hs
      · simp only [h1] at hs
        by_cases h2 : extends_ b.kind = true
        · simp only [h2, if_true] at hs
          cases acc with
          | nil => simp at hs
          | cons last tl =>
            rcases List.mem_cons.mp hs with hs' | hs'
            · obtain ⟨bb, hb1, hb2, hb3⟩ := hacc last List.mem_cons_self
              exact ⟨bb, hb1, hb2, by rw [hs']; exact hb3⟩
            · exact hacc s (List.mem_cons_of_mem _ hs')
        · simp only [h2] at hs
          exact hacc s (by simpa using hs)
    · intro x hx; exact hsub x (List.mem_cons_of_mem _ hx)

/-- **indexing records the stored durations**: the durations of the indexed representation
are the per-fragment sums of sample durations (a 0 sample duration = the `trex` default), the
start number is the first `mfhd.sequence_number`, and for ≥ 2 fragments `mediaDuration` is
their sum – for every fragment list. -/
theorem load_durations (dflt : Nat) (frags : List Frag) :
    (loadRep dflt frags).durs = frags.map (fragDur dflt) ∧
    (2 ≤ frags.length → (loadRep dflt frags).mediaDuration = some ((frags.map (fragDur dflt)).sum)) ∧
    (∀ f fs, frags = f :: fs → (loadRep dflt frags).startNumber = f.seq) := by
  refine ⟨?_, ?_, ?_⟩
  · simp [loadRep, foldl_loadStep_durs]
  · intro h
    have : frags.length + 1 > 2 := by omega
    simp [loadRep, foldl_loadStep_durs, this]
  · intro f fs hf
    subst hf
    simp only [loadRep, List.foldl_cons]
    rw [foldl_loadStep_startNumber dflt fs _ f.seq (by simp [loadStep])]
    rfl

/-- **a file with consistent `tfdt` boxes** (`tfdt_k = t0 + Σ_{i<k} d_i`) is indexed with
`start_time = t0` and `segment_duration = (t0 + Σ_{i<n-1} d_i) // (n-1)`: the decode time of every
stored fragment is `start_time + P_k`, the assumption C02's `C02_time_tfdt` makes about stored
files.  (Note the estimate includes `t0`: a non-zero first decode time inflates it.) -/
theorem load_consistent (dflt t0 : Nat) (f : Frag) (fs : List Frag)
    (hc : ConsistentFrom dflt t0 (f :: fs)) (h2 : 1 ≤ fs.length) :
    (loadRep dflt (f :: fs)).startTime = t0 ∧
    (loadRep dflt (f :: fs)).segmentDuration
      = some ((t0 + (((f :: fs).dropLast).map (fragDur dflt)).sum) / fs.length) := by
  constructor
  · simp only [loadRep, List.foldl_cons]
    simp only [ConsistentFrom] at hc
    rw [foldl_loadStep_repStart dflt fs _ t0 (by simp [loadStep, hc.1])]
    rfl
  · have hs := (foldl_loadStep_consistent dflt (f :: fs) {} t0 (by simp) hc).1
    have : (f :: fs).length + 1 > 2 := by simp; omega
    simp only [loadRep, this, if_true, hs]
    simp

/-! ### non-vacuity and the excluded case -/

example : ConsistentFrom 0 1000 [⟨1, some 1000, [240, 240]⟩, ⟨2, some 1480, [240, 240]⟩, ⟨3, some 1960, [100]⟩] := by
  simp [ConsistentFrom, fragDur]

example : loadRep 512 [⟨7, some 0, [0, 0, 0]⟩, ⟨8, none, [0, 0]⟩, ⟨9, none, [0, 0, 0]⟩]
    = { durs := [1536, 1024, 1536], startNumber := 7, startTime := 0,
        mediaDuration := some 4096, segmentDuration := some 1280 } := by decide

example : index [⟨.ftyp, 0, 24⟩, ⟨.moov, 24, 600⟩, ⟨.moof, 624, 100⟩, ⟨.mdat, 724, 900⟩,
    ⟨.sidx, 1624, 44⟩, ⟨.moof, 1668, 100⟩, ⟨.mdat, 1768, 800⟩]
    = [⟨0, 624⟩, ⟨624, 1044⟩, ⟨1668, 900⟩] := by decide

/-- a `styp` (kind `other`) between fragments is covered by no range: the ranges no longer tile -/
example : index [⟨.ftyp, 0, 24⟩, ⟨.moov, 24, 600⟩, ⟨.moof, 624, 100⟩, ⟨.mdat, 724, 900⟩,
    ⟨.other, 1624, 24⟩, ⟨.moof, 1648, 100⟩, ⟨.mdat, 1748, 800⟩]
    = [⟨0, 624⟩, ⟨624, 1000⟩, ⟨1648, 900⟩] := by decide

end DashLive.Indexing
