import DashLive.Lemmas.Evolve
import DashLive.Props.C01
import DashLive.Props.C08
import DashLive.Model.Patch
/-!
# C09 – successive manifests and MPD patches evolve consistently

Property theorems only.  Timelines: `Model/Segments.lean` (every live timeline is a slice
of one global sequence – `timeline_is_slice`); clock side: `Model/LiveTiming.lean` (C08);
patch documents: the small model below (`ServePatch.get`, manifest_requests.py:216-292,
renders the same `ManifestContext` functions as the full manifest at request time).
-/
namespace DashLive.Segments

/-- the DASH expansion of the SegmentTimeline a live manifest carries for window `w` -/
def liveEntries (durs : List Nat) (R ts : Nat) (w : Win) (fuel : Nat) : List (Int × Int) :=
  expand (timelineLive durs R ts (tcFirst w ts) w.tsbd fuel)

theorem advPositive_durG' {durs : List Nat} {R : Nat} (hn : 0 < durs.length) (h : AdvPositive durs R) :
    ∀ g, 0 < durG' durs R g := by
  intro g
  have := h (g % durs.length) (Nat.mod_lt _ hn)
  rwa [advDur_eq_durG'] at this

/-- **Two manifests of the same stream agree on every segment they both list.**  For any
two windows (two clocks, any depths), if an entry of one timeline and an entry of the
other have the same start, they are the same entry (same duration) – both timelines
are slices of the one global sequence, whose starts are strictly increasing. -/
theorem C09_shared_entries_equal (durs : List Nat) (R ts : Nat) (w₁ w₂ : Win) (f₁ f₂ : Nat)
    (hn : 0 < durs.length) (hpos : AdvPositive durs R) :
    let l₁ := liveEntries durs R ts w₁ f₁
    let l₂ := liveEntries durs R ts w₂ f₂
    ∀ i j (hi : i < l₁.length) (hj : j < l₂.length), (l₁[i]).1 = (l₂[j]).1 → l₁[i] = l₂[j] := by
  intro l₁ l₂ i j hi hj heq
  have h1 := (C02_gapless durs R ts (tcFirst w₁ ts) w₁.tsbd f₁ hn hpos).2 i hi
  have h2 := (C02_gapless durs R ts (tcFirst w₂ ts) w₂.tsbd f₂ hn hpos).2 j hj
  have e1 : l₁[i] = ((startG durs R (index durs R (tcFirst w₁ ts) + i) : Int),
      durG' durs R (index durs R (tcFirst w₁ ts) + i)) := h1
  have e2 : l₂[j] = ((startG durs R (index durs R (tcFirst w₂ ts) + j) : Int),
      durG' durs R (index durs R (tcFirst w₂ ts) + j)) := h2
  rw [e1, e2] at heq ⊢
  simp only at heq
  have hs : startG durs R (index durs R (tcFirst w₁ ts) + i)
      = startG durs R (index durs R (tcFirst w₂ ts) + j) := by exact_mod_cast heq
  have := startG_injective durs R hn (advPositive_durG' hn hpos) hs
  rw [this]

/-- a position that starts before another position ends, and vice versa, is that position:
intervals `[startG g, startG g + durG' g)` of different positions are disjoint -/
theorem positions_disjoint (durs : List Nat) (R : Nat) (hn : 0 < durs.length)
    (hpos : ∀ g, 0 < durG' durs R g) {g g' : Nat} (h : g < g') :
    (startG durs R g : Int) + durG' durs R g ≤ startG durs R g' := by
  have h1 : g + 1 ≤ g' := h
  have hm := startG_le_of_le durs R hn (fun k => Int.le_of_lt (hpos k)) h1
  have hs := startG_succ durs R g hn
  have : (startG durs R (g + 1) : Int) ≤ startG durs R g' := by exact_mod_cast hm
  omega

/-- **Two manifests agree on every segment they both describe, even partially.**  If an entry
of one timeline and an entry of the other overlap in time (each starts before the other
ends), they are the same entry – same start and same duration. -/
theorem C09_overlapping_entries_equal (durs : List Nat) (R ts : Nat) (w₁ w₂ : Win) (f₁ f₂ : Nat)
    (hn : 0 < durs.length) (hpos : AdvPositive durs R) :
    let l₁ := liveEntries durs R ts w₁ f₁
    let l₂ := liveEntries durs R ts w₂ f₂
    ∀ i j (hi : i < l₁.length) (hj : j < l₂.length),
      (l₁[i]).1 < (l₂[j]).1 + (l₂[j]).2 → (l₂[j]).1 < (l₁[i]).1 + (l₁[i]).2 → l₁[i] = l₂[j] := by
  intro l₁ l₂ i j hi hj ho1 ho2
  have h1 := (C02_gapless durs R ts (tcFirst w₁ ts) w₁.tsbd f₁ hn hpos).2 i hi
  have h2 := (C02_gapless durs R ts (tcFirst w₂ ts) w₂.tsbd f₂ hn hpos).2 j hj
  have e1 : l₁[i] = ((startG durs R (index durs R (tcFirst w₁ ts) + i) : Int),
      durG' durs R (index durs R (tcFirst w₁ ts) + i)) := h1
  have e2 : l₂[j] = ((startG durs R (index durs R (tcFirst w₂ ts) + j) : Int),
      durG' durs R (index durs R (tcFirst w₂ ts) + j)) := h2
  rw [e1, e2] at ho1 ho2 ⊢
  simp only at ho1 ho2
  have hd := advPositive_durG' hn hpos
  generalize index durs R (tcFirst w₁ ts) + i = g at *
  generalize index durs R (tcFirst w₂ ts) + j = g' at *
  rcases Nat.lt_trichotomy g g' with hlt | heq | hgt
  · have := positions_disjoint durs R hn hd hlt; omega
  · rw [heq]
  · have := positions_disjoint durs R hn hd hgt; omega

/-- **The listed window starts no earlier as firstAvailableTime advances.**  If
`firstAvailableTime` of the second request is not before that of the first, the first
listed position does not move back. -/
theorem C09_window_start_forward (durs : List Nat) (R ts : Nat) (w₁ w₂ : Win)
    (hR : 0 < R) (hn : 0 < durs.length)
    (hF : w₁.E - w₁.tsbd * 1000000 ≤ w₂.E - w₂.tsbd * 1000000) :
    index durs R (tcFirst w₁ ts) ≤ index durs R (tcFirst w₂ ts) := by
  apply index_mono durs R _ _ hR hn
  unfold tcFirst
  exact tdToTc_mono ts hF

/-- with a constant buffer depth (any stream at least as old as its depth) firstAvailableTime
follows the clock -/
theorem fat_mono_const_depth (w₁ w₂ : Win) (hd : w₁.tsbd = w₂.tsbd) (hE : w₁.E ≤ w₂.E) :
    w₁.E - w₁.tsbd * 1000000 ≤ w₂.E - w₂.tsbd * 1000000 := by
  rw [hd]; omega

/-- length of the timeline = number of iterations of the generator loop -/
theorem liveEntries_eq (durs : List Nat) (R ts : Nat) (w : Win) (fuel : Nat) (hn : 0 < durs.length)
    (hpos : AdvPositive durs R) :
    liveEntries durs R ts w fuel = sliceG durs R (index durs R (tcFirst w ts))
      (rawLoop durs ((R : Int) - (durs.sum : Int)) ((w.tsbd * ts : Nat) : Int) fuel 0
        (index durs R (tcFirst w ts) % durs.length)).length := by
  unfold liveEntries timelineLive
  rw [getSegmentIndex_eq durs R _ hn]
  simp only [Nat.add_sub_cancel]
  rw [tlLoop_expand durs _ _ _ hpos _ _ (Nat.mod_lt _ hn), rawLoop_slice durs R _ hn]

/-- end of the listed window: start of the position after the last listed one -/
def windowEnd (durs : List Nat) (R ts : Nat) (w : Win) (fuel : Nat) : Nat :=
  startG durs R (index durs R (tcFirst w ts) + (liveEntries durs R ts w fuel).length)

/-- **The listed window ends no earlier as the clock advances** (same buffer depth, fuel
sufficient for the generator loop to finish): the last listed segment of the later
manifest does not end before the last listed segment of the earlier one. -/
theorem C09_window_end_forward (durs : List Nat) (R ts : Nat) (w₁ w₂ : Win) (f₁ f₂ : Nat)
    (hR : 0 < R) (hn : 0 < durs.length) (hpos : AdvPositive durs R)
    (hd : w₁.tsbd = w₂.tsbd) (hE : w₁.E ≤ w₂.E) (hB : 0 < w₁.tsbd * ts)
    (hf₁ : w₁.tsbd * ts ≤ f₁) (hf₂ : w₂.tsbd * ts ≤ f₂) :
    windowEnd durs R ts w₁ f₁ ≤ windowEnd durs R ts w₂ f₂ := by
  have hg := C09_window_start_forward durs R ts w₁ w₂ hR hn (fat_mono_const_depth w₁ w₂ hd hE)
  have hdp := advPositive_durG' hn hpos
  unfold windowEnd
  rw [liveEntries_eq durs R ts w₁ f₁ hn hpos, liveEntries_eq durs R ts w₂ f₂ hn hpos]
  simp only [sliceG_length]
  generalize hg1 : index durs R (tcFirst w₁ ts) = g₁ at *
  generalize hg2 : index durs R (tcFirst w₂ ts) = g₂ at *
  -- facts about the two loops
  have c1 := rawLoop_covers durs ((R : Int) - (durs.sum : Int)) ((w₁.tsbd * ts : Nat) : Int) hpos f₁ 0
    (g₁ % durs.length) (Nat.mod_lt _ hn) (by push_cast; omega)
  have c2 := rawLoop_covers durs ((R : Int) - (durs.sum : Int)) ((w₂.tsbd * ts : Nat) : Int) hpos f₂ 0
    (g₂ % durs.length) (Nat.mod_lt _ hn) (by push_cast; omega)
  have d1 := rawLoop_durs durs R ((w₁.tsbd * ts : Nat) : Int) hn f₁ 0 g₁
  have d2 := rawLoop_durs durs R ((w₂.tsbd * ts : Nat) : Int) hn f₂ 0 g₂
  generalize hk1 : (rawLoop durs ((R : Int) - (durs.sum : Int)) ((w₁.tsbd * ts : Nat) : Int) f₁ 0
    (g₁ % durs.length)).length = k₁ at *
  generalize hk2 : (rawLoop durs ((R : Int) - (durs.sum : Int)) ((w₂.tsbd * ts : Nat) : Int) f₂ 0
    (g₂ % durs.length)).length = k₂ at *
  have hne1 : rawLoop durs ((R : Int) - (durs.sum : Int)) ((w₁.tsbd * ts : Nat) : Int) f₁ 0
      (g₁ % durs.length) ≠ [] := by
    intro h0; rw [h0] at c1; simp at c1; omega
  have m1 := rawLoop_minimal durs ((R : Int) - (durs.sum : Int)) ((w₁.tsbd * ts : Nat) : Int) f₁ 0
    (g₁ % durs.length) hne1
  have hk1pos : 0 < k₁ := by
    rw [← hk1]; exact List.length_pos_iff.mpr hne1
  rw [d1, sum_durG' durs R hn g₁ k₁] at c1
  rw [d2, sum_durG' durs R hn g₂ k₂] at c2
  have hdrop : ((List.range k₁).map (fun i => durG' durs R (g₁ + i))).dropLast
      = (List.range (k₁ - 1)).map (fun i => durG' durs R (g₁ + i)) := by
    obtain ⟨k, rfl⟩ : ∃ k, k₁ = k + 1 := ⟨k₁ - 1, by omega⟩
    rw [List.range_succ, List.map_append]
    simp
  rw [d1, hdrop, sum_durG' durs R hn g₁ (k₁ - 1)] at m1
  -- monotonicity of starts
  have hmono := startG_le_of_le durs R hn (fun g => Int.le_of_lt (hdp g)) hg
  by_cases hcon : startG durs R (g₂ + k₂) < startG durs R (g₁ + k₁)
  · have hlt : g₂ + k₂ < g₁ + k₁ := by
      by_cases h : g₂ + k₂ < g₁ + k₁
      · exact h
      · have := startG_le_of_le durs R hn (fun g => Int.le_of_lt (hdp g)) (show g₁ + k₁ ≤ g₂ + k₂ by omega)
        omega
    have h2 := startG_le_of_le durs R hn (fun g => Int.le_of_lt (hdp g))
      (show g₂ + k₂ ≤ g₁ + (k₁ - 1) by omega)
    rw [hd] at m1
    push_cast at *
    omega
  · omega

/-! ### the clock side (C08) gives the window the theorems above need -/

open DashLive.LiveTiming in
/-- the handler-side window obtained from the C08 model has `tsbd·10⁶ ≤ E`, which is what
C01/C09 assume of a `Win` -/
theorem window_from_timing (now : Int) (ref : Ref) (o : Options) (h : Accepted now o) :
    0 ≤ (calculateLiveParams now ref o).timeShiftBufferDepth ∧
    (calculateLiveParams now ref o).timeShiftBufferDepth * 1000000
      ≤ (calculateLiveParams now ref o).elapsedTime := by
  have h1 := tsbd_bounds now ref o h
  have h2 := (elapsed_eq now ref o h).1
  unfold usPerSec at h1
  omega

open DashLive.LiveTiming in
/-- **publishTime and availabilityStartTime never move backward** between two requests with
the same options that resolve the same availabilityStartTime (C08 `publish_mono`). -/
theorem C09_publish_ast_mono (now₁ now₂ : Int) (ref : Ref) (o : Options)
    (h₁ : Accepted now₁ o) (h₂ : Accepted now₂ o) (hle : now₁ ≤ now₂)
    (hast : (calculateLiveParams now₁ ref o).availabilityStartTime
      = (calculateLiveParams now₂ ref o).availabilityStartTime) :
    (calculateLiveParams now₁ ref o).publishTime ≤ (calculateLiveParams now₂ ref o).publishTime ∧
    (calculateLiveParams now₁ ref o).availabilityStartTime
      ≤ (calculateLiveParams now₂ ref o).availabilityStartTime :=
  ⟨publish_mono now₁ now₂ ref o h₁ h₂ hle hast, Int.le_of_eq hast⟩

open DashLive.LiveTiming in
/-- the window `LiveMedia` works with, taken from the C08 model of `DashTiming` -/
def winOfTiming (lt : LiveTiming) : Win :=
  { E := lt.elapsedTime.toNat, tsbd := lt.timeShiftBufferDepth.toNat, leeway := lt.leeway.toNat }

open DashLive.LiveTiming in
/-- **C08 ∘ C01 (composition).**  For *every* accepted clock and option set, the window the
media handler rebuilds from `DashTiming` satisfies C01's window hypothesis, so under the
leeway/segment hypotheses every listed `$Time$` entry that ends by now is served (200). -/
theorem C01_time_from_clock (now : Int) (ref : Ref) (o : Options) (h : Accepted now o)
    (conv : Nat → Int) (durs : List Nat) (ts sd sn R fuel : Nat)
    (hn : 2 ≤ durs.length) (hR : 0 < R) (hts : 0 < ts) (hsd : 0 < sd) (hconv : ConvSpec conv ts)
    (hadv : AdvMicro durs R ts)
    (hlee : LeewayTime durs ts (winOfTiming (calculateLiveParams now ref o)))
    (hhalf : HalfSeg durs sd) :
    let w := winOfTiming (calculateLiveParams now ref o)
    let l := expand (timelineLive durs R ts (tcFirst w ts) w.tsbd fuel)
    ∀ i (hi : i < l.length), ((l[i]).1 + (l[i]).2) * 1000000 ≤ (w.E : Int) * ts →
      ∃ m o' k, liveIndex conv durs ts sd sn R w (.time (l[i]).1.toNat) = .ok m o' k := by
  have hw := window_from_timing now ref o h
  have he := (elapsed_eq now ref o h).2
  have hwin : (winOfTiming (calculateLiveParams now ref o)).tsbd * 1000000
      ≤ (winOfTiming (calculateLiveParams now ref o)).E := by
    unfold winOfTiming
    simp only
    omega
  exact C01_time_partial conv durs ts sd sn R _ fuel hn hR hts hsd hwin hconv hadv hlee hhalf

/-! ### the manifest's resolved `start`/`depth` rebuild the same window (URL round trip) -/

namespace Roundtrip
open DashLive.LiveTiming

theorem clamp_idem (e d0 : Int) (he : 0 < e) (hd : 0 < d0) :
    clampDepth e (initialDepth true (some (clampDepth e d0))) = clampDepth e d0 := by
  unfold clampDepth initialDepth usPerSec defaultDepth
  by_cases h1 : e < d0 * 1000000
  · simp only [h1, if_true]
    rw [Int.tdiv_eq_ediv_of_nonneg (Int.le_of_lt he)]
    by_cases h2 : e / 1000000 = 0 ∨ (True ∧ e / 1000000 < 0)
    · simp only [h2, if_true]
      have : e < 60 * 1000000 := by omega
      simp only [this, if_true]
    · simp only [h2, if_false]
      have : ¬ (e < e / 1000000 * 1000000) := by omega
      simp only [this, if_false]
  · simp only [h1, if_false]
    have h2 : ¬ (d0 = 0 ∨ (True ∧ d0 < 0)) := by omega
    simp only [h2, if_false, h1]

/-- a request that carries an explicit whole-second start `A` (not in the future) and a depth
`B` rebuilds `availabilityStartTime = A`, `elapsedTime = now − A` and the depth clamped again -/
theorem explicit_core (now A off B : Int) (ref : Ref) (o : Options)
    (hA : A % 1000000 = 0) (hlt : A < now) :
    let o' : Options := { o with start := .explicit A off, depth := some B }
    (calculateLiveParams now ref o').availabilityStartTime = A ∧
    (calculateLiveParams now ref o').elapsedTime = now - A ∧
    (calculateLiveParams now ref o').timeShiftBufferDepth
      = clampDepth (now - A) (initialDepth true (some B)) ∧
    (calculateLiveParams now ref o').firstAvailableTime
      = (now - A) - clampDepth (now - A) (initialDepth true (some B)) * usPerSec ∧
    (calculateLiveParams now ref o').leeway = (calculateLiveParams now ref o).leeway := by
  have hfl : floorSec A = A := floorSec_of_whole A (by unfold usPerSec; exact hA)
  have hne : ¬ (now - A = 0) := by omega
  simp only [calculateLiveParams, calcWith, resolveStart, if_true, hfl, backOff, hne, if_false]
  exact ⟨trivial, trivial, trivial, trivial, trivial⟩

/-- **URL round trip of the live window.**  The manifest writes its *resolved*
availabilityStartTime and (clamped) timeShiftBufferDepth into every media URL
(manifest_context.py:292-295); a media request carrying them, evaluated at the same
instant, rebuilds exactly the same availabilityStartTime, elapsedTime,
timeShiftBufferDepth and firstAvailableTime – whatever the original options were
(symbolic start, absent/zero/negative depth, young stream …). -/
theorem url_roundtrip_timing (now : Int) (ref : Ref) (o : Options) (h : Accepted now o) :
    let lt := calculateLiveParams now ref o
    let o' : Options := { o with start := .explicit lt.availabilityStartTime lt.utcOffsetMin,
                                 depth := some lt.timeShiftBufferDepth }
    (calculateLiveParams now ref o').availabilityStartTime = lt.availabilityStartTime ∧
    (calculateLiveParams now ref o').elapsedTime = lt.elapsedTime ∧
    (calculateLiveParams now ref o').timeShiftBufferDepth = lt.timeShiftBufferDepth ∧
    (calculateLiveParams now ref o').firstAvailableTime = lt.firstAvailableTime ∧
    (calculateLiveParams now ref o').leeway = lt.leeway := by
  intro lt o'
  obtain ⟨h1, h2, h3, h4⟩ := calc_core ref h.clock h.start_le_now
  have htsbd := calc_tsbd now ref o
  have hfat := calc_fat now ref o
  have hlt : lt.availabilityStartTime < now := by
    have : lt.elapsedTime = now - lt.availabilityStartTime := h3
    have : 0 < lt.elapsedTime := h4
    omega
  obtain ⟨c1, c2, c3, c4, c5⟩ := explicit_core now lt.availabilityStartTime lt.utcOffsetMin
    lt.timeShiftBufferDepth ref o (by unfold usPerSec at h2; exact h2) hlt
  have hE : now - lt.availabilityStartTime = lt.elapsedTime := by
    have : lt.elapsedTime = now - lt.availabilityStartTime := h3
    omega
  have hB : lt.timeShiftBufferDepth = clampDepth lt.elapsedTime (initialDepth true o.depth) := htsbd
  have hidem := clamp_idem lt.elapsedTime (initialDepth true o.depth) h4 (initialDepth_pos o.depth)
  refine ⟨c1, ?_, ?_, ?_, c5⟩
  · rw [c2, hE]
  · rw [c3, hE, hB, hidem]
  · rw [c4, hE, hB, hidem]
    exact hfat.symm ▸ (by rw [← hB])

end Roundtrip

/-! ### MPD patches -/

theorem lookup_self_map (l : List ((String × String) × List SNode)) (hnd : (l.map (·.1)).Nodup) :
    l.map (replaceTl l) = l := by
  induction l with
  | nil => rfl
  | cons x xs ih =>
    simp only [List.map_cons, List.nodup_cons] at hnd
    have htail : xs.map (replaceTl (x :: xs))
        = xs.map (replaceTl xs) := by
      apply List.map_congr_left
      intro kv hkv
      have hne : kv.1 ≠ x.1 := by
        intro h; apply hnd.1; rw [← h]; exact List.mem_map_of_mem hkv
      have hb : (kv.1 == x.1) = false := by simpa using hne
      unfold replaceTl
      rw [List.lookup_cons, hb]
    simp only [List.map_cons, htail, ih hnd.2]
    have hx : (x :: xs).lookup x.1 = some x.2 := by rw [List.lookup_cons]; simp
    unfold replaceTl
    rw [hx]

/-- **Patch ≡ full manifest.**  Fetching the PatchLocation of the T₁ manifest at T₂ and
applying its replace operations to the T₁ document yields the same publishTime,
PatchLocation and SegmentTimelines as the full manifest at T₂ – provided both documents
list the same (Period, AdaptationSet) ids, each once.  The patch's originalPublishTime
equals the T₁ publishTime (which is on a whole second – C08 `publish_in_range`) and its
mpdId the MPD id. -/
theorem C09_patch_equiv (d₁ d₂ : Doc) (hid : d₁.mpdId = d₂.mpdId)
    (hkeys : d₁.timelines.map (·.1) = d₂.timelines.map (·.1))
    (hnd : (d₂.timelines.map (·.1)).Nodup)
    (hsec : d₁.publishTime % 1000000 = 0) :
    let p := servePatch d₂ (publishSeconds d₁)
    (applyPatch p d₁).publishTime = d₂.publishTime ∧
    (applyPatch p d₁).patchLocation = d₂.patchLocation ∧
    (applyPatch p d₁).timelines = d₂.timelines ∧
    p.originalPublishTime = d₁.publishTime ∧ p.mpdId = d₁.mpdId := by
  simp only [servePatch, applyPatch, publishSeconds]
  refine ⟨trivial, trivial, ?_, by omega, hid.symm⟩
  have h2 := lookup_self_map d₂.timelines hnd
  -- d₁'s entries have d₂'s keys in the same order, so the map sends them to d₂'s entries
  have hmap : ∀ (l₁ l₂ : List ((String × String) × List SNode)), l₁.map (·.1) = l₂.map (·.1) →
      (∀ kv ∈ l₂, (d₂.timelines.lookup kv.1).isSome) →
      l₁.map (replaceTl d₂.timelines)
      = l₂.map (replaceTl d₂.timelines) := by
    intro l₁
    induction l₁ with
    | nil => intro l₂ h _; cases l₂ <;> simp_all
    | cons a as ih =>
      intro l₂ h hs
      cases l₂ with
      | nil => simp at h
      | cons b bs =>
        simp only [List.map_cons, List.cons.injEq] at h
        have hb := hs b List.mem_cons_self
        simp only [List.map_cons]
        rw [ih bs h.2 (fun kv hkv => hs kv (List.mem_cons_of_mem _ hkv))]
        congr 1
        unfold replaceTl
        rw [h.1]
        cases hl : d₂.timelines.lookup b.1 with
        | none => rw [hl] at hb; simp at hb
        | some tl => rfl
  have hsome : ∀ kv ∈ d₂.timelines, (d₂.timelines.lookup kv.1).isSome := by
    intro kv hkv
    cases hl : d₂.timelines.lookup kv.1 with
    | some _ => rfl
    | none =>
      rw [List.lookup_eq_none_iff] at hl
      have := hl kv hkv
      simp at this
  rw [hmap d₁.timelines d₂.timelines hkeys hsome, h2]

/-! ### non-vacuity and the excluded case -/

example : AdvPositive [240, 240, 240] 720 := by unfold AdvPositive; decide

/-- young stream with 1-second segments: as the clock goes from E = 1.9 s to 2.1 s the
clamped buffer depth jumps from 1 s to 2 s, firstAvailableTime drops from 0.9 s to 0.1 s
and the first listed position moves *back* from 1 to 0 (excluded by the hypothesis of
`C09_window_start_forward`; finding "young-stream window") -/
example : index [240, 240, 240] 720 (tcFirst ⟨1900000, 1, 0⟩ 240) = 1 ∧
    index [240, 240, 240] 720 (tcFirst ⟨2100000, 2, 0⟩ 240) = 0 := by decide

end DashLive.Segments
