import DashLive.Lemmas.Options
import DashLive.Gen.Options
import DashLive.Gen.Manifests
/-!
# C07 – options given to a manifest reach its media requests with the same meaning

Property theorems only (helper lemmas: `Lemmas/Options.lean`; model: `Model/Options.lean`;
registry table: `Gen/Options.lean`, regenerated from the imported `OptionsRepository` on every run).

Quantification: every registry table with escapable-free, pairwise different names
(`TableOk`, discharged for the *generated* table by `decide +kernel`), every codec kind, every
canonical value of the kind (`Canonical` = the image of the kind's `from_string`), every byte
string as text, every set of options on a request, every stream default, every media type
mask, every set of overrides written by `calculate_cgi_parameters`.

Date-time text is a parameter: `DtCodecLaws C` packages C19's round trip
(`DtTextRoundTrip`) with three facts about rendered ISO text (starts with a digit,
contains no `,`/`=`, is not a decimal integer).
-/
namespace DashLive.Options

section
variable {DT : Type} (C : DTCodec DT)

/-! ## formatting an option value to URL text and parsing it is the identity -/

theorem codec_roundtrip_bool (b : Bool) :
    fromString C .bool (cgiText (toText C .bool (.bool b))) = .ok (.bool b) := roundtrip_bool C b

theorem codec_roundtrip_intOrNone (o : Option Int) :
    fromString C .intOrNone (cgiText (toText C .intOrNone (match o with | some z => .int z | none => .none))) =
      .ok (match o with | some z => .int z | none => .none) := by
  cases o with
  | none => exact roundtrip_intOrNone_none C
  | some z => exact roundtrip_intOrNone C z

/-- floats: every non-negative multiple of 0.1 (given as its number of tenths) and `None` -/
theorem codec_roundtrip_floatOrNone (o : Option Nat) :
    fromString C .floatOrNone (cgiText (toText C .floatOrNone (match o with | some t => .tenths t | none => .none))) =
      .ok (match o with | some t => .tenths t | none => .none) := by
  cases o with
  | none => exact roundtrip_floatOrNone_none C
  | some t => exact roundtrip_floatOrNone C t

/-- strings: every text except the spellings of `''`/`none`, which mean `None` -/
theorem codec_roundtrip_strOrNone (s : Bytes) (h : isNoneCI s = false) :
    fromString C .strOrNone (cgiText (toText C .strOrNone (.str s))) = .ok (.str s) ∧
    fromString C .strOrNone (cgiText (toText C .strOrNone .none)) = .ok (.none : Val DT) :=
  ⟨roundtrip_strOrNone C s h, roundtrip_strOrNone_none C⟩

theorem codec_roundtrip_strRaw (s : Bytes) :
    fromString C .strRaw (cgiText (toText C .strRaw (.str s))) = .ok (.str s) := roundtrip_strRaw C s

/-- comma lists: items without a comma that are not spelled `''`/`none` -/
theorem codec_roundtrip_listJoin (l : List Bytes) (h : ∀ i ∈ l, (44 : UInt8) ∉ i ∧ isNoneCI i = false) :
    fromString C .listJoin (cgiText (toText C .listJoin (.list l))) = .ok (.list l) :=
  roundtrip_listJoin C l h

/-- DRM selections of any length, any order, any location subsets (non-empty): the same
systems with the same locations come back; unless the text is the shorthand `all`, the very same list -/
theorem codec_roundtrip_drmSelection (v : List (Bytes × LocSet)) (h : CanonDrm v) :
    ∃ r, fromString C .drmSelection (cgiText (toText C .drmSelection (.drm v))) = .ok (.drm r) ∧
      (∀ e, e ∈ r ↔ e ∈ v) ∧ (isAllDrm (v.map drmItemText) = false → r = v) := by
  obtain ⟨r, hr, he, hl⟩ := drm_roundtrip v h
  exact ⟨r, by simp [fromString, toText, cgiText, hr, Except.map], he, hl⟩

/-- licence URLs: every text (any reserved character, `%`, `+`, `&`, `#`, non-ASCII) -/
theorem codec_roundtrip_quotedUrl (s : Bytes) (h : isNoneCI s = false) :
    fromString C .quotedUrl (cgiText (toText C .quotedUrl (.str s))) = .ok (.str s) ∧
    fromString C .quotedUrl (cgiText (toText C .quotedUrl .none)) = .ok (.none : Val DT) :=
  ⟨roundtrip_quotedUrl C s h, roundtrip_quotedUrl_none C⟩

/-- availabilityStartTime: the five keywords, `None`, and every date-time – the last under the
date-time text laws (`hC.roundtrip` is C19's `∀ d, parse (render d) = d`) -/
theorem codec_roundtrip_astDateTime (hC : DtCodecLaws C) :
    (∀ s ∈ specialAst, fromString C .astDateTime (cgiText (toText C .astDateTime (.str s))) = .ok (.str s)) ∧
    fromString C .astDateTime (cgiText (toText C .astDateTime .none)) = .ok (.none : Val DT) ∧
    (∀ d, fromString C .astDateTime (cgiText (toText C .astDateTime (.dt d))) = .ok (.dt d)) :=
  ⟨fun s h => roundtrip_ast_special C s h, roundtrip_ast_none C, fun d => roundtrip_ast_dt C hC d⟩

theorem codec_roundtrip_dtOrNone (hC : DtCodecLaws C) :
    fromString C .dtOrNone (cgiText (toText C .dtOrNone .none)) = .ok (.none : Val DT) ∧
    (∀ d, fromString C .dtOrNone (cgiText (toText C .dtOrNone (.dt d))) = .ok (.dt d)) :=
  ⟨roundtrip_dtOrNone_none C, fun d => roundtrip_dtOrNone C hC d⟩

/-- error lists of any length: any integer code, position a segment number, a time or nothing -/
theorem codec_roundtrip_errorList (hC : DtCodecLaws C) (l : List (Int × Pos DT)) :
    fromString C .errorList (cgiText (toText C .errorList (.errs l))) = .ok (.errs l) :=
  roundtrip_errorList C hC l

theorem codec_roundtrip_intOrDefault (k z : Int) :
    fromString C (.intOrDefault k) (cgiText (toText C (.intOrDefault k) (.int z))) = .ok (.int z) :=
  roundtrip_intOrDefault C k z

theorem codec_roundtrip_posIntOrDefault (k z : Int) (h : 1 ≤ z) :
    fromString C (.posIntOrDefault k) (cgiText (toText C (.posIntOrDefault k) (.int z))) = .ok (.int z) :=
  roundtrip_posIntOrDefault C k z h

/-- every kind at once -/
theorem codec_roundtrip (hC : DtCodecLaws C) (k : Kind) (v : Val DT) (h : Canonical k v) :
    ∃ v', fromString C k (cgiText (toText C k v)) = .ok v' ∧ ValEquiv v' v :=
  codec_roundtrip_all C hC k v h

end

/-! ## the query string transports every text unchanged (after fix b9109f8: no side condition) -/

/-- `unquote_plus(quote_plus(t, safe=':,')) = t` for every byte string `t` -/
theorem transport_id (t : Bytes) : unquotePlus (quotePlus safeQuery t) = t :=
  unquotePlus_quotePlus safeQuery safeQuery_ok t

/-- a whole dictionary: what Werkzeug's `request.args` holds for the query `dict_to_cgi_params`
wrote is the dictionary itself (names as bytes, `None` as the empty text), for any URL path
without `?`/`#` and any texts -/
theorem transport_query (path : Bytes) (hp : (35 : UInt8) ∉ path ∧ (63 : UInt8) ∉ path)
    (P : List (String × Option Bytes)) (hk : ∀ p ∈ P, KeyOk p.1) :
    parseQsl (queryOf (path ++ renderQuery P)) =
      (P.mergeSort keyLe).map (fun p => (ascii p.1, cgiText p.2)) := by
  rw [queryOf_render path hp P hk]
  exact parseQsl_render _ (fun p h => hk p ((List.mergeSort_perm P keyLe).mem_iff.mp h))

/-- D12 (fixed by b9109f8), kept as a record: without escaping, the `+` of a UTC offset does
*not* survive – the text the media handler saw was `…00 05:30` -/
theorem transport_raw_loses_plus (a b : Bytes) (hb : ∀ c ∈ b, c ≠ 43 ∧ c ≠ 37) (ha : ∀ c ∈ a, c ≠ 43 ∧ c ≠ 37) :
    unquotePlus (a ++ 43 :: b) = a ++ 32 :: b ∧ unquotePlus (a ++ 43 :: b) ≠ a ++ 43 :: b := by
  have h1 : unquotePlus (a ++ 43 :: b) = a ++ 32 :: b := by
    induction a with
    | nil => simp [unquotePlus_plus, unquotePlus_id b hb]
    | cons x r ih =>
      simp only [List.cons_append]
      rw [unquotePlus_plain x _ (ha x (by simp)).1 (ha x (by simp)).2, ih (fun c hc => ha c (by simp [hc]))]
  refine ⟨h1, ?_⟩
  rw [h1]
  intro e
  have := List.append_cancel_left e
  simp at this

/-! ## which options are written for a media type -/

section
variable {DT : Type} [DecidableEq DT] (C : DTCodec DT)

/-- an option whose usage mask has a bit of the media type, that is present, not excluded and not
at its default is in the parameter set of that media type, with its `to_string` text -/
theorem forwarding_complete (tbl : List OptionRow) (use : Nat) (exclude : List String)
    (dflt o : Opts DT) (i : Nat) (r : OptionRow) (v : Val DT)
    (hr : tbl[i]? = some r) (ho : o i = some v) (hu : r.usage &&& use ≠ 0)
    (hx : exclude.contains r.fieldName = false) (hd : dflt i ≠ some v) :
    (r.cgi, toText C r.kind v) ∈ genParams C tbl (some use) exclude true dflt o := by
  apply (mem_genParams C tbl (some use) exclude true dflt o _).mpr
  refine ⟨i, r, hr, (emit_some_iff C _ _ _ _ _ _ _ _).mpr ⟨v, ho, hx, ?_, ?_, rfl⟩⟩
  · simpa using hd
  · simpa [useMiss] using hu

/-- nothing else is: an entry of the parameter set of a media type belongs to a registered option
with a bit of that type, holding a non-default value -/
theorem forwarding_minimal (tbl : List OptionRow) (use : Nat) (exclude : List String)
    (dflt o : Opts DT) (p : String × Option Bytes)
    (h : p ∈ genParams C tbl (some use) exclude true dflt o) :
    ∃ i : Nat, ∃ r : OptionRow, ∃ v, tbl[i]? = some r ∧ r.cgi = p.1 ∧ r.usage &&& use ≠ 0 ∧
      exclude.contains r.fieldName = false ∧ o i = some v ∧ dflt i ≠ some v ∧
      p.2 = toText C r.kind v := by
  obtain ⟨i, r, hr, he⟩ := (mem_genParams C tbl (some use) exclude true dflt o p).mp h
  obtain ⟨v, ho, hx, hd, hu, hp⟩ := (emit_some_iff C _ _ _ _ _ _ _ _).mp he
  refine ⟨i, r, v, hr, by rw [← hp], ?_, hx, ho, ?_, by rw [← hp]⟩
  · simpa [useMiss] using hu
  · simpa using hd

end


open DashLive.Gen.Options

section
variable {DT : Type} [DecidableEq DT] (C : DTCodec DT)


/-- **manifest options → URL text → the media handler's `calculate_options`.**
For the query string put on the init/media URLs of a media type (mask `use`), with the same
stream defaults `dflt` on both sides and any overrides `ovs` written by
`calculate_cgi_parameters` (`verr`/`aerr`/`terr`/`vcorrupt`):

* the media handler accepts the URL (`.ok`);
* an overridden option gets exactly what its `from_string` makes of the override text;
* every other option with a usage bit of the media type ends with the manifest's value
  (identical; DRM selections as the same set of entries);
* an option without such a bit, absent from the manifest's options, or excluded, is at its default. -/
theorem media_side_same_value (hC : DtCodecLaws C) (tbl : List OptionRow) (ht : TableOk tbl)
    (use : Nat) (dflt : Nat → Val DT) (o : Opts DT)
    (ovs : List (String × Bytes)) (hovs : (ovs.map Prod.fst).Nodup)
    (path : Bytes) (hp : (35 : UInt8) ∉ path ∧ (63 : UInt8) ∉ path)
    (hcanon : ∀ i : Nat, ∀ r : OptionRow, ∀ v, tbl[i]? = some r → o i = some v →
      r.usage &&& use ≠ 0 → mediaExclude.contains r.fieldName = false → v ≠ dflt i →
      r.cgi ∉ ovs.map Prod.fst → Canonical r.kind v)
    (hov : ∀ k t, (k, t) ∈ ovs → ∃ i : Nat, ∃ r : OptionRow, ∃ w, tbl[i]? = some r ∧ r.cgi = k ∧
      fromString C r.kind t = .ok w) :
    ∃ res, mediaOptions C tbl dflt
        (path ++ mediaQuery C tbl use (fun i => some (dflt i)) o ovs) = .ok res ∧
      ∀ i : Nat, ∀ r : OptionRow, tbl[i]? = some r →
        (∀ t, (r.cgi, t) ∈ ovs → fromString C r.kind t = .ok (res i)) ∧
        (r.cgi ∉ ovs.map Prod.fst →
          (∀ v, o i = some v → r.usage &&& use ≠ 0 → mediaExclude.contains r.fieldName = false →
            ValEquiv (res i) v) ∧
          ((o i = none ∨ r.usage &&& use = 0 ∨ mediaExclude.contains r.fieldName = true) →
            res i = dflt i)) := by
  let D : Opts DT := fun i => some (dflt i)
  let G := genParams C tbl (some use) mediaExclude true D o
  have hGnd : (G.map Prod.fst).Nodup :=
    genFrom_keys_nodup C (some use) mediaExclude true D o tbl 0 (table_cgi_nodup tbl ht)
  have hPnd : ((applyOverrides G ovs).map Prod.fst).Nodup := applyOverrides_keys_nodup G ovs hGnd
  -- what an entry written by generate_cgi_parameters is
  have hG : ∀ p ∈ G, ∃ i : Nat, ∃ r : OptionRow, ∃ v, tbl[i]? = some r ∧ r.cgi = p.1 ∧
      r.usage &&& use ≠ 0 ∧ mediaExclude.contains r.fieldName = false ∧ o i = some v ∧
      v ≠ dflt i ∧ p.2 = toText C r.kind v := by
    intro p hpG
    obtain ⟨i, r, hr, he⟩ := (mem_genParams C tbl (some use) mediaExclude true D o p).mp hpG
    obtain ⟨v, ho, hx, hd, hu, hpe⟩ := (emit_some_iff C _ _ _ _ _ _ _ _).mp he
    refine ⟨i, r, v, hr, by rw [← hpe], by simpa [useMiss] using hu, hx, ho, ?_, by rw [← hpe]⟩
    intro e; simp [D, e] at hd
  have hmem := mem_applyOverrides G ovs hovs
  obtain ⟨res, hres, hdef, hval⟩ := media_parse_of_params C tbl ht dflt path hp
    (applyOverrides G ovs) hPnd (by
      intro p hpP
      rcases (hmem p).mp hpP with ⟨hpG, hnov⟩ | ⟨t, hto, hp2⟩
      · obtain ⟨i, r, v, hr, hc, hu, hx, ho, hd, hp2⟩ := hG p hpG
        obtain ⟨v', hv', _⟩ := codec_roundtrip_all C hC r.kind v
          (hcanon i r v hr ho hu hx hd (by rw [hc]; exact hnov))
        exact ⟨i, r, v', hr, hc, by rw [hp2]; exact hv'⟩
      · obtain ⟨i, r, w, hr, hc, hw⟩ := hov p.1 t hto
        exact ⟨i, r, w, hr, hc, by rw [hp2]; exact hw⟩)
  refine ⟨res, hres, ?_⟩
  intro i r hr
  constructor
  · intro t hto
    have : (r.cgi, some t) ∈ applyOverrides G ovs := (hmem _).mpr (Or.inr ⟨t, hto, rfl⟩)
    exact hval i r (some t) hr this
  · intro hnov
    -- an entry of G named like row i is the entry of row i
    have hGi : ∀ t, (r.cgi, t) ∈ G → ∃ v, o i = some v ∧ r.usage &&& use ≠ 0 ∧
        mediaExclude.contains r.fieldName = false ∧ v ≠ dflt i ∧ t = toText C r.kind v := by
      intro t htG
      obtain ⟨j, s, v, hs, hc, hu, hx, ho, hd, hp2⟩ := hG _ htG
      obtain ⟨hji, hsr⟩ := row_index_unique tbl ht j i s r hs hr hc
      subst hji; subst hsr
      exact ⟨v, ho, hu, hx, hd, hp2⟩
    have hnotP : (∀ t, (r.cgi, t) ∉ G) → ∀ t, (r.cgi, t) ∉ applyOverrides G ovs := by
      intro hno t htP
      rcases (hmem _).mp htP with ⟨h1, _⟩ | ⟨t', h1, _⟩
      · exact hno t h1
      · exact hnov (List.mem_map.mpr ⟨(r.cgi, t'), h1, rfl⟩)
    constructor
    · intro v ho hu hx
      by_cases hd : v = dflt i
      · -- at its default: not written, the media side has the same default
        have : ∀ t, (r.cgi, t) ∉ G := by
          intro t htG
          obtain ⟨v', ho', _, _, hd', _⟩ := hGi t htG
          rw [ho] at ho'; cases ho'; exact hd' hd
        rw [hdef i r hr (hnotP this), ← hd]
        exact ValEquiv.refl v
      · have hin : (r.cgi, toText C r.kind v) ∈ G := by
          apply (mem_genParams C tbl (some use) mediaExclude true D o _).mpr
          refine ⟨i, r, hr, (emit_some_iff C _ _ _ _ _ _ _ _).mpr ⟨v, ho, hx, ?_, ?_, rfl⟩⟩
          · simp [D]; exact fun e => hd e.symm
          · simpa [useMiss] using hu
        have hinP : (r.cgi, toText C r.kind v) ∈ applyOverrides G ovs :=
          (hmem _).mpr (Or.inl ⟨hin, hnov⟩)
        have h1 := hval i r _ hr hinP
        obtain ⟨v', hv', heq⟩ := codec_roundtrip_all C hC r.kind v (hcanon i r v hr ho hu hx hd hnov)
        rw [hv'] at h1
        cases h1
        exact heq
    · intro hcase
      have : ∀ t, (r.cgi, t) ∉ G := by
        intro t htG
        obtain ⟨v', ho', hu', hx', _, _⟩ := hGi t htG
        rcases hcase with h | h | h
        · rw [h] at ho'; cases ho'
        · exact hu' h
        · rw [h] at hx'; cases hx'
      exact hdef i r hr (hnotP this)

end



instance (k : String) : Decidable (KeyOk k) := by unfold KeyOk; infer_instance

/-! ## obligations over the generated registry table (re-checked against the tree on every run) -/

/-- registered cgi names are non-empty, consist of unreserved characters and are pairwise different -/
theorem table_wellformed : TableOk table := by
  constructor
  · decide +kernel
  · decide +kernel

/-- prefixed field names are pairwise different as well, as are short names -/
theorem table_field_names_distinct :
    (table.map OptionRow.fieldName).Nodup ∧ (table.map (·.short)).Nodup := by
  constructor <;> decide +kernel

/-- a date-time codec that accepts nothing: defaults do not depend on date-time text -/
def nullCodec : DTCodec Unit := { parse := fun _ => none, render := fun _ => [] }

/-- every option's default text parses (`get_default_options` cannot raise), and the default is a
canonical value of the option's kind -/
def defaultOk (r : OptionRow) : Bool :=
  match defaultVal nullCodec r with
  | .ok v =>
    (match r.kind, v with
     | .bool, .bool _ => true
     | .intOrNone, .none => true
     | .intOrNone, .int _ => true
     | .floatOrNone, .none => true
     | .floatOrNone, .tenths _ => true
     | .strOrNone, .none => true
     | .strOrNone, .str s => !isNoneCI s
     | .strRaw, .str _ => true
     | .listJoin, .list l => l.all (fun i => !i.contains 44 && !isNoneCI i)
     | .drmSelection, .drm l => l.isEmpty
     | .quotedUrl, .none => true
     | .astDateTime, .str s => specialAst.contains s
     | .astDateTime, .none => true
     | .dtOrNone, .none => true
     | .errorList, .errs l => l.isEmpty
     | .intOrDefault k, .int z => z == k
     | .posIntOrDefault k, .int z => z == k && decide (1 ≤ z)
     | _, _ => false)
  | .error _ => false

theorem table_defaults_parse : table.all defaultOk = true := by decide +kernel

/-- the options the property names, with the media types they must reach
(VIDEO=2 AUDIO=4 TEXT=8): availability start, buffer depth, leeway, DRM selection and locations,
licence URLs, PlayReady version and PIFF, event selection, bug compatibility, error and corruption
injection with their failure and frame counts -/
def requiredForwarding : List (String × Nat) :=
  [("start", 14), ("depth", 14), ("leeway", 14), ("drm", 14), ("bugs", 14), ("failures", 14),
   ("clearkey__la_url", 6), ("marlin__la_url", 6), ("playready__la_url", 6),
   ("playready__version", 6), ("playready__piff", 6), ("events", 6),
   ("verr", 2), ("vcorrupt", 2), ("frames", 2), ("aerr", 4), ("terr", 8)]

/-- every option the property names has the usage bits of the media types it must reach
(so, by `forwarding_complete`, a non-default value is in their parameter sets) -/
theorem table_forwards_required :
    ∀ q ∈ requiredForwarding, ∃ r ∈ table, r.cgi = q.1 ∧ r.usage &&& q.2 = q.2 := by
  decide +kernel

/-- event schedules: every option of an event generator (prefix `ping`, `scte35`) reaches video and audio -/
theorem table_forwards_event_schedules :
    ∀ r ∈ table, (r.pfx = "ping" ∨ r.pfx = "scte35") → r.usage &&& 6 = 6 := by
  decide +kernel

/-- error/corruption injection is confined to its own media type, manifest errors and player
options reach none -/
theorem table_injection_confined :
    ∀ r ∈ table,
      ((r.cgi = "verr" ∨ r.cgi = "vcorrupt" ∨ r.cgi = "frames") → r.usage &&& 12 = 0) ∧
      (r.cgi = "aerr" → r.usage &&& 10 = 0) ∧ (r.cgi = "terr" → r.usage &&& 6 = 0) ∧
      ((r.cgi = "merr" ∨ r.cgi = "update" ∨ r.cgi = "mode") → r.usage &&& 14 = 0) ∧
      (r.usage &&& 32 ≠ 0 → r.usage &&& 14 = 0) := by
  decide +kernel

/-- the names excluded for every media type do not hide an option that has a media bit -/
theorem table_exclusions_harmless :
    ∀ r ∈ table, r.usage &&& 14 ≠ 0 → ["encrypted", "mode"].contains r.fieldName = false := by
  decide +kernel

/-- the model's constants are the code's: DRM systems, DRM locations, special start values -/
theorem gen_constants_agree :
    drmSystems.map ascii = drmNames ∧ drmLocations.map ascii = locNames.map Prod.fst ∧
    (∀ s, s ∈ DashLive.Gen.Options.specialAst.map ascii ↔ s ∈ DashLive.Options.specialAst) ∧ count = table.length := by
  refine ⟨by decide +kernel, by decide +kernel, ?_, by decide +kernel⟩
  intro s
  have h1 : ∀ s ∈ DashLive.Gen.Options.specialAst.map ascii, s ∈ DashLive.Options.specialAst := by decide +kernel
  have h2 : ∀ s ∈ DashLive.Options.specialAst, s ∈ DashLive.Gen.Options.specialAst.map ascii := by decide +kernel
  exact ⟨h1 s, h2 s⟩



section
variable {DT : Type} (C : DTCodec DT)

/-- the text `calculate_injected_error_segments` writes for translated HTTP errors
(`code=segment,…`) parses, on the media side, to exactly those (code, segment number) pairs -/
theorem inject_roundtrip_errors (l : List (Int × Int)) :
    fromString C .errorList (injectText (l.map fun e => (some e.1, e.2))) =
      .ok (.errs (l.map fun e => (e.1, Pos.num e.2))) := by
  have htxt : injectText (l.map fun e => (some e.1, e.2)) =
      joinWith 44 (l.map fun e => intDec e.1 ++ 61 :: intDec e.2) := by
    simp [injectText, List.map_map, Function.comp_def]
  rw [htxt]
  unfold fromString
  cases l with
  | nil => rfl
  | cons e r =>
    obtain ⟨b, t, ht, _, hb⟩ := intDec_head e.1
    obtain ⟨t', hhead⟩ : ∃ t', joinWith 44 ((e :: r).map fun e => intDec e.1 ++ 61 :: intDec e.2) = b :: t' := by
      simp only [List.map_cons, ht]; exact joinWith_head 44 b _ _
    have hn : isNoneCI (joinWith 44 ((e :: r).map fun e => intDec e.1 ++ 61 :: intDec e.2)) = false := by
      rw [hhead]; exact isNoneCI_false_of_head b t' hb
    simp only [hn, Bool.false_eq_true, if_false]
    rw [splitOn_joinWith 44 _ (by simp) (by
      intro x hx
      obtain ⟨y, _, rfl⟩ := List.mem_map.mp hx
      simp only [List.mem_append, List.mem_cons, not_or]
      exact ⟨intDec_noComma y.1, by decide, intDec_noComma y.2⟩)]
    have hm : ∀ l : List (Int × Int), (l.map fun e => intDec e.1 ++ 61 :: intDec e.2).mapM (errItem C) =
        .ok (l.map fun e => (e.1, Pos.num e.2)) := by
      intro l
      induction l with
      | nil => rfl
      | cons a s ih => simp only [List.map_cons, List.mapM_cons, errItem_num, ih]; rfl
    rw [hm]; rfl

/-- likewise for video corruption (`segment,…`): the media side gets the list of segment numbers -/
theorem inject_roundtrip_corrupt (l : List Int) :
    fromString C .listJoin (injectText (l.map fun s => (none, s))) = .ok (.list (l.map intDec)) := by
  have htxt : injectText (l.map fun s => ((none : Option Int), s)) = joinWith 44 (l.map intDec) := by
    simp [injectText, List.map_map, Function.comp_def]
  rw [htxt]
  have := roundtrip_listJoin C (l.map intDec) (by
    intro i hi
    obtain ⟨z, _, rfl⟩ := List.mem_map.mp hi
    exact ⟨intDec_noComma z, isNoneCI_intDec z⟩)
  simpa [toText, cgiText] using this

end

/-! ## the hypotheses are satisfiable; a concrete run through the generated table -/

/-- a lawful toy date-time codec (one date-time, written `1T`) -/
def toyCodec : DTCodec Unit :=
  { parse := fun s => if s = ascii "1T" then some () else none, render := fun _ => ascii "1T" }

theorem toyCodec_laws : DtCodecLaws toyCodec where
  roundtrip := by intro d; rfl
  digitFirst := by intro d; exact ⟨49, [84], rfl, by decide⟩
  clean := by intro d; cases d; decide
  notInt := by intro d; rfl


/-! ## the side conditions of the round trips are the value domain, not a loophole

Non-trivial instances, and what happens at excluded points (texts that *mean* something else). -/

example : isNoneCI (ascii "mp4a") = false ∧ isNoneCI (ascii "https://l.example/?a=1&b=2+3%20") = false := by
  decide
/-- the string `None` is not a value of a string option: it is how "no value" is written -/
example : fromString toyCodec .strOrNone (cgiText (toText toyCodec .strOrNone (.str (ascii "None")))) =
    .ok .none := by rfl
example : fromString toyCodec .quotedUrl (cgiText (toText toyCodec .quotedUrl (.str (ascii "none")))) =
    .ok .none := by rfl
/-- an item containing a comma is two items -/
example : fromString toyCodec .listJoin (cgiText (toText toyCodec .listJoin (.list [ascii "a,b"]))) =
    .ok (.list [ascii "a", ascii "b"]) := by rfl
example : CanonDrm [(ascii "playready", ⟨false, false, true⟩), (ascii "clearkey", LocSet.all)] := by
  intro e he
  simp at he
  rcases he with rfl | rfl <;> exact ⟨by decide, by decide⟩
/-- a system with an empty set of locations is written like one with all locations -/
example : drmToString [(ascii "playready", LocSet.empty)] = ascii "playready" ∧
    drmFromString (ascii "playready") = .ok [(ascii "playready", LocSet.all)] := ⟨by rfl, by rfl⟩
/-- `interval=0` is rejected by the positive-integer codec (fix a993bc6) -/
example : fromString toyCodec (.posIntOrDefault 1000) (ascii "0") = .error .valueError := by rfl

/-- row 32 of the generated table (`leeway`) -/
def leewayRow : OptionRow := table[32]'(by decide)

/-- a concrete run: `leeway=60` on a video init URL reaches the media handler as the integer 60 -/
example : leewayRow.cgi = "leeway" ∧ ∃ res, mediaOptions toyCodec table (fun _ => Val.none)
    (ascii "/dash/live/bbb/bbb_v7/init.m4v" ++
      mediaQuery toyCodec table 2 (fun _ => some Val.none)
        (fun i => if i = 32 then some (.int 60) else none) []) = .ok res ∧ res 32 = .int 60 := by
  refine ⟨rfl, ?_⟩
  have hrow : table[32]? = some leewayRow := rfl
  have hkind : leewayRow.kind = .intOrNone := rfl
  obtain ⟨res, hres, h⟩ := media_side_same_value toyCodec toyCodec_laws table table_wellformed 2
    (fun _ => Val.none) (fun i => if i = 32 then some (.int 60) else none) [] (by simp)
    (ascii "/dash/live/bbb/bbb_v7/init.m4v") (by decide)
    (by
      intro i r v hr ho _ _ _ _
      by_cases hi : i = 32
      · subst hi; rw [hrow] at hr; cases hr
        simp at ho; subst ho; rw [hkind]; trivial
      · simp [hi] at ho)
    (by simp)
  refine ⟨res, hres, ?_⟩
  have := ((h 32 _ hrow).2 (by simp)).1 (.int 60) (by simp) (by decide) (by decide)
  exact (ValEquiv_iff_eq _ _ (by intro l; simp)).mp this


open DashLive.Gen.Manifests

/-! ## templates: which options a manifest template drops or forces before URLs are built -/

section
variable {DT : Type} [DecidableEq DT] (C : DTCodec DT)

omit [DecidableEq DT] in
/-- **an option the template lists (or that is not feature-controlled at all) passes the
feature filter unchanged**, whatever the other options and the stream defaults are -/
theorem supported_options_survive (K : FilterConsts) (tbl : List OptionRow) (features : List String)
    (dflt o : Nat → Val DT) (i : Nat) (r : OptionRow) (hr : tbl[i]? = some r)
    (h : r.full ∈ features ∨ r.pfx ≠ "" ∨ r.full ∉ K.featureControlled) :
    removeUnsupported K tbl features dflt o i = o i := by
  apply removeUnsupported_kept K tbl features dflt o i r hr
  unfold dropsOption
  rcases h with h | h | h
  · simp [h]
  · simp [h]
  · simp [h]

/-- **an option the template does not support is dropped on the manifest side and never appears in
any media URL, so the media side sees its default too – no half-applied option.**
For an accepted manifest request (`hs`), an option `r` that `remove_unsupported_features` controls
and the template does not list:
1. the options handed to `ManifestContext` hold the (stream) default for it, or the field is gone;
2. for every media type and whatever the manifest's timing writes back, no parameter named
   `r.cgi` is generated;
3. whenever the media handler accepts the URL built from those parameters, it has the default. -/
theorem unsupported_options_dropped_consistently (tbl : List OptionRow) (ht : TableOk tbl)
    (K : FilterConsts) (m : ManifestRow) (mode : Bytes) (args : List (Bytes × Bytes))
    (dflt : Nat → Val DT) (of : Opts DT)
    (hs : serveManifestOptions C K tbl m mode args dflt = .ok of)
    (i : Nat) (r : OptionRow) (hr : tbl[i]? = some r)
    (hdrop : dropsOption K m.features r = true) (hh : r.fieldName ∉ handlerFields)
    (ast depth : Val DT)
    (hnt : fieldIdx tbl "availabilityStartTime" ≠ some i ∧ fieldIdx tbl "timeShiftBufferDepth" ≠ some i) :
    (of i = none ∨ of i = some (dflt i)) ∧
    (∀ use t, (r.cgi, t) ∉ genParams C tbl (some use) mediaExclude true (fun j => some (dflt j))
        (withTiming tbl ast depth of)) ∧
    (∀ (use : Nat) (path : Bytes) (ovs : List (String × Bytes)) (res : Nat → Val DT),
      DtCodecLaws C → (ovs.map Prod.fst).Nodup → (35 : UInt8) ∉ path ∧ (63 : UInt8) ∉ path →
      r.cgi ∉ ovs.map Prod.fst →
      (∀ j : Nat, ∀ s : OptionRow, ∀ v, tbl[j]? = some s → withTiming tbl ast depth of j = some v →
        s.usage &&& use ≠ 0 → mediaExclude.contains s.fieldName = false → v ≠ dflt j →
        s.cgi ∉ ovs.map Prod.fst → Canonical s.kind v) →
      (∀ k t, (k, t) ∈ ovs → ∃ j : Nat, ∃ s : OptionRow, ∃ w, tbl[j]? = some s ∧ s.cgi = k ∧
        fromString C s.kind t = .ok w) →
      mediaOptions C tbl dflt (path ++ mediaQuery C tbl use (fun j => some (dflt j))
        (withTiming tbl ast depth of) ovs) = .ok res → res i = dflt i) := by
  obtain ⟨o0, o2, o5, _, h1, hof, h5⟩ := serve_stages C K tbl m mode args dflt of hs
  obtain ⟨hast, _, _, _⟩ := checkOptionValues_ok C K tbl _ o2 h1
  have hval : of i = none ∨ of i = some (dflt i) := by
    rw [hof]
    rcases removeUnused_cases K tbl mode o5 i with h | h
    · exact Or.inl h
    · right
      rw [h, h5 i r hr hh]
      -- the value check only ever rewrites availabilityStartTime
      rcases astStep_ok C tbl _ o2 hast i with h2 | ⟨hi, _⟩
      · rw [h2, removeUnsupported_dropped K tbl m.features dflt o0 i r hr hdrop]
      · exact absurd hi hnt.1
  have hwt : withTiming tbl ast depth of i = of i := by
    unfold withTiming; simp [hnt.1, hnt.2]
  have hnotin : ∀ use t, (r.cgi, t) ∉ genParams C tbl (some use) mediaExclude true (fun j => some (dflt j))
      (withTiming tbl ast depth of) := by
    intro use t hmem
    obtain ⟨j, s, hsr, he⟩ := (mem_genParams C tbl (some use) mediaExclude true _ _ _).mp hmem
    obtain ⟨v, ho, _, hd, _, hp⟩ := (emit_some_iff C _ _ _ _ _ _ _ _).mp he
    have hc : s.cgi = r.cgi := by have := congrArg Prod.fst hp; simpa using this
    obtain ⟨hji, hsr'⟩ := row_index_unique tbl ht j i s r hsr hr hc
    subst hji
    rw [hwt] at ho
    rcases hval with h | h
    · rw [h] at ho; cases ho
    · rw [h] at ho; cases ho; simp at hd
  refine ⟨hval, hnotin, ?_⟩
  intro use path ovs res hC hovs hp hnov hcanon hov hres
  obtain ⟨res', hres', hdef, _⟩ := media_side_parse C hC tbl ht use dflt (withTiming tbl ast depth of)
    ovs hovs path hp hcanon hov
  rw [hres'] at hres
  cases hres
  apply hdef i r hr
  intro t hmem
  rcases (mem_applyOverrides _ ovs hovs _).mp hmem with ⟨h1, _⟩ | ⟨t', h1, _⟩
  · exact hnotin use t h1
  · exact hnov (List.mem_map.mpr ⟨(r.cgi, t'), h1, rfl⟩)

end



section
variable {DT : Type} [DecidableEq DT] (C : DTCodec DT)

/-- the options after the manifest's timing has been written back (live manifests) -/
def timed (tbl : List OptionRow) (timing : Option (Val DT × Val DT)) (of : Opts DT) : Opts DT :=
  match timing with
  | some t => withTiming tbl t.1 t.2 of
  | none => of

/-- structural facts about a registry table that the request-level theorem uses; all of them are
`decide`d for the generated table (`table_request_facts`) -/
structure RequestTableFacts (tbl : List OptionRow) (use : Nat) : Prop where
  forced : ∀ r ∈ tbl, r.fieldName ∈ handlerFields → r.usage &&& use = 0
  posDefault : ∀ r ∈ tbl, ∀ d, r.kind = .posIntOrDefault d → 1 ≤ d
  drmRow : ∀ i : Nat, ∀ r : OptionRow, tbl[i]? = some r → r.kind = .drmSelection →
    fieldIdx tbl "drmSelection" = some i
  astRow : ∀ i : Nat, ∀ r : OptionRow, fieldIdx tbl "availabilityStartTime" = some i →
    tbl[i]? = some r → r.kind = .astDateTime ∧ r.dflt ∈ ["now", "today", "month", "year", "epoch"]

/-- **from the request of a manifest to the media handler.**
Request arguments → `calculate_options` with the template's restrictions and features and the stream
defaults → `check_option_values` → the handler's filters → (live) the timing written back →
`generate_cgi_parameters` per media type → `dict_to_cgi_params` → URL → the media handler's
`calculate_options` with the same stream defaults.  For every accepted manifest request the
conclusion of `media_side_same_value` holds for the options the manifest really used:
overridden options parse to their override, every option with a usage bit of the media type ends
with the manifest's value, everything else is at its default.  Hypotheses beyond the table facts:
what the timing writes back is canonical, and the licence-URL corner of `fromString_canonical`. -/
theorem request_to_media_same_value (hC : DtCodecLaws C) (tbl : List OptionRow) (ht : TableOk tbl)
    (K : FilterConsts) (m : ManifestRow) (mode : Bytes) (args : List (Bytes × Bytes))
    (dflt : Nat → Val DT) (of : Opts DT)
    (hs : serveManifestOptions C K tbl m mode args dflt = .ok of)
    (timing : Option (Val DT × Val DT)) (use : Nat) (hfacts : RequestTableFacts tbl use)
    (ovs : List (String × Bytes)) (hovs : (ovs.map Prod.fst).Nodup)
    (path : Bytes) (hp : (35 : UInt8) ∉ path ∧ (63 : UInt8) ∉ path)
    (htiming : ∀ t, timing = some t → ∀ i : Nat, ∀ r : OptionRow, tbl[i]? = some r →
      (fieldIdx tbl "availabilityStartTime" = some i → Canonical r.kind t.1) ∧
      (fieldIdx tbl "timeShiftBufferDepth" = some i → Canonical r.kind t.2))
    (hurl : ∀ kv ∈ applyRestrictions m.restrictions args, ∀ i : Nat, ∀ r : OptionRow,
      findRow tbl kv.1 = some i → tbl[i]? = some r → r.kind = .quotedUrl →
      isNoneCI kv.2 = false → isNoneCI (unquotePlus kv.2) = false)
    (hov : ∀ k t, (k, t) ∈ ovs → ∃ i : Nat, ∃ r : OptionRow, ∃ w, tbl[i]? = some r ∧ r.cgi = k ∧
      fromString C r.kind t = .ok w) :
    ∃ res, mediaOptions C tbl dflt
        (path ++ mediaQuery C tbl use (fun i => some (dflt i)) (timed tbl timing of) ovs) = .ok res ∧
      ∀ i : Nat, ∀ r : OptionRow, tbl[i]? = some r →
        (∀ t, (r.cgi, t) ∈ ovs → fromString C r.kind t = .ok (res i)) ∧
        (r.cgi ∉ ovs.map Prod.fst →
          (∀ v, timed tbl timing of i = some v → r.usage &&& use ≠ 0 →
            mediaExclude.contains r.fieldName = false → ValEquiv (res i) v) ∧
          ((timed tbl timing of i = none ∨ r.usage &&& use = 0 ∨
            mediaExclude.contains r.fieldName = true) → res i = dflt i)) := by
  obtain ⟨o0, o2, o5, h0, h1, hof, h5⟩ := serve_stages C K tbl m mode args dflt of hs
  obtain ⟨hast, hdrmok, _, _⟩ := checkOptionValues_ok C K tbl _ o2 h1
  -- every value of an accepted request that can be written to a media URL is canonical
  have hofcanon : ∀ i : Nat, ∀ r : OptionRow, ∀ v, tbl[i]? = some r → of i = some v →
      r.usage &&& use ≠ 0 → v ≠ dflt i → Canonical r.kind v := by
    intro i r v hr hv hu hd
    have hrm := List.mem_of_getElem? hr
    have hnh : r.fieldName ∉ handlerFields := fun h => hu (hfacts.forced r hrm h)
    have hv5 : o5 i = v := by
      rw [hof] at hv
      rcases removeUnused_cases K tbl mode o5 i with h | h
      · rw [h] at hv; cases hv
      · rw [h] at hv; exact Option.some.inj hv
    rw [h5 i r hr hnh] at hv5
    rcases astStep_ok C tbl _ o2 hast i with h | ⟨hi, h | ⟨d, d', _, _, h⟩⟩
    · -- untouched by the value check: a reset to the default, a default or a parsed argument
      have hv1 : removeUnsupported K tbl m.features dflt o0 i = v := by rw [← h]; exact hv5
      have hv0 : o0 i = v := by
        rcases removeUnsupported_cases K tbl m.features dflt o0 i with h' | h'
        · rw [h'] at hv1; exact hv1
        · rw [h'] at hv1; exact absurd hv1.symm hd
      have hvf : removeUnsupported K tbl m.features dflt o0 i = v := hv1
      have hv1 := hv0
      rcases convertOptions_origin C tbl _ dflt o0 h0 i with hdf | ⟨kv, hkv, r', hf, hr', hfs⟩
      · rw [hdf] at hv1; exact absurd hv1.symm hd
      · rw [hr] at hr'; cases hr'
        rw [hv1] at hfs
        apply fromString_canonical C r.kind kv.2 v hfs
        · intro hk; exact hurl kv hkv i r hf hr hk
        · intro d hk; exact hfacts.posDefault r hrm d hk
        · intro l hl
          subst hl
          have hk := fromString_drm_kind C r.kind kv.2 l hfs
          have hidx := hfacts.drmRow i r hr hk
          apply drmNamesOk_spec tbl _ hdrmok l
          unfold getField; rw [hidx]; exact hvf
    · obtain ⟨hk, hdf⟩ := hfacts.astRow i r hi hr
      rw [h.2] at hv5; rw [← hv5]
      exact globalDefault_ast_canonical C tbl i r hr hk hdf
    · obtain ⟨hk, _⟩ := hfacts.astRow i r hi hr
      rw [h] at hv5; rw [← hv5, hk]; trivial
  apply media_side_same_value C hC tbl ht use dflt (timed tbl timing of) ovs hovs path hp ?_ hov
  intro i r v hr hv hu _ hd _
  cases htm : timing with
  | none =>
    rw [htm] at hv
    exact hofcanon i r v hr hv hu hd
  | some t =>
    rw [htm] at hv
    simp only [timed, withTiming] at hv
    obtain ⟨ha, hdp⟩ := htiming t htm i r hr
    split at hv
    · rename_i hi
      cases hoi : of i with
      | none => rw [hoi] at hv; simp at hv
      | some w => rw [hoi] at hv; simp at hv; rw [← hv]; exact ha hi
    · split at hv
      · rename_i hi
        cases hoi : of i with
        | none => rw [hoi] at hv; simp at hv
        | some w => rw [hoi] at hv; simp at hv; rw [← hv]; exact hdp hi
      · exact hofcanon i r v hr hv hu hd

end



/-! ## obligations over the generated template table × the generated option table -/

/-- **for every template of `manifest_map` and every option whose feature the template lists, the
feature filter keeps the option** (with `supported_options_survive`: its value passes unchanged) -/
theorem supported_options_survive_table :
    ∀ m ∈ manifests, ∀ r ∈ table, r.full ∈ m.features → dropsOption filters m.features r = false := by
  decide +kernel

/-- the only options with a media usage bit that some template drops are the audio codec, the DRM
selection and the event selection; no template drops the start time or the buffer depth, and the
only handler-assigned field among the feature-controlled ones is `segmentTimeline` (manifest only) -/
theorem table_dropped_media_options :
    (∀ m ∈ manifests, ∀ r ∈ table, dropsOption filters m.features r = true → r.usage &&& 14 ≠ 0 →
      r.full ∈ ["audioCodec", "drmSelection", "eventTypes"]) ∧
    (∀ r ∈ table, r.pfx = "" → r.full ∈ featureControlled →
      r.fieldName ∉ ["availabilityStartTime", "timeShiftBufferDepth", "mode", "patch"]) := by
  constructor <;> decide +kernel

/-- every name the filters use is a real top-level option, every restricted parameter is a registered
cgi name, and the names of the DRM branches of `remove_unused_parameters` match no field (inert) -/
theorem table_filter_names :
    (∀ f ∈ featureControlled, ∃ r ∈ table, r.pfx = "" ∧ r.full = f) ∧
    (∀ f ∈ liveOnly, ∃ r ∈ table, r.pfx = "" ∧ r.full = f) ∧
    (∀ m ∈ manifests, ∀ kr ∈ m.restrictions, ∃ r ∈ table, r.cgi = kr.1) ∧
    (∀ r ∈ table, r.pfx = "" → r.full ∉ drmUnused) ∧
    (∀ f ∈ ["drmSelection", "utcMethod", "availabilityStartTime", "audioErrors", "manifestErrors",
        "textErrors", "videoErrors", "videoCorruption", "eventTypes", "clockDrift", "leeway",
        "minimumUpdatePeriod", "timeShiftBufferDepth", "mode", "patch", "segmentTimeline"],
      ∃ r ∈ table, r.fieldName = f) ∧
    (∀ e ∈ eventTypes, ∀ k ∈ ["count", "timescale", "duration", "version"],
      ∃ r ∈ table, r.fieldName = e ++ "." ++ k) := by
  refine ⟨?_, ?_, ?_, ?_, ?_, ?_⟩ <;> decide +kernel

def posDefaultOk (r : OptionRow) : Bool :=
  match r.kind with
  | .posIntOrDefault d => decide (1 ≤ d)
  | _ => true

/-- the structural facts `request_to_media_same_value` needs, for the generated table and the
three media types -/
theorem table_request_facts : ∀ use ∈ [2, 4, 8], RequestTableFacts table use := by
  have hnd : (table.map OptionRow.fieldName).Nodup := table_field_names_distinct.1
  have hforced : ∀ use ∈ [2, 4, 8], ∀ r ∈ table, r.fieldName ∈ handlerFields → r.usage &&& use = 0 := by
    decide +kernel
  have hpos : ∀ r ∈ table, posDefaultOk r = true := by decide +kernel
  have hdrm : ∀ r ∈ table, r.kind = .drmSelection → r.fieldName = "drmSelection" := by decide +kernel
  have hast : ∀ r ∈ table, r.fieldName = "availabilityStartTime" →
      r.kind = .astDateTime ∧ r.dflt ∈ ["now", "today", "month", "year", "epoch"] := by decide +kernel
  intro use hu
  refine ⟨hforced use hu, ?_, ?_, ?_⟩
  · intro r hr d hk
    have := hpos r hr
    unfold posDefaultOk at this
    rw [hk] at this
    simpa using this
  · intro i r hr hk
    have := fieldIdx_of_get table hnd i r hr
    rwa [hdrm r (List.mem_of_getElem? hr) hk] at this
  · intro i r hi hr
    obtain ⟨r', hr', hn⟩ := fieldIdx_spec table _ i hi
    rw [hr] at hr'; cases hr'
    exact hast r (List.mem_of_getElem? hr) hn


section
variable {DT : Type} [DecidableEq DT] (C : DTCodec DT)

/-- `request_to_media_same_value` for the generated tables: every template of `manifest_map`, every
media type, the registered options and the filters' constants as they are in the tree -/
theorem request_to_media_same_value_generated (hC : DtCodecLaws C) (m : ManifestRow) (_hm : m ∈ manifests)
    (use : Nat) (hu : use ∈ [2, 4, 8]) (mode : Bytes) (args : List (Bytes × Bytes))
    (dflt : Nat → Val DT) (of : Opts DT)
    (hs : serveManifestOptions C filters table m mode args dflt = .ok of)
    (timing : Option (Val DT × Val DT))
    (ovs : List (String × Bytes)) (hovs : (ovs.map Prod.fst).Nodup)
    (path : Bytes) (hp : (35 : UInt8) ∉ path ∧ (63 : UInt8) ∉ path)
    (htiming : ∀ t, timing = some t → ∀ i : Nat, ∀ r : OptionRow, table[i]? = some r →
      (fieldIdx table "availabilityStartTime" = some i → Canonical r.kind t.1) ∧
      (fieldIdx table "timeShiftBufferDepth" = some i → Canonical r.kind t.2))
    (hurl : ∀ kv ∈ applyRestrictions m.restrictions args, ∀ i : Nat, ∀ r : OptionRow,
      findRow table kv.1 = some i → table[i]? = some r → r.kind = .quotedUrl →
      isNoneCI kv.2 = false → isNoneCI (unquotePlus kv.2) = false)
    (hov : ∀ k t, (k, t) ∈ ovs → ∃ i : Nat, ∃ r : OptionRow, ∃ w, table[i]? = some r ∧ r.cgi = k ∧
      fromString C r.kind t = .ok w) :
    ∃ res, mediaOptions C table dflt
        (path ++ mediaQuery C table use (fun i => some (dflt i)) (timed table timing of) ovs) = .ok res ∧
      ∀ i : Nat, ∀ r : OptionRow, table[i]? = some r →
        (∀ t, (r.cgi, t) ∈ ovs → fromString C r.kind t = .ok (res i)) ∧
        (r.cgi ∉ ovs.map Prod.fst →
          (∀ v, timed table timing of i = some v → r.usage &&& use ≠ 0 →
            mediaExclude.contains r.fieldName = false → ValEquiv (res i) v) ∧
          ((timed table timing of i = none ∨ r.usage &&& use = 0 ∨
            mediaExclude.contains r.fieldName = true) → res i = dflt i)) :=
  request_to_media_same_value C hC table table_wellformed filters m mode args dflt of hs timing use
    (table_request_facts use hu) ovs hovs path hp htiming hurl hov

end

/-- a concrete accepted request: `manifest_a.mpd` lists neither `drmSelection` nor `eventTypes` and
restricts `drm` to `none`: `?drm=playready&events=ping&leeway=60` keeps the leeway, and the DRM and
event selections handed to `ManifestContext` are the defaults (nothing half-applied) -/
example : ∃ m ∈ manifests, m.key = "manifest_a.mpd" ∧ ∃ of,
    serveManifestOptions toyCodec filters table m (ascii "live")
      [(ascii "drm", ascii "playready"), (ascii "events", ascii "ping"), (ascii "leeway", ascii "60")]
      (globalDefault toyCodec table) = .ok of ∧
    of 5 = some (.drm []) ∧ of 10 = some (.list []) ∧ of 32 = some (.int 60) := by
  refine ⟨manifests[2]'(by decide), List.getElem_mem _, rfl, _, rfl, rfl, rfl, rfl⟩

end DashLive.Options
