import DashLive.Lemmas.Options
import DashLive.Gen.Options
/-!
# C07 – options given to a manifest reach its media requests with the same meaning

Property theorems only (helper lemmas: `Lemmas/Options.lean`; model: `Model/Options.lean`;
registry table: `Gen/Options.lean`, regenerated from the imported `OptionsRepository` on every run).

Quantification: every registry table with escapable-free, pairwise different names
(`TableOk`, discharged for the *generated* table by `decide +kernel`), every codec kind, every
canonical value of the kind (`Canonical` = the image of the kind's `from_string`), every byte
string as text, every set of options on a request, every stream default, every media type
mask, every set of overrides written by `calculate_cgi_parameters`.

Date-time text is a parameter: `DtCodecLaws C` packages C19's round trip
(`DtTextRoundTrip`) with three facts about rendered ISO text (starts with a digit,
contains no `,`/`=`, is not a decimal integer).
-/
namespace DashLive.Options

section
variable {DT : Type} (C : DTCodec DT)

/-! ## formatting an option value to URL text and parsing it is the identity -/

theorem codec_roundtrip_bool (b : Bool) :
    fromString C .bool (cgiText (toText C .bool (.bool b))) = .ok (.bool b) := roundtrip_bool C b

theorem codec_roundtrip_intOrNone (o : Option Int) :
    fromString C .intOrNone (cgiText (toText C .intOrNone (match o with | some z => .int z | none => .none))) =
      .ok (match o with | some z => .int z | none => .none) := by
  cases o with
  | none => exact roundtrip_intOrNone_none C
  | some z => exact roundtrip_intOrNone C z

/-- floats: every non-negative multiple of 0.1 (given as its number of tenths) and `None` -/
theorem codec_roundtrip_floatOrNone (o : Option Nat) :
    fromString C .floatOrNone (cgiText (toText C .floatOrNone (match o with | some t => .tenths t | none => .none))) =
      .ok (match o with | some t => .tenths t | none => .none) := by
  cases o with
  | none => exact roundtrip_floatOrNone_none C
  | some t => exact roundtrip_floatOrNone C t

/-- strings: every text except the spellings of `''`/`none`, which mean `None` -/
theorem codec_roundtrip_strOrNone (s : Bytes) (h : isNoneCI s = false) :
    fromString C .strOrNone (cgiText (toText C .strOrNone (.str s))) = .ok (.str s) ∧
    fromString C .strOrNone (cgiText (toText C .strOrNone .none)) = .ok (.none : Val DT) :=
  ⟨roundtrip_strOrNone C s h, roundtrip_strOrNone_none C⟩

theorem codec_roundtrip_strRaw (s : Bytes) :
    fromString C .strRaw (cgiText (toText C .strRaw (.str s))) = .ok (.str s) := roundtrip_strRaw C s

/-- comma lists: items without a comma that are not spelled `''`/`none` -/
theorem codec_roundtrip_listJoin (l : List Bytes) (h : ∀ i ∈ l, (44 : UInt8) ∉ i ∧ isNoneCI i = false) :
    fromString C .listJoin (cgiText (toText C .listJoin (.list l))) = .ok (.list l) :=
  roundtrip_listJoin C l h

/-- DRM selections of any length, any order, any location subsets (non-empty): the same
systems with the same locations come back; unless the text is the shorthand `all`, the very same list -/
theorem codec_roundtrip_drmSelection (v : List (Bytes × LocSet)) (h : CanonDrm v) :
    ∃ r, fromString C .drmSelection (cgiText (toText C .drmSelection (.drm v))) = .ok (.drm r) ∧
      (∀ e, e ∈ r ↔ e ∈ v) ∧ (isAllDrm (v.map drmItemText) = false → r = v) := by
  obtain ⟨r, hr, he, hl⟩ := drm_roundtrip v h
  exact ⟨r, by simp [fromString, toText, cgiText, hr, Except.map], he, hl⟩

/-- licence URLs: every text (any reserved character, `%`, `+`, `&`, `#`, non-ASCII) -/
theorem codec_roundtrip_quotedUrl (s : Bytes) (h : isNoneCI s = false) :
    fromString C .quotedUrl (cgiText (toText C .quotedUrl (.str s))) = .ok (.str s) ∧
    fromString C .quotedUrl (cgiText (toText C .quotedUrl .none)) = .ok (.none : Val DT) :=
  ⟨roundtrip_quotedUrl C s h, roundtrip_quotedUrl_none C⟩

/-- availabilityStartTime: the five keywords, `None`, and every date-time – the last under the
date-time text laws (`hC.roundtrip` is C19's `∀ d, parse (render d) = d`) -/
theorem codec_roundtrip_astDateTime (hC : DtCodecLaws C) :
    (∀ s ∈ specialAst, fromString C .astDateTime (cgiText (toText C .astDateTime (.str s))) = .ok (.str s)) ∧
    fromString C .astDateTime (cgiText (toText C .astDateTime .none)) = .ok (.none : Val DT) ∧
    (∀ d, fromString C .astDateTime (cgiText (toText C .astDateTime (.dt d))) = .ok (.dt d)) :=
  ⟨fun s h => roundtrip_ast_special C s h, roundtrip_ast_none C, fun d => roundtrip_ast_dt C hC d⟩

theorem codec_roundtrip_dtOrNone (hC : DtCodecLaws C) :
    fromString C .dtOrNone (cgiText (toText C .dtOrNone .none)) = .ok (.none : Val DT) ∧
    (∀ d, fromString C .dtOrNone (cgiText (toText C .dtOrNone (.dt d))) = .ok (.dt d)) :=
  ⟨roundtrip_dtOrNone_none C, fun d => roundtrip_dtOrNone C hC d⟩

/-- error lists of any length: any integer code, position a segment number, a time or nothing -/
theorem codec_roundtrip_errorList (hC : DtCodecLaws C) (l : List (Int × Pos DT)) :
    fromString C .errorList (cgiText (toText C .errorList (.errs l))) = .ok (.errs l) :=
  roundtrip_errorList C hC l

theorem codec_roundtrip_intOrDefault (k z : Int) :
    fromString C (.intOrDefault k) (cgiText (toText C (.intOrDefault k) (.int z))) = .ok (.int z) :=
  roundtrip_intOrDefault C k z

theorem codec_roundtrip_posIntOrDefault (k z : Int) (h : 1 ≤ z) :
    fromString C (.posIntOrDefault k) (cgiText (toText C (.posIntOrDefault k) (.int z))) = .ok (.int z) :=
  roundtrip_posIntOrDefault C k z h

/-- every kind at once -/
theorem codec_roundtrip (hC : DtCodecLaws C) (k : Kind) (v : Val DT) (h : Canonical k v) :
    ∃ v', fromString C k (cgiText (toText C k v)) = .ok v' ∧ ValEquiv v' v :=
  codec_roundtrip_all C hC k v h

end

/-! ## the query string transports every text unchanged (after fix b9109f8: no side condition) -/

/-- `unquote_plus(quote_plus(t, safe=':,')) = t` for every byte string `t` -/
theorem transport_id (t : Bytes) : unquotePlus (quotePlus safeQuery t) = t :=
  unquotePlus_quotePlus safeQuery safeQuery_ok t

/-- a whole dictionary: what Werkzeug's `request.args` holds for the query `dict_to_cgi_params`
wrote is the dictionary itself (names as bytes, `None` as the empty text), for any URL path
without `?`/`#` and any texts -/
theorem transport_query (path : Bytes) (hp : (35 : UInt8) ∉ path ∧ (63 : UInt8) ∉ path)
    (P : List (String × Option Bytes)) (hk : ∀ p ∈ P, KeyOk p.1) :
    parseQsl (queryOf (path ++ renderQuery P)) =
      (P.mergeSort keyLe).map (fun p => (ascii p.1, cgiText p.2)) := by
  rw [queryOf_render path hp P hk]
  exact parseQsl_render _ (fun p h => hk p ((List.mergeSort_perm P keyLe).mem_iff.mp h))

/-- D12 (fixed by b9109f8), kept as a record: without escaping, the `+` of a UTC offset does
*not* survive – the text the media handler saw was `…00 05:30` -/
theorem transport_raw_loses_plus (a b : Bytes) (hb : ∀ c ∈ b, c ≠ 43 ∧ c ≠ 37) (ha : ∀ c ∈ a, c ≠ 43 ∧ c ≠ 37) :
    unquotePlus (a ++ 43 :: b) = a ++ 32 :: b ∧ unquotePlus (a ++ 43 :: b) ≠ a ++ 43 :: b := by
  have h1 : unquotePlus (a ++ 43 :: b) = a ++ 32 :: b := by
    induction a with
    | nil => simp [unquotePlus_plus, unquotePlus_id b hb]
    | cons x r ih =>
      simp only [List.cons_append]
      rw [unquotePlus_plain x _ (ha x (by simp)).1 (ha x (by simp)).2, ih (fun c hc => ha c (by simp [hc]))]
  refine ⟨h1, ?_⟩
  rw [h1]
  intro e
  have := List.append_cancel_left e
  simp at this

/-! ## which options are written for a media type -/

section
variable {DT : Type} [DecidableEq DT] (C : DTCodec DT)

/-- an option whose usage mask has a bit of the media type, that is present, not excluded and not
at its default is in the parameter set of that media type, with its `to_string` text -/
theorem forwarding_complete (tbl : List OptionRow) (use : Nat) (exclude : List String)
    (dflt o : Opts DT) (i : Nat) (r : OptionRow) (v : Val DT)
    (hr : tbl[i]? = some r) (ho : o i = some v) (hu : r.usage &&& use ≠ 0)
    (hx : exclude.contains r.fieldName = false) (hd : dflt i ≠ some v) :
    (r.cgi, toText C r.kind v) ∈ genParams C tbl (some use) exclude true dflt o := by
  apply (mem_genParams C tbl (some use) exclude true dflt o _).mpr
  refine ⟨i, r, hr, (emit_some_iff C _ _ _ _ _ _ _ _).mpr ⟨v, ho, hx, ?_, ?_, rfl⟩⟩
  · simpa using hd
  · simpa [useMiss] using hu

/-- nothing else is: an entry of the parameter set of a media type belongs to a registered option
with a bit of that type, holding a non-default value -/
theorem forwarding_minimal (tbl : List OptionRow) (use : Nat) (exclude : List String)
    (dflt o : Opts DT) (p : String × Option Bytes)
    (h : p ∈ genParams C tbl (some use) exclude true dflt o) :
    ∃ i : Nat, ∃ r : OptionRow, ∃ v, tbl[i]? = some r ∧ r.cgi = p.1 ∧ r.usage &&& use ≠ 0 ∧
      exclude.contains r.fieldName = false ∧ o i = some v ∧ dflt i ≠ some v ∧
      p.2 = toText C r.kind v := by
  obtain ⟨i, r, hr, he⟩ := (mem_genParams C tbl (some use) exclude true dflt o p).mp h
  obtain ⟨v, ho, hx, hd, hu, hp⟩ := (emit_some_iff C _ _ _ _ _ _ _ _).mp he
  refine ⟨i, r, v, hr, by rw [← hp], ?_, hx, ho, ?_, by rw [← hp]⟩
  · simpa [useMiss] using hu
  · simpa using hd

end


open DashLive.Gen.Options

section
variable {DT : Type} [DecidableEq DT] (C : DTCodec DT)


/-- **manifest options → URL text → the media handler's `calculate_options`.**
For the query string put on the init/media URLs of a media type (mask `use`), with the same
stream defaults `dflt` on both sides and any overrides `ovs` written by
`calculate_cgi_parameters` (`verr`/`aerr`/`terr`/`vcorrupt`):

* the media handler accepts the URL (`.ok`);
* an overridden option gets exactly what its `from_string` makes of the override text;
* every other option with a usage bit of the media type ends with the manifest's value
  (identical; DRM selections as the same set of entries);
* an option without such a bit, absent from the manifest's options, or excluded, is at its default. -/
theorem media_side_same_value (hC : DtCodecLaws C) (tbl : List OptionRow) (ht : TableOk tbl)
    (use : Nat) (dflt : Nat → Val DT) (o : Opts DT)
    (ovs : List (String × Bytes)) (hovs : (ovs.map Prod.fst).Nodup)
    (path : Bytes) (hp : (35 : UInt8) ∉ path ∧ (63 : UInt8) ∉ path)
    (hcanon : ∀ i : Nat, ∀ r : OptionRow, ∀ v, tbl[i]? = some r → o i = some v →
      r.usage &&& use ≠ 0 → mediaExclude.contains r.fieldName = false → v ≠ dflt i →
      r.cgi ∉ ovs.map Prod.fst → Canonical r.kind v)
    (hov : ∀ k t, (k, t) ∈ ovs → ∃ i : Nat, ∃ r : OptionRow, ∃ w, tbl[i]? = some r ∧ r.cgi = k ∧
      fromString C r.kind t = .ok w) :
    ∃ res, mediaOptions C tbl dflt
        (path ++ mediaQuery C tbl use (fun i => some (dflt i)) o ovs) = .ok res ∧
      ∀ i : Nat, ∀ r : OptionRow, tbl[i]? = some r →
        (∀ t, (r.cgi, t) ∈ ovs → fromString C r.kind t = .ok (res i)) ∧
        (r.cgi ∉ ovs.map Prod.fst →
          (∀ v, o i = some v → r.usage &&& use ≠ 0 → mediaExclude.contains r.fieldName = false →
            ValEquiv (res i) v) ∧
          ((o i = none ∨ r.usage &&& use = 0 ∨ mediaExclude.contains r.fieldName = true) →
            res i = dflt i)) := by
  let D : Opts DT := fun i => some (dflt i)
  let G := genParams C tbl (some use) mediaExclude true D o
  have hGnd : (G.map Prod.fst).Nodup :=
    genFrom_keys_nodup C (some use) mediaExclude true D o tbl 0 (table_cgi_nodup tbl ht)
  have hPnd : ((applyOverrides G ovs).map Prod.fst).Nodup := applyOverrides_keys_nodup G ovs hGnd
  -- what an entry written by generate_cgi_parameters is
  have hG : ∀ p ∈ G, ∃ i : Nat, ∃ r : OptionRow, ∃ v, tbl[i]? = some r ∧ r.cgi = p.1 ∧
      r.usage &&& use ≠ 0 ∧ mediaExclude.contains r.fieldName = false ∧ o i = some v ∧
      v ≠ dflt i ∧ p.2 = toText C r.kind v := by
    intro p hpG
    obtain ⟨i, r, hr, he⟩ := (mem_genParams C tbl (some use) mediaExclude true D o p).mp hpG
    obtain ⟨v, ho, hx, hd, hu, hpe⟩ := (emit_some_iff C _ _ _ _ _ _ _ _).mp he
    refine ⟨i, r, v, hr, by rw [← hpe], by simpa [useMiss] using hu, hx, ho, ?_, by rw [← hpe]⟩
    intro e; simp [D, e] at hd
  have hmem := mem_applyOverrides G ovs hovs
  obtain ⟨res, hres, hdef, hval⟩ := media_parse_of_params C tbl ht dflt path hp
    (applyOverrides G ovs) hPnd (by
      intro p hpP
      rcases (hmem p).mp hpP with ⟨hpG, hnov⟩ | ⟨t, hto, hp2⟩
      · obtain ⟨i, r, v, hr, hc, hu, hx, ho, hd, hp2⟩ := hG p hpG
        obtain ⟨v', hv', _⟩ := codec_roundtrip_all C hC r.kind v
          (hcanon i r v hr ho hu hx hd (by rw [hc]; exact hnov))
        exact ⟨i, r, v', hr, hc, by rw [hp2]; exact hv'⟩
      · obtain ⟨i, r, w, hr, hc, hw⟩ := hov p.1 t hto
        exact ⟨i, r, w, hr, hc, by rw [hp2]; exact hw⟩)
  refine ⟨res, hres, ?_⟩
  intro i r hr
  constructor
  · intro t hto
    have : (r.cgi, some t) ∈ applyOverrides G ovs := (hmem _).mpr (Or.inr ⟨t, hto, rfl⟩)
    exact hval i r (some t) hr this
  · intro hnov
    -- an entry of G named like row i is the entry of row i
    have hGi : ∀ t, (r.cgi, t) ∈ G → ∃ v, o i = some v ∧ r.usage &&& use ≠ 0 ∧
        mediaExclude.contains r.fieldName = false ∧ v ≠ dflt i ∧ t = toText C r.kind v := by
      intro t htG
      obtain ⟨j, s, v, hs, hc, hu, hx, ho, hd, hp2⟩ := hG _ htG
      obtain ⟨hji, hsr⟩ := row_index_unique tbl ht j i s r hs hr hc
      subst hji; subst hsr
      exact ⟨v, ho, hu, hx, hd, hp2⟩
    have hnotP : (∀ t, (r.cgi, t) ∉ G) → ∀ t, (r.cgi, t) ∉ applyOverrides G ovs := by
      intro hno t htP
      rcases (hmem _).mp htP with ⟨h1, _⟩ | ⟨t', h1, _⟩
      · exact hno t h1
      · exact hnov (List.mem_map.mpr ⟨(r.cgi, t'), h1, rfl⟩)
    constructor
    · intro v ho hu hx
      by_cases hd : v = dflt i
      · -- at its default: not written, the media side has the same default
        have : ∀ t, (r.cgi, t) ∉ G := by
          intro t htG
          obtain ⟨v', ho', _, _, hd', _⟩ := hGi t htG
          rw [ho] at ho'; cases ho'; exact hd' hd
        rw [hdef i r hr (hnotP this), ← hd]
        exact ValEquiv.refl v
      · have hin : (r.cgi, toText C r.kind v) ∈ G := by
          apply (mem_genParams C tbl (some use) mediaExclude true D o _).mpr
          refine ⟨i, r, hr, (emit_some_iff C _ _ _ _ _ _ _ _).mpr ⟨v, ho, hx, ?_, ?_, rfl⟩⟩
          · simp [D]; exact fun e => hd e.symm
          · simpa [useMiss] using hu
        have hinP : (r.cgi, toText C r.kind v) ∈ applyOverrides G ovs :=
          (hmem _).mpr (Or.inl ⟨hin, hnov⟩)
        have h1 := hval i r _ hr hinP
        obtain ⟨v', hv', heq⟩ := codec_roundtrip_all C hC r.kind v (hcanon i r v hr ho hu hx hd hnov)
        rw [hv'] at h1
        cases h1
        exact heq
    · intro hcase
      have : ∀ t, (r.cgi, t) ∉ G := by
        intro t htG
        obtain ⟨v', ho', hu', hx', _, _⟩ := hGi t htG
        rcases hcase with h | h | h
        · rw [h] at ho'; cases ho'
        · exact hu' h
        · rw [h] at hx'; cases hx'
      exact hdef i r hr (hnotP this)

end



instance (k : String) : Decidable (KeyOk k) := by unfold KeyOk; infer_instance

/-! ## obligations over the generated registry table (re-checked against the tree on every run) -/

/-- registered cgi names are non-empty, consist of unreserved characters and are pairwise different -/
theorem table_wellformed : TableOk table := by
  constructor
  · decide +kernel
  · decide +kernel

/-- prefixed field names are pairwise different as well, as are short names -/
theorem table_field_names_distinct :
    (table.map OptionRow.fieldName).Nodup ∧ (table.map (·.short)).Nodup := by
  constructor <;> decide +kernel

/-- a date-time codec that accepts nothing: defaults do not depend on date-time text -/
def nullCodec : DTCodec Unit := { parse := fun _ => none, render := fun _ => [] }

/-- every option's default text parses (`get_default_options` cannot raise), and the default is a
canonical value of the option's kind -/
def defaultOk (r : OptionRow) : Bool :=
  match defaultVal nullCodec r with
  | .ok v =>
    (match r.kind, v with
     | .bool, .bool _ => true
     | .intOrNone, .none => true
     | .intOrNone, .int _ => true
     | .floatOrNone, .none => true
     | .floatOrNone, .tenths _ => true
     | .strOrNone, .none => true
     | .strOrNone, .str s => !isNoneCI s
     | .strRaw, .str _ => true
     | .listJoin, .list l => l.all (fun i => !i.contains 44 && !isNoneCI i)
     | .drmSelection, .drm l => l.isEmpty
     | .quotedUrl, .none => true
     | .astDateTime, .str s => specialAst.contains s
     | .astDateTime, .none => true
     | .dtOrNone, .none => true
     | .errorList, .errs l => l.isEmpty
     | .intOrDefault k, .int z => z == k
     | .posIntOrDefault k, .int z => z == k && decide (1 ≤ z)
     | _, _ => false)
  | .error _ => false

theorem table_defaults_parse : table.all defaultOk = true := by decide +kernel

/-- the options the property names, with the media types they must reach
(VIDEO=2 AUDIO=4 TEXT=8): availability start, buffer depth, leeway, DRM selection and locations,
licence URLs, PlayReady version and PIFF, event selection, bug compatibility, error and corruption
injection with their failure and frame counts -/
def requiredForwarding : List (String × Nat) :=
  [("start", 14), ("depth", 14), ("leeway", 14), ("drm", 14), ("bugs", 14), ("failures", 14),
   ("clearkey__la_url", 6), ("marlin__la_url", 6), ("playready__la_url", 6),
   ("playready__version", 6), ("playready__piff", 6), ("events", 6),
   ("verr", 2), ("vcorrupt", 2), ("frames", 2), ("aerr", 4), ("terr", 8)]

/-- every option the property names has the usage bits of the media types it must reach
(so, by `forwarding_complete`, a non-default value is in their parameter sets) -/
theorem table_forwards_required :
    ∀ q ∈ requiredForwarding, ∃ r ∈ table, r.cgi = q.1 ∧ r.usage &&& q.2 = q.2 := by
  decide +kernel

/-- event schedules: every option of an event generator (prefix `ping`, `scte35`) reaches video and audio -/
theorem table_forwards_event_schedules :
    ∀ r ∈ table, (r.pfx = "ping" ∨ r.pfx = "scte35") → r.usage &&& 6 = 6 := by
  decide +kernel

/-- error/corruption injection is confined to its own media type, manifest errors and player
options reach none -/
theorem table_injection_confined :
    ∀ r ∈ table,
      ((r.cgi = "verr" ∨ r.cgi = "vcorrupt" ∨ r.cgi = "frames") → r.usage &&& 12 = 0) ∧
      (r.cgi = "aerr" → r.usage &&& 10 = 0) ∧ (r.cgi = "terr" → r.usage &&& 6 = 0) ∧
      ((r.cgi = "merr" ∨ r.cgi = "update" ∨ r.cgi = "mode") → r.usage &&& 14 = 0) ∧
      (r.usage &&& 32 ≠ 0 → r.usage &&& 14 = 0) := by
  decide +kernel

/-- the names excluded for every media type do not hide an option that has a media bit -/
theorem table_exclusions_harmless :
    ∀ r ∈ table, r.usage &&& 14 ≠ 0 → ["encrypted", "mode"].contains r.fieldName = false := by
  decide +kernel

/-- the model's constants are the code's: DRM systems, DRM locations, special start values -/
theorem gen_constants_agree :
    drmSystems.map ascii = drmNames ∧ drmLocations.map ascii = locNames.map Prod.fst ∧
    (∀ s, s ∈ DashLive.Gen.Options.specialAst.map ascii ↔ s ∈ DashLive.Options.specialAst) ∧ count = table.length := by
  refine ⟨by decide +kernel, by decide +kernel, ?_, by decide +kernel⟩
  intro s
  have h1 : ∀ s ∈ DashLive.Gen.Options.specialAst.map ascii, s ∈ DashLive.Options.specialAst := by decide +kernel
  have h2 : ∀ s ∈ DashLive.Options.specialAst, s ∈ DashLive.Gen.Options.specialAst.map ascii := by decide +kernel
  exact ⟨h1 s, h2 s⟩



section
variable {DT : Type} (C : DTCodec DT)

/-- the text `calculate_injected_error_segments` writes for translated HTTP errors
(`code=segment,…`) parses, on the media side, to exactly those (code, segment number) pairs -/
theorem inject_roundtrip_errors (l : List (Int × Int)) :
    fromString C .errorList (injectText (l.map fun e => (some e.1, e.2))) =
      .ok (.errs (l.map fun e => (e.1, Pos.num e.2))) := by
  have htxt : injectText (l.map fun e => (some e.1, e.2)) =
      joinWith 44 (l.map fun e => intDec e.1 ++ 61 :: intDec e.2) := by
    simp [injectText, List.map_map, Function.comp_def]
  rw [htxt]
  unfold fromString
  cases l with
  | nil => rfl
  | cons e r =>
    obtain ⟨b, t, ht, _, hb⟩ := intDec_head e.1
    obtain ⟨t', hhead⟩ : ∃ t', joinWith 44 ((e :: r).map fun e => intDec e.1 ++ 61 :: intDec e.2) = b :: t' := by
      simp only [List.map_cons, ht]; exact joinWith_head 44 b _ _
    have hn : isNoneCI (joinWith 44 ((e :: r).map fun e => intDec e.1 ++ 61 :: intDec e.2)) = false := by
      rw [hhead]; exact isNoneCI_false_of_head b t' hb
    simp only [hn, Bool.false_eq_true, if_false]
    rw [splitOn_joinWith 44 _ (by simp) (by
      intro x hx
      obtain ⟨y, _, rfl⟩ := List.mem_map.mp hx
      simp only [List.mem_append, List.mem_cons, not_or]
      exact ⟨intDec_noComma y.1, by decide, intDec_noComma y.2⟩)]
    have hm : ∀ l : List (Int × Int), (l.map fun e => intDec e.1 ++ 61 :: intDec e.2).mapM (errItem C) =
        .ok (l.map fun e => (e.1, Pos.num e.2)) := by
      intro l
      induction l with
      | nil => rfl
      | cons a s ih => simp only [List.map_cons, List.mapM_cons, errItem_num, ih]; rfl
    rw [hm]; rfl

/-- likewise for video corruption (`segment,…`): the media side gets the list of segment numbers -/
theorem inject_roundtrip_corrupt (l : List Int) :
    fromString C .listJoin (injectText (l.map fun s => (none, s))) = .ok (.list (l.map intDec)) := by
  have htxt : injectText (l.map fun s => ((none : Option Int), s)) = joinWith 44 (l.map intDec) := by
    simp [injectText, List.map_map, Function.comp_def]
  rw [htxt]
  have := roundtrip_listJoin C (l.map intDec) (by
    intro i hi
    obtain ⟨z, _, rfl⟩ := List.mem_map.mp hi
    exact ⟨intDec_noComma z, isNoneCI_intDec z⟩)
  simpa [toText, cgiText] using this

end

/-! ## the hypotheses are satisfiable; a concrete run through the generated table -/

/-- a lawful toy date-time codec (one date-time, written `1T`) -/
def toyCodec : DTCodec Unit :=
  { parse := fun s => if s = ascii "1T" then some () else none, render := fun _ => ascii "1T" }

theorem toyCodec_laws : DtCodecLaws toyCodec where
  roundtrip := by intro d; rfl
  digitFirst := by intro d; exact ⟨49, [84], rfl, by decide⟩
  clean := by intro d; cases d; decide
  notInt := by intro d; rfl


/-! ## the side conditions of the round trips are the value domain, not a loophole

Non-trivial instances, and what happens at excluded points (texts that *mean* something else). -/

example : isNoneCI (ascii "mp4a") = false ∧ isNoneCI (ascii "https://l.example/?a=1&b=2+3%20") = false := by
  decide
/-- the string `None` is not a value of a string option: it is how "no value" is written -/
example : fromString toyCodec .strOrNone (cgiText (toText toyCodec .strOrNone (.str (ascii "None")))) =
    .ok .none := by rfl
example : fromString toyCodec .quotedUrl (cgiText (toText toyCodec .quotedUrl (.str (ascii "none")))) =
    .ok .none := by rfl
/-- an item containing a comma is two items -/
example : fromString toyCodec .listJoin (cgiText (toText toyCodec .listJoin (.list [ascii "a,b"]))) =
    .ok (.list [ascii "a", ascii "b"]) := by rfl
example : CanonDrm [(ascii "playready", ⟨false, false, true⟩), (ascii "clearkey", LocSet.all)] := by
  intro e he
  simp at he
  rcases he with rfl | rfl <;> exact ⟨by decide, by decide⟩
/-- a system with an empty set of locations is written like one with all locations -/
example : drmToString [(ascii "playready", LocSet.empty)] = ascii "playready" ∧
    drmFromString (ascii "playready") = .ok [(ascii "playready", LocSet.all)] := ⟨by rfl, by rfl⟩
/-- `interval=0` is rejected by the positive-integer codec (fix a993bc6) -/
example : fromString toyCodec (.posIntOrDefault 1000) (ascii "0") = .error .valueError := by rfl

/-- row 32 of the generated table (`leeway`) -/
def leewayRow : OptionRow := table[32]'(by decide)

/-- a concrete run: `leeway=60` on a video init URL reaches the media handler as the integer 60 -/
example : leewayRow.cgi = "leeway" ∧ ∃ res, mediaOptions toyCodec table (fun _ => Val.none)
    (ascii "/dash/live/bbb/bbb_v7/init.m4v" ++
      mediaQuery toyCodec table 2 (fun _ => some Val.none)
        (fun i => if i = 32 then some (.int 60) else none) []) = .ok res ∧ res 32 = .int 60 := by
  refine ⟨rfl, ?_⟩
  have hrow : table[32]? = some leewayRow := rfl
  have hkind : leewayRow.kind = .intOrNone := rfl
  obtain ⟨res, hres, h⟩ := media_side_same_value toyCodec toyCodec_laws table table_wellformed 2
    (fun _ => Val.none) (fun i => if i = 32 then some (.int 60) else none) [] (by simp)
    (ascii "/dash/live/bbb/bbb_v7/init.m4v") (by decide)
    (by
      intro i r v hr ho _ _ _ _
      by_cases hi : i = 32
      · subst hi; rw [hrow] at hr; cases hr
        simp at ho; subst ho; rw [hkind]; trivial
      · simp [hi] at ho)
    (by simp)
  refine ⟨res, hres, ?_⟩
  have := ((h 32 _ hrow).2 (by simp)).1 (.int 60) (by simp) (by decide) (by decide)
  exact (ValEquiv_iff_eq _ _ (by intro l; simp)).mp this

end DashLive.Options
