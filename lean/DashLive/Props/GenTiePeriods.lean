import DashLive.Gen.PeriodTimeline
import DashLive.Model.Periods
import DashLive.Props.GenTieTimeline
/-!
# Translated `generate_period_timeline` = C12's model

`Gen/PeriodTimeline.lean` is regenerated from /repo's source text on every run
(`harness/gen_periodtimeline.py`).  `tie_ptLoop` proves the translated `while` loop followed by the
final append equal to `Periods.ptLoop`; `tie_periodTimeline` proves the translated function (early
return for an offset past the media included) equal to `Periods.periodTimeline`, the definition
C12's `mps_timeline_*` theorems are about.
-/
open DashLive DashLive.Segments DashLive.Periods
namespace DashLive.GenTie
open Gen.Timeline Gen.PeriodTimeline

theorem tie_ptLoop (durs : List Nat) (durUs ts : Nat) :
    ∀ (fuel m pos : Nat) (cs cd : Option Int) (cc : Nat) (acc : List SNode)
      (rv : List SegmentTimelineElement) (mm : Int),
      rv.map conv = acc →
      finishG (generatePeriodTimeline_while1 (segDurOf durs) (usecs := (durUs : Int))
          (num_media_segments := durs.length) (timescale := (ts : Int)) fuel
          cs rv cd (cc : Int) mm (pos : Int) ((m : Int) + 1))
        = ptLoop durs (durUs * ts) fuel m pos { start := cs, dur := cd, count := cc } acc := by
  intro fuel
  induction fuel with
  | zero =>
    intro m pos cs cd cc acc rv mm h
    unfold generatePeriodTimeline_while1 ptLoop finishG outputNode
    subst h
    cases cd <;> simp [conv]
  | succ f ih =>
    intro m pos cs cd cc acc rv mm h
    unfold generatePeriodTimeline_while1 ptLoop
    have hc : (((m : Int) + 1 ≤ (durs.length : Int)) ∧ ((pos : Int) * (1000000 : Int) < (durUs : Int) * (ts : Int)))
        ↔ (m < durs.length ∧ pos * 1000000 < durUs * ts) := by
      constructor
      · rintro ⟨h1, h2⟩; exact ⟨by omega, by exact_mod_cast h2⟩
      · rintro ⟨h1, h2⟩; exact ⟨by omega, by exact_mod_cast h2⟩
    by_cases hlt : m < durs.length ∧ pos * 1000000 < durUs * ts
    · rw [if_pos (hc.mpr hlt), if_pos hlt, segDurOf_succ]
      dsimp only
      cases cd with
      | none =>
        simp only [if_true, Option.isNone_none]
        have key := ih (m + 1) (pos + durAt durs m) (some (pos : Int)) (some ((durAt durs m : Nat) : Int)) (cc + 1) acc rv mm h
        rw [Int.natCast_add, Int.natCast_one, Int.natCast_add, Int.natCast_add, Int.natCast_one] at key
        exact key
      | some v =>
        have hv : ¬ ((some v : Option Int) = none) := by simp
        simp only [if_neg hv, Option.isNone_some, Bool.false_eq_true, if_false]
        by_cases hne : some ((durAt durs m : Nat) : Int) ≠ some v
        · simp only [if_pos hne]
          have hmap : (rv ++ [({ duration := some v, count := (cc : Int), start := cs, mod_segment := mm } : SegmentTimelineElement)]).map conv
              = outputNode acc { start := cs, dur := some v, count := cc } := by
            unfold outputNode
            subst h
            simp [conv]
          have key := ih (m + 1) (pos + durAt durs m) none (some ((durAt durs m : Nat) : Int)) (0 + 1) _ _ ((m : Int) + 1) hmap
          rw [Int.natCast_add, Int.natCast_one, Int.natCast_zero, Int.natCast_add, Int.natCast_add, Int.natCast_one] at key
          exact key
        · simp only [if_neg hne]
          have key := ih (m + 1) (pos + durAt durs m) cs (some ((durAt durs m : Nat) : Int)) (cc + 1) acc rv mm h
          rw [Int.natCast_add, Int.natCast_one, Int.natCast_add, Int.natCast_add, Int.natCast_one] at key
          exact key
    · rw [if_neg (fun hh => hlt (hc.mp hh)), if_neg hlt]
      unfold finishG outputNode
      subst h
      cases cd <;> simp [conv]

/-- `Representation.generate_period_timeline` as translated from the source = `Periods.periodTimeline` -/
theorem tie_periodTimeline (durs : List Nat) (refDur refTs ts startTc durUs : Nat) :
    (generatePeriodTimeline (segDurOf durs) refDur refTs ts durs.length startTc durUs (durs.length + 1)).map conv
      = periodTimeline durs (refDuration refDur refTs ts) ts startTc durUs := by
  unfold generatePeriodTimeline Gen.PeriodTimeline.gsi periodTimeline
  dsimp only
  rw [tie_getSegmentIndex]
  dsimp only
  by_cases ho : (Segments.getSegmentIndex durs (refDuration refDur refTs ts) startTc).2.2 > 0
  · have ho' : (((Segments.getSegmentIndex durs (refDuration refDur refTs ts) startTc).2.2 : Nat) : Int) > 0 := by
      exact_mod_cast ho
    rw [if_pos ho', if_pos ho]; rfl
  · have ho' : ¬ ((((Segments.getSegmentIndex durs (refDuration refDur refTs ts) startTc).2.2 : Nat) : Int) > 0) := by
      intro h; exact ho (by exact_mod_cast h)
    rw [if_neg ho', if_neg ho]
    have h1 : (Segments.getSegmentIndex durs (refDuration refDur refTs ts) startTc).1
        = (Segments.getSegmentIndex durs (refDuration refDur refTs ts) startTc).1 - 1 + 1 := by
      unfold Segments.getSegmentIndex; simp
    have h2 : (((Segments.getSegmentIndex durs (refDuration refDur refTs ts) startTc).1 : Nat) : Int)
        = (((Segments.getSegmentIndex durs (refDuration refDur refTs ts) startTc).1 - 1 : Nat) : Int) + 1 := by
      omega
    have key := tie_ptLoop durs durUs ts (durs.length + 1)
      ((Segments.getSegmentIndex durs (refDuration refDur refTs ts) startTc).1 - 1) 0 none none 0 [] []
      (((Segments.getSegmentIndex durs (refDuration refDur refTs ts) startTc).1 : Nat) : Int) rfl
    rw [Int.natCast_zero, ← h2] at key
    exact key

end DashLive.GenTie
