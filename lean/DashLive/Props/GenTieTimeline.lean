import DashLive.Gen.Timeline
import DashLive.Props.GenTie
/-!
# Translated `generateSegmentTimeline` = hand-written model

`Gen/Timeline.lean` is regenerated from /repo's source text on every run
(`harness/gen_timeline.py` + `harness/pytolean.py`: Python `ast` → Lean, records field by
field, lists, `if/elif`, the `while` loop as a fuelled recursion, the local closure inlined,
with an aliasing check for appended objects).  The theorems below prove the translated loop
equal to `Segments.tlLoop`, and the translated function equal to `Segments.timelineVod` /
`Segments.timelineLive` – the definitions every timeline theorem of C02, C06, C09 (and C01's
first-entry theorem) is about.  An edit of the loop therefore is either re-proved equal
(harmless rewrite) or stops this file from building (broken obligation → failing-input search).
-/
open DashLive DashLive.Segments
namespace DashLive.GenTie
open Gen.Timeline

/-- a generated `<S>` element as the model's `SNode` (the model does not carry `mod_segment`) -/
def conv (e : SegmentTimelineElement) : SNode := { start := e.start, dur := e.duration, count := e.count.toNat }

/-- what `generateSegmentTimeline` does after its loop: `output_s_node(s_node); return rv` -/
def finishG (st : (Option Int) × (List SegmentTimelineElement) × (Option Int) × Int × Int × Int × Int) : List SNode :=
  ((if st.2.2.1 ≠ none then st.2.1 ++ [{ duration := st.2.2.1, count := st.2.2.2.1, start := st.1, mod_segment := st.2.2.2.2.1 }]
    else st.2.1)).map conv

theorem tie_tlLoop (durs : List Nat) (drift segStart end_ : Int) :
    ∀ (fuel : Nat) (dur : Int) (m : Nat) (cs cd : Option Int) (cc : Nat) (acc : List SNode)
      (rv : List SegmentTimelineElement) (mm : Int),
      rv.map conv = acc →
      finishG (generateSegmentTimeline_while1 (segDurOf durs) (drift := drift) (end_ := end_)
          (seg_start_time := segStart) (num_media_segments := durs.length) fuel
          cs rv cd (cc : Int) mm dur ((m : Int) + 1))
        = tlLoop durs drift segStart end_ fuel dur m { start := cs, dur := cd, count := cc } acc := by
  intro fuel
  induction fuel with
  | zero =>
    intro dur m cs cd cc acc rv mm h
    unfold generateSegmentTimeline_while1 tlLoop finishG outputNode
    subst h
    cases cd <;> simp [conv]
  | succ f ih =>
    intro dur m cs cd cc acc rv mm h
    unfold generateSegmentTimeline_while1 tlLoop
    by_cases hlt : dur < end_
    · rw [if_pos hlt, if_pos hlt, segDurOf_succ]
      dsimp only
      have hd : (if (m : Int) + 1 = (durs.length : Int) then ((durAt durs m : Nat) : Int) + drift
            else ((durAt durs m : Nat) : Int))
          = ((durAt durs m : Nat) : Int) + (if m + 1 = durs.length then drift else 0) := by
        by_cases h1 : m + 1 = durs.length
        · rw [if_pos (by omega), if_pos h1]
        · rw [if_neg (by omega), if_neg h1]; omega
      rw [hd]
      generalize ((durAt durs m : Nat) : Int) + (if m + 1 = durs.length then drift else 0) = d
      have hm' : (if (m : Int) + 1 + 1 > (durs.length : Int) then (1 : Int) else (m : Int) + 1 + 1)
          = (((if m + 1 ≥ durs.length then 0 else m + 1 : Nat)) : Int) + 1 := by
        by_cases hw : m + 1 ≥ durs.length
        · rw [if_pos (by omega), if_pos hw]; rfl
        · rw [if_neg (by omega), if_neg hw]; push_cast; rfl
      rw [hm']
      generalize (if m + 1 ≥ durs.length then 0 else m + 1) = m'
      by_cases h0 : dur = 0
      · simp only [h0, if_true]
        have key := ih (0 + d) m' (some segStart) (some d) (cc + 1) acc rv mm h
        rw [Int.natCast_add, Int.natCast_one] at key
        exact key
      · simp only [h0, if_false]
        by_cases hne : some d ≠ cd
        · simp only [if_pos hne]
          have hmap : (if cd ≠ none then rv ++ [{ duration := cd, count := (cc : Int), start := cs, mod_segment := mm }] else rv).map conv
              = outputNode acc { start := cs, dur := cd, count := cc } := by
            unfold outputNode
            subst h
            cases cd <;> simp [conv]
          have key := ih (dur + d) m' none (some d) (0 + 1) _ _ ((m : Int) + 1) hmap
          rw [Int.natCast_add, Int.natCast_one, Int.natCast_zero] at key
          exact key
        · simp only [if_neg hne]
          have key := ih (dur + d) m' cs (some d) (cc + 1) acc rv mm h
          rw [Int.natCast_add, Int.natCast_one] at key
          exact key
    · rw [if_neg hlt, if_neg hlt]
      unfold finishG outputNode
      subst h
      cases cd <;> simp [conv]

/-- the tail of `generateSegmentTimeline` (from `rv = []` on) = the model's `tlLoop` from a fresh node -/
theorem tie_timelineTail (durs : List Nat) (drift segStart end_ : Int) (m fuel : Nat) :
    (generateSegmentTimeline_tail (segDurOf durs) (seg_start_time := segStart) (mod_segment := (m : Int) + 1)
        (drift := drift) (end_ := end_) (num_media_segments := durs.length) fuel).map conv
      = tlLoop durs drift segStart end_ fuel 0 m SNode.fresh [] := by
  have key := tie_tlLoop durs drift segStart end_ fuel 0 m none none 0 [] [] ((m : Int) + 1) rfl
  rw [Int.natCast_zero] at key
  exact key

/-- `generateSegmentTimeline` for a static manifest = `Segments.timelineVod` -/
theorem tie_timelineVod (durs : List Nat) (fuel : Nat) :
    (generateSegmentTimelineVod (segDurOf durs) (mediaDuration := ((durs.sum : Nat) : Int))
        (num_media_segments := durs.length) fuel).map conv
      = timelineVod durs fuel := by
  unfold generateSegmentTimelineVod timelineVod
  exact tie_timelineTail durs 0 0 _ 0 fuel

/-- `generateSegmentTimeline` for a live manifest: the statements of the `mode == 'live'` branch
(pinned by gen_timeline.py `LIVE_SHAPE`) composed from the translated `get_segment_index`
(`calculate_segment_from_timecode` only reorders its result) and the translated tail
= `Segments.timelineLive` -/
theorem tie_timelineLive (durs : List Nat) (refDur refTs ts tcF tsbd fuel : Nat) :
    let g := Gen.Arith.getSegmentIndex (segDurOf durs) refDur refTs ts durs.length tcF (durs.length + 1)
    (generateSegmentTimeline_tail (segDurOf durs) (seg_start_time := g.2.1) (mod_segment := g.1)
        (drift := Gen.Arith.mediaDurationUsingTimescale refDur refTs ts - ((durs.sum : Nat) : Int))
        (end_ := (tsbd : Int) * (ts : Int)) (num_media_segments := durs.length) fuel).map conv
      = timelineLive durs (refDuration refDur refTs ts) ts tcF tsbd fuel := by
  intro g
  have hg : g = _ := tie_getSegmentIndex durs refDur refTs ts tcF
  rw [hg, tie_refDuration]
  unfold timelineLive
  dsimp only
  have h1 : (Segments.getSegmentIndex durs (refDuration refDur refTs ts) tcF).1
      = (Segments.getSegmentIndex durs (refDuration refDur refTs ts) tcF).1 - 1 + 1 := by
    unfold Segments.getSegmentIndex; simp
  have := tie_timelineTail durs ((refDuration refDur refTs ts : Nat) - ((durs.sum : Nat) : Int))
    ((Segments.getSegmentIndex durs (refDuration refDur refTs ts) tcF).2.1 : Nat)
    (((tsbd * ts : Nat)) : Int)
    ((Segments.getSegmentIndex durs (refDuration refDur refTs ts) tcF).1 - 1) fuel
  have h2 : (((Segments.getSegmentIndex durs (refDuration refDur refTs ts) tcF).1 : Nat) : Int)
      = (((Segments.getSegmentIndex durs (refDuration refDur refTs ts) tcF).1 - 1 : Nat) : Int) + 1 := by
    omega
  rw [Int.natCast_mul, ← h2] at this
  exact this

end DashLive.GenTie
