import DashLive.Lemmas.BufReader
/-!
# C20 – the windowed buffered reader behaves exactly like a slice of the file

Property theorems only (helper lemmas live in `Lemmas/BufReader.lean`).

Quantification: every file content, every window `(offset, size)` lying inside
the file, every buffer size ≥ 1, every cache limit, **every eviction policy**
(`Cfg.evict` is an arbitrary function), every finite operation sequence.
-/
namespace DashLive.BufReader

/-- state invariant: cache coherent with the file, position inside the window -/
def Inv (c : Cfg) (s : St) : Prop := CacheOk c s.buffers ∧ s.pos ≤ c.size

/-- the hypotheses C20 quantifies under: explicit window inside the file, buffer size ≥ 1 -/
structure Wf (c : Cfg) : Prop where
  window_in_file : c.offset + c.size ≤ c.file.length
  bufsize_pos : 0 < c.bufsize

theorem window_drop_take (c : Cfg) (pos n : Nat) :
    ((window c).drop pos).take n = (c.file.drop (pos + c.offset)).take (min n (c.size - pos)) := by
  unfold window
  rw [List.drop_take, List.take_take, List.drop_drop, Nat.add_comm]

theorem window_drop (c : Cfg) (pos : Nat) :
    (window c).drop pos = (c.file.drop (pos + c.offset)).take (c.size - pos) := by
  unfold window
  rw [List.drop_take, List.drop_drop, Nat.add_comm]

theorem window_length (c : Cfg) (h : Wf c) : (window c).length = c.size := by
  unfold window
  simp [List.length_take, List.length_drop]
  have := h.window_in_file; omega

theorem init_inv (c : Cfg) : Inv c init := ⟨cacheOk_nil c, Nat.zero_le _⟩

theorem peek_spec (c : Cfg) (h : Wf c) (s : St) (n : Nat) (hi : Inv c s) :
    Inv c (peek c s n).1 ∧ (peek c s n).1.pos = s.pos ∧
    ∃ K, min n (c.size - s.pos) ≤ K ∧
      (peek c s n).2 = (c.file.drop (s.pos + c.offset)).take K := by
  unfold peek
  by_cases h0 : min n (c.size - s.pos) = 0
  · simp only [h0, if_true]
    exact ⟨hi, by trivial, 0, by omega, by simp⟩
  · simp only [h0, if_false]
    have hb := h.bufsize_pos
    have hmod : s.pos - s.pos / c.bufsize * c.bufsize < c.bufsize := by
      have h1 := Nat.div_add_mod s.pos c.bufsize
      have h2 := Nat.mod_lt s.pos hb
      have h3 : s.pos / c.bufsize * c.bufsize = c.bufsize * (s.pos / c.bufsize) := Nat.mul_comm _ _
      omega
    have hle : s.pos / c.bufsize * c.bufsize ≤ s.pos := Nat.div_mul_le_self _ _
    obtain ⟨h1, K, hK, h2⟩ := peekLoop_spec c hb (min n (c.size - s.pos)) s.buffers
      (s.pos / c.bufsize * c.bufsize) (s.pos - s.pos / c.bufsize * c.bufsize)
      (min n (c.size - s.pos)) [] hi.1 hmod (Nat.le_refl _)
    refine ⟨⟨h1, hi.2⟩, by trivial, K, hK, ?_⟩
    rw [h2]
    have : s.pos / c.bufsize * c.bufsize + (s.pos - s.pos / c.bufsize * c.bufsize) = s.pos := by
      omega
    simp [this]

/-- **One-step refinement.**  From any state satisfying the invariant, each
operation returns what the in-memory stream over the window returns (for `peek`:
at least that, as a prefix), moves the position exactly as the stream does, and
re-establishes the invariant. -/
theorem step_refines (c : Cfg) (h : Wf c) (s : St) (op : Op) (hi : Inv c s) :
    Inv c (step c s op).1 ∧ (step c s op).1.pos = (specStep c s.pos op).1 ∧
    agrees op (step c s op).2 (specStep c s.pos op).2 := by
  have hw := h.window_in_file
  have hpos := hi.2
  cases op with
  | tell => exact ⟨hi, rfl, rfl⟩
  | seek off w =>
    simp only [step, seek, specStep, agrees]
    refine ⟨⟨hi.1, ?_⟩, by trivial, by trivial⟩
    simp only
    omega
  | peek n =>
    obtain ⟨h1, h2, K, hK, h3⟩ := peek_spec c h s n hi
    refine ⟨h1, h2, ?_⟩
    simp only [step, specStep, agrees]
    rw [h3, window_drop_take]
    exact List.take_prefix_take_left hK
  | read n =>
    by_cases hn : n = -1
    · subst hn
      simp only [step, readAll, specStep, if_true, agrees, readN]
      by_cases hm : min ((c.size : Int) - s.pos) ((c.size : Int) - s.pos) ≤ 0
      · simp only [hm, if_true]
        have hsz : c.size = s.pos := by omega
        rw [window_drop]
        simp [hsz]
        exact hi
      · simp only [hm, if_false]
        obtain ⟨h1, h2, K, hK, h3⟩ :=
          peek_spec c h s (min ((c.size : Int) - s.pos) ((c.size : Int) - s.pos)).toNat hi
        have hk : (min ((c.size : Int) - s.pos) ((c.size : Int) - s.pos)).toNat
            = c.size - s.pos := by omega
        rw [hk] at h1 h2 h3 hK
        rw [hk, h3, window_drop, List.take_take]
        have hK' : min (c.size - s.pos) K = c.size - s.pos := by omega
        have hK'' : min (c.size - s.pos) (c.size - s.pos) = c.size - s.pos := by omega
        rw [hK''] at hK
        simp only [hK', List.length_take, List.length_drop]
        refine ⟨⟨h1.1, ?_⟩, ?_, by trivial⟩
        · simp only [h2]; omega
        · simp only [h2]; omega
    · simp only [step, hn, if_false, specStep, readN]
      by_cases hm : min n ((c.size : Int) - s.pos) ≤ 0
      · simp only [hm, if_true, agrees]
        by_cases hn0 : n ≤ 0
        · simp only [hn0, if_true]; exact ⟨hi, by trivial, by trivial⟩
        · simp only [hn0, if_false]
          have hsz : c.size = s.pos := by omega
          rw [window_drop_take]
          simp [hsz]
          exact hi
      · simp only [hm, if_false]
        have hn0 : ¬ n ≤ 0 := by omega
        simp only [hn0, if_false, agrees]
        obtain ⟨h1, h2, K, hK, h3⟩ :=
          peek_spec c h s (min n ((c.size : Int) - s.pos)).toNat hi
        have hk : (min n ((c.size : Int) - s.pos)).toNat = min n.toNat (c.size - s.pos) := by
          omega
        rw [hk] at h1 h2 h3 hK
        rw [hk, h3, window_drop_take, List.take_take]
        have hK' : min (min n.toNat (c.size - s.pos)) K = min n.toNat (c.size - s.pos) := by
          omega
        simp only [hK', List.length_take, List.length_drop]
        refine ⟨⟨h1.1, ?_⟩, ?_, by trivial⟩
        · simp only [h2]; omega
        · simp only [h2]; omega

/-- run of the specification stream -/
def specRun (c : Cfg) : Nat → List Op → List Out
  | _, [] => []
  | p, op :: ops => let (p', o) := specStep c p op; o :: specRun c p' ops

/-- pointwise agreement of two output lists for an operation list -/
def agreesAll : List Op → List Out → List Out → Prop
  | [], [], [] => True
  | op :: ops, o :: os, o' :: os' => agrees op o o' ∧ agreesAll ops os os'
  | _, _, _ => False

/-- **C20 (refinement, every finite history).**  For every file, window inside
the file, buffer size ≥ 1, cache limit, eviction policy and operation sequence,
starting from any state that satisfies the invariant (in particular the initial
one), the reader's outputs agree with those of an in-memory stream over the
window's bytes. -/
theorem refines_slice (c : Cfg) (h : Wf c) (ops : List Op) (s : St) (hi : Inv c s) :
    agreesAll ops (run c s ops) (specRun c s.pos ops) := by
  induction ops generalizing s with
  | nil => simp [run, specRun, agreesAll]
  | cons op ops ih =>
    obtain ⟨h1, h2, h3⟩ := step_refines c h s op hi
    simp only [run, specRun, agreesAll]
    refine ⟨h3, ?_⟩
    rw [← h2]
    exact ih _ h1

theorem refines_slice_init (c : Cfg) (h : Wf c) (ops : List Op) :
    agreesAll ops (run c init ops) (specRun c 0 ops) :=
  refines_slice c h ops init (init_inv c)

/-- state reached after a history -/
def exec (c : Cfg) : St → List Op → St
  | s, [] => s
  | s, op :: ops => exec c (step c s op).1 ops

theorem inv_reachable (c : Cfg) (h : Wf c) (ops : List Op) (s : St) (hi : Inv c s) :
    Inv c (exec c s ops) := by
  induction ops generalizing s with
  | nil => exact hi
  | cons op ops ih => exact ih _ (step_refines c h s op hi).1

/-- **positions clamp to `[0, size]`** in every reachable state -/
theorem pos_clamped (c : Cfg) (h : Wf c) (ops : List Op) :
    (exec c init ops).pos ≤ c.size :=
  (inv_reachable c h ops init (init_inv c)).2

/-- **reads never return data outside the window**: every `read` output of every
history is a contiguous part of the window (it is `(window.drop p).take k`). -/
theorem never_outside_window (c : Cfg) (h : Wf c) (s : St) (hi : Inv c s) (n : Int) :
    ∃ k, (step c s (.read n)).2 = .bytes (((window c).drop s.pos).take k) := by
  have := (step_refines c h s (.read n) hi).2.2
  simp only [agrees] at this
  rw [this]
  simp only [specStep]
  by_cases hn : n = -1
  · refine ⟨(window c).length, ?_⟩
    simp only [hn, if_true]
    rw [List.take_of_length_le]
    simp only [List.length_drop]; omega
  · by_cases hn0 : n ≤ 0
    · exact ⟨0, by simp [hn, hn0]⟩
    · exact ⟨n.toNat, by simp [hn, hn0]⟩

/-- **eviction is invisible**: two configurations that differ only in the
eviction policy and cache limit produce outputs that agree with the *same*
specification run. -/
theorem eviction_invisible (c₁ c₂ : Cfg) (h₁ : Wf c₁) (h₂ : Wf c₂)
    (hf : c₁.file = c₂.file) (ho : c₁.offset = c₂.offset) (hs : c₁.size = c₂.size)
    (ops : List Op) :
    ∃ spec, agreesAll ops (run c₁ init ops) spec ∧ agreesAll ops (run c₂ init ops) spec := by
  refine ⟨specRun c₁ 0 ops, refines_slice_init c₁ h₁ ops, ?_⟩
  have hspec : ∀ p, specRun c₁ p ops = specRun c₂ p ops := by
    induction ops with
    | nil => intro p; rfl
    | cons op ops ih =>
      intro p
      have hst : specStep c₁ p op = specStep c₂ p op := by
        cases op <;> simp [specStep, window, hf, ho, hs]
      simp only [specRun, hst, ih]
  rw [hspec]
  exact refines_slice_init c₂ h₂ ops

/-- **cache bound** (the code's `assert self.num_buffers <= self.max_buffers`):
in every reachable state the cache holds at most `maxbuf` buckets, for any
eviction policy that names an existing entry. -/
theorem cache_bounded (c : Cfg) (hmax : 1 ≤ c.maxbuf)
    (hev : ∀ b : List (Nat × Bytes), b ≠ [] → c.evict b < b.length) (ops : List Op) :
    ∀ s : St, s.buffers.length ≤ c.maxbuf → (exec c s ops).buffers.length ≤ c.maxbuf := by
  have hloop : ∀ fuel bufs bucket off todo acc, bufs.length ≤ c.maxbuf →
      (peekLoop c fuel bufs bucket off todo acc).1.length ≤ c.maxbuf := by
    intro fuel
    induction fuel with
    | zero => intro bufs _ _ _ _ hl; simpa [peekLoop] using hl
    | succ fuel ih =>
      intro bufs bucket off todo acc hl
      unfold peekLoop
      split
      · exact hl
      · exact ih _ _ _ _ _ (cache_length bucket hmax hl hev)
  have hpeek : ∀ s n, s.buffers.length ≤ c.maxbuf → (peek c s n).1.buffers.length ≤ c.maxbuf := by
    intro s n hl
    unfold peek
    by_cases h0 : min n (c.size - s.pos) = 0
    · simp only [h0, if_true]; exact hl
    · simp only [h0, if_false]; exact hloop _ _ _ _ _ _ hl
  induction ops with
  | nil => intro s hs; exact hs
  | cons op ops ih =>
    intro s hs
    apply ih
    cases op with
    | tell => exact hs
    | seek off w => exact hs
    | peek n => exact hpeek s n hs
    | read n =>
      have hrn : ∀ m, (readN c s m).1.buffers.length ≤ c.maxbuf := by
        intro m
        simp only [readN]
        split
        · exact hs
        · exact hpeek s _ hs
      simp only [step]
      split
      · exact hrn _
      · exact hrn _

/-! ### Non-vacuity and the negative witness for the unrepaired `readall()` -/

/-- a concrete non-trivial configuration: 12-byte file, window (3, 7), 4-byte
buffers that do not divide the window, 2 cached buckets, evict the first. -/
def exCfg : Cfg :=
  { file := [0,1,2,3,4,5,6,7,8,9,10,11], offset := 3, size := 7, bufsize := 4, maxbuf := 2,
    evict := fun _ => 0 }

example : Wf exCfg := ⟨by decide, by decide⟩

example : run exCfg init [.read 3, .seek (-2) .end_, .read (-1), .seek 1 .set, .peek 2, .tell]
    = [.bytes [3,4,5], .pos 5, .bytes [8,9], .pos 1, .bytes [4,5,6], .pos 1] := by decide

/-- D5: with the *unrepaired* `readall()` the reader returned bytes outside the
window (here bytes 0..2 and 10..11 of the file, window is bytes 3..9). -/
example : (readAllOld exCfg init).2 ≠ window exCfg := by decide

end DashLive.BufReader
