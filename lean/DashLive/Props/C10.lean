import DashLive.Lemmas.InitRewrite
/-!
# C10 – init segments carry exactly the requested protection data, nothing else changes

Property theorems only (helper lemmas live in `Lemmas/InitRewrite.lean` and
`Lemmas/PlayReady.lean`).

Quantification: every stored init segment as a box tree (any boxes before and after
the first `moov`, any children of `moov` and of `mvex`, opaque payloads), every DRM
selection (any list of (system, locations), duplicates allowed), every key-id list,
every PRO byte string, live and vod.  Size hypotheses (`< 2³²`) are the 32-bit box
size limit of ISO-BMFF and appear only where a size is read back.
-/
namespace DashLive.C10
open DashLive.InitRewrite DashLive.PlayReady

/-- a key id used in examples -/
def exKidPlaceholder : Bytes := List.replicate 16 7

/-! ### which pssh boxes are appended -/

/-- the property's reading of a selection: the locations requested for a system
(the last entry for that system counts, as in `DrmContext.__init__`) -/
def wantsMoov (sel : Selection) (s : Sys) : Bool :=
  match lookupLast sel s with
  | some locs => locs.contains Loc.moov
  | none => false

/-- **exactly one pssh per selected system that defines init-segment data and whose
locations include `moov`** – ClearKey first, then PlayReady (sorted names); Marlin never;
nothing at all for a clear track.  Holds for every `playready__version`. -/
theorem initPsshs_spec (encrypted : Bool) (version : Option Nat) (aes : Bool) (sel : Selection)
    (kids : List Bytes) (pro : Bytes) :
    initPsshs encrypted version aes sel kids pro =
      if !encrypted then [] else
        (if wantsMoov sel .clearkey then [⟨1, ClearKey.psshSystemId, kids, []⟩] else [])
        ++ (if wantsMoov sel .playready then
              [if kids.length < 2 then ⟨0, playreadySystemId, [], pro⟩
               else ⟨1, playreadySystemId, kids, pro⟩]
            else []) := by
  unfold initPsshs contexts wantsMoov
  simp only [Sys.all, List.filterMap_cons, List.filterMap_nil]
  generalize lookupLast sel .clearkey = lc
  generalize lookupLast sel .marlin = lm
  generalize lookupLast sel .playready = lp
  cases encrypted
  · rfl
  · cases lc <;> cases lm <;> cases lp <;>
      simp [hooksOf, ClearKey.clearkeyHooks, ClearKey.marlinHooks, playreadyHooks, psshFor] <;>
      (repeat' split) <;> simp_all

/-- clear tracks get nothing -/
theorem initPsshs_clear (version : Option Nat) (aes : Bool) (sel : Selection)
    (kids : List Bytes) (pro : Bytes) : initPsshs false version aes sel kids pro = [] := rfl

theorem lookupLast_mem {sel : Selection} {s : Sys} {locs : List Loc}
    (h : lookupLast sel s = some locs) : (s, locs) ∈ sel := by
  unfold lookupLast at h
  cases hf : sel.reverse.find? (·.1 == s) with
  | none => simp [hf] at h
  | some e =>
    simp only [hf, Option.map_some, Option.some.injEq] at h
    have hm := List.mem_of_find?_eq_some hf
    have hp := List.find?_some hf
    simp only [beq_iff_eq] at hp
    rw [List.mem_reverse] at hm
    rw [← hp, ← h]
    exact hm

/-- a selection none of whose entries includes `moov` yields no pssh -/
theorem initPsshs_no_moov (encrypted : Bool) (version : Option Nat) (aes : Bool) (sel : Selection)
    (kids : List Bytes) (pro : Bytes) (h : ∀ e ∈ sel, e.2.contains Loc.moov = false) :
    initPsshs encrypted version aes sel kids pro = [] := by
  have hw : ∀ s, wantsMoov sel s = false := by
    intro s
    unfold wantsMoov
    cases hl : lookupLast sel s with
    | none => rfl
    | some locs => exact h (s, locs) (lookupLast_mem hl)
  rw [initPsshs_spec]
  simp [hw]

/-- a selection of Marlin only yields no pssh, whatever its locations -/
theorem initPsshs_marlin_only (version : Option Nat) (aes : Bool) (locs : List Loc)
    (kids : List Bytes) (pro : Bytes) :
    initPsshs true version aes [(.marlin, locs)] kids pro = [] := by
  rw [initPsshs_spec]
  simp [wantsMoov, lookupLast]

/-! ### pssh framing -/

/-- **pssh framing**: every box `generate_init_segment` appends decodes (independent reader
of ISO/IEC 23001-7 §8.1) to exactly its system id, key ids and payload; and the version is
0 iff the box is PlayReady's for fewer than two keys. -/
theorem pssh_framing (kids : List Bytes) (pro : Bytes) (s : Sys) (p : PsshSpec)
    (hp : psshFor kids pro s = some p) (hk : ∀ k ∈ kids, k.length = 16)
    (hsz : p.bytes.length < 4294967296) :
    decodePssh p.bytes = some ⟨p.version, p.sys, p.kids, p.data⟩ ∧
    (p.version = 0 ↔ s = .playready ∧ kids.length < 2) ∧
    (s = .clearkey → p = ⟨1, ClearKey.psshSystemId, kids, []⟩) ∧
    (s = .playready → p.sys = playreadySystemId ∧ p.data = pro ∧
      p.kids = if kids.length < 2 then [] else kids) := by
  cases s with
  | marlin => simp [psshFor] at hp
  | clearkey =>
    simp only [psshFor, Option.some.injEq] at hp
    subst hp
    refine ⟨decodePssh_encodePssh 1 _ kids [] (by omega) (by omega) rfl hk hsz, by simp, by simp, by simp⟩
  | playready =>
    simp only [psshFor] at hp
    by_cases h2 : kids.length < 2
    · simp only [h2, if_true, Option.some.injEq] at hp
      subst hp
      exact ⟨decodePssh_encodePssh 0 _ [] pro (by omega) (fun _ => rfl) rfl (by simp) hsz,
        by simp [h2], by simp, by simp [h2]⟩
    · simp only [h2, if_false, Option.some.injEq] at hp
      subst hp
      exact ⟨decodePssh_encodePssh 1 _ kids pro (by omega) (by omega) rfl hk hsz,
        by simp [h2], by simp, by simp [h2]⟩

/-- the leaf the model appends encodes to exactly the pssh box bytes -/
theorem pssh_box_bytes (p : PsshSpec) : p.box.encode = p.bytes := psshBox_encode p

/-! ### the edit, box by box -/

/-- the children of `moov` after the edit: `mvex` loses its first `mehd` when live -/
def moovChildren (cs : List Box) (live : Bool) : List Box :=
  if live then modifyFirst mvexType dropMehdFrom cs else cs

/-- **init_diff_exact** – the response tree is the stored tree with exactly these edits:
the boxes before and after the first `moov` are untouched, `moov` keeps its children
(`mvex` without `mehd` when live) followed by the appended pssh boxes in order; on the
byte level the prefix and suffix are identical and `moov` is re-framed with the size of
what it now contains. -/
theorem init_diff_exact (pre post cs : List Box) (psshs : List PsshSpec) (live : Bool)
    (hpre : ∀ x ∈ pre, x.typ ≠ moovType) :
    generateInit (pre ++ .node moovType cs :: post) (psshs.map PsshSpec.box) live
      = pre ++ .node moovType (moovChildren cs live ++ psshs.map PsshSpec.box) :: post ∧
    initBytes (pre ++ .node moovType cs :: post) psshs live
      = encodeList pre
        ++ (be32 (8 + ((encodeList (moovChildren cs live)).length + (psshs.map PsshSpec.bytes).flatten.length))
            ++ moovType ++ (encodeList (moovChildren cs live) ++ (psshs.map PsshSpec.bytes).flatten))
        ++ encodeList post := by
  have hflat : ∀ l : List PsshSpec, encodeList (l.map PsshSpec.box) = (l.map PsshSpec.bytes).flatten := by
    intro l
    induction l with
    | nil => rfl
    | cons p ps ih => simp [encodeList, ih, psshBox_encode]
  have hpssh : ∀ x ∈ psshs.map PsshSpec.box, x.typ ≠ mvexType := by
    intro x hx
    obtain ⟨p, _, rfl⟩ := List.mem_map.mp hx
    simp [PsshSpec.box, Box.typ, psshType, mvexType]
  have hgen : generateInit (pre ++ .node moovType cs :: post) (psshs.map PsshSpec.box) live
      = pre ++ .node moovType (moovChildren cs live ++ psshs.map PsshSpec.box) :: post := by
    unfold generateInit
    rw [modifyFirst_split moovType _ pre post _ hpre rfl]
    cases live with
    | false => simp [rewriteMoov, appendChildren, moovChildren]
    | true =>
      simp only [rewriteMoov, appendChildren, if_true, dropMehd, moovChildren]
      rw [modifyFirst_append_right mvexType dropMehdFrom cs _ hpssh]
  refine ⟨hgen, ?_⟩
  unfold initBytes
  rw [hgen, encodeList_append]
  simp only [encodeList, Box.encode, encodeList_append, hflat, List.length_append, List.append_assoc]

/-- the `mvex` edit spelled out: with `mvex` = the first such child of `moov` and `mehd` the
first such child of `mvex`, live mode removes exactly that box; every sibling is kept -/
theorem mvex_diff (c1 c2 m1 m2 : List Box) (mehd : Box)
    (hc1 : ∀ x ∈ c1, x.typ ≠ mvexType) (hm1 : ∀ x ∈ m1, x.typ ≠ mehdType)
    (hmehd : mehd.typ = mehdType) :
    moovChildren (c1 ++ .node mvexType (m1 ++ mehd :: m2) :: c2) true
      = c1 ++ .node mvexType (m1 ++ m2) :: c2 := by
  unfold moovChildren
  simp only [if_true]
  rw [modifyFirst_split mvexType _ c1 c2 _ hc1 rfl]
  simp only [dropMehdFrom]
  rw [removeFirst_split mehdType m1 m2 mehd hm1 hmehd]

/-- no `mvex`, or an `mvex` without `mehd`: live mode changes nothing -/
theorem mvex_no_mehd (cs : List Box)
    (h : ∀ x ∈ cs, x.typ = mvexType → ∀ ms, x = .node mvexType ms → ∀ y ∈ ms, y.typ ≠ mehdType) :
    moovChildren cs true = cs := by
  unfold moovChildren
  simp only [if_true]
  induction cs with
  | nil => rfl
  | cons x xs ih =>
    simp only [modifyFirst]
    split
    · rename_i hx
      cases x with
      | leaf t p => rfl
      | node t ms =>
        simp only [Box.typ] at hx
        subst hx
        simp only [dropMehdFrom]
        rw [removeFirst_none mehdType ms (h _ (by simp) rfl ms rfl)]
    · rw [ih (fun y hy => h y (by simp [hy]))]

/-- vod never touches the children -/
theorem moovChildren_vod (cs : List Box) : moovChildren cs false = cs := rfl

/-- **init_clear_identity** – a clear track, or a DRM selection without `moov` (or Marlin
alone), served in vod mode is the stored tree, byte for byte; in live mode the only edit
is the removal of `mvex/mehd`. -/
theorem init_clear_identity (top : List Box) (encrypted : Bool) (version : Option Nat) (aes : Bool)
    (sel : Selection) (kids : List Bytes) (pro : Bytes)
    (h : encrypted = false ∨ ∀ e ∈ sel, e.2.contains Loc.moov = false) :
    initBytes top (initPsshs encrypted version aes sel kids pro) false = encodeList top ∧
    generateInit top ((initPsshs encrypted version aes sel kids pro).map PsshSpec.box) true
      = modifyFirst moovType dropMehd top := by
  have hnil : initPsshs encrypted version aes sel kids pro = [] := by
    rcases h with rfl | h
    · rfl
    · exact initPsshs_no_moov _ _ _ _ _ _ h
  have happ : ∀ b : Box, appendChildren [] b = b := by
    intro b; cases b <;> simp [appendChildren]
  rw [hnil]
  constructor
  · unfold initBytes generateInit
    rw [modifyFirst_id moovType _ top (fun b _ => by simp [rewriteMoov, happ])]
  · unfold generateInit
    have hf : rewriteMoov [] true = dropMehd := by
      funext b; simp [rewriteMoov, happ]
    simp only [List.map_nil, hf]

/-! ### the result is a well-formed box tree -/

/-- **init_wellformed** – whenever the stored init segment is a well-formed tree (4-byte
types, containers where the reader expects them, sizes below 2³²) and the response still
fits 32-bit sizes, an independent reader of ISO-BMFF box sequences parses the response
bytes back to exactly the edited tree: every size field, at every depth, equals the number
of bytes the box occupies, and nothing is left over. -/
theorem init_wellformed (isC : Bytes → Bool) (pre post cs : List Box) (psshs : List PsshSpec)
    (live : Bool) (hpre : ∀ x ∈ pre, x.typ ≠ moovType)
    (hpssh : isC psshType = false)
    (hwf : WfList isC (pre ++ .node moovType cs :: post))
    (hsz : (initBytes (pre ++ .node moovType cs :: post) psshs live).length < 4294967296)
    (hp : ∀ p ∈ psshs, p.bytes.length < 4294967296) (fuel : Nat)
    (hfuel : weightList (generateInit (pre ++ .node moovType cs :: post)
      (psshs.map PsshSpec.box) live) < fuel) :
    parseBoxes isC fuel (initBytes (pre ++ .node moovType cs :: post) psshs live)
      = some (generateInit (pre ++ .node moovType cs :: post) (psshs.map PsshSpec.box) live) := by
  obtain ⟨hgen, hbytes⟩ := init_diff_exact pre post cs psshs live hpre
  unfold initBytes
  apply parse_encodeList isC _ fuel _ hfuel
  rw [hgen]
  rw [wfList_append] at hwf ⊢
  obtain ⟨hwpre, hwrest⟩ := hwf
  simp only [WfList, Box.Wf] at hwrest ⊢
  obtain ⟨⟨ht, hc, _, hwcs⟩, hwpost⟩ := hwrest
  refine ⟨hwpre, ⟨ht, hc, ?_, ?_⟩, hwpost⟩
  · -- the new moov fits: it is a part of the response
    rw [hbytes] at hsz
    have hflat : encodeList (psshs.map PsshSpec.box) = (psshs.map PsshSpec.bytes).flatten := by
      clear hsz hfuel hp hgen hbytes
      induction psshs with
      | nil => rfl
      | cons p ps ih => simp [encodeList, ih, psshBox_encode]
    rw [encodeList_append, hflat]
    simp only [List.length_append, be32_length] at hsz ⊢
    omega
  · rw [wfList_append]
    constructor
    · unfold moovChildren
      cases live with
      | false => exact hwcs
      | true => exact wfList_modifyFirst isC _ _ cs (wf_dropMehdFrom isC) hwcs
    · clear hsz hfuel hgen hbytes
      induction psshs with
      | nil => simp [WfList]
      | cons p ps ih =>
        simp only [List.map_cons, WfList]
        refine ⟨?_, ih (fun q hq => hp q (by simp [hq]))⟩
        have := hp p (by simp)
        have ht4 : psshType.length = 4 := rfl
        simp only [PsshSpec.box, Box.Wf]
        refine ⟨rfl, hpssh, ?_⟩
        simp only [PsshSpec.bytes, encodePssh, List.length_append, be32_length] at this
        omega

/-! ### what a manifest hands on to its init / media URLs -/

theorem mem_normLocs (locs : List Loc) (l : Loc) : (normLocs locs).contains l = locs.contains l := by
  cases l <;> simp [normLocs, Loc.all, List.filter] <;> (repeat' split) <;> simp_all

theorem normLocs_full (locs : List Loc) (h : isFull locs = true) : normLocs locs = Loc.all := by
  simp only [isFull, Loc.all, List.all_cons, List.all_nil, Bool.and_true, Bool.and_eq_true] at h
  have h1 : Loc.cenc ∈ locs := by simpa using h.1
  have h2 : Loc.moov ∈ locs := by simpa using h.2.1
  have h3 : Loc.pro ∈ locs := by simpa using h.2.2
  simp [normLocs, Loc.all, List.filter, h1, h2, h3]

/-- the entry that counts for a system, after the selection went through the serialiser -/
theorem lookupLast_map (sel : Selection) (f : List Loc → List Loc) (s : Sys) :
    lookupLast (sel.map fun e => (e.1, f e.2)) s = (lookupLast sel s).map f := by
  unfold lookupLast
  rw [← List.map_reverse, List.find?_map]
  have : ((fun x : Sys × List Loc => x.1 == s) ∘ fun e : Sys × List Loc => (e.1, f e.2))
      = (fun x : Sys × List Loc => x.1 == s) := rfl
  rw [this]
  cases sel.reverse.find? (fun x => x.1 == s) <;> rfl

/-- location lists that select the same locations -/
def SameLocs (a b : List Loc) : Prop := ∀ l, a.contains l = b.contains l

/-- both absent, or both present with the same locations -/
def sameEntry : Option (List Loc) → Option (List Loc) → Prop
  | some a, some b => SameLocs a b
  | none, none => True
  | _, _ => False

/-- **selection_print_parse** – what a manifest writes into its init / media URLs
(`_drm_selection_to_string`) is read back (`_drm_selection_from_string`) as a selection in
which every system has the entry that counted before, with the same locations – for every
selection: any number of systems in any order, equal or differing location sets, repeats. -/
theorem selection_print_parse (sel : Selection) (s : Sys) :
    sameEntry (lookupLast sel s) (lookupLast (readPrinted (printSelection sel)) s) := by
  have hnorm : ∀ locs, (if isFull locs then Loc.all else normLocs locs) = normLocs locs := by
    intro locs; split
    · rename_i h; exact (normLocs_full locs h).symm
    · rfl
  unfold printSelection
  simp only
  by_cases hall : ((sel.map fun (x : Sys × List Loc) =>
        if isFull x.2 then ((x.1, none) : Item) else (x.1, some (normLocs x.2))).all (·.2.isNone)
      && Sys.all.all (fun s' => (sel.map fun (x : Sys × List Loc) =>
        if isFull x.2 then ((x.1, none) : Item) else (x.1, some (normLocs x.2))).any (·.1 == s'))) = true
  · -- `all`: every entry is a bare name and every system occurs
    rw [if_pos hall]
    simp only [Bool.and_eq_true, List.all_eq_true, List.any_eq_true, List.mem_map] at hall
    obtain ⟨hbare, hnames⟩ := hall
    have hs : s ∈ Sys.all := by cases s <;> simp [Sys.all]
    obtain ⟨it, ⟨e, he, rfl⟩, hname⟩ := hnames s hs
    have hfull : ∀ e ∈ sel, isFull e.2 = true := by
      intro e he
      have := hbare _ ⟨e, he, rfl⟩
      by_cases hf : isFull e.2 = true
      · exact hf
      · simp [hf] at this
    have hr : lookupLast (readPrinted .all) s = some Loc.all := by
      cases s <;> decide
    rw [hr]
    cases hl : lookupLast sel s with
    | none =>
      exfalso
      -- impossible: s occurs in sel
      unfold lookupLast at hl
      simp only [Option.map_eq_none_iff, List.find?_eq_none, List.mem_reverse] at hl
      have hes : e.1 = s := by
        by_cases hf : isFull e.2 = true <;> simpa [hf] using hname
      exact absurd (by simpa using hes) (hl e he)
    | some a =>
      have ha : ∃ e ∈ sel, e.2 = a := by
        unfold lookupLast at hl
        cases hf : sel.reverse.find? (·.1 == s) with
        | none => simp [hf] at hl
        | some x =>
          simp only [hf, Option.map_some, Option.some.injEq] at hl
          exact ⟨x, by simpa using List.mem_of_find?_eq_some hf, hl⟩
      obtain ⟨x, hx, rfl⟩ := ha
      show SameLocs x.2 Loc.all
      intro l
      have := hfull x hx
      simp only [isFull, Loc.all, List.all_cons, List.all_nil, Bool.and_true, Bool.and_eq_true] at this
      cases l
      · rw [this.1]; rfl
      · rw [this.2.1]; rfl
      · rw [this.2.2]; rfl
  · -- item list: each entry goes through unchanged up to the order of its locations
    rw [if_neg hall]
    have hread : readPrinted (.items (sel.map fun (x : Sys × List Loc) =>
          if isFull x.2 then ((x.1, none) : Item) else (x.1, some (normLocs x.2))))
        = sel.map fun e => (e.1, normLocs e.2) := by
      simp only [readPrinted, List.map_map]
      apply List.map_congr_left
      intro e _
      by_cases hf : isFull e.2 = true
      · simp [hf, normLocs_full e.2 hf]
      · simp [hf]
    rw [hread, lookupLast_map]
    cases lookupLast sel s with
    | none => trivial
    | some a => show SameLocs a (normLocs a); intro l; exact (mem_normLocs a l).symm


theorem hooksOf_sameLocs (version : Option Nat) (aes : Bool) (n : Nat) (s : Sys) (a b : List Loc)
    (h : SameLocs a b) : hooksOf version aes n s a = hooksOf version aes n s b := by
  have h1 := h Loc.cenc
  have h2 := h Loc.moov
  have h3 := h Loc.pro
  cases s <;> simp only [hooksOf, ClearKey.clearkeyHooks, ClearKey.marlinHooks, playreadyHooks, h1, h2, h3]

/-- **init_handed_on** – the init segment requested through the URL a manifest advertises (its
`drm` value is the serialised selection) gets the same protection boxes as one requested with
the selection the manifest itself was asked with. -/
theorem init_handed_on (encrypted : Bool) (version : Option Nat) (aes : Bool) (sel : Selection)
    (kids : List Bytes) (pro : Bytes) :
    initPsshs encrypted version aes (readPrinted (printSelection sel)) kids pro
      = initPsshs encrypted version aes sel kids pro := by
  have hctx : contexts version aes kids.length (readPrinted (printSelection sel))
      = contexts version aes kids.length sel := by
    have hx : ∀ s, (lookupLast (readPrinted (printSelection sel)) s).map
          (fun locs => (s, hooksOf version aes kids.length s locs))
        = (lookupLast sel s).map (fun locs => (s, hooksOf version aes kids.length s locs)) := by
      intro s
      have h := selection_print_parse sel s
      cases ha : lookupLast sel s <;> cases hb : lookupLast (readPrinted (printSelection sel)) s <;>
        simp only [ha, hb, sameEntry] at h ⊢
      simp only [Option.map_some, Option.some.injEq, Prod.mk.injEq, true_and]
      exact (hooksOf_sameLocs version aes kids.length s _ _ h).symm
    simp only [contexts, Sys.all, List.filterMap_cons, List.filterMap_nil, hx]
  unfold initPsshs
  rw [hctx]

/-- heterogeneous location sets are written item by item, never collapsed; three bare names
are written `all`; and either form is read back with the locations that counted -/
example :
    printSelection [(.playready, [.cenc]), (.clearkey, [.moov]), (.marlin, Loc.all)]
      = .items [(.playready, some [.cenc]), (.clearkey, some [.moov]), (.marlin, none)] ∧
    printSelection [(.playready, [.pro, .cenc, .moov]), (.marlin, Loc.all), (.clearkey, Loc.all)] = .all ∧
    (initPsshs true none true (readPrinted (printSelection
        [(.playready, [.cenc]), (.clearkey, [.moov]), (.marlin, Loc.all)])) [exKidPlaceholder] []).map (·.sys)
      = [ClearKey.psshSystemId] := by decide

/-! ### history independence -/

/-- **init_history_independent** – whatever was served before (init segments, manifests of
any mode, media, licence requests), the shared option state is still what it was at import,
and the response to an init request is the response a fresh process gives: a function of the
request only. -/
theorem init_history_independent (hist : List Req) (r : InitReq) :
    (serveAll Shared.init hist).2 = Shared.init ∧
    (serveAll Shared.init (hist ++ [.init r])).1
      = (serveAll Shared.init hist).1 ++ [serveInit Shared.init r] ∧
    serveInit Shared.init r
      = (parseSelection r.drm).map fun sel =>
          initBytes r.top (initPsshs r.encrypted r.version r.lastAlgIsAesCtr sel r.kids r.pro) r.live := by
  have hstate : ∀ (s : Shared) (l : List Req), (serveAll s l).2 = s := by
    intro s l
    induction l generalizing s with
    | nil => rfl
    | cons q qs ih =>
      have hq : (serve s q).2 = s := by cases q <;> rfl
      simp only [serveAll, hq, ih]
  have happ : ∀ (s : Shared) (l : List Req) (q : Req),
      (serveAll s (l ++ [q])).1 = (serveAll s l).1 ++ [(serve (serveAll s l).2 q).1] := by
    intro s l q
    induction l generalizing s with
    | nil => simp [serveAll]
    | cons x xs ih => simp [serveAll, ih]
  refine ⟨hstate _ _, ?_, rfl⟩
  rw [happ, hstate]
  rfl

/-- the shared default matters: were `moov` removed from the shared set (what an in-place
`discard` on the set handed out by the parser does), a bare `drm=playready` – the selection
`[(playready, shared set)]` – would lose its pssh – the dependency the `init_history` channel guards -/
example :
    (initPsshs true none true [(Sys.playready, [Loc.cenc, Loc.pro])] [exKidPlaceholder] []).length = 0 ∧
    (initPsshs true none true [(Sys.playready, Loc.all)] [exKidPlaceholder] []).length = 1 := by decide

/-! ### non-vacuity: a concrete init segment -/

/-- ftyp, moov(mvhd, mvex(mehd, trex), trak), styp – payloads abbreviated -/
def exTop : List Box :=
  [.leaf [0x66, 0x74, 0x79, 0x70] [1, 2, 3, 4],
   .node moovType [.leaf [0x6d, 0x76, 0x68, 0x64] [9],
                   .node mvexType [.leaf mehdType [0, 0, 0, 7], .leaf [0x74, 0x72, 0x65, 0x78] [5, 5]],
                   .leaf [0x74, 0x72, 0x61, 0x6b] [8, 8, 8]],
   .leaf [0x73, 0x74, 0x79, 0x70] [6]]

def exKid : Bytes := [0x1a, 0xb4, 0x54, 0x40, 0x53, 0x2c, 0x43, 0x99, 0x94, 0xdc, 0x5c, 0x5a, 0xd9,
  0x58, 0x4b, 0xac]

def exIsC (t : Bytes) : Bool := t == moovType || t == mvexType

def childTypes : Box → List Bytes
  | .node _ cs => cs.map Box.typ
  | .leaf _ _ => []

/-- `drm=all`, live: ClearKey pssh then PlayReady pssh appended to `moov`, `mehd` gone from
`mvex`, the other boxes untouched, and the reader gets a tree with the same bytes back -/
example :
    let psshs := initPsshs true none true (Sys.all.map fun s => (s, Loc.all)) [exKid] [0xAA, 0xBB]
    psshs.map (·.sys) = [ClearKey.psshSystemId, playreadySystemId] ∧
    psshs.map (·.version) = [1, 0] ∧
    (parseBoxes exIsC 20 (initBytes exTop psshs true)).map encodeList
      = some (initBytes exTop psshs true) ∧
    (generateInit exTop (psshs.map PsshSpec.box) true).map Box.typ = exTop.map Box.typ ∧
    (generateInit exTop (psshs.map PsshSpec.box) true).map childTypes
      = [[], [[0x6d, 0x76, 0x68, 0x64], mvexType, [0x74, 0x72, 0x61, 0x6b], psshType, psshType], []] ∧
    (initBytes exTop psshs true).length = (encodeList exTop).length - 12 + 52 + 34 := by
  decide +kernel

/-- before the `fix:` commit the handler deleted `moov.mehd` (a direct child of `moov`);
on a real tree that removes nothing (`mehd` lives inside `mvex`) – the witness of the
repaired defect -/
example : encodeList (removeFirst mehdType [Box.leaf [0x6d, 0x76, 0x68, 0x64] [9],
      .node mvexType [.leaf mehdType [0, 0, 0, 7]]])
    = encodeList [Box.leaf [0x6d, 0x76, 0x68, 0x64] [9], .node mvexType [.leaf mehdType [0, 0, 0, 7]]] := by
  decide

end DashLive.C10
