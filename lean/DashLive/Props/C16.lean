import DashLive.Lemmas.Inject
import DashLive.Gen.Options
import DashLive.Gen.ParserLoops
import DashLive.Lemmas.Events
import DashLive.Lemmas.Periods
/-!
# C16 – no request causes an uncontrolled failure; injected errors fire exactly as asked

Property theorems only.  A theorem cannot exhibit a Python exception raised deep in glue
code; what is logic – and proved here, for all inputs – is

1. which exception classes the option layer can raise for the `str` values an HTTP query
   carries, and what the handlers make of them (`option_parse_kinds`, `convert_kinds`,
   `calc_options_kinds`, `validated_*`, `handler_status_no_5xx_partial`, …);
2. the error-injection counter state machine (`inject_only_addressed`, `inject_exact`,
   `inject_isolated_*`, `inject_time_segment`);
3. termination of the three loops whose trip count depends on request data
   (`loops_terminate_*`), each with its non-termination witness for the excluded value.

The rest of the quantifier of C16 (every route × query × stream state, mutated MP4 input)
is *explored* by the harness (`fuzz_http`, `fuzz_mp4`), and labelled so in the evidence.
-/
namespace DashLive.C16
open DashLive.OptionErrors DashLive.Inject
open DashLive.Options (Bytes Val DTCodec OptionRow Kind LocSet ascii findRow)

/-! ## 1. the option layer -/

/-- the only registered option whose codec can raise `KeyError` is `drm` (checked on the
generated registry table on every run) -/
theorem table_key_error_rows :
    (DashLive.Gen.Options.table.all fun r => r.kind != .drmSelection || r.cgi == "drm") = true := by
  decide

/-- **option_parse_kinds.** For every registered option (generated table) and every text,
the registered `from_string` returns a value or raises `ValueError`; the one other class,
`KeyError`, comes only from the `drm` option (`DrmLocation.from_string`) – and is the one
class `convert_options` swallows. -/
theorem option_parse_kinds {DT : Type} (C : DTCodec DT) (row : OptionRow)
    (hr : row ∈ DashLive.Gen.Options.table) (s : Bytes) :
    (∃ v, fromStringX C row.kind s = .ok v) ∨ fromStringX C row.kind s = .error .valueError ∨
      (fromStringX C row.kind s = .error .keyError ∧ row.cgi = "drm") := by
  rcases fromStringX_cases C row.kind s with h | h | ⟨h, hk⟩
  · exact Or.inl h
  · exact Or.inr (Or.inl h)
  · refine Or.inr (Or.inr ⟨h, ?_⟩)
    have := List.all_eq_true.mp table_key_error_rows row hr
    simpa [hk] using this

/-- **convert_kinds.** `convert_options` over any registry and any query: a container, or
`ValueError` – never another exception class. -/
theorem convert_kinds {DT : Type} (C : DTCodec DT) (tbl : List OptionRow) (dflt : Nat → Val DT)
    (q : List (Bytes × Bytes)) :
    (∃ o, convertX C tbl dflt q = .ok o) ∨ convertX C tbl dflt q = .error .valueError :=
  convertX_cases C tbl q dflt

/-- **calc_options_kinds.** `calculate_options` (conversion + `check_option_values`): the
options, or `ValueError` – the one class every handler maps to 400. -/
theorem calc_options_kinds (C : DTCodec IsoClass) (tbl : List OptionRow) (dflt : Nat → Val IsoClass)
    (q : List (Bytes × Bytes)) :
    (∃ o, calcOptions C tbl dflt q = .ok o) ∨ calcOptions C tbl dflt q = .error .valueError := by
  unfold calcOptions
  cases !rawLicenseUrlsOk q
  · simp only [cond_false]
    rcases convertX_cases C tbl q dflt with ⟨o, ho⟩ | ho
    · rw [ho]
      dsimp only
      cases h : !licenseUrlsOk tbl o
      · simp only [cond_false]; exact checkValues_cases C tbl _ o
      · simp only [cond_true]; exact Or.inr ⟨⟩
    · rw [ho]; exact Or.inr rfl
  · exact Or.inr rfl

/-- the handlers' guarded block therefore answers 400 or goes on – it never lets an
exception escape (status 500) -/
theorem guarded_calc_no_500 (C : DTCodec IsoClass) (tbl : List OptionRow) (dflt : Nat → Val IsoClass)
    (q : List (Bytes × Bytes)) :
    (∃ o, guarded (calcOptions C tbl dflt q) = .ok o) ∨ guarded (calcOptions C tbl dflt q) = .error 400 := by
  rcases calc_options_kinds C tbl dflt q with ⟨o, h⟩ | h
  · rw [h]; exact Or.inl ⟨o, rfl⟩
  · rw [h]; exact Or.inr rfl

/-- cgi names are unique, so "the option of a parameter" (`get_cgi_map()[key]`) is the
first row with that name -/
theorem table_names_nodup : (DashLive.Gen.Options.table.map (·.cgi)).Nodup := by
  decide +kernel

/-- the options `check_option_values` reads exist and have the codec the check assumes -/
theorem table_fields_resolve :
    (([("drm", Kind.drmSelection), ("time", .strOrNone), ("start", .astDateTime),
       ("aerr", .errorList), ("merr", .errorList), ("terr", .errorList), ("verr", .errorList),
       ("vcorrupt", .listJoin), ("events", .listJoin), ("drift", .intOrNone), ("leeway", .intOrNone),
       ("mup", .intOrNone), ("depth", .intOrNone), ("failures", .intOrNone), ("update", .intOrNone)] :
      List (String × Kind)).all fun p =>
        match findRow DashLive.Gen.Options.table (ascii p.1) with
        | some i => (DashLive.Gen.Options.table[i]?.map (·.kind)) == some p.2
        | none => false) = true := by
  decide +kernel

/-- the per-event options exist for every event type the check knows, as integers -/
theorem table_event_fields_resolve :
    ((eventTypes.flatMap fun e => ["count", "timescale", "duration", "version", "interval", "start"].map
        fun k => e ++ "__" ++ k).all fun name =>
        match findRow DashLive.Gen.Options.table (ascii name) with
        | some i =>
          (match (DashLive.Gen.Options.table[i]?.map (·.kind) : Option Kind) with
           | some (Kind.intOrDefault _) => true
           | some (Kind.posIntOrDefault _) => true
           | _ => false)
        | none => false) = true := by
  decide +kernel

/-- the text `get_default_options` feeds to every registered `from_string` parses (it
runs when the first request arrives; a default that raised would fail every request) -/
theorem table_defaults_parse :
    (DashLive.Gen.Options.table.all fun r =>
      match fromStringX nullCodec r.kind (ascii r.dflt) with
      | .ok _ => true
      | .error _ => false) = true := by
  decide +kernel

/-- **validated_drm_no_assert** (D6).  Options that passed `check_option_values` never
trip the `assert drm_name in DrmSystem.values()` of `generate_drm_location_tuples`. -/
theorem validated_drm_no_assert (C : DTCodec IsoClass) (tbl : List OptionRow) (d : Val IsoClass)
    (o o' : Nat → Val IsoClass) (h : checkValues C tbl d o = .ok o') (sel : List (Bytes × LocSet))
    (hsel : field tbl o "drm" = .drm sel) : ∃ names, drmTuples sel = .ok names := by
  have hd : drmNamesOk tbl o = true := by
    unfold checkValues at h
    by_cases h1 : drmNamesOk tbl o = true
    · exact h1
    · have h1' : drmNamesOk tbl o = false := by simpa using h1
      simp [h1'] at h
  unfold drmNamesOk at hd
  rw [hsel] at hd
  simp only at hd
  clear hsel h
  induction sel with
  | nil => exact ⟨[], rfl⟩
  | cons e rest ih =>
    rw [List.all_cons, Bool.and_eq_true] at hd
    obtain ⟨names, hn⟩ := ih hd.2
    refine ⟨e.1 :: names, ?_⟩
    unfold drmTuples at hn ⊢
    rw [List.mapM_cons]
    simp only [hd.1, if_true]
    rw [hn]
    rfl

/-- **validated_time_source** (D6).  …nor the `raise ValueError('Unknown time method')` of
`TimeSourceContext`, which sits outside the handlers' guarded block. -/
theorem validated_time_source (C : DTCodec IsoClass) (tbl : List OptionRow) (d : Val IsoClass)
    (o o' : Nat → Val IsoClass) (h : checkValues C tbl d o = .ok o') (m : Bytes)
    (hm : field tbl o "time" = .str m) : timeSource m = .ok () := by
  have hu : utcMethodOk tbl o = true := by
    unfold checkValues at h
    by_cases h1 : drmNamesOk tbl o = true
    · by_cases h2 : utcMethodOk tbl o = true
      · exact h2
      · have h2' : utcMethodOk tbl o = false := by simpa using h2
        simp [h1, h2'] at h
    · have h1' : drmNamesOk tbl o = false := by simpa using h1
      simp [h1'] at h
  unfold utcMethodOk at hu
  rw [hm] at hu
  simp only at hu
  unfold timeSource
  simp only [hu, if_true]

/-- without the validation both sites fail – with an exception class the handlers do not
map (this is what `?drm=foo` and `?time=bogus` did before e0c6070) -/
example : drmTuples [(ascii "foo", LocSet.all)] = .error .assertionError := by decide
example : timeSource (ascii "bogus") = .error .valueError := by decide
example : escapes .assertionError = 500 := rfl

/-- **confused_escapes.** The hypothesis "the argument is a `str`" cannot be dropped: an
`int` handed to `int_or_none_from_string` raises `TypeError`, `None` handed to
`bool_from_string` raises `AttributeError`, and the guarded block lets both through as 500.
(`flask.request.args` only holds `str`, so no HTTP request gets here.) -/
theorem confused_escapes :
    fromStringAny nullCodec .intOrNone (.int false) = .error .typeError ∧
    fromStringAny nullCodec .bool .none = .error .attributeError ∧
    guarded (.error .typeError : Except Exc Unit) = .error 500 ∧
    guarded (.error .attributeError : Except Exc Unit) = .error 500 := by
  decide

/-! ## the handlers -/

/-- **handler_status_no_5xx_partial** (manifest, multi-period manifest, patch).  For every
state of the world and every query: if none of the calls the model does not look into
(`ManifestContext(...)`, `render_template`) raises something its caller does not catch
(`w.quiet`), the status is 200, 400, 404 or the injected code. -/
theorem handler_status_no_5xx_partial (C : DTCodec IsoClass) (tbl : List OptionRow)
    (dflt : Nat → Val IsoClass) (q : List (Bytes × Bytes)) (k : ManifestKind) (w : ManifestWorld)
    (hq : w.quiet = true) :
    manifestStatus k w ((calcOptions C tbl dflt q).map fun _ => ()) = 200 ∨
    manifestStatus k w ((calcOptions C tbl dflt q).map fun _ => ()) = 400 ∨
    manifestStatus k w ((calcOptions C tbl dflt q).map fun _ => ()) = 404 ∨
    (k = .single ∧
      w.injected = some (manifestStatus k w ((calcOptions C tbl dflt q).map fun _ => ()))) := by
  have hp : (calcOptions C tbl dflt q).map (fun _ => ()) = .ok () ∨
      (calcOptions C tbl dflt q).map (fun _ => ()) = .error .valueError := by
    rcases calc_options_kinds C tbl dflt q with ⟨o, h⟩ | h
    · rw [h]; exact Or.inl rfl
    · rw [h]; exact Or.inr rfl
  generalize (calcOptions C tbl dflt q).map (fun _ => ()) = p at hp
  obtain ⟨sf, mo, rd, po, pub, pwt, ctx, cr, inj, ren⟩ := w
  simp only [ManifestWorld.quiet, Bool.and_eq_true] at hq
  obtain ⟨hc, hr⟩ := hq
  cases sf
  · simp [manifestStatus]
  cases mo
  · simp [manifestStatus]
  cases rd
  · simp [manifestStatus]
  rcases hp with rfl | rfl
  · cases ctx with
    | raised e => simp [Call.quiet] at hc
    | refused => cases k <;> cases po <;> cases pwt <;> cases pub <;> simp [manifestStatus, guarded]
    | ok =>
      cases cr
      · cases k <;> cases po <;> cases pwt <;> cases pub <;> simp [manifestStatus, guarded]
      cases ren with
      | raised e => simp [Call.quiet] at hr
      | refused =>
        cases k <;> cases po <;> cases pwt <;> cases pub <;> cases inj <;> simp [manifestStatus, guarded]
      | ok =>
        cases k <;> cases po <;> cases pwt <;> cases pub <;> cases inj <;> simp [manifestStatus, guarded]
  · cases k <;> cases po <;> simp [manifestStatus, guarded]

/-- non-vacuity: a world that satisfies the hypothesis and answers 200 -/
example : (⟨true, true, true, true, true, false, .ok, true, none, .ok⟩ : ManifestWorld).quiet = true ∧
    manifestStatus .single ⟨true, true, true, true, true, false, .ok, true, none, .ok⟩ (.ok ()) = 200 := by
  decide

/-- the excluded point: when `render_template` raises (the `frameRateFraction` filter on
an empty video AdaptationSet did – a jinja `UndefinedError`), the status *is* 500 -/
example : manifestStatus .single ⟨true, true, true, true, true, false, .ok, true, none, .raised .templateError⟩
    (.ok ()) = 500 := by decide

/-- **media_status_no_5xx_partial** (init and media segments, single- and multi-period):
200, 206, 400, 404, 416 or the injected code. -/
theorem media_status_no_5xx_partial (C : DTCodec IsoClass) (tbl : List OptionRow)
    (dflt : Nat → Val IsoClass) (q : List (Bytes × Bytes)) (w : MediaWorld)
    (hq : w.quiet = true) (hrange : rangeStatusOk w.range = true) :
    mediaStatus w ((calcOptions C tbl dflt q).map fun _ => ()) ∈ [200, 206, 400, 404, 416] ∨
    w.injected = some (mediaStatus w ((calcOptions C tbl dflt q).map fun _ => ())) := by
  have hp : (calcOptions C tbl dflt q).map (fun _ => ()) = .ok () ∨
      (calcOptions C tbl dflt q).map (fun _ => ()) = .error .valueError := by
    rcases calc_options_kinds C tbl dflt q with ⟨o, h⟩ | h
    · rw [h]; exact Or.inl rfl
    · rw [h]; exact Or.inr rfl
  generalize (calcOptions C tbl dflt q).map (fun _ => ()) = p at hp
  obtain ⟨fd, ix, tr, ewd, kct, ini, nok, inj, lk, bd, ev, rg⟩ := w
  simp only [MediaWorld.quiet, Bool.and_eq_true] at hq
  obtain ⟨⟨hl, hb⟩, he⟩ := hq
  cases fd
  · simp [mediaStatus]
  cases ix
  · simp [mediaStatus]
  rcases hp with rfl | rfl
  · cases tr
    · simp [mediaStatus, guarded]
    cases ewd
    swap
    · simp [mediaStatus, guarded]
    cases kct
    · simp [mediaStatus, guarded]
    cases inj with
    | some code => cases ini <;> cases nok <;> simp [mediaStatus, guarded]
    | none =>
      cases bd with
      | raised e => simp [Call.quiet] at hb
      | refused =>
        cases ini <;> cases nok <;> cases lk <;> simp_all [mediaStatus, guarded, Call.quiet]
      | ok =>
        cases ini
        · cases nok
          · simp [mediaStatus, guarded]
          cases lk with
          | raised e => simp [Call.quiet] at hl
          | refused => simp [mediaStatus, guarded]
          | ok =>
            cases ev with
            | raised e => simp [Call.quiet] at he
            | refused => simp [mediaStatus, guarded]
            | ok =>
              cases rg with
              | error u => simp [mediaStatus, guarded]
              | ok s =>
                simp only [rangeStatusOk, Bool.or_eq_true, beq_iff_eq] at hrange
                rcases hrange with (h | h) | h <;> simp [mediaStatus, guarded, h]
        · simp [mediaStatus, guarded]
  · simp [mediaStatus, guarded]

example : (⟨true, true, true, false, true, false, true, none, .ok, .ok, .ok, .ok 206⟩ : MediaWorld).quiet = true ∧
    mediaStatus ⟨true, true, true, false, true, false, true, none, .ok, .ok, .ok, .ok 206⟩ (.ok ()) = 206 := by
  decide

/-- the excluded point: `load_fragment` / `encode` raising (a corrupt stored file, a value
that does not fit a box field) is a 500 -/
example : mediaStatus ⟨true, true, true, false, true, false, true, none, .ok, .raised .typeError, .ok, .ok 200⟩
    (.ok ()) = 500 := by decide

/-- **vod_outside_range_404.** VOD, `$Number$` or `$Time$`: a request whose segment number is
outside `[start_number, start_number + n − 1]` is answered 404 – whatever the rest of the
world looks like behind the lookup (no fragment is loaded), provided the request got as far
as the lookup and no error is injected. -/
theorem vod_outside_range_404 (sd sn n : Nat) (a : Addr) (w : MediaWorld)
    (hout : vodSegNum sd sn a < sn ∨ vodSegNum sd sn a > (n : Int) + sn - 1)
    (hw : w.found = true ∧ w.indexed = true ∧ w.timingRef = true ∧ w.encryptedWithoutDrm = false ∧
          w.knownContentType = true ∧ w.isInit = false ∧ w.numberOk = true ∧ w.injected = none)
    (hl : w.lookup = vodLookup sd sn n a) :
    mediaStatus w (.ok ()) = 404 := by
  obtain ⟨h1, h2, h3, h4, h5, h6, h7, h8⟩ := hw
  have hr : vodLookup sd sn n a = .refused := by
    unfold vodLookup
    simp only [hout, if_true]
  unfold mediaStatus
  simp [h1, h2, h3, h4, h5, h6, h7, h8, hl, hr, guarded]

/-- **vod_in_range_index.** …and a request that passes the gate indexes an existing media
segment: `1 ≤ mod_segment ≤ n`, so `representation.segments[mod_segment]` (the list has
`n + 1` entries, the init segment first) cannot raise `IndexError`. -/
theorem vod_in_range_index (sd sn n : Nat) (a : Addr) (h : vodLookup sd sn n a = .ok) :
    1 ≤ vodModSegment sd sn a ∧ vodModSegment sd sn a ≤ n ∧
    (sn : Int) ≤ vodSegNum sd sn a ∧ vodSegNum sd sn a ≤ (n : Int) + sn - 1 := by
  unfold vodLookup at h
  by_cases h1 : vodSegNum sd sn a < sn ∨ vodSegNum sd sn a > (n : Int) + sn - 1
  · simp [h1] at h
  · simp only [h1, if_false] at h
    by_cases h2 : vodModSegment sd sn a < 1 ∨ vodModSegment sd sn a > n
    · simp [h2] at h
    · omega

/-- bbb_v7 (10 segments of 960 ticks, start number 1): number 10 and time 8640 are served,
number 11 and time 9600 – exactly one past the end – are refused, as are 0 and 12 -/
example : vodLookup 960 1 10 (.number 10) = .ok ∧ vodLookup 960 1 10 (.time 8640) = .ok ∧
    vodLookup 960 1 10 (.number 11) = .refused ∧ vodLookup 960 1 10 (.time 9600) = .refused ∧
    vodLookup 960 1 10 (.number 0) = .refused ∧ vodLookup 960 1 10 (.number 12) = .refused := by decide

/-- **time_status.** `/time/<method>`: 200 or 400, unconditionally -/
theorem time_status (C : DTCodec IsoClass) (tbl : List OptionRow) (dflt : Nat → Val IsoClass)
    (q : List (Bytes × Bytes)) :
    timeStatus ((calcOptions C tbl dflt q).map fun _ => ()) = 200 ∨
    timeStatus ((calcOptions C tbl dflt q).map fun _ => ()) = 400 := by
  rcases calc_options_kinds C tbl dflt q with ⟨o, h⟩ | h <;> rw [h] <;> simp [timeStatus, guarded, Except.map]

/-- **ntp_fields_fit_partial.** `/time/http-ntp`: when the drift-adjusted clock is not
before 1900 the seconds field is `⌊t⌋ mod 2³²` and both fields fit their 32 bits, so
`struct.pack('>II', …)` cannot fail – whatever the era (2036-02-07 and later included). -/
theorem ntp_fields_fit_partial (us : Int) (h : 0 ≤ us) :
    ∃ s f, ntpFields us = .ok (s, f) ∧ s < 4294967296 ∧ f < 4294967296 ∧
      (s : Int) = (us / 1000000) % 4294967296 := by
  unfold ntpFields
  have hw : Int.tdiv us 1000000 = us / 1000000 := Int.tdiv_eq_ediv_of_nonneg h
  have hr : 0 ≤ us - us / 1000000 * 1000000 ∧ us - us / 1000000 * 1000000 < 1000000 := by omega
  have hf0 : 0 ≤ (us - us / 1000000 * 1000000) * 4294967296 := by omega
  have hf : Int.tdiv ((us - us / 1000000 * 1000000) * 4294967296) 1000000
      = (us - us / 1000000 * 1000000) * 4294967296 / 1000000 := Int.tdiv_eq_ediv_of_nonneg hf0
  simp only [hw, hf]
  have hs : 0 ≤ Int.emod (us / 1000000) 4294967296 ∧ Int.emod (us / 1000000) 4294967296 < 4294967296 :=
    ⟨Int.emod_nonneg _ (by decide), Int.emod_lt_of_pos _ (by decide)⟩
  have hq : 0 ≤ (us - us / 1000000 * 1000000) * 4294967296 / 1000000 ∧
      (us - us / 1000000 * 1000000) * 4294967296 / 1000000 < 4294967296 := by omega
  have hc : ¬ ((us - us / 1000000 * 1000000) * 4294967296 / 1000000 < 0 ∨
      (us - us / 1000000 * 1000000) * 4294967296 / 1000000 ≥ 4294967296 ∨
      Int.emod (us / 1000000) 4294967296 < 0 ∨ Int.emod (us / 1000000) 4294967296 ≥ 4294967296) := by omega
  simp only [hc, if_false]
  refine ⟨_, _, rfl, ?_, ?_, ?_⟩
  · omega
  · omega
  · have : ((Int.emod (us / 1000000) 4294967296).toNat : Int) = Int.emod (us / 1000000) 4294967296 :=
      Int.toNat_of_nonneg hs.1
    rw [this]; rfl

/-- the hypothesis holds for every accepted `drift` (|drift| ≤ 100 years of 366 days) once
the wall clock has passed 2000-03-16 (1900 + `MAX_TIME_SPAN`) -/
theorem ntp_clock_not_before_1900 (nowUs drift : Int) (hnow : ntpY2K * 1000000 ≤ nowUs)
    (hd : drift.natAbs ≤ maxTimeSpan.natAbs) : 0 ≤ nowUs - drift * 1000000 := by
  unfold ntpY2K at hnow
  unfold maxTimeSpan at hd
  omega

/-- non-vacuity: 2036-02-07T06:28:16Z, the first second of NTP era 1, is answered with
seconds = 0 … -/
example : ntpFields (4294967296 * 1000000 + 250000) = .ok (0, 1073741824) := by decide
/-- … and the excluded region: half a second before 1900 the fraction is negative and
`struct.pack` raises (an escaping `struct.error` is a 500) -/
example : ntpFields (-500000) = .error .structError := by decide

/-! ## 2. error injection -/

/-- **inject_only_addressed.** A synthetic response is only ever produced for a request
that is at a position the request's own options address (for its own media type). -/
theorem inject_only_addressed (r : Req) (st : Store) (code : Int) (h : (step r st).1 = some code) :
    ∃ pos, (code, pos) ∈ r.spec.errsFor r.usage ∧ hits r pos = true := by
  rw [step_eq] at h
  exact checkLoop_some _ _ _ _ _ _ h

/-- **inject_isolated (positions).** A request that is at none of the addressed positions
– in particular one without the option – gets no synthetic response and leaves every
counter as it was. -/
theorem inject_isolated_position (r : Req) (st : Store)
    (h : ∀ e ∈ r.spec.errsFor r.usage, hits r e.2 = false) : step r st = (none, st) := by
  rw [step_eq]
  exact checkLoop_no_hit _ _ _ _ _ h

/-- **inject_isolated (media types).** A request never changes a counter of another media
type (`aerr` does not disturb video requests and vice versa). -/
theorem inject_isolated_usage (r : Req) (st : Store) (u : Usage) (c : Int) (h : u ≠ r.usage) :
    (step r st).2 u c = st u c := by
  rw [step_eq]
  exact checkLoop_other_usage _ _ h _ _ _ _ _

/-- **inject_isolated (codes).** …nor the counter of a code none of its hit entries has
with `code ≥ 500` and `failures` given. -/
theorem inject_isolated_code (r : Req) (st : Store) (c : Int)
    (h : ∀ e ∈ r.spec.errsFor r.usage, e.1 = c → hits r e.2 = true → (c < 500 ∨ r.spec.failures = none)) :
    (step r st).2 r.usage c = st r.usage c := by
  rw [step_eq]
  exact checkLoop_other_code _ _ _ _ _ _ h

/-- a media request addressed by `$Time$` (no segment number) is never answered with a
synthetic error – the check compares positions with `seg_num`, which is `None`
(ledger entry `inject-time-addressed-media`) -/
theorem inject_time_addressed_never (r : Req) (st : Store) (hu : r.usage ≠ .manifest)
    (hs : r.seg = none) : step r st = (none, st) := by
  apply inject_isolated_position
  intro e _
  unfold hits
  cases hu' : r.usage with
  | manifest => exact absurd hu' hu
  | _ => cases e.2 <;> simp [mediaHit, hs]

/-- a code below 500, or no `failures` option: every request at the position is answered
with the code, and no counter is touched -/
theorem inject_always (u : Usage) (hit : Pos → Bool) (c : Int) (pos : Pos) (f : Option Int)
    (h : c < 500 ∨ f = none) (hh : hit pos = true) (rest : List (Int × Pos)) (st : Store) :
    checkLoop u hit f ((c, pos) :: rest) st = (some c, st) := by
  unfold checkLoop
  simp only [hh, Bool.not_true, Bool.false_eq_true, if_false]
  cases f with
  | none => rfl
  | some n =>
    simp only
    have : ¬ c ≥ 500 := by
      rcases h with h | h
      · omega
      · cases h
    simp only [this, if_false]

/-- **inject_exact.** One addressed position `code=pos` with `code ≥ 500` and
`failures = N`, one client session starting with a fresh cookie, *any* sequence of
requests in which every other request leaves the counter `(media type, code)` alone:
the request with index `i`, if it is for the addressed position, is answered with the
synthetic code iff `k mod (N+1) < N`, where `k` is the number of earlier requests for
that position; otherwise it gets no synthetic answer.  So exactly `N` failures precede
each success, and the pattern repeats for as long as the client keeps asking (it is not
"`N` failures in total"). -/
theorem inject_exact (u : Usage) (c : Int) (pos : Pos) (N : Nat) (hc : c ≥ 500) (rs : List Req)
    (hF : ∀ r ∈ rs, isTarget u c pos N r = false → Foreign u c r)
    (i : Nat) (r : Req) (hi : rs[i]? = some r) (ht : isTarget u c pos N r = true) :
    (run rs Store.empty)[i]? = some
      (bif (hits r pos && fails N (countHits u c pos N (rs.take i))) then some c else none) := by
  have := run_target u c pos N hc rs Store.empty 0 (by simp [Store.empty]) hF i r hi ht
  simpa using this

/-- non-vacuity and the shape of the pattern: `verr=503=7&failures=2`, eight requests for
segment 7 with two for other segments and an audio request in between -/
example :
    let q : Spec := { verr := [(503, .num 7)], failures := some 2 }
    let v (n : Int) : Req := { usage := .video, spec := q, seg := some n }
    let a (n : Int) : Req := { usage := .audio, spec := q, seg := some n }
    run [v 7, v 7, v 6, v 7, a 7, v 7, v 7, v 8, v 7, v 7, v 7] Store.empty =
      [some 503, some 503, none, none, none, some 503, some 503, none, none, some 503, some 503] := by
  decide

/-- the two kinds of request `inject_exact` allows in between are foreign: other media
types, and requests (of any spec) that are not at a position they address with this code -/
theorem foreign_other_usage (u : Usage) (c : Int) (r : Req) (h : r.usage ≠ u) : Foreign u c r :=
  fun st => inject_isolated_usage r st u c (Ne.symm h)

theorem foreign_not_hit (c : Int) (r : Req)
    (h : ∀ e ∈ r.spec.errsFor r.usage, e.1 = c → hits r e.2 = false) : Foreign r.usage c r := by
  intro st
  apply inject_isolated_code
  intro e he hc hh
  rw [h e he hc] at hh
  cases hh

/-- a negative `failures` never lets the error fire -/
theorem inject_negative_failures (u : Usage) (hit : Pos → Bool) (c : Int) (pos : Pos) (n : Int)
    (hn : n < 0) (hc : c ≥ 500) (st : Store) :
    (checkLoop u hit (some n) [(c, pos)] st).1 = none := by
  unfold checkLoop
  by_cases hh : hit pos = true
  · have : ((incr st u c).1 : Int) > n := by simp only [incr]; omega
    simp [hh, hc, this, checkLoop]
  · have hh' : hit pos = false := by simpa using hh
    simp [hh', checkLoop]

/-- **inject_time_segment.** A position given as a time `T` (seconds after
`availabilityStartTime`, `T ≥ 0`) is translated for the media URLs to the number
`⌊T·timescale / segment_duration⌋`: the zero-based index of the segment that contains `T`.
The segment *numbered* so is `start_number` places earlier (ledger entry
`inject-time-omits-start-number`). -/
theorem inject_time_segment (ts sd : Nat) (hsd : 0 < sd) (T : Nat) :
    0 ≤ dropSeg ts sd T ∧
    (sd : Int) * dropSeg ts sd T ≤ ts * T ∧ (ts * T : Int) < sd * (dropSeg ts sd T + 1) := by
  unfold dropSeg
  have h0 : (0 : Int) ≤ (ts : Int) * (T : Int) := by positivity
  rw [Int.tdiv_eq_ediv_of_nonneg h0]
  have hsd' : (0 : Int) < sd := by exact_mod_cast hsd
  refine ⟨Int.ediv_nonneg h0 (by omega), ?_, ?_⟩
  · exact Int.mul_ediv_self_le (by omega)
  · exact Int.lt_mul_ediv_self_add hsd'

/-- 4 s segments at timescale 1000, start number 1: the time 10 s lies in the segment
numbered 3 (`[8 s, 12 s)`), the translated position is 2 -/
example : dropSeg 1000 4000 10 = 2 := by decide

/-! ## 3. loops whose trip count depends on request data -/

/-- **loops_terminate (get_segment_index).** With a positive reference duration `R` the
search loop of `Representation.get_segment_index` ends within `n + 2` iterations for
every target time (one pass over the stored segments, one wrap). -/
theorem loops_terminate_segment_index (durs : List Nat) (R tc : Nat) (hR : 0 < R) :
    ∃ m s o, getSegmentIndex durs R tc (durs.length + 2) = .found m s o := by
  unfold getSegmentIndex
  have hR' : ¬ R = 0 := by omega
  simp only [hR', if_false]
  have hlt : tc < tc / R * R + R := by
    have := Nat.lt_div_mul_add (a := tc) hR
    omega
  have := gsiLoop_some durs R tc durs.length 0 (tc / R * R) (tc / R * R) (durs.length + 2) hlt
    (by omega) (by omega)
  cases h : gsiLoop durs R tc (durs.length + 2) 0 (tc / R * R) (tc / R * R) with
  | none => rw [h] at this; cases this
  | some r => exact ⟨_, _, _, rfl⟩

/-- the excluded value: with `R = 0` the code stops at `assert ref_duration_tc > 0` … -/
example : getSegmentIndex [10, 10] 0 100 1000 = .assertionError := by decide
/-- … and without the assertion the loop would never leave (here: 100 iterations) -/
example : gsiLoop [10, 10] 0 100 100 0 0 0 = none := by decide +kernel
theorem gsi_zero_never_terminates (fuel : Nat) : gsiLoop [10, 10] 0 100 fuel 0 0 0 = none := by
  have := gsiLoop_zero_runs [10, 10] 100 (by decide) (by
    intro m
    have h1 : (List.take m [10, 10]).sum ≤ 20 := by
      match m with
      | 0 => decide
      | 1 => decide
      | (k + 2) => simp
    have h2 : durAt [10, 10] m ≤ 10 := by
      match m with
      | 0 => decide
      | 1 => decide
      | (k + 2) => simp [durAt]
    omega) fuel 0 (by decide)
  simpa using this

/-- **loops_terminate (event scheduling).** `create_emsg_boxes` never runs out of its
fuel `(seg_end − start)/interval + 2`: an interval below 1 is refused before the loop
(a993bc6, and already by the option parser), more than 10000 events per segment as well
(8c4223f). -/
theorem loops_terminate_events (s : DashLive.Events.Sched) (repTs : Int) (g : DashLive.Events.Seg) :
    DashLive.Events.createEmsg s repTs g ≠ .outOfFuel := by
  rcases DashLive.Events.createEmsg_cases s repTs g with h | h | h | h
  · rw [h.2]; exact fun h => by cases h
  · rw [h.2.2]; exact fun h => by cases h
  · rw [h.2.2.2]; exact fun h => by cases h
  · rw [h.2.2.2]; exact fun h => by cases h

/-- the excluded value: the loop itself with `interval = 0` and an unbounded schedule
does not end (here: 100 iterations) -/
example : DashLive.Events.emsgLoop ⟨0, 0, 0, 200, 100, 0, true⟩ 0 400 100 0 0 = none := by decide +kernel

/-- **loops_terminate (live periods).** `create_all_live_periods` leaves its `while`
loop within `liveFuel` iterations when the total duration of the periods is positive. -/
theorem loops_terminate_periods (ps : List DashLive.Periods.PeriodDef) (E F nl : Nat)
    (hD : 0 < DashLive.Periods.totalDuration ps) :
    ∃ l, DashLive.Periods.livePeriodsFrom ps E F nl = some l :=
  DashLive.Periods.livePeriodsFrom_terminates ps E F nl hD

/-- the excluded value: periods of zero total duration – the loop makes no progress
(here: 100 iterations).  Since a1efbe1 such a stream is refused with 404 before. -/
example : DashLive.Periods.liveLoop [⟨['p'], 0⟩] 100 0 100 0 0 0 = none := by decide +kernel

/-! ### count-driven loops of the MP4 parser -/

/-- a loop never starts more iterations than its count, and – when every iteration reads at
least `k > 0` bytes through a read that raises at the end of the input – no more than
`rem / k + 1` -/
theorem countLoop_le (k : Nat) : ∀ (count rem : Nat),
    countLoop k count rem ≤ count ∧ (0 < k → countLoop k count rem ≤ rem / k + 1) := by
  intro count
  induction count with
  | zero => intro rem; simp [countLoop]
  | succ n ih =>
    intro rem
    unfold countLoop
    by_cases h : rem < k
    · simp only [h, if_true]
      exact ⟨by omega, fun _ => Nat.le_add_left 1 _⟩
    · simp only [h, if_false]
      obtain ⟨h1, h2⟩ := ih (rem - k)
      refine ⟨by omega, fun hk => ?_⟩
      have h3 := h2 hk
      have h4 : (rem - k) / k + 1 = rem / k := by
        have : rem = (rem - k) + k := by omega
        conv => rhs; rw [this]
        rw [Nat.add_div_right _ hk]
      omega

/-- **loops_terminate (parser, per loop).** For a loop described by a `ParserLoop` row, any
value of its count field and any input length: the number of iterations is at most the bound
the row supports – the constant cap, the width of the count field, or `len / minBytes + 1`. -/
theorem parser_loop_iterations (l : ParserLoop) (count len b : Nat) (hc : count ≤ l.countMax)
    (hb : l.bound len = some b) : l.run count len ≤ b := by
  unfold ParserLoop.bound at hb
  unfold ParserLoop.run
  cases hcap : l.cap with
  | some c =>
    simp only [hcap, Option.some.injEq] at hb
    simp only
    by_cases hgt : count > c
    · simp [hgt]
    · simp only [hgt, if_false]
      have := (countLoop_le l.minBytes count len).1
      omega
  | none =>
    simp only [hcap] at hb
    simp only
    by_cases h16 : l.countMax ≤ 65535
    · simp only [h16, if_true, Option.some.injEq] at hb
      have := (countLoop_le l.minBytes count len).1
      omega
    · simp only [h16, if_false] at hb
      by_cases hk : l.minBytes > 0
      · simp only [hk, if_true, Option.some.injEq] at hb
        have := (countLoop_le l.minBytes count len).2 hk
        omega
      · simp [hk] at hb

/-- **loops_terminate (parser, the source).** Every `for … in range(count)` loop of the `parse`
functions of `dashlive/mpeg/mp4.py` (table regenerated from the source on every run) has such a
bound: none is limited only by a 32-bit count field.  (Removing the cap of the `trun` or `senc`
loop, whose samples can take no space in the box, breaks this obligation.) -/
theorem parser_loops_bounded :
    (DashLive.Gen.ParserLoops.table.all fun l => (l.bound 0).isSome) = true := by
  decide

/-- the two loops whose body may read nothing are capped by `MAX_SAMPLE_COUNT`, which exists -/
theorem parser_zero_size_loops_capped :
    DashLive.Gen.ParserLoops.maxSampleCount.isSome = true ∧
    ((DashLive.Gen.ParserLoops.table.filter fun l => l.minBytes == 0 && decide (l.countMax > 65535)).all
      fun l => l.cap.isSome && l.cap == DashLive.Gen.ParserLoops.maxSampleCount) = true := by
  decide

/-- `FieldReader.get(<n bytes>)` raises on a short read – what makes byte-sized reads count -/
theorem parser_short_read_raises : DashLive.Gen.ParserLoops.shortReadRaises = true := by decide

/-- the excluded shape: a loop over a 32-bit count whose body reads nothing and that has no cap
runs as often as the count says (here 50 of 50 on an empty input) … -/
example : (⟨"X", "parse", 0, "n", none, 4294967295, 0⟩ : ParserLoop).bound 0 = none ∧
    (⟨"X", "parse", 0, "n", none, 4294967295, 0⟩ : ParserLoop).run 50 0 = 50 := by decide
/-- … whereas the capped one refuses it and a reading one stops at the end of the input -/
example : (⟨"X", "parse", 0, "n", some 100, 4294967295, 0⟩ : ParserLoop).run 1000 0 = 0 ∧
    (⟨"X", "parse", 0, "n", none, 4294967295, 4⟩ : ParserLoop).run 50 10 = 3 := by decide

end DashLive.C16
