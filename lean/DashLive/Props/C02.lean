import DashLive.Lemmas.Timeline
/-!
# C02 – served segments carry exactly the advertised time, number and duration

Property theorems only.  Model: `Model/Segments.lean`; helper lemmas:
`Lemmas/Segments.lean`, `Lemmas/Timeline.lean`.

Hypotheses that appear below (all explicit and decidable):
* `H1 : ∀ m < n, prefixSum durs m < R` – every stored segment *starts* inside one
  loop of the stream's timing reference (equivalently `P_n < R`);
* `H2 : ∀ m < n, 1 ≤ durAt durs m` – no empty segment;
* `0 < R`, `0 < n`.
-/
namespace DashLive.Segments

/-- `H1`: every stored segment starts inside one loop of the timing reference -/
def StartsInsideLoop (durs : List Nat) (R : Nat) : Prop :=
  ∀ m, m < durs.length → prefixSum durs m < R

/-- `H2`: every stored segment has a positive duration -/
def PositiveDurs (durs : List Nat) : Prop := ∀ m, m < durs.length → 1 ≤ durAt durs m

theorem same_loop {n g g' : Nat} (hn : 0 < n) (h1 : g / n * n ≤ g') (h2 : g' < g) :
    g' / n = g / n ∧ g' % n < g % n := by
  have hg := Nat.div_add_mod g n
  have hm := Nat.mod_lt g hn
  have hc : g / n * n = n * (g / n) := Nat.mul_comm _ _
  have := (Nat.div_mod_unique (a := g') (b := n) (c := g' - g / n * n) (d := g / n) hn).mpr
    ⟨by omega, by omega⟩
  refine ⟨this.1, ?_⟩
  rw [this.2]; omega

theorem startG_div (durs : List Nat) (R g : Nat) (hn : 0 < durs.length)
    (h1 : StartsInsideLoop durs R) :
    startG durs R g / R = g / durs.length ∧ startG durs R g % R = prefixSum durs (g % durs.length) := by
  have hp := h1 (g % durs.length) (Nat.mod_lt g hn)
  have hR : 0 < R := by omega
  have := (Nat.div_mod_unique (a := startG durs R g) (b := R)
    (c := prefixSum durs (g % durs.length)) (d := g / durs.length) hR).mpr
    ⟨by unfold startG; rw [Nat.mul_comm]; omega, hp⟩
  exact this

/-- **`$Time$` resolves to the advertised segment.**  For *every* position `g` of the
endless presentation (any number of loops), requesting `$Time$ = startG g` – the time
the timeline advertises for it, see `timeline_is_slice` – makes `get_segment_index`
select exactly stored segment `g % n`, with loop origin `(g / n)·R` and segment start
`startG g`. -/
theorem C02_time_resolves (durs : List Nat) (R g : Nat) (hn : 0 < durs.length)
    (h1 : StartsInsideLoop durs R) (h2 : PositiveDurs durs) :
    getSegmentIndex durs R (startG durs R g)
      = (g % durs.length + 1, startG durs R g, g / durs.length * R) := by
  have hp := h1 (g % durs.length) (Nat.mod_lt g hn)
  have hR : 0 < R := by omega
  obtain ⟨hdiv, _⟩ := startG_div durs R g hn h1
  have hidx : index durs R (startG durs R g) = g := by
    apply index_unique durs R _ g hR hn
    · rw [hdiv]; exact Nat.div_mul_le_self g durs.length
    · unfold before; omega
    · intro g' hg1 hg2
      rw [hdiv] at hg1
      obtain ⟨e1, e2⟩ := same_loop hn hg1 hg2
      have hm := Nat.mod_lt g hn
      have hd := h2 (g' % durs.length) (by omega)
      have hmono := prefixSum_mono durs (j := g' % durs.length + 1) (k := g % durs.length) (by omega)
      rw [prefixSum_succ (by omega)] at hmono
      unfold before startG durG
      rw [e1]
      omega
  rw [getSegmentIndex_eq durs R _ hn, hidx]

/-- **decode time of the served segment** (media_requests.py:186-208).  When the file
carries `tfdt` boxes whose values are `st + P_m` (what indexing records) the served
`baseMediaDecodeTime` for `$Time$ = startG g` is `st + startG g`; when the file has no
`tfdt` the synthesised one gives exactly `startG g`. -/
theorem C02_time_tfdt (durs : List Nat) (R g st : Nat) (hn : 0 < durs.length)
    (h1 : StartsInsideLoop durs R) (h2 : PositiveDurs durs) :
    let r := getSegmentIndex durs R (startG durs R g)
    servedTfdt durs (some fun k => st + prefixSum durs k) r.1 r.2.2 = st + startG durs R g ∧
    servedTfdt durs none r.1 r.2.2 = startG durs R g := by
  simp only [C02_time_resolves durs R g hn h1 h2, servedTfdt, Nat.add_sub_cancel]
  unfold startG
  omega

/-- for files whose first decode time is 0 (all upstream fixtures) the served decode time
*is* the requested `$Time$` -/
theorem C02_time_tfdt_exact (durs : List Nat) (R g : Nat) (hn : 0 < durs.length)
    (h1 : StartsInsideLoop durs R) (h2 : PositiveDurs durs) :
    let r := getSegmentIndex durs R (startG durs R g)
    servedTfdt durs (some fun k => 0 + prefixSum durs k) r.1 r.2.2 = startG durs R g := by
  have := (C02_time_tfdt durs R g 0 hn h1 h2).1
  simpa using this

/-- **advertised duration vs stored duration**: the `S@d` the timeline advertises for
position `g` equals the stored segment's total sample duration except on the last
segment of a loop, where it differs by exactly `drift = R − Σ durs` (finding D10). -/
theorem C02_duration_partial (durs : List Nat) (R g : Nat) :
    (g % durs.length + 1 ≠ durs.length ∨ R = durs.sum) → durG' durs R g = durG durs g := by
  intro h
  unfold durG'
  rcases h with h | h
  · simp [h]
  · simp [h]

/-- … and exactly by the drift otherwise -/
theorem C02_duration_last (durs : List Nat) (R g : Nat) (h : g % durs.length + 1 = durs.length) :
    durG' durs R g = durG durs g + ((R : Int) - durs.sum) := by
  unfold durG'; simp [h]

/-! ### the timeline is a gapless slice of the global sequence -/

theorem accumulate_gapless (t : Int) (ds : List Int) :
    ∀ i, (h : i + 1 < (accumulate t ds).length) →
      ((accumulate t ds)[i]'(by omega)).1 + ((accumulate t ds)[i]'(by omega)).2
        = ((accumulate t ds)[i + 1]'h).1 := by
  induction ds generalizing t with
  | nil => intro i h; simp [accumulate] at h
  | cons d ds ih =>
    intro i h
    cases i with
    | zero =>
      cases ds with
      | nil => simp [accumulate] at h
      | cons d2 ds2 => simp [accumulate]
    | succ j =>
      simp only [accumulate, List.getElem_cons_succ]
      exact ih (t + d) j (by simpa [accumulate] using h)

theorem sliceG_length (durs : List Nat) (R g k : Nat) : (sliceG durs R g k).length = k := by
  induction k generalizing g with
  | zero => rfl
  | succ k ih => simp [sliceG, ih]

theorem sliceG_get (durs : List Nat) (R : Nat) :
    ∀ k g i (h : i < (sliceG durs R g k).length),
      (sliceG durs R g k)[i] = ((startG durs R (g + i) : Int), durG' durs R (g + i)) := by
  intro k
  induction k with
  | zero => intro g i h; simp [sliceG] at h
  | succ k ih =>
    intro g i h
    cases i with
    | zero => simp [sliceG]
    | succ j =>
      simp only [sliceG, List.getElem_cons_succ]
      rw [ih (g + 1) j (by simpa [sliceG] using h)]
      have : g + 1 + j = g + (j + 1) := by omega
      rw [this]

/-- advertised durations are all positive -/
def AdvPositive (durs : List Nat) (R : Nat) : Prop :=
  ∀ m, m < durs.length → 0 < advDur durs ((R : Int) - (durs.sum : Int)) m

/-- **the live timeline is a slice of the global sequence**: whatever the clock
(`tcF` = timecode of `firstAvailableTime`), buffer depth and fuel, the DASH
expansion of the `<S>` list `generateSegmentTimeline` produces is
`[(startG g, durG' g) | g₀ ≤ g < g₀ + k]` with `g₀ = index tcF`. -/
theorem timeline_is_slice (durs : List Nat) (R ts tcF tsbd fuel : Nat) (hn : 0 < durs.length)
    (hpos : AdvPositive durs R) :
    ∃ k, expand (timelineLive durs R ts tcF tsbd fuel) = sliceG durs R (index durs R tcF) k := by
  unfold timelineLive
  rw [getSegmentIndex_eq durs R tcF hn]
  simp only [Nat.add_sub_cancel]
  rw [tlLoop_expand durs _ _ _ hpos _ _ (Nat.mod_lt _ hn), rawLoop_slice durs R _ hn]
  exact ⟨_, rfl⟩

/-- same for the VOD timeline: it starts at position 0 (reference = the track itself) -/
theorem timeline_vod_is_slice (durs : List Nat) (fuel : Nat) (hn : 0 < durs.length)
    (hpos : ∀ m, m < durs.length → 0 < advDur durs 0 m) :
    ∃ k, expand (timelineVod durs fuel) = sliceG durs durs.sum 0 k := by
  unfold timelineVod
  have hz : ((durs.sum : Int) - (durs.sum : Int)) = 0 := by omega
  rw [tlLoop_expand durs 0 0 _ hpos _ _ hn]
  have := rawLoop_slice durs durs.sum (durs.sum : Int) hn fuel 0 0
  rw [hz] at this
  simp only [Nat.zero_mod] at this
  have hst : (startG durs durs.sum 0 : Int) = 0 := by unfold startG; simp [prefixSum_zero]
  rw [hst] at this
  exact ⟨_, this⟩

/-- **gapless across any number of loops**: consecutive entries of the expanded live
timeline satisfy `t + d = next t`, and entry `i` is position `g₀ + i` of the global
sequence – so the `t` values are exactly the `$Time$` values `C02_time_resolves` is
about. -/
theorem C02_gapless (durs : List Nat) (R ts tcF tsbd fuel : Nat) (hn : 0 < durs.length)
    (hpos : AdvPositive durs R) :
    let l := expand (timelineLive durs R ts tcF tsbd fuel)
    (∀ i (h : i + 1 < l.length), (l[i]'(by omega)).1 + (l[i]'(by omega)).2 = (l[i + 1]'h).1) ∧
    (∀ i (h : i < l.length),
      l[i] = ((startG durs R (index durs R tcF + i) : Int), durG' durs R (index durs R tcF + i))) := by
  obtain ⟨k, hk⟩ := timeline_is_slice durs R ts tcF tsbd fuel hn hpos
  simp only
  constructor
  · intro i h
    have h' : i + 1 < (sliceG durs R (index durs R tcF) k).length := by rw [← hk]; exact h
    have e0 : (expand (timelineLive durs R ts tcF tsbd fuel))[i]'(by omega)
        = (sliceG durs R (index durs R tcF) k)[i]'(by omega) := by simp only [hk]
    have e1 : (expand (timelineLive durs R ts tcF tsbd fuel))[i + 1]'h
        = (sliceG durs R (index durs R tcF) k)[i + 1]'h' := by simp only [hk]
    rw [e0, e1, sliceG_get, sliceG_get]
    simp only
    have := startG_succ durs R (index durs R tcF + i) hn
    rw [Nat.add_assoc] at this
    omega
  · intro i h
    have e0 : (expand (timelineLive durs R ts tcF tsbd fuel))[i]'h
        = (sliceG durs R (index durs R tcF) k)[i]'(by rw [← hk]; exact h) := by simp only [hk]
    rw [e0, sliceG_get]

/-! ### `$Number$` addressing -/

/-- **`$Number$ = N`**: the handler's arithmetic maps `N` to timecode `(N − sn)·sd`
and the sequence number written into the segment is `N` itself
(media_requests.py:212 uses the value returned here). -/
theorem C02_number_seqnum (conv : Nat → Int) (durs : List Nat) (ts sd sn R : Nat) (w : Win)
    (N : Int) (m o : Nat) (k : Int)
    (h : liveIndex conv durs ts sd sn R w (.number N) = .ok m o k) :
    k = N ∧ 0 ≤ (N - sn) * sd ∧
      (m, o) = ((getSegmentIndex durs R ((N - sn) * sd).toNat).1,
                (getSegmentIndex durs R ((N - sn) * sd).toNat).2.2) := by
  unfold liveIndex at h
  simp only at h
  split at h
  · cases h
  · split at h
    · cases h
    · split at h
      · cases h
      · split at h
        · cases h
        · rename_i h0 _ _ _
          injection h with h1 h2 h3
          exact ⟨h3.symm, by omega, by rw [h1, h2]⟩

/-- … and the 32-bit `mfhd.sequence_number` field carries exactly that number whenever it can
(`0 ≤ N < 2³²`; beyond that – a live stream whose start lies before about the year 1480 – the
field holds `N mod 2³²`) -/
theorem C02_seqnum_field (N : Int) :
    (0 ≤ N → N < 4294967296 → servedSeq N = N) ∧ 0 ≤ servedSeq N ∧ servedSeq N < 4294967296 ∧
      (N - servedSeq N) % 4294967296 = 0 := by
  unfold servedSeq
  refine ⟨fun h0 h1 => Int.emod_eq_of_lt h0 h1, by omega, by omega, by omega⟩

/-- **decode time for `$Number$`**: the selected position's start is within half a
segment of the requested timecode: `tc ≤ start + ⌊d/2⌋`; and unless the walk
wrapped into the next loop (only possible when `tc` lies in the last
half-segment-plus-drift of a loop) `start < tc + ⌈d_prev/2⌉`. -/
theorem C02_number_bounds (durs : List Nat) (R tc : Nat) (hR : 0 < R) (hn : 0 < durs.length) :
    let g := index durs R tc
    tc ≤ startG durs R g + durG durs g / 2 ∧
    (g % durs.length ≠ 0 →
      startG durs R g + durG durs (g - 1) / 2 < tc + durG durs (g - 1)) ∧
    (g % durs.length = 0 →
      startG durs R g = tc / R * R ∨
      (startG durs R g = (tc / R + 1) * R ∧
        startG durs R (g - 1) + durG durs (g - 1) / 2 < tc)) := by
  obtain ⟨a, b, c, d⟩ := index_spec durs R tc hR hn
  simp only
  refine ⟨by unfold before at c; omega, ?_, ?_⟩
  · intro hm
    have hg0 : tc / R * durs.length < index durs R tc := by
      by_cases he : tc / R * durs.length = index durs R tc
      · rw [← he, Nat.mul_mod_left] at hm; exact absurd rfl hm
      · omega
    have hb := d (index durs R tc - 1) (by omega) (by omega)
    have hmod := Nat.mod_lt (index durs R tc) hn
    have hprev : (index durs R tc - 1) % durs.length + 1 < durs.length := by
      have h1 := Nat.div_add_mod (index durs R tc) durs.length
      have := (Nat.div_mod_unique (a := index durs R tc - 1) (b := durs.length)
        (c := index durs R tc % durs.length - 1) (d := index durs R tc / durs.length) hn).mpr
        ⟨by omega, by omega⟩
      rw [this.2]; omega
    have hs := startG_succ_of_lt R (index durs R tc - 1) hprev
    have : index durs R tc - 1 + 1 = index durs R tc := by omega
    rw [this] at hs
    unfold before at hb
    omega
  · intro hm
    by_cases he : tc / R * durs.length = index durs R tc
    · left
      rw [← he]; unfold startG
      rw [Nat.mul_mod_left, Nat.mul_div_cancel _ hn, prefixSum_zero]; omega
    · right
      have hlt : tc / R * durs.length < index durs R tc := by omega
      -- a multiple of n strictly above (tc/R)·n and at most (tc/R+1)·n is (tc/R+1)·n
      have hq := Nat.div_add_mod (index durs R tc) durs.length
      rw [hm] at hq
      have hq' : index durs R tc = index durs R tc / durs.length * durs.length := by
        rw [Nat.mul_comm]; omega
      have hL : index durs R tc / durs.length = tc / R + 1 := by
        have h1 : tc / R < index durs R tc / durs.length := by
          apply Nat.lt_of_mul_lt_mul_right (a := durs.length)
          rw [← hq']; exact hlt
        have h2 : index durs R tc / durs.length ≤ tc / R + 1 := by
          apply Nat.le_of_mul_le_mul_right (c := durs.length) _ hn
          rw [← hq']; exact b
        omega
      constructor
      · unfold startG; rw [hm, hL, prefixSum_zero]; omega
      · have hb := d (index durs R tc - 1) (by omega) (by omega)
        unfold before at hb; exact hb

/-! ### alignment of tracks after arbitrarily many loops -/

/-- **source position = presentation time modulo the reference duration.**  For every
position `g` (any loop count), the decode position delivered from the stored file,
`P_{g % n}`, equals the presentation time `startG g` modulo the track's reference
duration `R`, and the loop count is `startG g / R`. -/
theorem C02_alignment (durs : List Nat) (R g : Nat) (hn : 0 < durs.length)
    (h1 : StartsInsideLoop durs R) :
    startG durs R g % R = prefixSum durs (g % durs.length) ∧
    startG durs R g / R = g / durs.length :=
  ⟨(startG_div durs R g hn h1).2, (startG_div durs R g hn h1).1⟩

/-- **cross-track alignment bound.**  `R = ⌊refDur·ts/refTs⌋` loses less than one tick
of the track per loop: after `L` loops, `L` reference durations (in units of
`1/(ts·refTs)` s) lie within `L` ticks of `L·R`.  So two tracks of one stream stay
aligned to within one tick of each track *per loop* – the bound grows with the
loop count and is the honest strength of the alignment claim. -/
theorem C02_alignment_drift (refDur refTs ts L : Nat) (hTs : 0 < refTs) :
    let R := refDuration refDur refTs ts
    L * R * refTs ≤ L * (refDur * ts) ∧ L * (refDur * ts) < L * R * refTs + L * refTs + 1 := by
  simp only [refDuration]
  have h1 := Nat.div_add_mod (refDur * ts) refTs
  have h2 := Nat.mod_lt (refDur * ts) hTs
  have e : L * (refDur * ts / refTs) * refTs = L * (refTs * (refDur * ts / refTs)) := by
    rw [Nat.mul_assoc, Nat.mul_comm (refDur * ts / refTs) refTs]
  rw [e]
  have h3 : L * (refDur * ts) = L * (refTs * (refDur * ts / refTs)) + L * (refDur * ts % refTs) := by
    rw [← Nat.mul_add, h1]
  have h4 : L * (refDur * ts % refTs) ≤ L * refTs := Nat.mul_le_mul_left L (by omega)
  omega

/-! ### non-vacuity and negative witnesses -/

/-- bbb-like video track: 240 Hz, 4-second segments, reference = itself -/
example : StartsInsideLoop [960, 960, 960, 960] 3840 ∧ PositiveDurs [960, 960, 960, 960] := by
  unfold StartsInsideLoop PositiveDurs; decide

example : AdvPositive [100, 90, 110, 95] 400 := by unfold AdvPositive; decide

/-- an irregular audio track whose reference is a longer video track (positive drift) -/
example : getSegmentIndex [100, 90, 110, 95] 400 (startG [100, 90, 110, 95] 400 7)
    = (4, 700, 400) := by decide

/-- D10 (i): last segment of a loop is advertised with `d + drift`, served with `d` -/
example : durG' [100, 90, 110, 95] 400 3 = 100 ∧ durG [100, 90, 110, 95] 3 = 95 := by decide

/-- D10 (ii): a file whose first decode time is not 0 is served with `tfdt = st + t ≠ t` -/
example : servedTfdt [100, 90, 110, 95] (some fun k => 1000 + prefixSum [100, 90, 110, 95] k) 2 400
    = 1000 + 500 := by decide

/-- ¬H1 (a segment *starts* beyond the reference duration): `$Time$` of that segment
resolves to a different one – here position 3 (stored segment 4, start 300) of a track
whose reference loop is only 250 ticks long is served from stored segment 1 of the next loop. -/
example : startG [100, 100, 100, 100] 250 3 = 300 ∧
    getSegmentIndex [100, 100, 100, 100] 250 300 = (1, 250, 250) := by decide

end DashLive.Segments
