import DashLive.Lemmas.Range
/-!
# C13 – byte-range requests return exactly the requested bytes

Property theorems only (helper lemmas and the specification vocabulary `slice`,
`crText`, `okResp`, `unsatResp`, `badResp` live in `Lemmas/Range.lean`).

Quantification: every `Range` header **string** (any `List Char`, present or
absent), every resource content `data : List α` of every length (including 0),
every value `lim` of `sys.get_int_max_str_digits()`, both consumers
(`segmentResponse` – generated media segments, `onDemandResponse` – stored
on-demand files).  The model follows the code *after* the `fix:` commit for D4;
the last section proves, for a model of the code before that commit, that the
property fails at the D4 witnesses.
-/
namespace DashLive.Range

variable {α : Type}

/-- close a goal from `h : <concrete response>.status = <other status>` -/
local macro "status_absurd" h:ident : tactic =>
  `(tactic| (simp [badResp, okResp, unsatResp, segmentResponse, segmentResponseWith,
      onDemandResponse, onDemandResponseWith, getHttpRangeWith] at $h:ident))

/-! ### every header: refused with 400, or served in agreement, never a 5xx -/

/-- the three things a response to a request **with** a `Range` header can be -/
inductive Outcome (data : List α) (r : Response α) : Prop
  /-- 400, no `Content-Range` -/
  | refused (h : r = badResp)
  /-- 206, body = bytes `s..e` of the resource, `Content-Range: bytes s-e/len`, `0 ≤ s ≤ e < len` -/
  | served (s e : Nat) (hse : s ≤ e) (hlen : e < data.length) (h : r = okResp data s e)
  /-- 416, empty body, `Content-Range: bytes */len` -/
  | unsatisfied (h : r = unsatResp data)

/-- **Every header string** is either refused with 400 or answered with a 206
whose body and `Content-Range` agree with a slice inside the resource, or with a
bodiless 416 `bytes */len` – for generated segments and for on-demand files. -/
theorem range_any_header (lim : Nat) (h : List Char) (data : List α) :
    Outcome data (segmentResponse lim (some h) data) ∧
    Outcome data (onDemandResponse lim (some h) data) := by
  cases hp : parseRange lim h with
  | none =>
    obtain ⟨h1, h2⟩ := segment_unparsed (lim := lim) data hp
    exact ⟨.refused h1, .refused h2⟩
  | some p =>
    obtain ⟨h1, h2⟩ := consumers_parsed (lim := lim) data hp
    obtain ⟨b0, b1, b2⟩ := startStop_bounds p data.length (parseRange_nonneg hp)
    by_cases hlt : (startStop p data.length).2 < (startStop p data.length).1
    · rw [if_pos hlt] at h1 h2
      exact ⟨.unsatisfied h1, .unsatisfied h2⟩
    · rw [if_neg hlt] at h1 h2
      exact ⟨.served _ _ (by omega) (by omega) h1, .served _ _ (by omega) (by omega) h2⟩

/-- **absent header**: a generated segment is returned whole with 200 and no
`Content-Range`; an on-demand file (where a range is mandatory) answers 400. -/
theorem range_absent (lim : Nat) (data : List α) :
    segmentResponse lim none data = { status := 200, body := data, contentRange := none } ∧
    onDemandResponse lim none data = badResp := ⟨rfl, rfl⟩

/-- **no Range value ever produces a 5xx** (nor any other unmapped status): the
status is one of 200, 206, 400, 416 for a segment and 206, 400, 416 for an
on-demand file, for every present or absent header. -/
theorem range_total (lim : Nat) (hdr : Option (List Char)) (data : List α) :
    ((segmentResponse lim hdr data).status = 200 ∨ (segmentResponse lim hdr data).status = 206 ∨
      (segmentResponse lim hdr data).status = 400 ∨ (segmentResponse lim hdr data).status = 416) ∧
    ((onDemandResponse lim hdr data).status = 206 ∨ (onDemandResponse lim hdr data).status = 400 ∨
      (onDemandResponse lim hdr data).status = 416) := by
  cases hdr with
  | none => exact ⟨Or.inl rfl, Or.inr (Or.inl rfl)⟩
  | some h =>
    obtain ⟨h1, h2⟩ := range_any_header lim h data
    constructor
    · cases h1 with
      | refused e => rw [e]; exact Or.inr (Or.inr (Or.inl rfl))
      | served s t _ _ e => rw [e]; exact Or.inr (Or.inl rfl)
      | unsatisfied e => rw [e]; exact Or.inr (Or.inr (Or.inr rfl))
    · cases h2 with
      | refused e => rw [e]; exact Or.inr (Or.inl rfl)
      | served s t _ _ e => rw [e]; exact Or.inl rfl
      | unsatisfied e => rw [e]; exact Or.inr (Or.inr rfl)

/-- what a 206 must look like -/
def Exact206 (data : List α) (r : Response α) : Prop :=
  ∃ s e : Nat, s ≤ e ∧ e < data.length ∧
    r.body = (data.drop s).take (e - s + 1) ∧          -- body = data[s..e]
    r.body.length = e - s + 1 ∧                          -- Content-Length = end − start + 1
    r.contentRange = some (crText s e data.length)       -- "bytes s-e/len"

theorem okResp_exact (data : List α) (s e : Nat) (hse : s ≤ e) (hlen : e < data.length) :
    Exact206 data (okResp data s e) :=
  ⟨s, e, hse, hlen, rfl, by simp only [okResp, slice]; exact length_drop_take data s _ (by omega), rfl⟩

/-- **206 ⇒ exact**: whenever either consumer answers 206 (whatever the header
was), `0 ≤ start ≤ end < length`, the body is `data[start..end]`, its length is
`end − start + 1` and `Content-Range` is `bytes start-end/length`. -/
theorem range_206_exact (lim : Nat) (hdr : Option (List Char)) (data : List α) :
    ((segmentResponse lim hdr data).status = 206 → Exact206 data (segmentResponse lim hdr data)) ∧
    ((onDemandResponse lim hdr data).status = 206 → Exact206 data (onDemandResponse lim hdr data)) := by
  cases hdr with
  | none => exact ⟨fun h => by status_absurd h, fun h => by status_absurd h⟩
  | some h =>
    obtain ⟨h1, h2⟩ := range_any_header lim h data
    constructor
    · cases h1 with
      | refused e => rw [e]; exact fun h => by status_absurd h
      | served s t hs ht e => rw [e]; exact fun _ => okResp_exact data s t hs ht
      | unsatisfied e => rw [e]; exact fun h => by status_absurd h
    · cases h2 with
      | refused e => rw [e]; exact fun h => by status_absurd h
      | served s t hs ht e => rw [e]; exact fun _ => okResp_exact data s t hs ht
      | unsatisfied e => rw [e]; exact fun h => by status_absurd h

/-- **416 ⇒ `bytes */length` and no body**, whatever the header was. -/
theorem range_416_exact (lim : Nat) (hdr : Option (List Char)) (data : List α) :
    ((segmentResponse lim hdr data).status = 416 → segmentResponse lim hdr data = unsatResp data) ∧
    ((onDemandResponse lim hdr data).status = 416 → onDemandResponse lim hdr data = unsatResp data) := by
  cases hdr with
  | none => exact ⟨fun h => by status_absurd h, fun h => by status_absurd h⟩
  | some h =>
    obtain ⟨h1, h2⟩ := range_any_header lim h data
    constructor
    · cases h1 with
      | refused e => rw [e]; exact fun h => by status_absurd h
      | served s t hs ht e => rw [e]; exact fun h => by status_absurd h
      | unsatisfied e => exact fun _ => e
    · cases h2 with
      | refused e => rw [e]; exact fun h => by status_absurd h
      | served s t hs ht e => rw [e]; exact fun h => by status_absurd h
      | unsatisfied e => exact fun _ => e

/-- a generated segment is answered 200 only when no `Range` header was sent -/
theorem range_200_iff_absent (lim : Nat) (hdr : Option (List Char)) (data : List α) :
    (segmentResponse lim hdr data).status = 200 ↔ hdr = none := by
  cases hdr with
  | none => exact ⟨fun _ => rfl, fun _ => rfl⟩
  | some h =>
    refine ⟨fun hs => ?_, fun hn => absurd hn (by simp)⟩
    cases (range_any_header lim h data).1 with
    | refused e => rw [e] at hs; status_absurd hs
    | served s t _ _ e => rw [e] at hs; status_absurd hs
    | unsatisfied e => rw [e] at hs; status_absurd hs

/-! ### RFC 7233 semantics of a syntactically valid single range -/

-- `Spec`, `Spec.Valid`, `Spec.satisfiable`, `Spec.bounds`, `decVal`, `Denotes`: Lemmas/Range.lean §6

/-- RFC 7233 §4.1/§4.4: the response to a valid single range -/
def rfcResponse (sp : Spec) (data : List α) : Response α :=
  if sp.satisfiable data.length then okResp data (sp.bounds data.length).1 (sp.bounds data.length).2
  else unsatResp data

/-- the canonical decimal text of a number is a digit string denoting it -/
theorem natRepr_isDigits (n : Nat) : IsDigits (natRepr n) ∧ decVal (natRepr n) = n :=
  ⟨⟨Nat.toDigits_ne_nil, fun _ hc => Nat.isDigit_of_mem_toDigits (by decide) (by decide) hc⟩,
   Nat.ofDigitChars_toDigits (by decide) (by decide)⟩

/-- `natRepr` is the text `toString` prints -/
theorem natRepr_eq_toString (n : Nat) : natRepr n = (toString n).toList := by
  simp only [natRepr, toString, Nat.toList_repr]

/-- **RFC 7233 for a syntactically valid single range.**  For the header
`<unit>=<d1>-<d2>` where `<unit>=` is `bytes=` in any letter case and `d1`, `d2`
are digit strings denoting the valid spec `sp`, both consumers answer exactly
what RFC 7233 prescribes (`rfcResponse`): satisfiable ⇒ 206 with `last` clamped
to `length−1` (a suffix longer than the resource gives the whole resource),
unsatisfiable ⇒ 416 `bytes */length` with an empty body.

Side condition (hence `_partial`): each number is written with at most `lim`
digits – CPython's `int()` refuses longer literals (`range_overlong` shows the
answer is 400 there; ledger entry `D4c-int-max-str-digits`). -/
theorem range_rfc7233_partial (lim : Nat) (pre d1 d2 : List Char) (sp : Spec) (data : List α)
    (hpre : lower pre = bytesEq) (hden : Denotes d1 d2 sp) (hvalid : sp.Valid)
    (hl1 : d1.length ≤ lim) (hl2 : d2.length ≤ lim) :
    segmentResponse lim (some (pre ++ d1 ++ '-' :: d2)) data = rfcResponse sp data ∧
    onDemandResponse lim (some (pre ++ d1 ++ '-' :: d2)) data = rfcResponse sp data := by
  obtain ⟨p, hp, hiff, hb⟩ := startStop_of_spec lim data.length pre hpre hden hvalid hl1 hl2
  obtain ⟨h1, h2⟩ := consumers_parsed (lim := lim) data hp
  rw [h1, h2]
  unfold rfcResponse
  cases hs : sp.satisfiable data.length with
  | false =>
    have := hiff.mpr hs
    simp only [this, if_true, Bool.false_eq_true, if_false, and_self]
  | true =>
    have hn : ¬ ((startStop p data.length).2 < (startStop p data.length).1) := by
      intro hlt
      have := hiff.mp hlt
      rw [hs] at this
      exact absurd this (by decide)
    obtain ⟨e1, e2⟩ := hb hs
    simp only [hn, if_false, if_true, e1, e2, and_self]

/-- **satisfiable ⇔ 206, unsatisfiable ⇔ 416** (same hypotheses) -/
theorem range_satisfiable_iff_partial (lim : Nat) (pre d1 d2 : List Char) (sp : Spec) (data : List α)
    (hpre : lower pre = bytesEq) (hden : Denotes d1 d2 sp) (hvalid : sp.Valid)
    (hl1 : d1.length ≤ lim) (hl2 : d2.length ≤ lim) :
    ((segmentResponse lim (some (pre ++ d1 ++ '-' :: d2)) data).status = 206 ↔
      sp.satisfiable data.length = true) ∧
    ((segmentResponse lim (some (pre ++ d1 ++ '-' :: d2)) data).status = 416 ↔
      sp.satisfiable data.length = false) := by
  rw [(range_rfc7233_partial lim pre d1 d2 sp data hpre hden hvalid hl1 hl2).1]
  unfold rfcResponse
  cases hs : sp.satisfiable data.length <;> simp [okResp, unsatResp]

/-- **a suffix range at least as long as the (non-empty) resource yields the
whole resource** with `Content-Range: bytes 0-(len−1)/len` -/
theorem range_suffix_whole_partial (lim : Nat) (pre d2 : List Char) (data : List α)
    (hpre : lower pre = bytesEq) (h2 : IsDigits d2) (hl2 : d2.length ≤ lim)
    (hn : data.length ≤ decVal d2) (hne : data ≠ []) :
    segmentResponse lim (some (pre ++ '-' :: d2)) data =
      { status := 206, body := data, contentRange := some (crText 0 (data.length - 1) data.length) } ∧
    onDemandResponse lim (some (pre ++ '-' :: d2)) data =
      { status := 206, body := data, contentRange := some (crText 0 (data.length - 1) data.length) } := by
  have hlen : 0 < data.length := List.length_pos_iff.mpr hne
  have := range_rfc7233_partial lim pre [] d2 (.suffix (decVal d2)) data hpre (.suffix h2) trivial
    (Nat.zero_le _) hl2
  simp only [List.append_nil] at this
  rw [this.1, this.2]
  have hsat : (Spec.suffix (decVal d2)).satisfiable data.length = true := by
    simp only [Spec.satisfiable, decide_eq_true_eq]; omega
  have hsub : data.length - decVal d2 = 0 := by omega
  have hbody : slice data 0 (data.length - 1) = data := by
    simp only [slice, List.drop_zero]
    exact List.take_of_length_le (by omega)
  simp only [rfcResponse, hsat, if_true, Spec.bounds, hsub, okResp, hbody, and_self]

/-- a `first-last` spec with `last < first` (invalid by RFC 7233 §2.1, "MUST
ignore") is refused with 416 `bytes */len` and an empty body -/
theorem range_inverted_partial (lim : Nat) (pre d1 d2 : List Char) (data : List α)
    (hpre : lower pre = bytesEq) (h1 : IsDigits d1) (h2 : IsDigits d2)
    (hl1 : d1.length ≤ lim) (hl2 : d2.length ≤ lim) (hinv : decVal d2 < decVal d1) :
    segmentResponse lim (some (pre ++ d1 ++ '-' :: d2)) data = unsatResp data ∧
    onDemandResponse lim (some (pre ++ d1 ++ '-' :: d2)) data = unsatResp data := by
  have hp : parseRange lim (pre ++ d1 ++ '-' :: d2) = some (.firstLast (decVal d1) (decVal d2)) := by
    rw [parseRange_canonical_split hpre h1.2 h2.2, if_neg h1.1, pyInt_digits h1 hl1]
    simp only [if_neg h2.1, pyInt_digits h2 hl2, Option.map_some, decVal]
  obtain ⟨e1, e2⟩ := consumers_parsed (lim := lim) data hp
  have hlt : (startStop (.firstLast (decVal d1) (decVal d2)) data.length).2 <
      (startStop (.firstLast (decVal d1) (decVal d2)) data.length).1 := by
    simp only [startStop]; omega
  rw [e1, e2, if_pos hlt]
  exact ⟨rfl, rfl⟩

/-- the region excluded by the `_partial` theorems, completely characterised: a
number written with more than `lim` digits makes both consumers answer 400 -/
theorem range_overlong (lim : Nat) (pre d1 d2 : List Char) (data : List α)
    (hpre : lower pre = bytesEq) (h1 : AllDigits d1) (h2 : AllDigits d2)
    (hlong : lim < d1.length ∨ lim < d2.length) :
    segmentResponse lim (some (pre ++ d1 ++ '-' :: d2)) data = badResp ∧
    onDemandResponse lim (some (pre ++ d1 ++ '-' :: d2)) data = badResp := by
  apply segment_unparsed
  rw [parseRange_canonical_split hpre h1 h2]
  by_cases hl : lim < d1.length
  · have hne : d1 ≠ [] := by intro e; rw [e] at hl; simp at hl
    rw [if_neg hne, pyInt_too_long ⟨hne, h1⟩ hl]
  · have hl2 : lim < d2.length := by rcases hlong with h | h; exact absurd h hl; exact h
    have hne2 : d2 ≠ [] := by intro e; rw [e] at hl2; simp at hl2
    by_cases hd : d1 = []
    · rw [if_pos hd, pyInt_too_long ⟨hne2, h2⟩ hl2]; rfl
    · rw [if_neg hd, pyInt_digits ⟨hd, h1⟩ (by omega)]
      simp only [if_neg hne2, pyInt_too_long ⟨hne2, h2⟩ hl2, Option.map_none]

/-! ### the Content-Range text is unambiguous (client-side reading) -/

/-- a digit string followed by a non-digit separator splits uniquely -/
theorem digits_sep_unique (sep : Char) (hsep : sep.isDigit = false) :
    ∀ (a b x y : List Char), (∀ c ∈ a, c.isDigit = true) → (∀ c ∈ b, c.isDigit = true) →
      a ++ sep :: x = b ++ sep :: y → a = b ∧ x = y
  | [], [], x, y, _, _, h => by simpa using h
  | [], d :: b, x, y, _, hb, h => by
      simp only [List.nil_append, List.cons_append, List.cons.injEq] at h
      have := hb d (by simp); rw [← h.1, hsep] at this; exact absurd this (by decide)
  | c :: a, [], x, y, ha, _, h => by
      simp only [List.nil_append, List.cons_append, List.cons.injEq] at h
      have := ha c (by simp); rw [h.1, hsep] at this; exact absurd this (by decide)
  | c :: a, d :: b, x, y, ha, hb, h => by
      simp only [List.cons_append, List.cons.injEq] at h
      obtain ⟨hab, hxy⟩ := digits_sep_unique sep hsep a b x y
        (fun c hc => ha c (by simp [hc])) (fun c hc => hb c (by simp [hc])) h.2
      exact ⟨by rw [h.1, hab], hxy⟩

theorem natRepr_injective {a b : Nat} (h : natRepr a = natRepr b) : a = b := by
  rw [← (natRepr_isDigits a).2, ← (natRepr_isDigits b).2, h]

/-- **the Content-Range text names exactly one slice and one length**: two 206
headers are equal only when first, last and full length are all equal, so a
client reading `bytes s-e/len` back recovers exactly what the server meant. -/
theorem contentRange_unambiguous (s e len s' e' len' : Nat)
    (h : crText s e len = crText s' e' len') : s = s' ∧ e = e' ∧ len = len' := by
  simp only [crText, List.cons_append, List.nil_append, List.cons.injEq, true_and,
    List.append_assoc] at h
  obtain ⟨hs, h⟩ := digits_sep_unique '-' (by decide) _ _ _ _
    (natRepr_isDigits s).1.2 (natRepr_isDigits s').1.2 h
  obtain ⟨he, hl⟩ := digits_sep_unique '/' (by decide) _ _ _ _
    (natRepr_isDigits e).1.2 (natRepr_isDigits e').1.2 h
  exact ⟨natRepr_injective hs, natRepr_injective he, natRepr_injective hl⟩

/-- the 416 text cannot be confused with a 206 text -/
theorem contentRange_unsat_distinct (s e len len' : Nat) : crText s e len ≠ crUnsatisfied len' := by
  intro h
  obtain ⟨hne, hdig⟩ := (natRepr_isDigits s).1
  cases hs : natRepr s with
  | nil => exact hne hs
  | cons c cs =>
    have hc := hdig c (by rw [hs]; simp)
    simp only [crText, crUnsatisfied, hs, List.cons_append, List.nil_append, List.cons.injEq, true_and] at h
    rw [h.1] at hc
    exact absurd hc (by decide)


/-- **what a client reads back is what was served**: if either consumer answers
206 and its `Content-Range` reads as `bytes s-e/n` for *any* numbers `s e n`, then
`n` is the full length, `s ≤ e < n`, and the body is exactly `data[s..e]`. -/
theorem range_206_reads_back (lim : Nat) (hdr : Option (List Char)) (data : List α) (s e n : Nat) :
    ((segmentResponse lim hdr data).status = 206 →
      (segmentResponse lim hdr data).contentRange = some (crText s e n) →
      n = data.length ∧ s ≤ e ∧ e < n ∧ (segmentResponse lim hdr data).body = (data.drop s).take (e - s + 1)) ∧
    ((onDemandResponse lim hdr data).status = 206 →
      (onDemandResponse lim hdr data).contentRange = some (crText s e n) →
      n = data.length ∧ s ≤ e ∧ e < n ∧ (onDemandResponse lim hdr data).body = (data.drop s).take (e - s + 1)) := by
  obtain ⟨h1, h2⟩ := range_206_exact lim hdr data
  constructor
  · intro hst hcr
    obtain ⟨s', e', hse, hlen, hb, _, hc⟩ := h1 hst
    rw [hc, Option.some.injEq] at hcr
    obtain ⟨rfl, rfl, rfl⟩ := contentRange_unambiguous _ _ _ _ _ _ hcr
    exact ⟨rfl, hse, hlen, hb⟩
  · intro hst hcr
    obtain ⟨s', e', hse, hlen, hb, _, hc⟩ := h2 hst
    rw [hc, Option.some.injEq] at hcr
    obtain ⟨rfl, rfl, rfl⟩ := contentRange_unambiguous _ _ _ _ _ _ hcr
    exact ⟨rfl, hse, hlen, hb⟩

/-- a 416 answer's `Content-Range` never reads as a satisfied range -/
theorem range_416_not_a_slice (lim : Nat) (hdr : Option (List Char)) (data : List α) (s e n : Nat) :
    ((segmentResponse lim hdr data).status = 416 →
      (segmentResponse lim hdr data).contentRange ≠ some (crText s e n)) ∧
    ((onDemandResponse lim hdr data).status = 416 →
      (onDemandResponse lim hdr data).contentRange ≠ some (crText s e n)) := by
  obtain ⟨h1, h2⟩ := range_416_exact lim hdr data
  constructor
  · intro hst hcr; rw [h1 hst] at hcr
    simp only [unsatResp, Option.some.injEq] at hcr
    exact contentRange_unsat_distinct s e n _ hcr.symm
  · intro hst hcr; rw [h2 hst] at hcr
    simp only [unsatResp, Option.some.injEq] at hcr
    exact contentRange_unsat_distinct s e n _ hcr.symm

/-! ### non-vacuity, the excluded point, and the D4 witnesses on the unrepaired logic -/

/-- ten bytes `0..9` -/
def exData : List Nat := [0, 1, 2, 3, 4, 5, 6, 7, 8, 9]

-- the hypotheses of `range_rfc7233_partial` hold at a non-trivial instance: `Bytes=02-4`
example : lower ['B', 'y', 't', 'e', 's', '='] = bytesEq := by decide
example : Denotes ['0', '2'] ['4'] (.firstLast 2 4) :=
  .firstLast (d1 := ['0', '2']) (d2 := ['4']) ⟨by decide, by decide⟩ ⟨by decide, by decide⟩
example : (Spec.firstLast 2 4).Valid := by show 2 ≤ 4; decide
example : segmentResponse 4300 (some (['B', 'y', 't', 'e', 's', '='] ++ ['0', '2'] ++ '-' :: ['4'])) exData
    = { status := 206, body := [2, 3, 4],
        contentRange := some ['b', 'y', 't', 'e', 's', ' ', '2', '-', '4', '/', '1', '0'] } := by decide

-- `range_206_reads_back` at a concrete instance: both hypotheses hold for `Bytes=02-4`
example : (segmentResponse 4300 (some (['B', 'y', 't', 'e', 's', '='] ++ ['0', '2'] ++ '-' :: ['4'])) exData).status = 206 ∧
    (segmentResponse 4300 (some (['B', 'y', 't', 'e', 's', '='] ++ ['0', '2'] ++ '-' :: ['4'])) exData).contentRange
      = some (crText 2 4 10) := by decide

-- clamping of last-byte-pos, suffix longer than the resource, unsatisfiable first-byte-pos
example : segmentResponse 4300 (some (bytesEq ++ ['5', '-', '9', '9'])) exData
    = okResp exData 5 9 := by decide
example : onDemandResponse 4300 (some (bytesEq ++ ['-', '2', '0'])) exData
    = okResp exData 0 9 := by decide
example : segmentResponse 4300 (some (bytesEq ++ ['1', '0', '-'])) exData = unsatResp exData := by decide
-- a lenient (non-RFC) spelling that is served: in agreement
example : segmentResponse 4300 (some [' ', 'B', 'Y', 'T', 'E', 'S', '=', ' ', '+', '1', '_', '0', '-', ' ']) (exData ++ exData)
    = okResp (exData ++ exData) 10 19 := by decide

-- the excluded point of the `_partial` theorems (model level, `lim = 3`): the RFC-valid
-- `bytes=0000-5` is refused with 400 instead of the RFC answer
example : segmentResponse 3 (some (bytesEq ++ ['0', '0', '0', '0', '-', '5'])) exData
    ≠ rfcResponse (.firstLast 0 5) exData := by decide

-- hypotheses of `range_suffix_whole_partial` / `range_inverted_partial` at concrete instances, and
-- their excluded point (`lim = 1`, two-digit numbers): refused with 400
example : IsDigits ['2', '0'] ∧ exData.length ≤ decVal ['2', '0'] ∧ exData ≠ [] :=
  ⟨⟨by decide, by decide⟩, by decide, by decide⟩
example : segmentResponse 1 (some (bytesEq ++ '-' :: ['2', '0'])) exData = badResp := by decide
example : IsDigits ['1', '2'] ∧ IsDigits ['0', '5'] ∧ decVal ['0', '5'] < decVal ['1', '2'] :=
  ⟨⟨by decide, by decide⟩, ⟨by decide, by decide⟩, by decide⟩
example : segmentResponse 4300 (some (bytesEq ++ ['1', '2'] ++ '-' :: ['0', '5'])) exData = unsatResp exData := by
  decide
example : onDemandResponse 1 (some (bytesEq ++ ['1', '2'] ++ '-' :: ['0', '5'])) exData = badResp := by decide

/-- D4 (a) on the **unrepaired** logic: `bytes=-20` on a 10-byte segment is
answered 206 with the impossible `Content-Range: bytes -10-9/10` -/
example : segmentResponseOld 4300 (some (bytesEq ++ ['-', '2', '0'])) exData
    = { status := 206, body := exData,
        contentRange := some ['b', 'y', 't', 'e', 's', ' ', '-', '1', '0', '-', '9', '/', '1', '0'] } := by
  decide

example : ¬ Outcome exData (segmentResponseOld 4300 (some (bytesEq ++ ['-', '2', '0'])) exData) := by
  intro h
  have hcr : (segmentResponseOld 4300 (some (bytesEq ++ ['-', '2', '0'])) exData).contentRange
      = some ['b', 'y', 't', 'e', 's', ' ', '-', '1', '0', '-', '9', '/', '1', '0'] := by decide
  cases h with
  | refused e => rw [e] at hcr; exact absurd hcr (by decide)
  | unsatisfied e => rw [e] at hcr; exact absurd hcr (by decide)
  | served s t _ _ e =>
    rw [e] at hcr
    obtain ⟨hne, hdig⟩ := (natRepr_isDigits s).1
    cases hs : natRepr s with
    | nil => exact hne hs
    | cons c cs =>
      have hc := hdig c (by rw [hs]; simp)
      simp only [okResp, crText, hs, Option.some.injEq, List.cons_append, List.nil_append,
        List.cons.injEq, true_and] at hcr
      rw [hcr.1] at hc
      exact absurd hc (by decide)

/-- D4 (b) on the unrepaired logic: the same header on an on-demand file seeks to
a negative offset: 500 -/
example : (onDemandResponseOld 4300 (some (bytesEq ++ ['-', '2', '0'])) exData).status = 500 := by decide

/-- D4 (c) on the unrepaired logic: `bytes=5-99` (last-byte-pos beyond the end)
is answered 416 **with** a 5-byte body instead of 206 `bytes 5-9/10` -/
example : segmentResponseOld 4300 (some (bytesEq ++ ['5', '-', '9', '9'])) exData
    = { status := 416, body := [5, 6, 7, 8, 9],
        contentRange := some ['b', 'y', 't', 'e', 's', ' ', '*', '/', '1', '0'] } := by decide

example : segmentResponseOld 4300 (some (bytesEq ++ ['5', '-', '9', '9'])) exData
    ≠ rfcResponse (.firstLast 5 99) exData := by decide

end DashLive.Range
