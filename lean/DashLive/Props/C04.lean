import DashLive.Lemmas.BoxEdit
/-!
# C04 – ISO-BMFF parse/encode round-trips byte-exactly

Property theorems only (lemmas: `Lemmas/Bytes.lean`, `Lemmas/Boxes/*.lean`,
`Lemmas/Box.lean`, `Lemmas/BoxTree.lean`, `Lemmas/BoxEdit.lean`).

Quantification.  Every theorem is over *all* field values that are legal for the
box version/flags (`X.Wf`: exactly what `struct.pack` accepts and `parse` can
produce), all list lengths, all trees of any depth, all finite edit sequences,
all output offsets, and – for `senc` – every context (IV size, `saiz` sizes)
that matches the samples.  `decode_encode_X` is `parse(encode(x)) = x`;
`encode_decode_X` is the converse *on bytes*: whatever the parser accepts is the
encoding of what it returned, i.e. `encode(parse(bs)) = bs` byte for byte.

Two converses need a side condition that the code does not enforce
(`_partial`): a box header whose size field is 0 ("to end of file") is accepted
but re-written with its explicit size, and the 16 reserved bits of `sidx` are
skipped on parse and written as 0.  Both come with a non-vacuity example and a
proof of the negation at a concrete excluded input.
-/
namespace DashLive.C04
open DashLive.Bytes DashLive.Boxes

/-! ## primitives -/
theorem be_decode_encode (n v : Nat) (rest : Bytes) (h : v < 256 ^ n) :
    decBE n (encBE n v ++ rest) = some (v, rest) := decBE_encBE n v rest h

theorem be_encode_decode (n : Nat) (bs : Bytes) (v : Nat) (rest : Bytes)
    (h : decBE n bs = some (v, rest)) : v < 256 ^ n ∧ encBE n v ++ rest = bs := decBE_spec n bs v rest h

theorem i32_decode_encode (v : Int) (rest : Bytes) (h : -2147483648 ≤ v ∧ v < 2147483648) :
    decI32 (encI32 v ++ rest) = some (v, rest) := decI32_encI32 v rest h

theorem i32_encode_decode (bs : Bytes) (v : Int) (rest : Bytes) (h : decI32 bs = some (v, rest)) :
    (-2147483648 ≤ v ∧ v < 2147483648) ∧ encI32 v ++ rest = bs := decI32_spec h

theorem cstr_decode_encode (s rest : Bytes) (h : ∀ b ∈ s, b ≠ 0) :
    decCStr (encCStr s ++ rest) = some (s, rest) := decCStr_encCStr s rest h

theorem cstr_encode_decode (bs s rest : Bytes) (h : decCStr bs = some (s, rest)) :
    (∀ b ∈ s, b ≠ 0) ∧ encCStr s ++ rest = bs := decCStr_spec h

/-! ## box header: 32-bit size, `size == 1` + 64-bit largesize, `uuid` types -/
theorem header_decode_encode (tail : Nat) (t : BoxType) (large : Bool) (size : Nat) (rest : Bytes)
    (ht : t.Wf) (hs : sizeOk large size) :
    decHeader tail (encHeader t large size ++ rest)
      = some ({ typ := t, large := large, toEnd := false, size := size }, rest) :=
  decHeader_encHeader tail t large size rest ht hs

/-- every header the parser accepts with an explicit size (32- or 64-bit form,
plain or `uuid` type) is re-encoded byte for byte -/
theorem header_encode_decode_partial (tail : Nat) (bs : Bytes) (h : Header) (rest : Bytes)
    (hd : decHeader tail bs = some (h, rest)) (hexplicit : h.toEnd = false) :
    h.typ.Wf ∧ sizeOk h.large h.size ∧ encHeader h.typ h.large h.size ++ rest = bs :=
  ⟨(decHeader_spec hd).1, ((decHeader_spec hd).2.1 hexplicit).1, ((decHeader_spec hd).2.1 hexplicit).2⟩

/-- non-vacuity: a 64-bit `uuid` header satisfies the hypotheses -/
example : decHeader 0 ([0,0,0,1, 117,117,105,100, 0,0,0,0,0,0,0,33,
      1,2,3,4,5,6,7,8,9,10,11,12,13,14,15,16, 99]) =
    some ({ typ := .uuid [1,2,3,4,5,6,7,8,9,10,11,12,13,14,15,16], large := true, toEnd := false,
            size := 33 }, [99]) := by decide

/-- negation at the excluded point: `00000000 'mdat' 01 02` is accepted (size to
end of input = 10) and re-encoded as `0000000a 'mdat' 01 02` -/
example : decHeader 0 [0,0,0,0, 109,100,97,116, 1,2] =
      some ({ typ := .std [109,100,97,116], large := false, toEnd := true, size := 10 }, [1,2]) ∧
    encHeader (.std [109,100,97,116]) false 10 ++ [1,2] ≠ [0,0,0,0, 109,100,97,116, 1,2] := by
  decide

/-! ## per class: parse ∘ encode = id and encode ∘ parse = id -/
theorem decode_encode_ftyp (x : Ftyp) (h : x.Wf) : decFtyp (encFtyp x) = some x := decFtyp_encFtyp x h
theorem encode_decode_ftyp (bs : Bytes) (x : Ftyp) (h : decFtyp bs = some x) :
    x.Wf ∧ encFtyp x = bs := encFtyp_decFtyp h

theorem decode_encode_mfhd (x : Mfhd) (h : x.Wf) : decMfhd (encMfhd x) = some x := decMfhd_encMfhd x h
theorem encode_decode_mfhd (bs : Bytes) (x : Mfhd) (h : decMfhd bs = some x) :
    x.Wf ∧ encMfhd x = bs := encMfhd_decMfhd h

/-- all 2⁵ combinations of optional fields (flag bits 0, 1, 3, 4, 5) -/
theorem decode_encode_tfhd (x : Tfhd) (h : x.Wf) : decTfhd (encTfhd x) = some x := decTfhd_encTfhd x h
theorem encode_decode_tfhd (bs : Bytes) (x : Tfhd) (h : decTfhd bs = some x) :
    x.Wf ∧ encTfhd x = bs := encTfhd_decTfhd h

theorem decode_encode_tfdt (x : Tfdt) (h : x.Wf) : decTfdt (encTfdt x) = some x := decTfdt_encTfdt x h
theorem encode_decode_tfdt (bs : Bytes) (x : Tfdt) (h : decTfdt bs = some x) :
    x.Wf ∧ encTfdt x = bs := encTfdt_decTfdt h

/-- header fields and every per-sample field combination (flag bits 0, 2, 8–11),
any number of samples, signed composition offsets when `version ≠ 0` -/
theorem decode_encode_trun (x : Trun) (h : x.Wf) : decTrun (encTrun x) = some x := decTrun_encTrun x h
theorem encode_decode_trun (bs : Bytes) (x : Trun) (h : decTrun bs = some x) :
    x.Wf ∧ encTrun x = bs := encTrun_decTrun h

theorem decode_encode_saiz (x : Saiz) (h : x.Wf) : decSaiz (encSaiz x) = some x := decSaiz_encSaiz x h
theorem encode_decode_saiz (bs : Bytes) (x : Saiz) (h : decSaiz bs = some x) :
    x.Wf ∧ encSaiz x = bs := encSaiz_decSaiz h

theorem decode_encode_saio (x : Saio) (h : x.Wf) : decSaio (encSaio x) = some x := decSaio_encSaio x h
theorem encode_decode_saio (bs : Bytes) (x : Saio) (h : decSaio bs = some x) :
    x.Wf ∧ encSaio x = bs := encSaio_decSaio h

/-- `senc` and the PIFF `uuid` variant, for every context that matches the samples:
8/16-byte IVs, with or without the `flags & 1` override, with or without
sub-samples per sample -/
theorem decode_encode_senc (ctx : SencCtx) (x : Senc) (h : x.Wf ctx) :
    decSenc ctx (encSenc x) = some x := decSenc_encSenc ctx x h

theorem decode_encode_tenc (x : Tenc) (h : x.Wf) : decTenc (encTenc x) = some x := decTenc_encTenc x h
theorem encode_decode_tenc (bs : Bytes) (x : Tenc) (h : decTenc bs = some x) :
    x.Wf ∧ encTenc x = bs := encTenc_decTenc h

theorem decode_encode_pssh (x : Pssh) (h : x.Wf) : decPssh (encPssh x) = some x := decPssh_encPssh x h
theorem encode_decode_pssh (bs : Bytes) (x : Pssh) (h : decPssh bs = some x) :
    x.Wf ∧ encPssh x = bs := encPssh_decPssh h

theorem decode_encode_mehd (x : Mehd) (h : x.Wf) : decMehd (encMehd x) = some x := decMehd_encMehd x h
theorem encode_decode_mehd (bs : Bytes) (x : Mehd) (h : decMehd bs = some x) :
    x.Wf ∧ encMehd x = bs := encMehd_decMehd h

theorem decode_encode_trex (x : Trex) (h : x.Wf) : decTrex (encTrex x) = some x := decTrex_encTrex x h
theorem encode_decode_trex (bs : Bytes) (x : Trex) (h : decTrex bs = some x) :
    x.Wf ∧ encTrex x = bs := encTrex_decTrex h

theorem decode_encode_sidx (x : Sidx) (h : x.Wf) : decSidx (encSidx x) = some x := decSidx_encSidx x h

theorem encode_decode_sidx_partial (bs : Bytes) (x : Sidx) (h : decSidx bs = some x)
    (hreserved : sidxReserved bs = some 0) : x.Wf ∧ encSidx x = bs := encSidx_decSidx h hreserved

/-- non-vacuity: a version-0 `sidx` with one bit-packed reference and reserved = 0 -/
example : sidxReserved [0,0,0,0, 0,0,0,1, 0,0,3,232, 0,0,0,0, 0,0,0,0, 0,0, 0,1,
    0x80,0,0,0x10, 0,0,0,5, 0x90,0,0,0x0f] = some 0 := by decide

/-- negation at the excluded point: reserved = 0xabcd is accepted and lost -/
example : ∃ x, decSidx [0,0,0,0, 0,0,0,1, 0,0,3,232, 0,0,0,0, 0,0,0,0, 0xab,0xcd, 0,0] = some x ∧
    encSidx x ≠ [0,0,0,0, 0,0,0,1, 0,0,3,232, 0,0,0,0, 0,0,0,0, 0xab,0xcd, 0,0] := by decide

theorem decode_encode_emsg (x : Emsg) (h : x.Wf) : decEmsg (encEmsg x) = some x := decEmsg_encEmsg x h
theorem encode_decode_emsg (bs : Bytes) (x : Emsg) (h : decEmsg bs = some x) :
    x.Wf ∧ encEmsg x = bs := encEmsg_decEmsg h

/-- `dec3`: 1–8 independent substreams, each with or without dependent substreams
(3 or 4 bytes), with or without the trailing extension block that the parser
recognises by "at least 16 bits left" -/
theorem decode_encode_dec3 (x : Dec3) (h : x.Wf) : decDec3 (encDec3 x) = some x := decDec3_encDec3 x h

/-- non-vacuity: two substreams (one with dependent substreams) and the extension -/
example : (Dec3.mk 8191 [⟨0, 16, 0, 7, 1, 0, 0⟩, ⟨2, 16, 31, 2, 0, 15, 511⟩] (some (1, 255))).Wf := by
  decide

/-! ## the tfdt switch to version 1 (mp4.py:2203-2212) -/
/-- assigning `base_media_decode_time = v` to a version-0 box: the box becomes
version 1 exactly when `v` does not fit 32 bits, the value is stored, the result
round-trips for every `v < 2⁶⁴`, and the `delta` handed to `update_size` is
exactly the growth of the encoding -/
theorem tfdt_version_switch (x : Tfdt) (v : Nat) (hx : x.Wf) (h0 : x.version = 0)
    (hv : v < 18446744073709551616) :
    ((tfdtAssign x v).1.version = 1 ↔ 4294967296 ≤ v) ∧
    (tfdtAssign x v).1.base_media_decode_time = v ∧
    decTfdt (encTfdt (tfdtAssign x v).1) = some (tfdtAssign x v).1 ∧
    (encTfdt (tfdtAssign x v).1).length = (encTfdt x).length + (tfdtAssign x v).2 := by
  refine ⟨?_, ?_, decTfdt_encTfdt _ (tfdtAssign_wf x v hx h0 hv), tfdtAssign_length x v⟩
  · rw [tfdtAssign_version x v h0]; split <;> simp_all
  · unfold tfdtAssign; split <;> rfl

/-! ## trees -/
/-- parse ∘ encode = id on every well-formed forest (any depth and width, 32- and
64-bit headers, `uuid` types, opaque payloads for the classes outside the model) -/
theorem tree_roundtrip (ctx : SencCtx) (cs : List Box) (h : BoxesWf ctx cs) :
    decFile ctx (encBoxes cs) = some cs := decFile_encBoxes ctx cs h

/-- the size field of every box is the length of its encoding … -/
theorem encode_size (ctx : SencCtx) (b : Box) (tail : Bytes) (h : BoxWf ctx b) :
    ∃ hdr rest, decHeader 0 (encBox b ++ tail) = some (hdr, rest) ∧ hdr.size = (encBox b).length := by
  have := decHeader_encBox ctx 0 b tail h
  cases b with
  | leaf t l p => exact ⟨_, _, this, by simp [encBox_leaf_length]⟩
  | node t l cs => exact ⟨_, _, this, by simp [encBox_node_length]⟩

/-- … and a walker that knows nothing about payloads finds that the children of
every container fill it exactly -/
theorem encode_children_fill (ctx : SencCtx) (cs : List Box) (h : BoxesWf ctx cs) :
    walkOk (encBoxes cs).length (encBoxes cs) = true :=
  walkOk_of_decFile ctx _ cs (decFile_encBoxes ctx cs h)

/-! ## edits -/
/-- `update_size` keeps every stored `size` attribute equal to the encoded
length of its box, for every finite sequence of child insertions, appends,
removals (of boxes whose own stored sizes are right) and tfdt assignments, at any
depth; no box on the path to the root is forgotten -/
theorem edits_preserve_sizes (root : STree) (es : List Edit) (h : root.SizeOk)
    (hes : ∀ e ∈ es, e.Tracked) : (applyEdits root es).SizeOk := applyEdits_sizeOk root es h hes

/-- after *any* finite sequence of edits (including field assignments that change
the length of a box without telling anyone) `encode` yields the encoding of the
edited tree, re-computes every `size` and `position` attribute to the length and
offset of the box in the output, and – when the edited tree is well formed –
the output passes the payload-agnostic walker -/
theorem encode_after_edits (ctx : SencCtx) (root : STree) (es : List Edit) (pos : Nat) :
    let t := applyEdits root es
    (t.encodeAt pos).1 = encBox t.erase ∧ (t.encodeAt pos).2.erase = t.erase ∧
    (t.encodeAt pos).2.MetaOk pos ∧
    (BoxWf ctx t.erase →
      walkOk (t.encodeAt pos).1.length (t.encodeAt pos).1 = true) := by
  intro t
  obtain ⟨h1, h2, h3⟩ := encodeAt_spec t pos
  refine ⟨h1, h2, h3, ?_⟩
  intro hw
  rw [h1]
  have := encode_children_fill ctx [t.erase] (by simp [BoxesWf, hw])
  simpa [encBoxes] using this

/-- non-vacuity of `edits_preserve_sizes`: a moof with an mfhd; append a tfdt,
assign a 33-bit time (switch to version 1), remove the mfhd -/
def exRoot : STree :=
  .node (.std (ascii "moof")) false ⟨24, 0⟩ [.leaf (.std (ascii "mfhd")) false ⟨16, 8⟩ (.mfhd ⟨0, 0, 7⟩)]
def exTfdt : STree := .leaf (.std (ascii "tfdt")) false ⟨16, 0⟩ (.tfdt ⟨0, 0, 5⟩)
def exEdits : List Edit :=
  [.child [] (.append exTfdt), .setTfdt [1] 4294967296, .child [] (.remove 0)]

example : exRoot.SizeOk := by
  simp only [exRoot, STree.SizeOk, SizeAllOk, and_true]; decide
example : ∀ e ∈ exEdits, e.Tracked := by
  intro e he
  simp only [exEdits, List.mem_cons, List.mem_nil_iff, or_false] at he
  rcases he with rfl | rfl | rfl <;> simp only [Edit.Tracked, exTfdt, STree.SizeOk] <;> decide
/-- the edits really change the tree: 24 → 40 (tfdt appended) → 44 (version 1) → 28 (mfhd removed) -/
example : (applyEdits exRoot exEdits).size = 28 := by decide

/-! ## lazy loading -/
/-- a tree in which any sub-trees are still the bytes they were read from encodes
to the same bytes as the eagerly parsed tree and, once touched, exposes exactly
the eager tree (hence the same field values) -/
theorem lazy_eq_eager (ctx : SencCtx) (lt : LBox) (x : Box) (h : Lazy lt x) (hx : BoxWf ctx x) :
    encL lt = encBox x ∧ force ctx lt = some x :=
  ⟨encL_of_lazy h, force_of_lazy ctx h hx⟩

/-! ## non-vacuity of the well-formedness predicates -/
example : (Tfhd.mk 0 0x02003b 7 1000 2 3 4 5).Wf := by decide
example : (Trun.mk 1 0xf05 2 (-8) 9 [⟨1, 2, 3, -4⟩, ⟨5, 6, 7, 2147483647⟩]).Wf := by decide
example : (Senc.mk 0 2 0 8 [] [⟨[1,2,3,4,5,6,7,8], [⟨16, 4000⟩]⟩, ⟨[1,2,3,4,5,6,7,9], []⟩]).Wf
    ⟨8, [16, 8], 0⟩ := by decide
example : BoxesWf ⟨8, [], 0⟩ [.node (.std (ascii "moof")) false
    [.leaf (.std (ascii "mfhd")) true (.mfhd ⟨0, 0, 7⟩),
     .leaf (.uuid [0,1,2,3,4,5,6,7,8,9,10,11,12,13,14,15]) false (.opaque [1,2,3])]] := by
  simp only [BoxesWf, BoxWf, and_true]
  refine ⟨by decide, by decide, ⟨⟨by decide, by decide, ?_, by decide⟩,
    ⟨by decide, by decide, ?_, by decide⟩⟩, by decide⟩
  · have : kindOf (.std (ascii "mfhd")) = .mfhd := by decide
    rw [this]; simp only [PayloadWf]; decide
  · have : kindOf (.uuid [0,1,2,3,4,5,6,7,8,9,10,11,12,13,14,15]) = .opaque := by decide
    rw [this]; simp only [PayloadWf]

end DashLive.C04
