import DashLive.Lemmas.LiveTiming
/-!
# C08 – live timing parameters are coherent for every clock and option

Property theorems only (helper lemmas: `Lemmas/LiveTiming.lean`, `Lemmas/Calendar.lean`).

Quantification: every clock value `now` (µs since the Unix epoch, `0 ≤ now` –
the model's domain), every `start` in `epoch | today | month | year | now` or an
explicit instant `≤ now` with any UTC offset, every `depth`, `mup`, `leeway`
(absent, `≤ 0`, positive – any integer), every timing reference
(`segment_duration`, `timescale` – any naturals).  No bound on any of them.

`T now ref o` below is `calculateLiveParams now ref o`, the model of
`DashTiming.calculate_live_params` in the tree today (after the repairs
`de52307`, `7e99581`, `abb50c2`; the witnesses at the end of the file show what
failed before them).
-/
namespace DashLive.LiveTiming

/-- the inputs C08 quantifies over: a clock at or after the Unix epoch and, for an
explicit `start`, an instant that is not in the future.  The hypothesis is stated in
its weakest form – the start *truncated to a whole second* (what the code uses as
availabilityStartTime) is not after `now` – which is exactly the condition under
which the handler serves a manifest at all (`served_iff_accepted`); an instant
`≤ now` satisfies it (`accepted_of_le`). -/
structure Accepted (now : Int) (o : Options) : Prop where
  clock : 0 ≤ now
  start_le_now : ∀ t off, o.start = .explicit t off → floorSec t ≤ now

theorem accepted_of_le (now : Int) (o : Options) (h0 : 0 ≤ now)
    (h : ∀ t off, o.start = .explicit t off → t ≤ now) : Accepted now o :=
  ⟨h0, fun t off ht => Int.le_trans (floorSec_le t) (h t off ht)⟩

local notation "T" => calculateLiveParams

/-- **availabilityStartTime ≤ now** -/
theorem ast_le_now (now : Int) (ref : Ref) (o : Options) (h : Accepted now o) :
    (T now ref o).availabilityStartTime ≤ now :=
  (calc_core ref h.clock h.start_le_now).1

/-- `elapsedTime` is exactly `now − availabilityStartTime` (also after the
zero-elapsed back-off) and never zero -/
theorem elapsed_eq (now : Int) (ref : Ref) (o : Options) (h : Accepted now o) :
    (T now ref o).elapsedTime = now - (T now ref o).availabilityStartTime ∧
    0 < (T now ref o).elapsedTime :=
  (calc_core ref h.clock h.start_le_now).2.2

/-- **publishTime lies in [availabilityStartTime, now] and on a whole second** –
with and without a minimumUpdatePeriod -/
theorem publish_in_range (now : Int) (ref : Ref) (o : Options) (h : Accepted now o) :
    (T now ref o).availabilityStartTime ≤ (T now ref o).publishTime ∧
    (T now ref o).publishTime ≤ now ∧
    (T now ref o).publishTime % usPerSec = 0 := by
  obtain ⟨h1, h2, h3, h4⟩ := calc_core ref h.clock h.start_le_now
  rw [calc_publish]
  cases hm : effectiveMup true ref o.mup with
  | none =>
    simp only [publish]
    exact ⟨le_floorSec h2 h1, floorSec_le now, floorSec_whole now⟩
  | some p =>
    have hp := effectiveMup_pos hm
    rw [publish_some_eq h2]
    obtain ⟨q1, _, q3⟩ := quant_spec (T now ref o).elapsedTime p hp
    have hk : 0 ≤ (T now ref o).elapsedTime / (p * usPerSec) * p :=
      Int.mul_nonneg (q3 (Int.le_of_lt h4)) (Int.le_of_lt hp)
    generalize (T now ref o).elapsedTime / (p * usPerSec) * p = X at *
    unfold usPerSec at *
    omega

/-- **0 ≤ timeShiftBufferDepth ≤ now − availabilityStartTime** (depth in whole
seconds, so the upper bound is stated in µs) -/
theorem tsbd_bounds (now : Int) (ref : Ref) (o : Options) (h : Accepted now o) :
    0 ≤ (T now ref o).timeShiftBufferDepth ∧
    (T now ref o).timeShiftBufferDepth * usPerSec ≤ now - (T now ref o).availabilityStartTime := by
  obtain ⟨_, _, h3, h4⟩ := calc_core ref h.clock h.start_le_now
  obtain ⟨a, b, _⟩ := clampDepth_bounds (Int.le_of_lt h4) (initialDepth_pos o.depth)
  rw [calc_tsbd, ← h3]
  exact ⟨a, b⟩

/-- the requested depth is only ever reduced: `tsbd ≤ max(depth, default)` -/
theorem tsbd_le_requested (now : Int) (ref : Ref) (o : Options) (h : Accepted now o) :
    (T now ref o).timeShiftBufferDepth ≤ initialDepth true o.depth := by
  obtain ⟨_, _, _, h4⟩ := calc_core ref h.clock h.start_le_now
  rw [calc_tsbd]
  exact (clampDepth_bounds (Int.le_of_lt h4) (initialDepth_pos o.depth)).2.2

/-- **firstAvailableTime = now − availabilityStartTime − timeShiftBufferDepth ≥ 0** -/
theorem fat_eq (now : Int) (ref : Ref) (o : Options) (h : Accepted now o) :
    (T now ref o).firstAvailableTime =
      now - (T now ref o).availabilityStartTime - (T now ref o).timeShiftBufferDepth * usPerSec ∧
    0 ≤ (T now ref o).firstAvailableTime := by
  obtain ⟨_, _, h3, _⟩ := calc_core ref h.clock h.start_le_now
  obtain ⟨_, b⟩ := tsbd_bounds now ref o h
  rw [calc_fat, h3]
  exact ⟨rfl, by omega⟩

/-- a minimumUpdatePeriod that is in force is a positive number of seconds (in
particular the default derived from the timing reference, for every segment
duration and timescale) -/
theorem mup_positive (now : Int) (ref : Ref) (o : Options) (p : Int)
    (hp : (T now ref o).minimumUpdatePeriod = some p) : 0 < p :=
  effectiveMup_pos (by rw [← calc_mup now]; exact hp)

/-- the default minimumUpdatePeriod is at least one second for **every** timing
reference (D17: before `abb50c2` it was `round(2·sd/ts)`, zero for segments
shorter than ¼ s – see `default_mup_unrepaired` below) -/
theorem default_mup_positive (ref : Ref) : 1 ≤ defaultMup true ref := defaultMup_pos ref

/-- what the unrepaired default was: positive iff the segment is longer than ¼ s -/
theorem default_mup_unrepaired (ref : Ref) (hts : 0 < ref.timescale) :
    1 ≤ defaultMup false ref ↔ ref.timescale < 4 * ref.segmentDuration := by
  have := roundHalfEven_pos_iff (2 * ref.segmentDuration) ref.timescale hts
  simp only [defaultMup, Bool.false_eq_true, if_false]
  omega

/-- **publishTime = availabilityStartTime + k·p for a whole k ≥ 0 and lags now
by less than p** (the property asks for `< p + 1 s`; the code achieves `< p`) -/
theorem publish_quantised (now : Int) (ref : Ref) (o : Options) (h : Accepted now o) (p : Int)
    (hp : (T now ref o).minimumUpdatePeriod = some p) :
    0 < p ∧
    (∃ k : Int, 0 ≤ k ∧
      (T now ref o).publishTime = (T now ref o).availabilityStartTime + k * p * usPerSec) ∧
    now - (T now ref o).publishTime < p * usPerSec := by
  obtain ⟨_, h2, h3, h4⟩ := calc_core ref h.clock h.start_le_now
  have hm : effectiveMup true ref o.mup = some p := by rw [← calc_mup now]; exact hp
  have hpos := effectiveMup_pos hm
  obtain ⟨_, q2, q3⟩ := quant_spec (T now ref o).elapsedTime p hpos
  rw [calc_publish, hm, publish_some_eq h2]
  refine ⟨hpos, ⟨_, q3 (Int.le_of_lt h4), rfl⟩, ?_⟩
  generalize (T now ref o).elapsedTime / (p * usPerSec) * p * usPerSec = Y at *
  omega

/-- the literal bound of the property text: `now − publishTime < p + 1 s` -/
theorem publish_lag (now : Int) (ref : Ref) (o : Options) (h : Accepted now o) (p : Int)
    (hp : (T now ref o).minimumUpdatePeriod = some p) :
    now - (T now ref o).publishTime < (p + 1) * usPerSec := by
  have := (publish_quantised now ref o h p hp).2.2
  unfold usPerSec at *
  omega

/-- **publishTime never decreases as now advances** (same options, same
resolved availabilityStartTime; with or without a minimumUpdatePeriod) -/
theorem publish_mono (now₁ now₂ : Int) (ref : Ref) (o : Options)
    (h₁ : Accepted now₁ o) (h₂ : Accepted now₂ o) (hle : now₁ ≤ now₂)
    (hast : (T now₁ ref o).availabilityStartTime = (T now₂ ref o).availabilityStartTime) :
    (T now₁ ref o).publishTime ≤ (T now₂ ref o).publishTime := by
  obtain ⟨_, a2, a3, _⟩ := calc_core ref h₁.clock h₁.start_le_now
  obtain ⟨_, b2, b3, _⟩ := calc_core ref h₂.clock h₂.start_le_now
  rw [calc_publish, calc_publish]
  cases hm : effectiveMup true ref o.mup with
  | none =>
    simp only [publish]
    exact floorSec_mono hle
  | some p =>
    have hp := effectiveMup_pos hm
    rw [publish_some_eq a2, publish_some_eq b2]
    have he : (T now₁ ref o).elapsedTime ≤ (T now₂ ref o).elapsedTime := by omega
    have := quant_mono hp he
    omega

/-- without the same-start hypothesis (a symbolic start that rolls over between
the two requests) publishTime can step back, but by less than one period -/
theorem publish_mono_across_restart (now₁ now₂ : Int) (ref : Ref) (o : Options)
    (h₁ : Accepted now₁ o) (h₂ : Accepted now₂ o) (hle : now₁ ≤ now₂) (p : Int)
    (hp : (T now₂ ref o).minimumUpdatePeriod = some p) :
    (T now₁ ref o).publishTime < (T now₂ ref o).publishTime + p * usPerSec := by
  have a := (publish_in_range now₁ ref o h₁).2.1
  have b := (publish_quantised now₂ ref o h₂ p hp).2.2
  omega

/-- **the symbolic start values `today`, `month`, `year`, `now` yield a stream at
least one minute old** – at every clock value, first seconds of a day, month or
year and leap days included -/
theorem symbolic_age (now : Int) (ref : Ref) (o : Options) (h0 : 0 ≤ now)
    (hs : o.start = .today ∨ o.start = .month ∨ o.start = .year ∨ o.start = .now) :
    minuteUs ≤ (T now ref o).elapsedTime := by
  have hsym : o.start.isSymbolic = true := by
    rcases hs with hs | hs | hs | hs <;> rw [hs] <;> rfl
  have hne : o.start = .epoch → minuteUs ≤ now := by
    rcases hs with hs | hs | hs | hs <;> rw [hs] <;> intro x <;> cases x
  exact symbolic_age_gen ref h0 hsym hne

/-- **`epoch` yields a stream at least one minute old** once the clock itself is
a minute past the epoch.  The side condition cannot be avoided by any
implementation that resolves `epoch` to 1970-01-01T00:00:00Z (the stream is
exactly as old as the clock reads); it restricts the clock domain and is listed
under the assumptions of the check.  Excluded point: `epoch_young` below. -/
theorem symbolic_age_epoch_partial (now : Int) (ref : Ref) (o : Options)
    (hs : o.start = .epoch) (h : minuteUs ≤ now) :
    minuteUs ≤ (T now ref o).elapsedTime ∧ (T now ref o).elapsedTime = now := by
  have h0 : 0 ≤ now := by unfold minuteUs at h; omega
  have hsym : o.start.isSymbolic = true := by rw [hs]; rfl
  refine ⟨symbolic_age_gen ref h0 hsym (fun _ => h), ?_⟩
  have hlt : resolved now o < now := by
    unfold resolved; rw [hs]; simp only [resolveStart]; unfold minuteUs at h; omega
  rw [calc_elapsed, backOff_of_lt hlt]
  unfold resolved; rw [hs]; simp only [resolveStart]; omega

/-- **`epoch`, `today`, `month`, `year` resolve to one and the same instant for
all requests within a UTC day after its first minute** -/
theorem symbolic_stable (now₁ now₂ : Int) (ref : Ref) (o : Options)
    (h₁ : 0 ≤ now₁) (h₂ : 0 ≤ now₂) (hday : now₁ / dayUs = now₂ / dayUs)
    (hm₁ : minuteUs ≤ now₁ % dayUs) (hm₂ : minuteUs ≤ now₂ % dayUs)
    (hs : o.start = .epoch ∨ o.start = .today ∨ o.start = .month ∨ o.start = .year) :
    (T now₁ ref o).availabilityStartTime = (T now₂ ref o).availabilityStartTime := by
  have hd : dayOf now₁ = dayOf now₂ := by unfold dayOf; rw [hday]
  have hds : dayStart now₁ = dayStart now₂ := by unfold dayStart; rw [hd]
  have hms : monthStart now₁ = monthStart now₂ := by unfold monthStart; rw [hd]
  have hys : yearStart now₁ = yearStart now₂ := by unfold yearStart; rw [hd]
  have hr : resolved now₁ o = resolved now₂ o := by
    unfold resolved
    rcases hs with hs | hs | hs | hs <;> rw [hs]
    · rfl
    · rw [resolve_today h₁, resolve_today h₂, if_neg (by omega), if_neg (by omega), hds]
    · rw [resolve_month h₁, resolve_month h₂, hms, hds]
    · rw [resolve_year h₁, resolve_year h₂, hys, hds]
  have hsym : o.start.isSymbolic = true := by
    rcases hs with hs | hs | hs | hs <;> rw [hs] <;> rfl
  have e₁ : minuteUs ≤ now₁ := by
    have := Int.emod_nonneg now₁ (b := dayUs) (by unfold dayUs; omega)
    unfold dayUs minuteUs at *; omega
  have e₂ : minuteUs ≤ now₂ := by unfold dayUs minuteUs at *; omega
  obtain ⟨a₁, _⟩ := resolve_symbolic h₁ o.start hsym (fun _ => e₁)
  obtain ⟨a₂, _⟩ := resolve_symbolic h₂ o.start hsym (fun _ => e₂)
  rw [calc_ast, calc_ast, backOff_of_lt (by unfold resolved; unfold minuteUs at a₁; omega),
    backOff_of_lt (by unfold resolved; unfold minuteUs at a₂; omega)]
  exact hr

/-- `month` and `year` are stable over the **whole** UTC day, first minute included -/
theorem month_year_stable_all_day (now₁ now₂ : Int) (ref : Ref) (o : Options)
    (h₁ : 0 ≤ now₁) (h₂ : 0 ≤ now₂) (hday : now₁ / dayUs = now₂ / dayUs)
    (hs : o.start = .month ∨ o.start = .year) :
    (T now₁ ref o).availabilityStartTime = (T now₂ ref o).availabilityStartTime := by
  have hd : dayOf now₁ = dayOf now₂ := by unfold dayOf; rw [hday]
  have hds : dayStart now₁ = dayStart now₂ := by unfold dayStart; rw [hd]
  have hms : monthStart now₁ = monthStart now₂ := by unfold monthStart; rw [hd]
  have hys : yearStart now₁ = yearStart now₂ := by unfold yearStart; rw [hd]
  have hr : resolved now₁ o = resolved now₂ o := by
    unfold resolved
    rcases hs with hs | hs <;> rw [hs]
    · rw [resolve_month h₁, resolve_month h₂, hms, hds]
    · rw [resolve_year h₁, resolve_year h₂, hys, hds]
  have hsym : o.start.isSymbolic = true := by
    rcases hs with hs | hs <;> rw [hs] <;> rfl
  have hne : o.start = .epoch → False := by
    rcases hs with hs | hs <;> rw [hs] <;> intro x <;> cases x
  obtain ⟨a₁, _⟩ := resolve_symbolic h₁ o.start hsym (fun x => (hne x).elim)
  obtain ⟨a₂, _⟩ := resolve_symbolic h₂ o.start hsym (fun x => (hne x).elim)
  rw [calc_ast, calc_ast, backOff_of_lt (by unfold resolved; unfold minuteUs at a₁; omega),
    backOff_of_lt (by unfold resolved; unfold minuteUs at a₂; omega)]
  exact hr

/-- the day-aligned symbolic starts are midnights: a whole number of UTC days -/
theorem symbolic_midnight (now : Int) (ref : Ref) (o : Options) (h0 : 0 ≤ now)
    (hs : o.start = .today ∨ o.start = .month ∨ o.start = .year) :
    (T now ref o).availabilityStartTime % dayUs = 0 := by
  have hsym : o.start.isSymbolic = true := by
    rcases hs with hs | hs | hs <;> rw [hs] <;> rfl
  have hne : o.start = .epoch → False := by
    rcases hs with hs | hs | hs <;> rw [hs] <;> intro x <;> cases x
  obtain ⟨a, _⟩ := resolve_symbolic h0 o.start hsym (fun x => (hne x).elim)
  rw [calc_ast, backOff_of_lt (by unfold resolved; unfold minuteUs at a; omega)]
  unfold resolved
  rcases hs with hs | hs | hs <;> rw [hs]
  · rw [resolve_today h0]; unfold dayStart dayUs; split <;> omega
  · rw [resolve_month h0]; unfold monthStart dayUs; split <;> omega
  · rw [resolve_year h0]; unfold yearStart dayUs; split <;> omega

/-- **`now` follows the clock at a fixed 60 s distance** (from the clock
truncated to a whole second) -/
theorem now_follows_clock (now : Int) (ref : Ref) (o : Options) (hs : o.start = .now) :
    (T now ref o).availabilityStartTime = floorSec now - 60 * usPerSec := by
  have hlt : resolved now o < now := by
    unfold resolved; rw [hs]; simp only [resolveStart]
    have := floorSec_le now
    unfold defaultDepth usPerSec; omega
  rw [calc_ast, backOff_of_lt hlt]
  unfold resolved; rw [hs]; rfl

/-! ### The started guard: which requests are served at all -/

/-- **a manifest is served exactly for the accepted inputs**: `check_stream_has_started`
refuses (404) precisely the explicit starts whose availabilityStartTime – the start
truncated to a whole second – lies after `now`, compared on exact microseconds: one
microsecond ahead is refused, a start later in the *same* second as `now` is served (its
availabilityStartTime is not after `now`).  Every clause above therefore holds for every
response that is a 200. -/
theorem served_iff_accepted (now : Int) (ref : Ref) (o : Options) (h0 : 0 ≤ now) :
    serveLive now ref o = some (T now ref o) ↔ Accepted now o := by
  constructor
  · intro hs
    refine ⟨h0, ?_⟩
    intro t off ht
    have he : 0 ≤ (T now ref o).elapsedTime := by
      unfold serveLive started at hs
      by_cases hc : 0 ≤ (T now ref o).elapsedTime
      · exact hc
      · simp [hc] at hs
    rw [calc_elapsed] at he
    unfold resolved at he
    rw [ht] at he
    simp only [resolveStart, if_true, backOff] at he
    split at he
    · omega
    · simpa using he
  · intro h
    obtain ⟨_, _, _, h4⟩ := calc_core ref h.clock h.start_le_now
    unfold serveLive started
    simp [Int.le_of_lt h4]

/-- a request is either served with the model's timing or refused -/
theorem refused_iff_not_accepted (now : Int) (ref : Ref) (o : Options) (h0 : 0 ≤ now) :
    serveLive now ref o = none ↔ ¬ Accepted now o := by
  rw [← served_iff_accepted now ref o h0]
  unfold serveLive
  split <;> simp

/-! ### Along the chain manifest → Location / PatchLocation → next document -/

/-- the option vector a manifest hands on is itself an accepted input at every later clock, so
every theorem above holds for the followed document too -/
theorem handon_accepted (now₁ now₂ : Int) (ref : Ref) (o : Options) (h : Accepted now₁ o)
    (hle : now₁ ≤ now₂) : Accepted now₂ (handOn (T now₁ ref o) o) := by
  obtain ⟨h1, _, _, _⟩ := calc_core ref h.clock h.start_le_now
  refine ⟨Int.le_trans h.clock hle, ?_⟩
  intro t off ht
  simp only [handOn, Start.explicit.injEq] at ht
  have := floorSec_le t
  omega

/-- **the followed document describes the same stream**: same availabilityStartTime (whatever
roll-over of a symbolic start lies between the two clocks), the same minimumUpdatePeriod – present,
defaulted or disabled – and a publishTime that has not gone back -/
theorem handon_coherent (now₁ now₂ : Int) (ref : Ref) (o : Options) (h : Accepted now₁ o)
    (hle : now₁ ≤ now₂) :
    (followed now₁ now₂ ref o).availabilityStartTime = (T now₁ ref o).availabilityStartTime ∧
    (followed now₁ now₂ ref o).minimumUpdatePeriod = (T now₁ ref o).minimumUpdatePeriod ∧
    (T now₁ ref o).publishTime ≤ (followed now₁ now₂ ref o).publishTime := by
  obtain ⟨_, a2, a3, a4⟩ := calc_core ref h.clock h.start_le_now
  have hres : resolved now₂ (handOn (T now₁ ref o) o) = (T now₁ ref o).availabilityStartTime := by
    simp only [resolved, handOn, resolveStart, if_true]
    exact floorSec_of_whole _ a2
  have hlt : resolved now₂ (handOn (T now₁ ref o) o) < now₂ := by rw [hres]; omega
  have hast : (followed now₁ now₂ ref o).availabilityStartTime = (T now₁ ref o).availabilityStartTime := by
    unfold followed; rw [calc_ast, backOff_of_lt hlt]; exact hres
  have he : (followed now₁ now₂ ref o).elapsedTime = now₂ - (T now₁ ref o).availabilityStartTime := by
    unfold followed; rw [calc_elapsed, backOff_of_lt hlt]; simp only [hres]
  refine ⟨hast, rfl, ?_⟩
  have hp₂ : (followed now₁ now₂ ref o).publishTime =
      publish (floorSec now₂) (T now₁ ref o).availabilityStartTime
        (now₂ - (T now₁ ref o).availabilityStartTime) (effectiveMup true ref o.mup) := by
    have h0 : (followed now₁ now₂ ref o).publishTime =
        publish (floorSec now₂) (followed now₁ now₂ ref o).availabilityStartTime
          (followed now₁ now₂ ref o).elapsedTime (effectiveMup true ref o.mup) := rfl
    rw [h0, hast, he]
  rw [hp₂, calc_publish]
  cases hm : effectiveMup true ref o.mup with
  | none =>
    simp only [publish]
    exact floorSec_mono hle
  | some p =>
    have hp := effectiveMup_pos hm
    rw [publish_some_eq a2, publish_some_eq a2]
    have hee : (T now₁ ref o).elapsedTime ≤ now₂ - (T now₁ ref o).availabilityStartTime := by omega
    have := quant_mono hp hee
    omega

/-! ### Non-vacuity: concrete instances inside the hypotheses -/

/-- 2020-01-01T01:00:00.2Z -/
def exNow : Int := 18262 * 86400000000 + 3600200000
def exRef : Ref := ⟨960, 240⟩

example : Accepted exNow { start := .year } :=
  ⟨by decide, by intro t off h; cases h⟩

example : Accepted exNow { start := .explicit (exNow - 700000) 330, depth := some (-5) } :=
  ⟨by decide, by intro t off h; cases h; decide⟩

/-- 1 January: `year` backs off to 31 December of the previous year -/
example : T exNow exRef { start := .year } =
    { now := exNow, availabilityStartTime := 18261 * 86400000000, utcOffsetMin := 0,
      elapsedTime := 90000200000, timeShiftBufferDepth := 60, firstAvailableTime := 89940200000,
      publishTime := 18262 * 86400000000 + 3600000000, minimumUpdatePeriod := some 8,
      leeway := 0 } := by decide +kernel

/-- a fractional, offset start 0.7 s before `now`, negative depth, mup 7 s -/
example : T exNow exRef { start := .explicit (exNow - 700000) 330, depth := some (-5), mup := some 7,
                          leeway := some 16 } =
    { now := exNow, availabilityStartTime := exNow - 1200000, utcOffsetMin := 330,
      elapsedTime := 1200000, timeShiftBufferDepth := 1, firstAvailableTime := 200000,
      publishTime := exNow - 1200000, minimumUpdatePeriod := some 7,
      leeway := 16000000 } := by decide +kernel

/-- 29 February 2024, 00:00:59.999999Z: `today` is still yesterday, `month` is 1 February -/
example : (T (19782 * 86400000000 + 59999999) exRef { start := .today }).availabilityStartTime
    = 19781 * 86400000000 := by decide +kernel
example : (T (19782 * 86400000000 + 59999999) exRef { start := .month }).availabilityStartTime
    = 19754 * 86400000000 := by decide +kernel
/-- one microsecond later `today` is today -/
example : (T (19782 * 86400000000 + 60000000) exRef { start := .today }).availabilityStartTime
    = 19782 * 86400000000 := by decide +kernel

/-- 2024-02-29T12:00:00.5Z: a start half a second ahead (12:00:01Z) is refused, as is one 1 µs ahead
of the next whole second; a start later in the same second (12:00:00.7Z → availabilityStartTime
12:00:00Z) is served -/
example : serveLive (19782 * 86400000000 + 43200500000) exRef
    { start := .explicit (19782 * 86400000000 + 43201000000) 0 } = none := by decide +kernel
example : serveLive (19782 * 86400000000 + 43200999999) exRef
    { start := .explicit (19782 * 86400000000 + 43201000000) 0, mup := some (-1) } = none := by decide +kernel
example : (serveLive (19782 * 86400000000 + 43200500000) exRef
    { start := .explicit (19782 * 86400000000 + 43200700000) 0 }).isSome = true := by decide +kernel

/-! ### Recorded witnesses -/

/-- D7a (before `de52307`): `depth=-5` gave a negative timeShiftBufferDepth -/
example : (calcWith false exNow exRef
    { start := .explicit (18262 * 86400000000) 0, depth := some (-5) }).timeShiftBufferDepth = -5 := by
  decide +kernel

/-- D16 (before `7e99581`): `start=…00:59:59.5Z`, 0.7 s later: publishTime < availabilityStartTime -/
example : (calcWith false exNow exRef { start := .explicit (exNow - 700000) 0 }).publishTime <
    (calcWith false exNow exRef { start := .explicit (exNow - 700000) 0 }).availabilityStartTime := by
  decide +kernel

/-- D17 (before `abb50c2`): 0.1 s segments gave a default minimumUpdatePeriod of 0
(and `elapsed // 0` raised ZeroDivisionError) -/
example : defaultMup false ⟨10, 100⟩ = 0 := by decide

/-- non-vacuity of `symbolic_age_epoch_partial`: an ordinary clock is inside its hypothesis -/
example : minuteUs ≤ exNow := by decide

/-- `epoch_young`: the excluded point of `symbolic_age_epoch_partial` – 30 s after
the epoch the `epoch` stream is 30 s old -/
example : ¬ minuteUs ≤ (T 30000000 exRef { start := .epoch }).elapsedTime := by decide +kernel

/-- `publish_mono` really needs the same-start hypothesis: `start=today`, `mup=7`
at 00:00:59 (start = yesterday) and 00:01:00 (start = today) of 2020-01-01 -/
example : (T (18262 * 86400000000 + 60000000) exRef { start := .today, mup := some 7 }).publishTime <
    (T (18262 * 86400000000 + 59000000) exRef { start := .today, mup := some 7 }).publishTime := by
  decide +kernel

end DashLive.LiveTiming
