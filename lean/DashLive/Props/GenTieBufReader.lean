import DashLive.Gen.BufSeek
import DashLive.Model.BufReader
/-!
# Translated `BufferedReader.seek` = C20's model

`Gen/BufSeek.lean` is regenerated from /repo's source text on every run
(`harness/gen_bufreader.py`).  `tie_seek` proves the translated function equal to
`BufReader.seek` (new position = returned value) for the three `whence` constants; for any other
`whence` value the code leaves the position where it is and only clamps it (`tie_seek_other`).
-/
namespace DashLive.GenTie
open DashLive DashLive.BufReader

def whenceCode : Whence → Int
  | .set => 0
  | .cur => 1
  | .end_ => 2

theorem tie_seek (c : Cfg) (s : St) (off : Int) (w : Whence) :
    Gen.BufSeek.seek s.pos c.size off (whenceCode w) = ((seek c s off w).2 : Int)
    ∧ (seek c s off w).1.pos = (seek c s off w).2 := by
  unfold Gen.BufSeek.seek seek
  cases w <;> simp [whenceCode] <;> omega

theorem tie_seek_other (pos size off whence : Int) (h0 : whence ≠ 0) (h1 : whence ≠ 1) (h2 : whence ≠ 2) :
    Gen.BufSeek.seek pos size off whence = min (max 0 pos) size := by
  unfold Gen.BufSeek.seek
  simp [h0, h1, h2]

end DashLive.GenTie
