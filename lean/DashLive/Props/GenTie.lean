import DashLive.Gen.Arith
import DashLive.Model.Segments
import DashLive.Model.IsoText
import Mathlib.Tactic.Ring
/-!
# Translated arithmetic = hand-written model

`Gen/Arith.lean` is regenerated from /repo's source text on every run
(`harness/gen_arith.py`, Python `ast` → Lean).  Each theorem below states that a
translated definition equals the hand-written model function the property theorems
(C01, C02, C06, C09, C19) are about, for the non-negative values these functions receive.
If the source expression changes, either the equality is re-proved (harmless rewrite) or
this file stops building (a broken proof obligation, followed by the failing-input search).
-/
namespace DashLive.GenTie
open DashLive DashLive.Segments

theorem fdiv_cast (a b : Nat) : Int.fdiv (a : Int) (b : Int) = ((a / b : Nat) : Int) := by
  rw [Int.fdiv_eq_ediv_of_nonneg _ (Int.natCast_nonneg b)]
  exact (Int.natCast_ediv a b).symm

/-- `StreamTimingReference.media_duration_using_timescale` = `Segments.refDuration` -/
theorem tie_refDuration (refDur refTs ts : Nat) :
    Gen.Arith.mediaDurationUsingTimescale refDur refTs ts = (Segments.refDuration refDur refTs ts : Nat) := by
  unfold Gen.Arith.mediaDurationUsingTimescale Segments.refDuration
  -- robust against a reordering of the product in the source
  have h : ∀ x : Int, x = ((refDur * ts : Nat) : Int) → Int.fdiv x (refTs : Int) = ((refDur * ts / refTs : Nat) : Int) := by
    intro x hx; rw [hx, fdiv_cast]
  apply h
  push_cast
  ring

/-- `timecode_to_timedelta` = C19's model -/
theorem tie_timecodeToTimedelta (tc ts : Int) :
    Gen.Arith.timecodeToTimedeltaUs tc ts = IsoText.timecodeToTimedelta tc ts := rfl

/-- `timedelta_to_timecode` = C19's model (the timedelta given by its normalised fields) -/
theorem tie_timedeltaToTimecode (delta ts : Int) :
    Gen.Arith.timedeltaToTimecode (IsoText.tdDays delta) (IsoText.tdSeconds delta) (IsoText.tdMicros delta) ts
      = IsoText.timedeltaToTimecode delta ts := rfl

/-- `multiply_timedelta` = C19's model -/
theorem tie_multiplyTimedelta (delta num : Int) :
    Gen.Arith.multiplyTimedelta (IsoText.tdDays delta) (IsoText.tdSeconds delta) (IsoText.tdMicros delta) num
      = IsoText.multiplyTimedelta delta num := by
  unfold Gen.Arith.multiplyTimedelta IsoText.multiplyTimedelta
  simp only

/-- `timedelta_to_timecode` = `Segments.tdToTc` (the model C01/C09 use for the timecode of
firstAvailableTime), for a non-negative delta of `us` microseconds -/
theorem tie_tdToTc (us ts : Nat) :
    Gen.Arith.timedeltaToTimecode ((us / 86400000000 : Nat) : Int)
      ((us % 86400000000 / 1000000 : Nat) : Int) ((us % 86400000000 % 1000000 : Nat) : Int) ts
      = (Segments.tdToTc us ts : Nat) := by
  unfold Gen.Arith.timedeltaToTimecode Segments.tdToTc
  dsimp only
  have h := fdiv_cast (ts * (us % 86400000000 % 1000000)) 1000000
  rw [Int.natCast_mul] at h
  have hlit : ((1000000 : Nat) : Int) = (1000000 : Int) := rfl
  rw [hlit] at h
  rw [h, Int.natCast_add, Int.natCast_add, Int.natCast_mul, Int.natCast_mul, Int.natCast_mul]
  rfl

/-- VOD first/last number = `Segments.firstLastVod` -/
theorem tie_vodFirstLast (n sn : Nat) :
    Gen.Arith.vodFirstLast sn n = Segments.firstLastVod n sn := by
  unfold Gen.Arith.vodFirstLast Segments.firstLastVod
  rfl

/-- VOD `$Time$` → (segment number, stored segment, origin) = what `Segments.vodIndex` computes -/
theorem tie_vodTimeToSegment (t sd sn : Nat) :
    Gen.Arith.vodTimeToSegment t sn sd
      = ((((t + sd / 4) / sd : Nat) : Int) + sn, (((t + sd / 4) / sd : Nat) : Int) + 1, 0) := by
  unfold Gen.Arith.vodTimeToSegment
  simp only
  have h1 : Int.fdiv (sd : Int) (4 : Int) = ((sd / 4 : Nat) : Int) := fdiv_cast sd 4
  have h2 : Int.fdiv ((t : Int) + ((sd / 4 : Nat) : Int)) (sd : Int) = (((t + sd / 4) / sd : Nat) : Int) := by
    have := fdiv_cast (t + sd / 4) sd
    rwa [Int.natCast_add] at this
  rw [h1, h2]
  refine Prod.ext rfl (Prod.ext ?_ rfl)
  simp only
  omega

/-- … and `vodIndex` uses exactly those values -/
theorem vodIndex_uses_tie (n sd sn t : Nat)
    (hin : ¬ ((((t + sd / 4) / sd : Nat) : Int) + sn < (sn : Int) ∨
              (((t + sd / 4) / sd : Nat) : Int) + sn > (n : Int) + sn - 1)) :
    Segments.vodIndex n sd sn (.time t)
      = .ok ((Gen.Arith.vodTimeToSegment t sn sd).2.1).toNat 0 (Gen.Arith.vodTimeToSegment t sn sd).1 := by
  rw [tie_vodTimeToSegment]
  unfold Segments.vodIndex Segments.firstLastVod
  simp only [hin, if_false]
  congr 1
  omega

/-! ### the translated `while` loop of `get_segment_index` -/

/-- the list lookup `self.segments[i].duration` (1-based `i`) as the model's `durAt` -/
def segDurOf (durs : List Nat) : Int → Int := fun i => ((durAt durs (i - 1).toNat : Nat) : Int)

theorem segDurOf_succ (durs : List Nat) (m : Nat) : segDurOf durs ((m : Int) + 1) = (durAt durs m : Nat) := by
  unfold segDurOf
  have : ((m : Int) + 1 - 1).toNat = m := by omega
  rw [this]

theorem tie_gsiLoop (durs : List Nat) (R tc : Nat) :
    ∀ (fuel m s o : Nat),
      Gen.Arith.getSegmentIndex_while1 (segDurOf durs) (timecode := tc) (ref_duration_tc := R)
          (num_media_segments := durs.length) fuel (s : Int) ((m : Int) + 1) (o : Int)
        = ((((gsiLoop durs R tc fuel m s o).2.1 : Nat) : Int), (((gsiLoop durs R tc fuel m s o).1 : Nat) : Int) + 1,
           (((gsiLoop durs R tc fuel m s o).2.2 : Nat) : Int)) := by
  intro fuel
  induction fuel with
  | zero => intro m s o; rfl
  | succ f ih =>
    intro m s o
    unfold Gen.Arith.getSegmentIndex_while1 gsiLoop
    rw [segDurOf_succ]
    have hc : (((s : Int) + Int.fdiv ((durAt durs m : Nat) : Int) (2 : Int)) < (tc : Int)) ↔ (s + durAt durs m / 2 < tc) := by
      have := fdiv_cast (durAt durs m) 2
      have h2 : ((2 : Nat) : Int) = (2 : Int) := rfl
      rw [h2] at this
      rw [this]; omega
    by_cases h : s + durAt durs m / 2 < tc
    · rw [if_pos (hc.mpr h), if_pos h]
      dsimp only
      by_cases hw : m + 1 ≥ durs.length
      · have hw' : ((m : Int) + 1 + 1 > (durs.length : Int)) := by omega
        rw [if_pos hw', if_pos hw', if_pos hw', if_pos hw]
        have := ih 0 (o + R) (o + R)
        simp only [Int.natCast_add, Int.natCast_zero, Int.zero_add] at this
        exact this
      · have hw' : ¬ ((m : Int) + 1 + 1 > (durs.length : Int)) := by omega
        rw [if_neg hw', if_neg hw', if_neg hw', if_neg hw]
        have := ih (m + 1) (s + durAt durs m) o
        simp only [Int.natCast_add, Int.natCast_one] at this
        exact this
    · rw [if_neg (fun hh => h (hc.mp hh)), if_neg h]

/-- `Representation.get_segment_index` as translated from the source = the model every C01/C02/C06/C09
theorem is about (`Segments.getSegmentIndex`), with the loop bound the model uses -/
theorem tie_getSegmentIndex (durs : List Nat) (refDur refTs ts tc : Nat) :
    Gen.Arith.getSegmentIndex (segDurOf durs) refDur refTs ts durs.length tc (durs.length + 1)
      = ((((Segments.getSegmentIndex durs (refDuration refDur refTs ts) tc).1 : Nat) : Int),
         (((Segments.getSegmentIndex durs (refDuration refDur refTs ts) tc).2.1 : Nat) : Int),
         (((Segments.getSegmentIndex durs (refDuration refDur refTs ts) tc).2.2 : Nat) : Int)) := by
  unfold Gen.Arith.getSegmentIndex Segments.getSegmentIndex
  dsimp only
  rw [tie_refDuration]
  generalize refDuration refDur refTs ts = R
  rw [fdiv_cast, ← Int.natCast_mul]
  have h := tie_gsiLoop durs R tc (durs.length + 1) 0 (tc / R * R) (tc / R * R)
  simp only [Int.natCast_zero, Int.zero_add] at h
  rw [h]
  simp only [Int.natCast_add, Int.natCast_one]

end DashLive.GenTie
