import DashLive.Props.C01
import DashLive.Props.C02
import DashLive.Props.C06
import DashLive.Props.C09
import DashLive.Props.GenTieTimeline
import DashLive.Props.GenTieLiveIndex
/-!
# The property theorems restated about the definitions regenerated from the source

`Gen/Arith.lean`, `Gen/Timeline.lean` and `Gen/LiveIndex.lean` are rewritten from /repo's source
text on every run.  The theorems of C01, C02 and C06 are proved about the hand-written model in
`Model/Segments.lean`; the tie theorems (`Props/GenTie*.lean`) prove the translated definitions
equal to that model.  Here the two are composed, so that the statement the Lean kernel accepts
mentions *only* translated definitions (plus the float conversions, which are parameters):
what the translated `generateSegmentTimeline` lists, the translated request handler serves.
-/
open DashLive DashLive.Segments DashLive.GenTie
namespace DashLive.Generated
open Gen.Timeline

/-- the SegmentTimeline a live manifest carries, computed by the *translated* code: the live
branch of `generateSegmentTimeline` (`timeline_start = timedelta_to_timecode(firstAvailableTime)`,
the translated `get_segment_index`, `drift`, `end`) followed by the translated loop -/
def liveTimelineG (durs : List Nat) (refDur refTs ts : Nat) (w : Win) (fuel : Nat) : List (Int × Int) :=
  let us := w.E - w.tsbd * 1000000      -- firstAvailableTime in µs, as timedelta fields below
  let timeline_start := Gen.Arith.timedeltaToTimecode ((us / 86400000000 : Nat) : Int)
    ((us % 86400000000 / 1000000 : Nat) : Int) ((us % 86400000000 % 1000000 : Nat) : Int) ts
  let g := Gen.Arith.getSegmentIndex (segDurOf durs) refDur refTs ts durs.length timeline_start (durs.length + 1)
  expand ((generateSegmentTimeline_tail (segDurOf durs) (seg_start_time := g.2.1) (mod_segment := g.1)
    (drift := Gen.Arith.mediaDurationUsingTimescale refDur refTs ts - ((durs.sum : Nat) : Int))
    (end_ := (w.tsbd : Int) * (ts : Int)) (num_media_segments := durs.length) fuel).map conv)

theorem liveTimelineG_eq (durs : List Nat) (refDur refTs ts : Nat) (w : Win) (fuel : Nat) :
    liveTimelineG durs refDur refTs ts w fuel
      = expand (timelineLive durs (refDuration refDur refTs ts) ts (tcFirst w ts) w.tsbd fuel) := by
  unfold liveTimelineG
  have := tie_timelineLive durs refDur refTs ts (tcFirst w ts) w.tsbd fuel
  simp only at this
  dsimp only
  rw [tie_tdToTc]
  unfold tcFirst at this ⊢
  rw [this]

/-- the media handler's answer to a live `$Time$` request, computed by the translated code -/
def serveTimeG (convM : Nat → Int) (durs : List Nat) (ts sd sn refDur refTs : Nat) (w : Win) (t : Int) :
    Option (Int × Int × Int) :=
  Gen.LiveIndex.liveIndexTime (fun x => convM x.toNat) (segDurOf durs) sn ts sd durs.length w.E w.F w.leeway w.tsbd
    (scaleTd w.E ts sd) refDur refTs (durs.length + 1) t

def serveNumberG (convM : Nat → Int) (durs : List Nat) (ts sd sn refDur refTs : Nat) (w : Win) (n : Int) :
    Option (Int × Int × Int) :=
  Gen.LiveIndex.liveIndexNumber (fun x => convM x.toNat) (segDurOf durs) sn ts sd durs.length w.E w.F w.leeway w.tsbd
    (scaleTd w.E ts sd) refDur refTs (durs.length + 1) n

/-- **C01 (`$Time$`) about the translated code**: every entry `(t, d)` the translated
`generateSegmentTimeline` lists whose end is not later than now is answered (not 404) by the
translated handler at the same instant. -/
theorem C01_time_generated (convM : Nat → Int) (durs : List Nat) (ts sd sn refDur refTs : Nat) (w : Win) (fuel : Nat)
    (hn : 2 ≤ durs.length) (hR : 0 < refDuration refDur refTs ts) (hts : 0 < ts) (hsd : 0 < sd)
    (hw : w.tsbd * 1000000 ≤ w.E) (hconv : ConvSpec convM ts)
    (hadv : AdvMicro durs (refDuration refDur refTs ts) ts) (hlee : LeewayTime durs ts w) (hhalf : HalfSeg durs sd) :
    ∀ e ∈ liveTimelineG durs refDur refTs ts w fuel, (e.1 + e.2) * 1000000 ≤ (w.E : Int) * ts →
      (serveTimeG convM durs ts sd sn refDur refTs w (e.1.toNat : Nat)).isSome := by
  intro e he hend
  rw [liveTimelineG_eq] at he
  obtain ⟨i, hi, rfl⟩ := List.getElem_of_mem he
  obtain ⟨m, o, k, hk⟩ := C01_time_partial convM durs ts sd sn (refDuration refDur refTs ts) w fuel hn hR hts hsd hw
    hconv hadv hlee hhalf i hi hend
  unfold serveTimeG
  rw [tie_liveIndexTime, hk]
  rfl

/-- **C01 (`$Number$`) about the translated code** -/
theorem C01_number_generated (convM : Nat → Int) (durs : List Nat) (ts sd sn refDur refTs : Nat) (w : Win) (k : Nat)
    (hn : 2 ≤ durs.length) (hts : 0 < ts) (hsd : 0 < sd)
    (hw : w.tsbd * 1000000 ≤ w.E) (hconv : ConvSpec convM ts)
    (hlee : LeewayNumber ts sd w) (hmicro : ts ≤ sd * 1000000)
    (hstart : (k + 1) * sd * 1000000 ≤ w.E * ts)
    (hendw : w.E * ts ≤ (k + 2) * sd * 1000000 + w.tsbd * 1000000 * ts) :
    ∃ m o, serveNumberG convM durs ts sd sn refDur refTs w ((sn : Int) + k) = some (m, o, (sn : Int) + k) := by
  obtain ⟨m, o, h⟩ := C01_number_partial convM durs ts sd sn (refDuration refDur refTs ts) w k hn hts hsd hw hconv
    hlee hmicro hstart hendw
  refine ⟨m, o, ?_⟩
  unfold serveNumberG
  rw [tie_liveIndexNumber, h]
  rfl

theorem liveTimelineG_eq_entries (durs : List Nat) (refDur refTs ts : Nat) (w : Win) (fuel : Nat) :
    liveTimelineG durs refDur refTs ts w fuel = liveEntries durs (refDuration refDur refTs ts) ts w fuel := by
  rw [liveTimelineG_eq]; rfl

/-- **C09 (agreement) about the translated code**: two live manifests of the same stream – any two
clocks, any depths – agree on every segment they both list -/
theorem C09_shared_entries_generated (durs : List Nat) (refDur refTs ts : Nat) (w₁ w₂ : Win) (f₁ f₂ : Nat)
    (hn : 0 < durs.length) (hpos : AdvPositive durs (refDuration refDur refTs ts)) :
    ∀ e₁ ∈ liveTimelineG durs refDur refTs ts w₁ f₁, ∀ e₂ ∈ liveTimelineG durs refDur refTs ts w₂ f₂,
      e₁.1 = e₂.1 → e₁ = e₂ := by
  intro e₁ h₁ e₂ h₂ heq
  rw [liveTimelineG_eq_entries] at h₁ h₂
  obtain ⟨i, hi, rfl⟩ := List.getElem_of_mem h₁
  obtain ⟨j, hj, rfl⟩ := List.getElem_of_mem h₂
  exact C09_shared_entries_equal durs _ ts w₁ w₂ f₁ f₂ hn hpos i j hi hj heq

/-- **C09 (the window only moves forward) about the translated code**: when firstAvailableTime of
the second request is not before that of the first, the first entry the later manifest lists does
not start before the first entry of the earlier one -/
theorem C09_window_start_generated (durs : List Nat) (refDur refTs ts : Nat) (w₁ w₂ : Win) (f₁ f₂ : Nat)
    (hn : 0 < durs.length) (hR : 0 < refDuration refDur refTs ts)
    (hpos : AdvPositive durs (refDuration refDur refTs ts))
    (hF : w₁.E - w₁.tsbd * 1000000 ≤ w₂.E - w₂.tsbd * 1000000)
    (h1 : 0 < (liveTimelineG durs refDur refTs ts w₁ f₁).length)
    (h2 : 0 < (liveTimelineG durs refDur refTs ts w₂ f₂).length) :
    ((liveTimelineG durs refDur refTs ts w₁ f₁)[0]'h1).1 ≤ ((liveTimelineG durs refDur refTs ts w₂ f₂)[0]'h2).1 := by
  have e1 := liveTimelineG_eq durs refDur refTs ts w₁ f₁
  have e2 := liveTimelineG_eq durs refDur refTs ts w₂ f₂
  have g1 := (C02_gapless durs (refDuration refDur refTs ts) ts (tcFirst w₁ ts) w₁.tsbd f₁ hn hpos).2 0 (by rw [← e1]; exact h1)
  have g2 := (C02_gapless durs (refDuration refDur refTs ts) ts (tcFirst w₂ ts) w₂.tsbd f₂ hn hpos).2 0 (by rw [← e2]; exact h2)
  have hidx := C09_window_start_forward durs (refDuration refDur refTs ts) ts w₁ w₂ hR hn hF
  have hmono := startG_le_of_le durs (refDuration refDur refTs ts) hn
    (fun g => Int.le_of_lt (advPositive_durG' hn hpos g)) hidx
  simp only [e1, e2, g1, g2, Nat.add_zero]
  exact_mod_cast hmono

/-- **C02 (`$Time$` resolves) about the translated `get_segment_index`** -/
theorem C02_time_resolves_generated (durs : List Nat) (refDur refTs ts g : Nat) (hn : 0 < durs.length)
    (h1 : StartsInsideLoop durs (refDuration refDur refTs ts)) (h2 : PositiveDurs durs) :
    Gen.Arith.getSegmentIndex (segDurOf durs) refDur refTs ts durs.length
        (startG durs (refDuration refDur refTs ts) g) (durs.length + 1)
      = (((g % durs.length + 1 : Nat) : Int), ((startG durs (refDuration refDur refTs ts) g : Nat) : Int),
         ((g / durs.length * refDuration refDur refTs ts : Nat) : Int)) := by
  rw [tie_getSegmentIndex, C02_time_resolves durs _ g hn h1 h2]

/-- **C06 (VOD timeline) about the translated code**: the static SegmentTimeline lists every
stored segment once, from 0, nothing after the last -/
theorem C06_timeline_generated (durs : List Nat) (fuel : Nat) (hn : 0 < durs.length)
    (hpos : ∀ m, m < durs.length → 1 ≤ durAt durs m) (hf : durs.length ≤ fuel) :
    expand ((generateSegmentTimelineVod (segDurOf durs) (mediaDuration := ((durs.sum : Nat) : Int))
        (num_media_segments := durs.length) fuel).map conv)
      = (List.range' 0 durs.length).map (fun i => ((prefixSum durs i : Int), (durAt durs i : Int))) := by
  rw [tie_timelineVod, vod_timeline_exact durs fuel hn hpos hf]

/-- **C06 (VOD numbers) about the translated handler**: `sn … sn+n−1` are served from stored
segments `1 … n`; the next one is refused -/
theorem C06_numbers_generated (conv' segDur : Int → Int) (n sd sn j : Nat) (ts E F l tsbd scaled rmd rts : Int) (fuel : Nat) :
    (j < n → Gen.LiveIndex.vodIndexNumber conv' segDur sn ts sd n E F l tsbd scaled rmd rts fuel ((sn : Int) + j)
        = some (((j + 1 : Nat) : Int), 0, (sn : Int) + j)) ∧
    Gen.LiveIndex.vodIndexNumber conv' segDur sn ts sd n E F l tsbd scaled rmd rts fuel ((sn : Int) + n) = none := by
  obtain ⟨h1, h2⟩ := vod_numbers_enumerated n sd sn j
  constructor
  · intro hj
    rw [tie_vodIndexNumber, h1 hj]; rfl
  · rw [tie_vodIndexNumber, h2]; rfl

/-- **C06 (VOD `$Time$`) about the translated handler** (same regularity hypothesis as `vod_time_partial`) -/
theorem C06_time_generated (conv' segDur : Int → Int) (durs : List Nat) (sd sn k : Nat) (hk : k < durs.length)
    (hreg : k * sd ≤ prefixSum durs k + sd / 4 ∧ prefixSum durs k + sd / 4 < (k + 1) * sd)
    (ts E F l tsbd scaled rmd rts : Int) (fuel : Nat) :
    Gen.LiveIndex.vodIndexTime conv' segDur sn ts sd durs.length E F l tsbd scaled rmd rts fuel (prefixSum durs k : Nat)
      = some (((k + 1 : Nat) : Int), 0, (k : Int) + sn) := by
  rw [tie_vodIndexTime, vod_time_partial durs sd sn k hk hreg]; rfl

end DashLive.Generated
