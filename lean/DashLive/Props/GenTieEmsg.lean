import DashLive.Gen.Emsg
import DashLive.Props.C14
/-!
# Translated `create_emsg_boxes` = C14's model

`Gen/Emsg.lean` is regenerated from /repo's source text on every run (`harness/gen_emsg.py`,
Python `ast` → Lean): the integer fields of `EventMessageBox(**kwargs)`, the
`while presentation_time < seg_end` loop with its `continue` and two `break`s (Boolean control
variables `brk_` / `skip_`, guarded assignments) and the function itself
(`raise ValueError` → `none`, the two `return []` after the guards → early returns).

* `loop_brk` – once the `break` flag is set the translated loop returns its state unchanged;
* `tie_loop` – simulation: whenever the model loop `Events.emsgLoop` (no explicit flag: it simply
  returns) yields the events `l`, the translated loop started with `brk_ = false` ends with
  `retval ++ l.map boxOf` (induction on the fuel, generalising `event_id`, `presentation_time`,
  `retval`; case analysis on the first `break`, the `continue`, the second `break`);
* `tie_emsgEvents`, `tie_createEmsg` – the translated function = `Events.emsgEvents` /
  `Events.createEmsg` with the fuel `emsgFuel` (`emsg_terminates`, `emsg_no_assertion` rule out the
  model's `outOfFuel` / `assertionError`, which have no counterpart in the translated code:
  `assert` is not translated and an exhausted fuel would return the partial list);
* `gen_segment_exact`, `gen_exactly_once` – C14's headline theorems about the *translated*
  definition.

A change of `create_emsg_boxes` that alters what it computes changes `Gen/Emsg.lean` and breaks one
of these proofs (→ failing-input search), without anyone touching the hand-written model.
-/
open DashLive DashLive.Events
namespace DashLive.GenTie
open Gen.Emsg
set_option linter.unusedSimpArgs false

/-- the `EventMessageBox(**kwargs)` the translated code builds for event `(id, time)` -/
def boxOf (s : Sched) (a : Int) (e : Ev) : EventMessageBox :=
  { version := s.version, flags := 0, timescale := s.timescale, event_duration := s.duration,
    event_id := e.id,
    presentation_time_delta := if s.version = 0 then some (e.pt - a) else none,
    presentation_time := if s.version = 0 then none else some e.pt }

/-- translated box → the model's `Emsg` (which has no `flags`: it is the constant 0) -/
def toEmsg (b : EventMessageBox) : Emsg :=
  { version := b.version, timescale := b.timescale, eventDuration := b.event_duration,
    eventId := b.event_id, delta := b.presentation_time_delta, pt := b.presentation_time }

theorem toEmsg_boxOf (s : Sched) (a : Int) (e : Ev) : toEmsg (boxOf s a e) = mkEmsg s a e := rfl

/-- once the `break` flag is set the translated loop returns its state unchanged -/
theorem loop_brk (segDur : Int → Int) (b a i c v d t : Int) :
    ∀ (fuel : Nat) (id pt : Int) (rv : List EventMessageBox),
      createEmsgBoxes_while1 segDur (seg_end := b) (seg_start := a) (interval := i) (count := c)
        (version := v) (duration := d) (ev_timescale := t) fuel true id pt rv = (true, id, pt, rv) := by
  intro fuel id pt rv
  cases fuel with
  | zero => rfl
  | succ f => unfold createEmsgBoxes_while1; simp

theorem tie_loop (segDur : Int → Int) (s : Sched) (a b : Int) :
    ∀ (fuel : Nat) (id pt : Int) (rv : List EventMessageBox) (l : List Ev),
      emsgLoop s a b fuel id pt = some l →
      (createEmsgBoxes_while1 segDur (seg_end := b) (seg_start := a) (interval := s.interval)
        (count := s.count) (version := s.version) (duration := s.duration) (ev_timescale := s.timescale)
        fuel false id pt rv).2.2.2 = rv ++ l.map (boxOf s a) := by
  intro fuel
  induction fuel with
  | zero => intro id pt rv l h; simp [emsgLoop] at h
  | succ f ih =>
    intro id pt rv l h
    unfold emsgLoop at h
    unfold createEmsgBoxes_while1
    have e0 : ((false = false) ∧ pt < b) ↔ pt < b := by simp
    by_cases h1 : pt < b
    · simp only [h1, not_true_eq_false, if_false] at h
      by_cases hc : s.count > 0
      · by_cases hg : id ≥ s.count
        · -- first `break`
          simp only [hc, hg, and_self, if_true] at h
          injection h with h; subst h
          simp only [e0, h1, hc, hg, and_self, if_true, if_false, ite_self, loop_brk, List.map_nil,
            List.append_nil]
        · simp only [hc, hg, and_false, if_false] at h
          by_cases h3 : pt < a
          · -- `continue`
            simp only [h3, if_true] at h
            have := ih (id + 1) (pt + s.interval) rv l h
            simp only [e0, h1, hc, hg, h3, and_false, true_and, if_true, if_false, Bool.false_eq_true, ite_self]
            exact this
          · simp only [h3, if_false] at h
            by_cases hg1 : id + 1 ≥ s.count
            · -- emit, second `break`
              simp only [hc, hg1, and_self, if_true] at h
              injection h with h; subst h
              simp only [e0, h1, hc, hg, hg1, h3, and_false, true_and, and_self, if_true, if_false,
                Bool.false_eq_true, loop_brk, List.map_cons, List.map_nil, boxOf]
            · -- emit, go on
              simp only [hc, hg1, and_false, if_false] at h
              cases hr : emsgLoop s a b f (id + 1) (pt + s.interval) with
              | none => rw [hr] at h; simp at h
              | some l' =>
                rw [hr] at h; simp only [Option.map_some] at h
                injection h with h; subst h
                have := ih (id + 1) (pt + s.interval) (rv ++ [boxOf s a ⟨id, pt⟩]) l' hr
                simp only [e0, h1, hc, hg, hg1, h3, and_false, true_and, if_true, if_false, Bool.false_eq_true,
                  List.map_cons, List.append_assoc, List.singleton_append, boxOf] at this ⊢
                exact this
      · -- unbounded schedule: neither `break` can fire
        simp only [hc, false_and, if_false] at h
        by_cases h3 : pt < a
        · simp only [h3, if_true] at h
          have := ih (id + 1) (pt + s.interval) rv l h
          simp only [e0, h1, hc, h3, false_and, if_true, if_false, Bool.false_eq_true, ite_self]
          exact this
        · simp only [h3, if_false] at h
          cases hr : emsgLoop s a b f (id + 1) (pt + s.interval) with
          | none => rw [hr] at h; simp at h
          | some l' =>
            rw [hr] at h; simp only [Option.map_some] at h
            injection h with h; subst h
            have := ih (id + 1) (pt + s.interval) (rv ++ [boxOf s a ⟨id, pt⟩]) l' hr
            simp only [e0, h1, hc, h3, false_and, if_true, if_false, Bool.false_eq_true,
              List.map_cons, List.append_assoc, List.singleton_append, boxOf] at this ⊢
            exact this
    · simp only [h1, not_false_eq_true, if_true] at h
      injection h with h; subst h
      simp only [h1, and_false, if_false, List.map_nil, List.append_nil]

/-- what the request handler gets from the translated function, in the vocabulary of the model -/
def resOf : Option (List EventMessageBox) → Res (List Emsg)
  | none => .valueError
  | some l => .ok (l.map toEmsg)

/-- the translated function in terms of the model's event list (`emsgEvents`) -/
def boxesOf (s : Sched) (a : Int) : Res (List Ev) → Option (List EventMessageBox)
  | .ok l => some (l.map (boxOf s a))
  | _ => none

/-- **the translated `create_emsg_boxes` computes the model's events** (in-band), with the fuel
`emsgFuel` that `emsg_terminates` shows sufficient: the same `(event_id, presentation_time)` list
turned into boxes, `none` (`ValueError`) on exactly the inputs the model refuses -/
theorem tie_emsgEvents (s : Sched) (hin : s.inband = true) (repTs : Int) (g : Seg) :
    createEmsgBoxes g.tfdt g.dur repTs s.interval s.timescale s.start s.count s.version s.duration
        maxEventsPerSegment (emsgFuel s (segEnd s repTs g)) =
      boxesOf s (segStart s repTs g)
        (emsgEvents s (segStart s repTs g) (segEnd s repTs g) (emsgFuel s (segEnd s repTs g))) := by
  have hne := emsg_terminates s repTs g
  have hna := emsg_no_assertion s repTs g
  have eA : Int.fdiv (g.tfdt * s.timescale) repTs = segStart s repTs g := rfl
  have eB : Int.fdiv ((g.tfdt + g.dur) * s.timescale) repTs = segEnd s repTs g := rfl
  have ep : ∀ x y : Int, Int.fdiv x y = pydiv x y := fun _ _ => rfl
  unfold createEmsg at hne hna
  unfold emsgEvents at hne hna ⊢
  simp only [createEmsgBoxes, eA, eB, ep] at hne hna ⊢
  simp only [hin, Bool.not_true, Bool.false_eq_true, if_false] at hne hna ⊢
  by_cases hi : s.interval < 1
  · simp only [hi, true_or, if_true, boxesOf]
  · simp only [hi, false_or, if_false] at hne hna ⊢
    by_cases hm : pydiv (segEnd s repTs g - segStart s repTs g) s.interval > maxEventsPerSegment
    · simp only [hm, if_true, boxesOf]
    · simp only [hm, if_false] at hne hna ⊢
      by_cases h1 : s.start ≥ segEnd s repTs g
      · simp only [h1, if_true, boxesOf, List.map_nil]
      · simp only [h1, if_false] at hne hna ⊢
        by_cases h2 : s.count > 0 ∧ s.start + s.count * s.interval < segStart s repTs g
        · simp only [h2, and_self, if_true, boxesOf, List.map_nil]
        · simp only [h2, if_false] at hne hna ⊢
          generalize he : (if segStart s repTs g > s.start then pydiv (segStart s repTs g - s.start) s.interval else 0) = e0 at hne hna ⊢
          by_cases hneg : e0 < 0
          · simp only [hneg, if_true] at hna; exact absurd rfl hna
          · simp only [hneg, if_false] at hne hna ⊢
            cases hl : emsgLoop s (segStart s repTs g) (segEnd s repTs g) (emsgFuel s (segEnd s repTs g)) e0 (s.start + e0 * s.interval) with
            | none => rw [hl] at hne; exact absurd rfl hne
            | some l =>
              have ht := tie_loop (fun _ => (0 : Int)) s (segStart s repTs g) (segEnd s repTs g) (emsgFuel s (segEnd s repTs g)) e0 (s.start + e0 * s.interval) [] l hl
              simp only [boxesOf, ht, List.nil_append]

/-- **the translated `create_emsg_boxes` is the model `createEmsg`**: same boxes, `ValueError` on
the same inputs (the model's `assertionError` / `outOfFuel` never occur – `emsg_no_assertion`,
`emsg_terminates`) -/
theorem tie_createEmsg (s : Sched) (hin : s.inband = true) (repTs : Int) (g : Seg) :
    createEmsg s repTs g =
      resOf (createEmsgBoxes g.tfdt g.dur repTs s.interval s.timescale s.start s.count s.version s.duration
        maxEventsPerSegment (emsgFuel s (segEnd s repTs g))) := by
  have hne := emsg_terminates s repTs g
  have hna := emsg_no_assertion s repTs g
  rw [tie_emsgEvents s hin]
  unfold createEmsg at hne hna ⊢
  dsimp only at hne hna ⊢
  cases he : emsgEvents s (segStart s repTs g) (segEnd s repTs g) (emsgFuel s (segEnd s repTs g)) with
  | ok l =>
    simp only [boxesOf, resOf, List.map_map]
    congr 1
  | valueError => rfl
  | assertionError => rw [he] at hna; exact absurd rfl hna
  | outOfFuel => rw [he] at hne; exact absurd rfl hne

/-- out-of-band: no boxes, in the model and in the translated function -/
theorem tie_createEmsg_oob (s : Sched) (hin : s.inband = false) (repTs : Int) (g : Seg) :
    createEmsg s repTs g = .ok (createEmsgBoxesOob.map toEmsg) := by
  simp [createEmsg, emsgEvents, hin, createEmsgBoxesOob]

/-! ### C14's headline theorems restated about the translated definition -/

/-- **the translated function returns exactly the scheduled events of the segment**
(`emsg_segment_exact` composed with the tie) -/
theorem gen_segment_exact (s : Sched) (hin : s.inband = true) (hi : 0 < s.interval) (repTs : Int) (g : Seg)
    (hmax : (segEnd s repTs g - segStart s repTs g) / s.interval ≤ maxEventsPerSegment) :
    createEmsgBoxes g.tfdt g.dur repTs s.interval s.timescale s.start s.count s.version s.duration
        maxEventsPerSegment (emsgFuel s (segEnd s repTs g)) =
      some ((scheduled s (segStart s repTs g) (segEnd s repTs g)).map (boxOf s (segStart s repTs g))) := by
  rw [tie_emsgEvents s hin, emsgEvents_spec s hin hi _ _ hmax _ (Nat.le_refl _)]
  rfl

/-- event ids carried by a run of requests answered by the translated function -/
def genRunIds (s : Sched) (repTs : Int) (segs : List Seg) : List Int :=
  segs.flatMap fun g =>
    ((createEmsgBoxes g.tfdt g.dur repTs s.interval s.timescale s.start s.count s.version s.duration
        maxEventsPerSegment (emsgFuel s (segEnd s repTs g))).getD []).map (·.event_id)

/-- **exactly once, for the translated function** (`emsg_exactly_once` composed with the tie):
over a contiguous run the translated `create_emsg_boxes` delivers the ids of the scheduled events
of `[A₀, B_last)`, each once, in order -/
theorem gen_exactly_once (s : Sched) (hin : s.inband = true) (hi : 0 < s.interval) (repTs : Int)
    (g : Seg) (rest : List Seg) (hc : Contiguous s repTs (g :: rest))
    (hmax : ∀ x ∈ g :: rest, (segEnd s repTs x - segStart s repTs x) / s.interval ≤ maxEventsPerSegment) :
    genRunIds s repTs (g :: rest) =
      (scheduled s (segStart s repTs g) (runEnd s repTs g rest)).map (·.id) := by
  rw [← emsg_exactly_once s hi repTs g rest hc]
  unfold genRunIds runEvents
  generalize g :: rest = segs at hmax
  induction segs with
  | nil => rfl
  | cons x xs ih =>
    rw [List.flatMap_cons, List.flatMap_cons, List.map_append,
      gen_segment_exact s hin hi repTs x (hmax x List.mem_cons_self),
      ih (fun y hy => hmax y (List.mem_cons_of_mem _ hy))]
    simp only [Option.getD_some, List.map_map]
    rfl

end DashLive.GenTie
