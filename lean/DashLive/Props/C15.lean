import DashLive.Lemmas.Csrf
import DashLive.Gen.Routes
/-!
# C15 – only authorised roles can change persistent state

Property theorems only (helper lemmas: `Lemmas/Csrf.lean`).

*Authorisation part.*  `DashLive.Gen.Routes.table` is regenerated from the source on
every run (`harness/gen_routes.py`); the theorems below are therefore statements about
the handlers and decorator lists that exist **now**.  Quantification: every row of the
table (every route × HTTP method), every role, every request (`Request` is a product
of seven Booleans and is enumerated completely – `mem_allRequests`).

*CSRF part.*  Quantification: every MAC function with the stated properties, every
configuration, every state, every history of `check`/`prune` events of any length.
-/

namespace DashLive.Auth
open DashLive.Gen.Routes

/-- **Composition order.**  The view Flask builds from a row – `as_view` looping over the
class `decorators`, the method's own decorators, the body's checks – behaves as the chain
in execution order: the first guard that does not pass decides, and the state-changing
part of the body is consulted only if every guard passes. -/
theorem guard_chain_sound {α : Type} (row : Row) (body : View α) (r : Request) :
    row.view body r =
      (match evalChain row.chain r with
       | .pass => body r
       | .stop s => .stopped s
       | .block => .blocked) := by
  rw [view_eq_decorate_chain]
  exact decorate_eval row.chain body r

/-- If any guard of the row denies, the body does not run: the outcome is the same for
every body and is never a `ran`. -/
theorem guard_denies_body_not_run {α : Type} (row : Row) (r : Request)
    (h : ∃ g ∈ row.chain, guardVerdict g r ≠ .pass) (body body' : View α) :
    row.view body r = row.view body' r ∧ ∀ a, row.view body r ≠ .ran a := by
  have hne : evalChain row.chain r ≠ .pass := by
    intro hp
    obtain ⟨g, hg, hv⟩ := h
    exact hv ((evalChain_pass_iff _ _).1 hp g hg)
  rw [guard_chain_sound, guard_chain_sound]
  cases hv : evalChain row.chain r with
  | pass => exact absurd hv hne
  | stop s => exact ⟨rfl, fun a h => by cases h⟩
  | block => exact ⟨rfl, fun a h => by cases h⟩

/-- and conversely the body runs when every guard passes (the guards are not a blanket refusal) -/
theorem guards_pass_body_runs {α : Type} (row : Row) (r : Request)
    (h : ∀ g ∈ row.chain, guardVerdict g r = .pass) (body : View α) :
    row.view body r = body r := by
  rw [guard_chain_sound, (evalChain_pass_iff _ _).2 h]

/-- the translator followed every decorator, base class and CSRF service name it met -/
theorem translator_followed_everything : problems = [] := by decide

/-- finite obligation over the generated table -/
theorem table_guarded : table.all rowGuarded = true := by decide +kernel

/-- **Every mutating route is guarded.**  For every row of the generated table whose
handler can change persistent state and every request whose caller the documentation does
not allow to change that state – judged by the *union* of the identities it presents: any
session (none, guest, user, media, admin) combined with any bearer token (none, the guest
token, any account's access or refresh token) – some decorator stops it or an in-body
check blocks it, whatever CSRF token it carries (`csrfOk` ranges over both values). -/
theorem mutating_routes_guarded (row : Row) (hrow : row ∈ table) (hm : row.mutates = true)
    (r : Request) (hl : mayChange row.kind r = false) :
    evalChain row.chain r ≠ .pass := by
  have h := List.all_eq_true.1 table_guarded row hrow
  unfold rowGuarded at h
  simp only [hm, Bool.not_true, Bool.false_or] at h
  have h2 := forallCreds_spec _ h r.session r.token r.tokenIsRefresh r.target
  change (mayChange row.kind r.permissive || !(evalChain row.chain r.permissive).isPass) = true at h2
  rw [mayChange_permissive, hl] at h2
  intro hp
  simp [evalChain_pass_mono _ _ hp, Verdict.isPass] at h2

/-- headline: on a mutating route a caller without the documented right never reaches the
state-changing part of the body -/
theorem lesser_role_never_mutates {α : Type} (row : Row) (hrow : row ∈ table)
    (hm : row.mutates = true) (r : Request)
    (hl : mayChange row.kind r = false) (body : View α) :
    ∀ a, row.view body r ≠ .ran a := by
  intro a
  rw [guard_chain_sound]
  have := mutating_routes_guarded row hrow hm r hl
  cases hv : evalChain row.chain r with
  | pass => exact absurd hv this
  | stop s => intro h; cases h
  | block => intro h; cases h

/-- non-vacuity of the previous theorems: on every mutating row some documented caller does
get through (so "guarded" is not "refuses everybody") -/
theorem mutating_routes_admit_documented_role :
    ∀ row ∈ table, row.mutates = true →
      ∃ r, mayChange row.kind r = true ∧ evalChain row.chain r = .pass := by
  have h : table.all rowAdmits = true := by decide +kernel
  intro row hrow hm
  have h1 := List.all_eq_true.1 h row hrow
  unfold rowAdmits at h1
  simp only [hm, Bool.not_true, Bool.false_or] at h1
  obtain ⟨r, hr⟩ := existsCred_spec _ h1
  simp only [Bool.and_eq_true] at hr
  refine ⟨r, hr.1, ?_⟩
  cases hv : evalChain row.chain r with
  | pass => rfl
  | stop s => simp [hv, Verdict.isPass] at hr
  | block => simp [hv, Verdict.isPass] at hr

/-- **The session identity is irrelevant to token guards.**  `jwt_required`,
`jwt_login_required` and the jwt form of the self-or-admin test read the owner of the bearer
token only: replacing the session by any other leaves their verdict unchanged … -/
theorem token_guards_ignore_session (g : Guard) (hg : g.usesSession = false) (r : Request) (s : Ident) :
    guardVerdict g (r.withSession s) = guardVerdict g r := by
  cases g with
  | loginRequired html admin perm => simp [Guard.usesSession] at hg
  | selfOrAdmin jwt =>
    simp only [Guard.usesSession, Bool.not_eq_false'] at hg
    subst hg
    rfl
  | _ => rfl

/-- … and symmetrically `login_required` and the session form of the self-or-admin test never
look at the bearer token. -/
theorem session_guards_ignore_token (g : Guard) (hg : g.usesToken = false) (r : Request)
    (t : Option Ident) (rf : Bool) :
    guardVerdict g (r.withToken t rf) = guardVerdict g r := by
  cases g with
  | jwtRequired a b => simp [Guard.usesToken] at hg
  | jwtLoginRequired a b => simp [Guard.usesToken] at hg
  | selfOrAdmin jwt =>
    simp only [Guard.usesToken] at hg
    subst hg
    rfl
  | _ => rfl

/-- a chain none of whose guards consults the session gives the same verdict for every session -/
theorem chain_ignores_session (gs : List Guard) (h : ∀ g ∈ gs, g.usesSession = false)
    (r : Request) (s : Ident) : evalChain gs (r.withSession s) = evalChain gs r :=
  evalChain_congr gs _ _ fun g hg => token_guards_ignore_session g (h g hg) r s

/-- **JWT-protected routes authorise by the token's owner alone.**  In the generated table,
every row whose chain asks `jwt_login_required` (the user-management API) has no guard that
reads the session: its verdict is the same whichever session cookie accompanies the token –
in particular a logged-in session cannot lend its authority to the guest token. -/
theorem jwt_routes_ignore_session (row : Row) (hrow : row ∈ table) (hj : row.jwtProtected = true)
    (r : Request) (s : Ident) :
    evalChain row.chain (r.withSession s) = evalChain row.chain r := by
  have hall : table.all (fun row => !row.jwtProtected || row.chain.all (fun g => !g.usesSession)) = true := by
    decide +kernel
  have h1 := List.all_eq_true.1 hall row hrow
  simp only [hj, Bool.not_true, Bool.false_or, List.all_eq_true, Bool.not_eq_eq_eq_not,
    Bool.not_true] at h1
  exact chain_ignores_session row.chain h1 r s

/-- non-vacuity: the table has JWT-protected mutating rows -/
theorem table_has_jwt_protected_rows :
    ∃ row ∈ table, row.jwtProtected = true ∧ row.mutates = true := by
  decide +kernel

/-- **CSRF check precedes the write.**  `CsrfProtection.check` commits the database
session, so a handler that touches a model before its CSRF check would persist the change
even when the check fails.  No mutating row does. -/
theorem mutating_routes_csrf_first : ∀ row ∈ table, row.mutates = true → row.csrfFirst = true := by
  decide +kernel

/-- the table is not trivially satisfied: it contains mutating rows of every documented kind -/
theorem table_has_mutating_rows_of_every_kind :
    (∃ row ∈ table, row.mutates = true ∧ row.kind = .media) ∧
    (∃ row ∈ table, row.mutates = true ∧ row.kind = .admin) ∧
    (∃ row ∈ table, row.mutates = true ∧ row.kind = .self) := by
  decide +kernel

/-- **Identity resolution is exact.**  A credential that names `n` resolves to the stored account
called exactly `n` – whatever other accounts are stored before or after it, whatever their names
look like (wildcard characters, other case, surrounding spaces, prefixes of `n` …): accounts with a
different name can be added or removed without changing the result. -/
theorem lookup_ignores_other_accounts {α : Type} (accounts : List (String × α)) (n : String) :
    lookupAccount accounts n = lookupAccount (accounts.filter fun a => a.1 == n) n := by
  unfold lookupAccount
  congr 1
  induction accounts with
  | nil => rfl
  | cons a as ih =>
    by_cases h : (a.1 == n) = true
    · simp [h]
    · simp [h, ih]

/-- … and what it returns is an account whose stored name is `n` (none if there is none). -/
theorem lookup_exact {α : Type} (accounts : List (String × α)) (n : String) (x : α)
    (h : lookupAccount accounts n = some x) : (n, x) ∈ accounts := by
  unfold lookupAccount at h
  cases hf : accounts.find? (fun a => a.1 == n) with
  | none => simp [hf] at h
  | some a =>
    simp only [hf, Option.map_some, Option.some.injEq] at h
    have hm := List.mem_of_find?_eq_some hf
    have hp := List.find?_some hf
    simp only [beq_iff_eq] at hp
    obtain ⟨a1, a2⟩ := a
    simp only at hp h
    subst hp; subst h
    exact hm

/-- non-vacuity: names that other lookup machinery would confuse resolve to themselves -/
example :
    let accs : List (String × Nat) := [("admin", 1), ("user", 2), ("ad_in", 3), ("%", 4), ("Admin", 5),
                                       ("admin ", 6), ("adm", 7), ("_____", 8)]
    lookupAccount accs "ad_in" = some 3 ∧ lookupAccount accs "%" = some 4 ∧
      lookupAccount accs "Admin" = some 5 ∧ lookupAccount accs "admin " = some 6 ∧
      lookupAccount accs "adm" = some 7 ∧ lookupAccount accs "_____" = some 8 ∧
      lookupAccount accs "ADMIN" = none := by
  decide

/-- **Replay records are deleted at server start only.**  Every call of `prune_database` – the
only code that deletes CSRF replay records – found anywhere under dashlive/ is the one in
`create_app` … -/
theorem prune_only_at_server_start : pruneSites.all (fun p => p.startup) = true := by decide

/-- … and no request handler reaches one (login, logout, token refresh included). -/
theorem no_handler_prunes : ∀ row ∈ table, row.prunes = false := by decide +kernel

/-- CSRF service names are pairwise suffix-free (needed because HMAC input is a plain
concatenation `cookie ‖ service ‖ …`) -/
theorem services_suffix_free :
    ∀ s ∈ services, ∀ s' ∈ services, s.toList <:+ s'.toList → s = s' := by
  decide

end DashLive.Auth

namespace DashLive.Csrf

/-- **At most once within one server run.**  In any history without a prune step – checks by
anybody, clock jumps of any size in either direction (`tick`: across the 20-minute record
lifetime, the JWT lifetimes, …) and any other requests of any user (`request`: logins, logouts,
token refreshes; they do not touch replay records, `no_handler_prunes`) interleaved in any
order – starting from any state, a token is accepted at most once, whatever services, cookies
and origins the checks name, and including tokens whose first presentation failed the
signature test (they are consumed by that failure). -/
theorem csrf_at_most_once (c : Cfg) (t : Str) :
    ∀ (evs : List Ev) (st : St), (∀ e ∈ evs, e.isPrune = false) →
      acceptedCount t (run c st evs) ≤ 1 := by
  intro evs
  induction evs with
  | nil => intro st _; simp [run, acceptedCount]
  | cons e es ih =>
    intro st hnp
    have hes : ∀ e' ∈ es, e'.isPrune = false := fun e' h' => hnp e' (List.mem_cons_of_mem _ h')
    have he : e.isPrune = false := hnp e (List.mem_cons_self ..)
    rw [run_cons, acceptedCount_cons]
    have hother : e.token? = none → ((e, (step c st e).2).1.token? == some t &&
        (e, (step c st e).2).2 == some Result.accepted) = false := by
      intro hn; simp [hn]
    cases e with
    | check svc ck o t' =>
      by_cases hacc : (t' = t ∧ (check c st svc ck o t').2 = .accepted)
      · obtain ⟨rfl, hacc⟩ := hacc
        have hu : t' ∈ (step c st (Ev.check svc ck o t')).1.tokens := by
          simp only [step]
          exact check_accepted_records c st svc ck o t' hacc
        rw [acceptedCount_zero_of_used c t' es _ hes hu]
        split <;> omega
      · have := ih (step c st (Ev.check svc ck o t')).1 hes
        have hz : ((Ev.check svc ck o t', (step c st (Ev.check svc ck o t')).2).1.token? == some t &&
            (Ev.check svc ck o t', (step c st (Ev.check svc ck o t')).2).2 == some Result.accepted) = false := by
          simp only [step, Ev.token?]
          by_cases heq : t' = t
          · have hne : (check c st svc ck o t').2 ≠ .accepted := fun h => hacc ⟨heq, h⟩
            simp [hne]
          · simp [heq]
        simp only [hz]
        simpa using this
    | prune => simp [Ev.isPrune] at he
    | pruneExpired => simp [Ev.isPrune] at he
    | tick n =>
      rw [hother rfl]
      simpa using ih _ hes
    | request =>
      rw [hother rfl]
      simpa using ih _ hes

/-- non-vacuity of `csrf_at_most_once`: a prune-free history – with a clock jump of a day and
another user's request between the two presentations – in which the bound is attained
(first presentation accepted, the second one refused as a re-use) -/
example :
    let c : Cfg := { mac := fun m => '#' :: m, strictOrigin := false }
    let t : Str := issue c "streams".toList "K".toList [] "12345678".toList
    let evs : List Ev := [.check "streams".toList (some "K".toList) [] t, .tick 86400, .request,
                          .check "streams".toList (some "K".toList) [] t]
    (∀ e ∈ evs, e.isPrune = false) ∧ acceptedCount t (run c St.empty evs) = 1 := by
  decide

/-- **Within a run no operation other than a prune removes a replay record**: checks, clock
jumps and other requests keep every record, live or expired … -/
theorem records_survive_run (c : Cfg) :
    ∀ (evs : List Ev) (st : St), (∀ e ∈ evs, e.isPrune = false) →
      ∀ p ∈ st.used, p ∈ (final c st evs).used := by
  intro evs
  induction evs with
  | nil => intro st _ p hp; exact hp
  | cons e es ih =>
    intro st hnp p hp
    exact ih _ (fun e' h' => hnp e' (List.mem_cons_of_mem _ h')) p
      (step_records_mono c st e (hnp e (List.mem_cons_self ..)) p hp)

/-- … and even `prune_database(all_csrf=False)` keeps the records that are still live. -/
theorem pruneExpired_keeps_live (st : St) (p : Str × Nat) (hp : p ∈ st.used) (hlive : st.now ≤ p.2) :
    p ∈ (pruneExpired st).used := by
  unfold pruneExpired
  simp only [List.mem_filter]
  refine ⟨hp, ?_⟩
  simp only [Bool.not_eq_true', decide_eq_false_iff_not]
  omega

/-- **Negative result: why no handler may prune.**  The token carries no timestamp, so once
the clock has passed the record's expiry (`now + 20 min`) a `prune_database(all_csrf=False)`
deletes the record and the identical token, with its original cookie, is accepted again – in
the same server run.  (A handler that prunes is what `no_handler_prunes` excludes.) -/
theorem csrf_reuse_after_expiry_prune (c : Cfg) (st : St) (svc : Str) (ck : Option Str) (o t : Str)
    (h : (check c st svc ck o t).2 = .accepted) (n : Nat) (hn : st.now + recordLifetime < n) :
    (check c (pruneExpired { (check c st svc ck o t).1 with now := n }) svc ck o t).2 = .accepted := by
  obtain ⟨k, hk, hk2, hu, hs⟩ := (check_accepted_iff c st svc ck o t).1 h
  rw [check_accepted_iff]
  refine ⟨k, hk, hk2, ?_, hs⟩
  subst hk
  have hu' : t ∉ List.map Prod.fst st.used := hu
  unfold check
  simp only [hk2, hu, hs, if_false, if_true]
  intro hmem
  simp only [pruneExpired, St.tokens, List.mem_map, List.mem_filter] at hmem
  obtain ⟨p, ⟨hp, hlive⟩, hpt⟩ := hmem
  simp only [List.mem_cons] at hp
  rcases hp with rfl | hp
  · simp at hlive
    omega
  · exact hu' (List.mem_map.2 ⟨p, hp, hpt⟩)

/-- **At most once, on the wire.**  `CsrfProtection.check` decodes the submitted text with
`unquote` before anything else and the consumed-token identity is the decoded token.  So for
*any* function `unquote`, in any wire history without a prune step, all presentations whose
text decodes to `t` – whatever their spelling (issued `%27…%3D` form, fully decoded, lower-case
escapes, partially or over-encoded) – are accepted at most once **in total**. -/
theorem csrf_at_most_once_wire (c : Cfg) (t : Str) (evs : List WireEv) (st : St)
    (h : ∀ e ∈ evs, e.isPrune = false) :
    acceptedCount t (runWire c st evs) ≤ 1 := by
  unfold runWire
  apply csrf_at_most_once
  intro e he
  obtain ⟨w, hw, rfl⟩ := List.mem_map.1 he
  have := h w hw
  cases w <;> simp_all [WireEv.isPrune, WireEv.decode, Ev.isPrune]

/-- two spellings of one token share one replay record: once a text decoding to `t` has been
accepted (or has failed the signature test), no text with the same decoding is accepted,
for any service, cookie and origin -/
theorem csrf_spellings_share_one_record (c : Cfg) (st : St) (svc svc' : Str) (ck ck' : Option Str)
    (o o' w w' : Str) (hsame : c.unquote w = c.unquote w')
    (h : (checkWire c st svc ck o w).2 = .accepted ∨ (checkWire c st svc ck o w).2 = .badSignature) :
    (checkWire c (checkWire c st svc ck o w).1 svc' ck' o' w').2 ≠ .accepted := by
  unfold checkWire at *
  rw [← hsame]
  apply check_of_used
  rcases h with h | h
  · exact check_accepted_records c st svc ck o _ h
  · exact check_badSignature_records c st svc ck o _ h

/-- the driver's instantiation of `unquote` identifies the spellings the harness uses -/
example : pctDecode "AbCd1234b%27x%2By/z%3D%27".toList = "AbCd1234b'x+y/z='".toList ∧
    pctDecode "AbCd1234b%27x%2by/z%3d%27".toList = "AbCd1234b'x+y/z='".toList ∧
    pctDecode "%41bCd1234b'x+y%2Fz=%27".toList = "AbCd1234b'x+y/z='".toList ∧
    pctDecode "AbCd1234b'x+y/z='".toList = "AbCd1234b'x+y/z='".toList := by
  decide

/-- the first failing presentation consumes the token: after a `badSignature` the same
string is refused as a re-use (this is the order the code uses: record, then verify) -/
theorem csrf_failed_check_consumes (c : Cfg) (st : St) (svc svc' : Str) (ck ck' : Option Str)
    (o o' t : Str) (h : (check c st svc ck o t).2 = .badSignature) :
    (check c (check c st svc ck o t).1 svc' ck' o' t).2 ≠ .accepted :=
  check_of_used c _ svc' ck' o' t (check_badSignature_records c st svc ck o t h)

/-- one issuance: `generate_token(service, cookie)` on a request with `origin`, random `salt` -/
structure Issued where
  service : Str
  cookie : Str
  origin : Str
  salt : Str

def Issued.token (c : Cfg) (i : Issued) : Str := issue c i.service i.cookie i.origin i.salt

/-- the signature part of the issued token -/
def Issued.sig (c : Cfg) (i : Issued) : Str :=
  c.mac (message c.strictOrigin i.cookie i.service i.origin (i.salt.take saltLen))

/-- what the MAC authenticates besides the salt -/
def boundPart (strict : Bool) (cookie service origin : Str) : Str :=
  cookie ++ service ++ (if strict then origin else [])

/-- **Never after modification.**  Let `mac` be injective and never empty, and let the
signature part of a presented token be one the server has produced (the caller cannot
compute MAC values – HMAC itself is outside the model).  If `check` accepts the token
then it is, character for character, one of the issued tokens, and the cookie, service
(and origin, in strict mode) of the request concatenate to those of that issuance. -/
theorem csrf_accept_only_issued (c : Cfg)
    (hinj : ∀ a b, c.mac a = c.mac b → a = b) (hne : ∀ m, c.mac m ≠ [])
    (issued : List Issued) (hsalt : ∀ i ∈ issued, saltLen ≤ i.salt.length)
    (st : St) (svc ck o tok : Str)
    (hacc : (check c st svc (some ck) o tok).2 = .accepted)
    (hsig : ∃ i ∈ issued, tok.drop saltLen = i.sig c) :
    ∃ i ∈ issued, tok = i.token c ∧
      boundPart c.strictOrigin ck svc o = boundPart c.strictOrigin i.cookie i.service i.origin := by
  obtain ⟨k, hk, _, _, hs⟩ := (check_accepted_iff c st svc (some ck) o tok).1 hacc
  cases hk
  obtain ⟨i, hi, hsi⟩ := hsig
  refine ⟨i, hi, ?_⟩
  have hmsg : message c.strictOrigin ck svc o (tok.take saltLen) =
      message c.strictOrigin i.cookie i.service i.origin (i.salt.take saltLen) := by
    apply hinj
    rw [← hs, hsi]
    rfl
  have hlen_tok : saltLen < tok.length := by
    have h1 : tok.drop saltLen ≠ [] := by rw [hs]; exact hne _
    have h2 : (tok.drop saltLen).length ≠ 0 := fun h => h1 (List.length_eq_zero_iff.1 h)
    rw [List.length_drop] at h2
    omega
  have hl : (tok.take saltLen).length = (i.salt.take saltLen).length := by
    have := hsalt i hi
    rw [List.length_take, List.length_take]
    omega
  unfold message at hmsg
  obtain ⟨hb, ht⟩ := List.append_inj' hmsg hl
  refine ⟨?_, hb⟩
  unfold Issued.token issue
  show tok = i.salt.take saltLen ++ c.mac (message c.strictOrigin i.cookie i.service i.origin (i.salt.take saltLen))
  have hsig' : tok.drop saltLen = c.mac (message c.strictOrigin i.cookie i.service i.origin (i.salt.take saltLen)) := hsi
  have hsplit := (List.take_append_drop saltLen tok).symm
  rw [ht, hsig'] at hsplit
  exact hsplit

/-- **Tamper.**  Contrapositive of the above: a presented token that differs from every
issued token (in its salt, its signature or both) but re-uses an issued signature is
rejected, for every service, cookie and origin. -/
theorem csrf_tamper (c : Cfg)
    (hinj : ∀ a b, c.mac a = c.mac b → a = b) (hne : ∀ m, c.mac m ≠ [])
    (issued : List Issued) (hsalt : ∀ i ∈ issued, saltLen ≤ i.salt.length)
    (st : St) (svc ck o tok : Str)
    (hmod : ∀ i ∈ issued, tok ≠ i.token c)
    (hsig : ∃ i ∈ issued, tok.drop saltLen = i.sig c) :
    (check c st svc (some ck) o tok).2 ≠ .accepted := by
  intro hacc
  obtain ⟨i, hi, heq, _⟩ := csrf_accept_only_issued c hinj hne issued hsalt st svc ck o tok hacc hsig
  exact hmod i hi heq

/-- two service names neither of which is a proper suffix of the other -/
def SuffixFree (a b : Str) : Prop := (a <:+ b → a = b) ∧ (b <:+ a → b = a)

/-- **Bound to service and cookie** (general form; side condition on the origin kept
explicit).  If the request's origin is the one the token was issued on whenever strict
mode is on, and the two service names are suffix-free, then acceptance of an issued token
implies the request names the same service and carries the same cookie. -/
theorem csrf_bound_partial (c : Cfg)
    (hinj : ∀ a b, c.mac a = c.mac b → a = b) (hne : ∀ m, c.mac m ≠ [])
    (i : Issued) (hsalt : saltLen ≤ i.salt.length)
    (st : St) (svc ck o : Str)
    (hacc : (check c st svc (some ck) o (i.token c)).2 = .accepted)
    (hsf : SuffixFree svc i.service)
    (horigin : c.strictOrigin = true → o = i.origin) :
    svc = i.service ∧ ck = i.cookie := by
  have hsig : ∃ j ∈ [i], (i.token c).drop saltLen = j.sig c := by
    refine ⟨i, List.mem_singleton.2 rfl, ?_⟩
    unfold Issued.token issue Issued.sig
    have hl : (i.salt.take saltLen).length = saltLen := by
      rw [List.length_take]; omega
    simp only []
    rw [List.drop_left' hl]
  obtain ⟨j, hj, _, hb⟩ := csrf_accept_only_issued c hinj hne [i]
    (by intro j hj; cases List.mem_singleton.1 hj; exact hsalt) st svc ck o (i.token c) hacc hsig
  cases List.mem_singleton.1 hj
  unfold boundPart at hb
  have hb' : ck ++ svc = i.cookie ++ i.service := by
    cases hstrict : c.strictOrigin with
    | false => simpa [hstrict] using hb
    | true =>
      have ho := horigin hstrict
      rw [hstrict, ho] at hb
      simp only [if_true] at hb
      exact List.append_cancel_right hb
  rcases List.append_eq_append_iff.1 hb' with ⟨as, h1, h2⟩ | ⟨bs, h1, h2⟩
  · -- i.cookie = ck ++ as, svc = as ++ i.service : i.service is a suffix of svc
    have hsuf : i.service <:+ svc := ⟨as, h2.symm⟩
    have heq := hsf.2 hsuf
    have has : as = [] := by
      have hlen := congrArg List.length h2
      rw [List.length_append, ← heq] at hlen
      exact List.length_eq_zero_iff.1 (by omega)
    subst has
    exact ⟨heq.symm, by simpa using h1.symm⟩
  · have hsuf : svc <:+ i.service := ⟨bs, h2.symm⟩
    have heq := hsf.1 hsuf
    have hbs : bs = [] := by
      have hlen := congrArg List.length h2
      rw [List.length_append, ← heq] at hlen
      exact List.length_eq_zero_iff.1 (by omega)
    subst hbs
    exact ⟨heq, by simpa using h1⟩

/-- concrete MAC used for the (non-)vacuity examples: injective, never empty -/
def demoMac : Str → Str := fun m => '#' :: m

/-- non-vacuity of `csrf_bound_partial`: a concrete issuance in strict mode that is accepted
under its hypotheses -/
example :
    let c : Cfg := { mac := demoMac, strictOrigin := true }
    let i : Issued := { service := "streams".toList, cookie := "K".toList,
                        origin := "http://a".toList, salt := "12345678".toList }
    (check c St.empty "streams".toList (some "K".toList) "http://a".toList (i.token c)).2 = .accepted ∧
      SuffixFree "streams".toList i.service ∧ saltLen ≤ i.salt.length := by
  refine ⟨by decide, ⟨fun _ => rfl, fun _ => rfl⟩, by decide⟩

/-- the excluded point of `csrf_bound_partial`: in strict mode with a *different* origin
the plain concatenation `service ‖ origin` is ambiguous – a token issued for service `s`
on origin `ab` is accepted for service `sa` on origin `b` -/
example :
    let c : Cfg := { mac := demoMac, strictOrigin := true }
    let i : Issued := { service := "s".toList, cookie := "K".toList,
                        origin := "ab".toList, salt := "12345678".toList }
    (check c St.empty "sa".toList (some "K".toList) "b".toList (i.token c)).2 = .accepted := by
  decide

/-- the other excluded point: service names that are not suffix-free (`bc` ends in `c`) with a
chosen cookie -/
example :
    let c : Cfg := { mac := demoMac, strictOrigin := false }
    let i : Issued := { service := "c".toList, cookie := "ab".toList,
                        origin := [], salt := "12345678".toList }
    (check c St.empty "bc".toList (some "a".toList) [] (i.token c)).2 = .accepted := by
  decide

/-- **Bound to the service** – default configuration (`STRICT_CSRF_ORIGIN` off), service
names taken from the generated table: a token issued for one of the application's
services is accepted only by a check that names that service … -/
theorem csrf_service_bound (c : Cfg) (hcfg : c.strictOrigin = false)
    (hinj : ∀ a b, c.mac a = c.mac b → a = b) (hne : ∀ m, c.mac m ≠ [])
    (i : Issued) (hsalt : saltLen ≤ i.salt.length)
    (s s' : String) (hs : s ∈ DashLive.Gen.Routes.services) (hs' : s' ∈ DashLive.Gen.Routes.services)
    (hi : i.service = s.toList)
    (st : St) (ck o : Str)
    (hacc : (check c st s'.toList (some ck) o (i.token c)).2 = .accepted) :
    s' = s := by
  have hsf : SuffixFree s'.toList i.service := by
    rw [hi]
    constructor
    · intro h; rw [DashLive.Auth.services_suffix_free s' hs' s hs h]
    · intro h; rw [DashLive.Auth.services_suffix_free s hs s' hs' h]
  have := (csrf_bound_partial c hinj hne i hsalt st s'.toList ck o hacc hsf
    (by intro h; rw [hcfg] at h; cases h)).1
  rw [hi] at this
  exact String.ext_iff.2 this

/-- … **and to the cookie** it was issued against. -/
theorem csrf_cookie_bound (c : Cfg) (hcfg : c.strictOrigin = false)
    (hinj : ∀ a b, c.mac a = c.mac b → a = b) (hne : ∀ m, c.mac m ≠ [])
    (i : Issued) (hsalt : saltLen ≤ i.salt.length)
    (s s' : String) (hs : s ∈ DashLive.Gen.Routes.services) (hs' : s' ∈ DashLive.Gen.Routes.services)
    (hi : i.service = s.toList)
    (st : St) (ck o : Str)
    (hacc : (check c st s'.toList (some ck) o (i.token c)).2 = .accepted) :
    ck = i.cookie := by
  have hsf : SuffixFree s'.toList i.service := by
    rw [hi]
    constructor
    · intro h; rw [DashLive.Auth.services_suffix_free s' hs' s hs h]
    · intro h; rw [DashLive.Auth.services_suffix_free s hs s' hs' h]
  exact (csrf_bound_partial c hinj hne i hsalt st s'.toList ck o hacc hsf
    (by intro h; rw [hcfg] at h; cases h)).2

/-- a request without a (non-empty) CSRF cookie is never accepted and consumes nothing -/
theorem csrf_needs_cookie (c : Cfg) (st : St) (svc : Str) (ck : Option Str) (o t : Str)
    (h : ck = none ∨ ck = some []) :
    check c st svc ck o t = (st, .noCookie) := by
  rcases h with rfl | rfl <;> simp [check]

/-- non-vacuity of the whole protocol: a freshly issued token is accepted when presented
with the service, cookie and origin it was issued for -/
theorem csrf_fresh_accepted (c : Cfg) (i : Issued) (hsalt : saltLen ≤ i.salt.length)
    (hck : i.cookie ≠ []) (st : St) (hfresh : i.token c ∉ st.tokens) :
    (check c st i.service (some i.cookie) i.origin (i.token c)).2 = .accepted := by
  rw [check_accepted_iff]
  refine ⟨i.cookie, rfl, hck, hfresh, ?_⟩
  have hl : (i.salt.take saltLen).length = saltLen := by
    rw [List.length_take]; omega
  unfold Issued.token issue
  simp only []
  rw [List.drop_left' hl, List.take_left' hl]

/-- **Negative result (known finding D14b).**  Tokens carry no timestamp and the set of
consumed tokens is emptied at every server start (`prune_database(all_csrf=True)`): a
token that was accepted once is accepted again after a prune step. -/
theorem csrf_reuse_after_prune (c : Cfg) (st : St) (svc : Str) (ck : Option Str) (o t : Str)
    (h : (check c st svc ck o t).2 = .accepted) :
    (check c (prune (check c st svc ck o t).1) svc ck o t).2 = .accepted := by
  obtain ⟨k, hk, hk2, _, hs⟩ := (check_accepted_iff c st svc ck o t).1 h
  rw [check_accepted_iff]
  exact ⟨k, hk, hk2, by simp [prune, St.tokens], hs⟩

/-- so `csrf_at_most_once` cannot be extended to histories with a prune step: a concrete
history `check; prune; check` in which one token is accepted twice -/
theorem csrf_at_most_once_fails_with_prune :
    ∃ (c : Cfg) (evs : List Ev) (t : Str),
      (∀ a b, c.mac a = c.mac b → a = b) ∧ acceptedCount t (run c St.empty evs) = 2 := by
  let c : Cfg := { mac := demoMac, strictOrigin := false }
  let i : Issued := { service := "streams".toList, cookie := "K".toList, origin := [],
                      salt := "12345678".toList }
  refine ⟨c, [.check i.service (some i.cookie) [] (i.token c), .prune,
              .check i.service (some i.cookie) [] (i.token c)], i.token c, ?_, by decide⟩
  intro a b h
  simpa [c, demoMac] using h

end DashLive.Csrf

namespace DashLive.Life

/-! ## Credential lifecycle: logout, deletion, expiry – for every clock

`St` carries the clock, the `Token` rows and the existing accounts; histories are arbitrary lists of
logins, token refreshes, API and HTML logouts, account deletions, server restarts and clock jumps
(`tick n`, any value).  A credential the server no longer accepts makes its presenter anonymous
for the guards of `DashLive.Auth` (`Request.token = none` / `session = nobody`). -/
/-- **After an API logout no refresh token issued before it is ever accepted again** -/
theorem api_logout_voids_refresh (st : St) (t : Tok) (hacc : tokAccepted st t .access = true)
    (t' : Tok) (hty : t'.typ = .refresh) (hown : t'.owner = t.owner) (hold : t'.jti < st.nextJti)
    (hwf : ∀ r ∈ st.rows, r.jti = t'.jti → r.owner = t'.owner)
    (evs : List Ev) (want : TokType) :
    tokAccepted (final (step st (.apiLogout t)).1 evs) t' want = false := by
  apply voided_refused _ _ hty
  apply voided_final
  refine ⟨Nat.lt_of_lt_of_le hold (step_nextJti_mono st _), ?_⟩
  intro r hr hj ht
  simp only [step, hacc, if_true] at hr
  rcases mem_revokeAccess hr with rfl | ⟨r1, h1, e1, _, e3, _, e5, _⟩
  · cases ht
  · obtain ⟨r0, h0, f1, _, _, _, _, f6⟩ := mem_revokeAll h1
    exact e5 (f6 ((hwf r0 h0 (f1 ▸ e1 ▸ hj)).trans hown))

theorem html_logout_voids_refresh (st : St) (c : Cookie) (hacc : cookieAccepted st c = true)
    (t' : Tok) (hty : t'.typ = .refresh) (hown : t'.owner = c.owner) (hold : t'.jti < st.nextJti)
    (hwf : ∀ r ∈ st.rows, r.jti = t'.jti → r.owner = t'.owner)
    (evs : List Ev) (want : TokType) :
    tokAccepted (final (step st (.htmlLogout c)).1 evs) t' want = false := by
  apply voided_refused _ _ hty
  apply voided_final
  refine ⟨Nat.lt_of_lt_of_le hold (step_nextJti_mono st _), ?_⟩
  intro r hr hj ht
  simp only [step, hacc, if_true] at hr
  obtain ⟨r0, h0, f1, _, _, _, _, f6⟩ := mem_revokeAll hr
  exact f6 ((hwf r0 h0 (f1 ▸ hj)).trans hown)

/-- **Credentials of a deleted account are void for ever** -/
theorem deleted_user_voids_everything (st : St) (u : Nat) (evs : List Ev) :
    (∀ (t : Tok) (want : TokType), t.owner = u →
      tokAccepted (final (step st (.deleteUser u)).1 evs) t want = false) ∧
    (∀ c : Cookie, c.owner = u → cookieAccepted (final (step st (.deleteUser u)).1 evs) c = false) := by
  have hu : (step st (.deleteUser u)).1.users.contains u = false := by
    simp [step]
  have hf := users_final u evs _ hu
  constructor
  · intro t want ho
    unfold tokAccepted
    rw [ho, hf]; simp
  · intro c ho
    unfold cookieAccepted
    rw [ho, hf]; simp

/-- **The access token an API logout was called with is never accepted again** -/
theorem api_logout_voids_presented_access (st : St) (t : Tok) (hacc : tokAccepted st t .access = true)
    (hfresh : ∀ r ∈ st.rows, r.jti = t.jti → r.typ ≠ .access) (evs : List Ev) (want : TokType) :
    tokAccepted (final (step st (.apiLogout t)).1 evs) t want = false := by
  have hty : t.typ = .access := by
    unfold tokAccepted at hacc
    simp only [Bool.and_eq_true, beq_iff_eq] at hacc
    exact hacc.1.1.1
  have h0 : AccessVoided (step st (.apiLogout t)).1 t := by
    right
    simp only [step, hacc, if_true]
    have hany : (revokeAll st.rows t.owner).any (fun r => r.jti == t.jti && r.typ == TokType.access) = false := by
      rw [Bool.eq_false_iff]
      intro h
      obtain ⟨r, hr, hp⟩ := List.any_eq_true.1 h
      obtain ⟨r1, h1, e1, _, e3, _⟩ := mem_revokeAll hr
      simp only [Bool.and_eq_true, beq_iff_eq] at hp
      exact hfresh r1 h1 (e1 ▸ hp.1) (e3 ▸ hp.2)
    unfold revokeAccess
    simp only [hany, Bool.false_eq_true, if_false]
    refine ⟨⟨_, List.mem_cons_self .., rfl, rfl, rfl⟩, ?_⟩
    intro r hr hj ht
    rcases List.mem_cons.1 hr with rfl | hr'
    · exact ⟨rfl, rfl⟩
    · obtain ⟨r1, h1, e1, _, e3, _⟩ := mem_revokeAll hr'
      exact absurd (e3 ▸ ht) (hfresh r1 h1 (e1 ▸ hj))
  rcases accessVoided_final t evs _ h0 with hu | ⟨⟨r, hr, hj, ht, _⟩, hall⟩
  · unfold tokAccepted; rw [hu]; simp
  · exact not_accepted_of_rows_revoked _ t want
      (fun r hr hj ht => (hall r hr hj (ht.trans hty)).1)
      (Or.inr ⟨r, hr, hj, ht.trans hty.symm⟩)

/-- **Negative result (open finding D14g).**  Access tokens are stateless: an access token of the
same account other than the one the logout was called with stays accepted until its `exp`. -/
theorem other_access_survives_api_logout :
    ∃ (st : St) (t t2 : Tok), tokAccepted st t .access = true ∧ t2.owner = t.owner ∧ t2.jti < st.nextJti ∧
      tokAccepted (step st (.apiLogout t)).1 t2 .access = true := by
  refine ⟨{ now := 10, rows := [], users := [1], nextJti := 5 },
    { jti := 1, owner := 1, typ := .access, exp := 900 },
    { jti := 2, owner := 1, typ := .access, exp := 905 }, by decide, rfl, by decide, by decide⟩

/-- **Negative result (open finding D14f).**  The session cookie is a signed value the server keeps
no record of: a copy presented after the logout is still accepted (until it is 31 days old). -/
theorem cookie_copy_survives_logout :
    ∃ (st : St) (c : Cookie), cookieAccepted st c = true ∧
      cookieAccepted (step st (.htmlLogout c)).1 c = true := by
  exact ⟨{ now := 10, rows := [], users := [1], nextJti := 5 }, { owner := 1, issued := 0 },
    by decide, by decide⟩

/-- non-vacuity of the logout theorems: a login's credentials are accepted before the logout,
the refresh token still after 8 days (its row has "expired" but nothing has pruned it) -/
example :
    let st0 : St := { now := 0, rows := [], users := [1], nextJti := 0 }
    let s1 := (step st0 (.login 1)).1
    let a : Tok := { jti := 0, owner := 1, typ := .access, exp := accessLife }
    let r : Tok := { jti := 1, owner := 1, typ := .refresh, exp := refreshJwtLife }
    tokAccepted s1 a .access = true ∧ tokAccepted s1 r .refresh = true ∧
      tokAccepted { s1 with now := 8 * 86400 } r .refresh = true ∧
      tokAccepted { s1 with now := 8 * 86400 } a .access = false := by
  decide


end DashLive.Life
