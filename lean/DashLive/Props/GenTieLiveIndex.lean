import DashLive.Gen.LiveIndex
import DashLive.Props.GenTie
/-!
# Translated live index calculation = hand-written model

`Gen/LiveIndex.lean` is regenerated from /repo's source text on every run
(`harness/gen_liveindex.py`): `LiveMedia.calculate_media_segment_index` for `mode = live` with
`calculate_first_and_last_segment_number`, `calculate_segment_number_and_time` and
`calculate_segment_from_timecode` inlined, specialised to a `$Time$` and to a `$Number$`
request, `raise ValueError` (404) as `none`.  The theorems prove both equal to
`Segments.liveIndex` – the function C01's fetchability theorems and C02's request theorems
are about – with the two float computations as the same parameters the model has
(`conv` = `timescale_to_timedelta`, `scaled` = `int(scale_timedelta(…))` instantiated with the
integer model `scaleTd`; the correspondence channels validate those two against the code).
-/
open DashLive DashLive.Segments
namespace DashLive.GenTie

/-- the handler's result as the translated function reports it -/
def resOpt : Res → Option (Int × Int × Int)
  | .ok m o n => some ((m : Int), (o : Int), n)
  | .notFound => none

theorem tie_liveIndexTime (convM : Nat → Int) (durs : List Nat) (ts sd sn refDur refTs : Nat) (w : Win) (t : Nat) :
    Gen.LiveIndex.liveIndexTime (fun x => convM x.toNat) (segDurOf durs) sn ts sd durs.length w.E w.F w.leeway w.tsbd
        (scaleTd w.E ts sd) refDur refTs (durs.length + 1) t
      = resOpt (liveIndex convM durs ts sd sn (refDuration refDur refTs ts) w (.time t)) := by
  unfold Gen.LiveIndex.liveIndexTime Gen.LiveIndex.gsi liveIndex firstLastLive
  dsimp only
  rw [tie_getSegmentIndex, fdiv_cast, ← Int.natCast_mul, fdiv_cast, Int.toNat_natCast]
  have ht : ¬ ((t : Int) < 0) := by omega
  have hl : ((durs.length : Int) < 2) ↔ (durs.length < 2) := by omega
  rw [if_neg ht]
  by_cases hg : convM t < w.F - ↑w.leeway ∨ convM t > ↑w.E
  · rw [if_pos (Or.inl hg), if_pos hg]; rfl
  · rw [if_neg hg]
    by_cases h2 : durs.length < 2
    · rw [if_pos (Or.inr (Or.inr (Or.inl (hl.mpr h2)))), if_pos h2]; rfl
    · rw [if_neg h2]
      by_cases hn : ((t / sd : Nat) : Int) + (sn : Int) < max (sn : Int) ((sn : Int) + ((scaleTd w.E ts sd : Nat) : Int) - 1 - ((ts * w.tsbd / sd : Nat) : Int) - 1) ∨
                  ((t / sd : Nat) : Int) + (sn : Int) > (sn : Int) + ((scaleTd w.E ts sd : Nat) : Int)
      · rw [if_pos (Or.inr (Or.inr (Or.inr hn))), if_pos hn]; rfl
      · rw [if_neg hn, if_neg]
        · rfl
        · rintro (h | h | h | h)
          · exact hg h
          · exact ht h
          · exact h2 (hl.mp h)
          · exact hn h

theorem tie_liveIndexNumber (convM : Nat → Int) (durs : List Nat) (ts sd sn refDur refTs : Nat) (w : Win) (n : Int) :
    Gen.LiveIndex.liveIndexNumber (fun x => convM x.toNat) (segDurOf durs) sn ts sd durs.length w.E w.F w.leeway w.tsbd
        (scaleTd w.E ts sd) refDur refTs (durs.length + 1) n
      = resOpt (liveIndex convM durs ts sd sn (refDuration refDur refTs ts) w (.number n)) := by
  unfold Gen.LiveIndex.liveIndexNumber Gen.LiveIndex.gsi liveIndex firstLastLive
  dsimp only
  rw [← Int.natCast_mul, fdiv_cast]
  by_cases htc : (n - (sn : Int)) * (sd : Int) < 0
  · rw [if_pos (Or.inr (Or.inl htc)), if_pos htc]; rfl
  · rw [if_neg htc]
    obtain ⟨k, hk⟩ : ∃ k : Nat, (n - (sn : Int)) * (sd : Int) = (k : Int) := ⟨_, (Int.toNat_of_nonneg (by omega)).symm⟩
    rw [hk, tie_getSegmentIndex, Int.toNat_natCast]
    have ht : ¬ ((k : Int) < 0) := by omega
    have hl : ((durs.length : Int) < 2) ↔ (durs.length < 2) := by omega
    by_cases hg : convM k < w.F - ↑w.leeway ∨ convM k > ↑w.E
    · rw [if_pos (Or.inl hg), if_pos hg]; rfl
    · rw [if_neg hg]
      by_cases h2 : durs.length < 2
      · rw [if_pos (Or.inr (Or.inr (Or.inl (hl.mpr h2)))), if_pos h2]; rfl
      · rw [if_neg h2]
        by_cases hn : n < max (sn : Int) ((sn : Int) + ((scaleTd w.E ts sd : Nat) : Int) - 1 - ((ts * w.tsbd / sd : Nat) : Int) - 1) ∨
                    n > (sn : Int) + ((scaleTd w.E ts sd : Nat) : Int)
        · rw [if_pos (Or.inr (Or.inr (Or.inr hn))), if_pos hn]; rfl
        · rw [if_neg hn, if_neg]
          · rfl
          · rintro (h | h | h | h)
            · exact hg h
            · exact ht h
            · exact h2 (hl.mp h)
            · exact hn h

/-! ### the same handler for `mode = vod` = `Segments.vodIndex` (C06) -/

theorem tie_vodIndexTime (conv segDur : Int → Int) (n sd sn t : Nat) (ts E F l tsbd scaled rmd rts : Int) (fuel : Nat) :
    Gen.LiveIndex.vodIndexTime conv segDur sn ts sd n E F l tsbd scaled rmd rts fuel t
      = resOpt (vodIndex n sd sn (.time t)) := by
  unfold Gen.LiveIndex.vodIndexTime vodIndex firstLastVod
  dsimp only
  have h1 : Int.fdiv (sd : Int) (4 : Int) = ((sd / 4 : Nat) : Int) := fdiv_cast sd 4
  rw [h1, ← Int.natCast_add, fdiv_cast]
  by_cases h : (((t + sd / 4) / sd : Nat) : Int) + (sn : Int) < (sn : Int) ∨
      (((t + sd / 4) / sd : Nat) : Int) + (sn : Int) > (n : Int) + (sn : Int) - 1
  · rw [if_pos h, if_pos h]; rfl
  · rw [if_neg h, if_neg h]
    unfold resOpt
    dsimp only
    congr 2
    omega

theorem tie_vodIndexNumber (conv segDur : Int → Int) (n sd sn : Nat) (k : Int) (ts E F l tsbd scaled rmd rts : Int) (fuel : Nat) :
    Gen.LiveIndex.vodIndexNumber conv segDur sn ts sd n E F l tsbd scaled rmd rts fuel k
      = resOpt (vodIndex n sd sn (.number k)) := by
  unfold Gen.LiveIndex.vodIndexNumber vodIndex firstLastVod
  dsimp only
  by_cases h : k < (sn : Int) ∨ k > (n : Int) + (sn : Int) - 1
  · rw [if_pos h, if_pos h]; rfl
  · rw [if_neg h, if_neg h]
    unfold resOpt
    dsimp only
    congr 2
    omega

end DashLive.GenTie
