import DashLive.Lemmas.WrmHeader
import DashLive.Gen.WrmHeader
import DashLive.Props.C11
/-!
# C11 (continued) – the WRMHEADER text

"every generated PlayReady Object parses back to a WRMHEADER naming the same key id(s),
licence URL and AES-ECB checksum": the XML text is now part of the model.  The four Jinja
templates are translated into `Gen/WrmHeader.lean` on every run (`harness/gen_wrmheader.py`);
the theorems below are about *that* table, so a template edit changes what is proved.  All
facts about the template literals are closed propositions discharged by `decide +kernel`
(`*_shape`, `*_check`); everything else is proved for all contexts.

Quantification of `wrmheader_roundtrip`: every key-id / checksum byte string, every
algorithm text, every list of key ids (4.2 / 4.3: at least one), every licence URL over the
whole code-point range that has no CR / LF and is not made of whitespace only – these two
exclusions are forced by the clean-up `re.sub(r'[\r\n]', '', xml)`, `re.sub(r'>\s+<', '><', xml)`
of `generate_wrmheader` (witness at the end of the file).  Custom attributes are rendered by
the model and compared with the code by the `prheader` channel; the theorems are for
`custom_attributes = None`, the only value the application passes.
-/
set_option linter.unusedSimpArgs false
namespace DashLive.C11
open DashLive.WrmHeader DashLive.Gen.WrmHeader DashLive.PlayReady

def ver40 : Text := [52, 46, 48, 46, 48, 46, 48]
def ver41 : Text := [52, 46, 49, 46, 48, 46, 48]
def ver42 : Text := [52, 46, 50, 46, 48, 46, 48]
def ver43 : Text := [52, 46, 51, 46, 48, 46, 48]

/-! #### header version 4.2 -/

theorem tmpl42_shape : tmpl42 =
    [.atom (.lit (litAt tmpl42 0)),
     .forKids [.lit (bodyLit tmpl42 1 0), .kidChecksum, .lit (bodyLit tmpl42 1 2), .kidValue, .lit (bodyLit tmpl42 1 4)],
     .atom (.lit (litAt tmpl42 2)), .atom .laUrl, .atom (.lit (litAt tmpl42 4)),
     .forCustom (customBody tmpl42 5), .atom (.lit (litAt tmpl42 6))] := by decide +kernel

def t42 : Tag2 := ⟨fl (bodyLit tmpl42 1 0), fl (bodyLit tmpl42 1 2), fl (bodyLit tmpl42 1 4)⟩
def f42 : Frame := ⟨fl (litAt tmpl42 0), fl (litAt tmpl42 2), fl (litAt tmpl42 4), fl (litAt tmpl42 6)⟩
theorem t42_check : t42.check = true := by decide +kernel
theorem f42_check : f42.check ver42 = true := by decide +kernel

theorem fl_flatMap {α} (l : List α) (g : α → Text) : fl (l.flatMap g) = l.flatMap fun x => fl (g x) := by
  induction l with
  | nil => rfl
  | cons x xs ih => simp [List.flatMap_cons, fl_append, ih]

theorem raw42 (ctx : Ctx) (hc : ctx.custom = []) (hla : LaOk ctx.laUrl) :
    fl (renderRaw tmpl42 ctx)
      = f42.L0 ++ ctx.kids.flatMap (fun k => t42.A ++ b64 k.checksum ++ t42.B ++ b64 k.kid ++ t42.C)
        ++ f42.L1 ++ (escape ctx.laUrl ++ f42.L2) ++ f42.L3 := by
  rw [tmpl42_shape]
  simp only [renderRaw, List.flatMap_cons, List.flatMap_nil, renderSeg, renderAtom, renderAtoms, hc,
    renderCustom, List.append_nil, fl_append, fl_flatMap, fl_b64, f42, t42]
  have : fl (escape ctx.laUrl) = escape ctx.laUrl := escape_filter _ hla.1
  have hnil : fl [] = [] := rfl
  simp [this, List.append_assoc, hnil]

theorem parse42 (ctx : Ctx) (hc : ctx.custom = []) (hla : LaOk ctx.laUrl) (hk : ctx.kids ≠ []) :
    parseWrmHeader (wrmText tmpl42 ctx)
      = some ⟨some ver42, ctx.kids.map (fun k => ⟨k.kid, some k.checksum, some aesctrText⟩), some ctx.laUrl⟩ := by
  have h := f42.parse ver42 f42_check ctx.kids
    (fun k => t42.A ++ b64 k.checksum ++ t42.B ++ b64 k.kid ++ t42.C)
    (fun k => .tag (t42.body (b64 k.checksum) (b64 k.kid)) :: t42.tc)
    (fun k => ⟨k.kid, some k.checksum, some aesctrText⟩) t42.wc (escape ctx.laUrl)
    (fun k w => (t42.sound t42_check w k.checksum k.kid).1)
    (fun k => ⟨_, _, rfl, (t42.sound t42_check [] k.checksum k.kid).2.1,
      (t42.sound t42_check [] k.checksum k.kid).2.2.2.1, (t42.sound t42_check [] k.checksum k.kid).2.2.2.2⟩)
    hk (textHole_escape _ hla) (renderRaw tmpl42 ctx) (raw42 ctx hc hla)
  rw [unescape_escape] at h
  exact h

/-! #### header version 4.3 -/

theorem tmpl43_shape : tmpl43 =
    [.atom (.lit (litAt tmpl43 0)),
     .forKids [.lit (bodyLit tmpl43 1 0), .kidAlg, .lit (bodyLit tmpl43 1 2), .kidChecksum,
               .lit (bodyLit tmpl43 1 4), .kidValue, .lit (bodyLit tmpl43 1 6)],
     .atom (.lit (litAt tmpl43 2)), .atom .laUrl, .atom (.lit (litAt tmpl43 4))] := by decide +kernel

def t43 : Tag3 := ⟨fl (bodyLit tmpl43 1 0), fl (bodyLit tmpl43 1 2), fl (bodyLit tmpl43 1 4), fl (bodyLit tmpl43 1 6)⟩
def f43 : Frame := ⟨fl (litAt tmpl43 0), fl (litAt tmpl43 2), fl (litAt tmpl43 4), []⟩
theorem t43_check : t43.check = true := by decide +kernel
theorem f43_check : f43.check ver43 = true := by decide +kernel

theorem flatMap_congr' {α β} (l : List α) (f g : α → List β) (h : ∀ x ∈ l, f x = g x) :
    l.flatMap f = l.flatMap g := by
  induction l with
  | nil => rfl
  | cons x xs ih =>
    simp only [List.flatMap_cons]
    rw [h x (by simp), ih (fun y hy => h y (by simp [hy]))]

/-- text without CR / LF -/
def NoCrLf (t : Text) : Prop := ∀ c ∈ t, c ≠ 10 ∧ c ≠ 13

theorem raw43 (ctx : Ctx) (hla : LaOk ctx.laUrl) (halg : ∀ k ∈ ctx.kids, NoCrLf k.alg) :
    fl (renderRaw tmpl43 ctx)
      = f43.L0 ++ ctx.kids.flatMap (fun k => t43.A0 ++ escape k.alg ++ t43.A1 ++ b64 k.checksum ++ t43.B
            ++ b64 k.kid ++ t43.C)
        ++ f43.L1 ++ (escape ctx.laUrl ++ f43.L2) ++ f43.L3 := by
  rw [tmpl43_shape]
  simp only [renderRaw, List.flatMap_cons, List.flatMap_nil, renderSeg, renderAtom, renderAtoms,
    List.append_nil, fl_append, fl_flatMap, fl_b64, f43, t43]
  have : fl (escape ctx.laUrl) = escape ctx.laUrl := escape_filter _ hla.1
  have hk : (ctx.kids.flatMap fun x => fl (bodyLit tmpl43 1 0) ++ (fl (escape x.alg) ++ (fl (bodyLit tmpl43 1 2)
        ++ (b64 x.checksum ++ (fl (bodyLit tmpl43 1 4) ++ (b64 x.kid ++ fl (bodyLit tmpl43 1 6)))))))
      = ctx.kids.flatMap fun x => fl (bodyLit tmpl43 1 0) ++ (escape x.alg ++ (fl (bodyLit tmpl43 1 2)
        ++ (b64 x.checksum ++ (fl (bodyLit tmpl43 1 4) ++ (b64 x.kid ++ fl (bodyLit tmpl43 1 6)))))) := by
    apply flatMap_congr'
    intro k hk
    have : fl (escape k.alg) = escape k.alg := escape_filter _ (halg k hk)
    rw [this]
  have hnil : fl [] = [] := rfl
  simp [this, hk, List.append_assoc, hnil]

theorem parse43 (ctx : Ctx) (hla : LaOk ctx.laUrl) (hk : ctx.kids ≠ []) (halg : ∀ k ∈ ctx.kids, NoCrLf k.alg) :
    parseWrmHeader (wrmText tmpl43 ctx)
      = some ⟨some ver43, ctx.kids.map (fun k => ⟨k.kid, some k.checksum, some k.alg⟩), some ctx.laUrl⟩ := by
  have h := f43.parse ver43 f43_check ctx.kids
    (fun k => t43.A0 ++ escape k.alg ++ t43.A1 ++ b64 k.checksum ++ t43.B ++ b64 k.kid ++ t43.C)
    (fun k => .tag (t43.body (escape k.alg) (b64 k.checksum) (b64 k.kid)) :: t43.tc)
    (fun k => ⟨k.kid, some k.checksum, some k.alg⟩) t43.wc (escape ctx.laUrl)
    (fun k w => (t43.sound t43_check w k.alg k.checksum k.kid).1)
    (fun k => ⟨_, _, rfl, (t43.sound t43_check [] k.alg k.checksum k.kid).2.1,
      (t43.sound t43_check [] k.alg k.checksum k.kid).2.2.2.1,
      (t43.sound t43_check [] k.alg k.checksum k.kid).2.2.2.2⟩)
    hk (textHole_escape _ hla) (renderRaw tmpl43 ctx) (raw43 ctx hla halg)
  rw [unescape_escape] at h
  exact h

/-! #### header version 4.1 -/

def elseBody (tmpl : List Seg) (i : Nat) : List Atom :=
  match tmpl[i]? with
  | some (.ifChecksum _ els) => els
  | _ => []

theorem tmpl41_shape : tmpl41 =
    [.atom (.lit (litAt tmpl41 0)),
     .ifChecksum [.lit (bodyLit tmpl41 1 0), .checksum, .lit (bodyLit tmpl41 1 2), .defaultKid, .lit (bodyLit tmpl41 1 4)]
       (elseBody tmpl41 1),
     .atom (.lit (litAt tmpl41 2)), .atom .laUrl, .atom (.lit (litAt tmpl41 4)),
     .forCustom (customBody tmpl41 5), .atom (.lit (litAt tmpl41 6))] := by decide +kernel

def t41 : Tag2 := ⟨fl (bodyLit tmpl41 1 0), fl (bodyLit tmpl41 1 2), fl (bodyLit tmpl41 1 4)⟩
def f41 : Frame := ⟨fl (litAt tmpl41 0), fl (litAt tmpl41 2), fl (litAt tmpl41 4), fl (litAt tmpl41 6)⟩
theorem t41_check : t41.check = true := by decide +kernel
theorem f41_check : f41.check ver41 = true := by decide +kernel

theorem raw41 (ctx : Ctx) (hc : ctx.custom = []) (hla : LaOk ctx.laUrl) (hcs : ctx.checksum ≠ []) :
    fl (renderRaw tmpl41 ctx)
      = f41.L0 ++ [ctx].flatMap (fun c => t41.A ++ b64 c.checksum ++ t41.B ++ b64 c.defaultKid ++ t41.C)
        ++ f41.L1 ++ (escape ctx.laUrl ++ f41.L2) ++ f41.L3 := by
  rw [tmpl41_shape]
  simp only [renderRaw, List.flatMap_cons, List.flatMap_nil, renderSeg, renderAtom, renderAtoms, hc, hcs,
    ne_eq, not_false_eq_true, if_true, renderCustom, List.append_nil, fl_append, fl_b64, f41, t41]
  have : fl (escape ctx.laUrl) = escape ctx.laUrl := escape_filter _ hla.1
  have hnil : fl [] = [] := rfl
  simp [this, List.append_assoc, hnil]

theorem parse41 (ctx : Ctx) (hc : ctx.custom = []) (hla : LaOk ctx.laUrl) (hcs : ctx.checksum ≠ []) :
    parseWrmHeader (wrmText tmpl41 ctx)
      = some ⟨some ver41, [⟨ctx.defaultKid, some ctx.checksum, some aesctrText⟩], some ctx.laUrl⟩ := by
  have h := f41.parse ver41 f41_check [ctx]
    (fun c => t41.A ++ b64 c.checksum ++ t41.B ++ b64 c.defaultKid ++ t41.C)
    (fun c => .tag (t41.body (b64 c.checksum) (b64 c.defaultKid)) :: t41.tc)
    (fun c => ⟨c.defaultKid, some c.checksum, some aesctrText⟩) t41.wc (escape ctx.laUrl)
    (fun c w => (t41.sound t41_check w c.checksum c.defaultKid).1)
    (fun c => ⟨_, _, rfl, (t41.sound t41_check [] c.checksum c.defaultKid).2.1,
      (t41.sound t41_check [] c.checksum c.defaultKid).2.2.2.1,
      (t41.sound t41_check [] c.checksum c.defaultKid).2.2.2.2⟩)
    (by simp) (textHole_escape _ hla) (renderRaw tmpl41 ctx) (raw41 ctx hc hla hcs)
  rw [unescape_escape] at h
  exact h

/-! #### header version 4.0 -/

theorem tmpl40_shape : tmpl40 =
    [.atom (.lit (litAt tmpl40 0)), .atom .defaultKid, .atom (.lit (litAt tmpl40 2)),
     .ifChecksum [.lit (bodyLit tmpl40 3 0), .checksum, .lit (bodyLit tmpl40 3 2)] (elseBody tmpl40 3),
     .atom (.lit (litAt tmpl40 4)), .atom .laUrl, .atom (.lit (litAt tmpl40 6)),
     .forCustom (customBody tmpl40 7), .atom (.lit (litAt tmpl40 8))] := by decide +kernel

def e40 : Elems :=
  ⟨fl (litAt tmpl40 0), fl (litAt tmpl40 2) ++ fl (bodyLit tmpl40 3 0), fl (bodyLit tmpl40 3 2) ++ fl (litAt tmpl40 4),
   fl (litAt tmpl40 6), fl (litAt tmpl40 8)⟩
theorem e40_check : e40.check ver40 = true := by decide +kernel

theorem raw40 (ctx : Ctx) (hc : ctx.custom = []) (hla : LaOk ctx.laUrl) (hcs : ctx.checksum ≠ []) :
    fl (renderRaw tmpl40 ctx)
      = e40.L0 ++ (b64 ctx.defaultKid ++ e40.X1) ++ (b64 ctx.checksum ++ e40.X2) ++ (escape ctx.laUrl ++ e40.L2) ++ e40.L3 := by
  rw [tmpl40_shape]
  simp only [renderRaw, List.flatMap_cons, List.flatMap_nil, renderSeg, renderAtom, renderAtoms, hc, hcs,
    ne_eq, not_false_eq_true, if_true, renderCustom, List.append_nil, fl_append, fl_b64, e40]
  have : fl (escape ctx.laUrl) = escape ctx.laUrl := escape_filter _ hla.1
  have hnil : fl [] = [] := rfl
  simp [this, List.append_assoc, hnil]

theorem parse40 (ctx : Ctx) (hc : ctx.custom = []) (hla : LaOk ctx.laUrl) (hcs : ctx.checksum ≠ []) :
    parseWrmHeader (wrmText tmpl40 ctx)
      = some ⟨some ver40, [⟨ctx.defaultKid, some ctx.checksum, some aesctrText⟩], some ctx.laUrl⟩ := by
  have h := e40.parse ver40 e40_check ctx.defaultKid ctx.checksum (escape ctx.laUrl) (renderRaw tmpl40 ctx)
    (textHole_escape _ hla) (raw40 ctx hc hla hcs)
  rw [unescape_escape] at h
  exact h

/-! ### the round trip, for every header version -/

/-- the `version` attribute of header version `hv` -/
def versionText : Nat → Text
  | 40 => ver40
  | 41 => ver41
  | 42 => ver42
  | _ => ver43

/-- what a header of version `hv` names: 4.0 / 4.1 the default key id with its checksum,
4.2 every key id with its checksum (algorithm AESCTR), 4.3 every key id with checksum and
its own algorithm -/
def namedKids (hv : Nat) (ctx : Ctx) : List KidInfo :=
  if hv = 40 ∨ hv = 41 then [⟨ctx.defaultKid, some ctx.checksum, some aesctrText⟩]
  else if hv = 42 then ctx.kids.map fun k => ⟨k.kid, some k.checksum, some aesctrText⟩
  else ctx.kids.map fun k => ⟨k.kid, some k.checksum, some k.alg⟩

/-- the contexts the theorem covers -/
structure CtxOk (hv : Nat) (ctx : Ctx) : Prop where
  custom : ctx.custom = []
  la : LaOk ctx.laUrl
  checksum : hv = 40 ∨ hv = 41 → ctx.checksum ≠ []
  kids : hv = 42 ∨ hv = 43 → ctx.kids ≠ []
  alg : hv = 43 → ∀ k ∈ ctx.kids, NoCrLf k.alg

/-- **wrmheader_roundtrip** – for every header version with a template, the text
`generate_wrmheader` produces (template rendering with autoescape and base64, CR/LF removal,
`>\s+<` squeeze) is read back by the independent reader as exactly the version, the key
id(s) with their checksums and algorithm, and the licence URL that went in. -/
theorem wrmheader_roundtrip (hv : Nat) (tmpl : List Seg) (ctx : Ctx) (ht : template hv = some tmpl)
    (hok : CtxOk hv ctx) :
    parseWrmHeader (wrmText tmpl ctx) = some ⟨some (versionText hv), namedKids hv ctx, some ctx.laUrl⟩ := by
  unfold template at ht
  split at ht
  · injection ht with ht; subst ht
    simpa [versionText, namedKids] using parse40 ctx hok.custom hok.la (hok.checksum (Or.inl rfl))
  · injection ht with ht; subst ht
    simpa [versionText, namedKids] using parse41 ctx hok.custom hok.la (hok.checksum (Or.inr rfl))
  · injection ht with ht; subst ht
    simpa [versionText, namedKids] using parse42 ctx hok.custom hok.la (hok.kids (Or.inl rfl))
  · injection ht with ht; subst ht
    simpa [versionText, namedKids] using parse43 ctx hok.la (hok.kids (Or.inr rfl)) (hok.alg rfl)
  · simp at ht

/-- **pro_wrmheader_roundtrip** – composed with the object framing and the UTF-16 coding:
the PlayReady Object built from the rendered header parses back (PRO record → UTF-16LE
text → reader) to the same key id(s), checksum(s) and licence URL, and its length field is
its length. -/
theorem pro_wrmheader_roundtrip (hv : Nat) (tmpl : List Seg) (ctx : Ctx) (ht : template hv = some tmpl)
    (hok : CtxOk hv ctx) (hsc : ∀ c ∈ wrmText tmpl ctx, Scalar c)
    (hlen : (wrmBytes (wrmText tmpl ctx)).length < 65536) :
    ∃ pro payload text,
      generatePro (wrmBytes (wrmText tmpl ctx)) = some pro ∧
      parsePro pro = some [⟨1, payload.length, some payload⟩] ∧
      le32val pro = pro.length ∧
      decodeUtf16le payload = some text ∧
      parseWrmHeader text = some ⟨some (versionText hv), namedKids hv ctx, some ctx.laUrl⟩ := by
  obtain ⟨pro, hg, hp, hl, _⟩ := pro_roundtrip (wrmBytes (wrmText tmpl ctx)) hlen
  exact ⟨pro, wrmBytes (wrmText tmpl ctx), wrmText tmpl ctx, hg, hp, hl,
    (wrm_utf16le_no_bom _ hsc).2, wrmheader_roundtrip hv tmpl ctx ht hok⟩

/-- the context `generate_wrmheader` builds names the keys it was given: key ids in `bytes_le`
order, each with the first 8 bytes of `Enc key (bytes_le kid)` -/
theorem buildCtx_names_keys (Enc : Bytes → Bytes → Bytes) (sl : Nat) (keys : List KeyInfo) (dk : Bytes)
    (la : Option Text) (ctx : Ctx) (h : buildCtx Enc sl keys dk la [] = some ctx)
    (hk : ∀ k ∈ keys, k.kid.length = 16) :
    ctx.custom = [] ∧
    ctx.kids = keys.map (fun k => ⟨bytesLe k.kid, k.alg, (Enc k.key (bytesLe k.kid)).take 8⟩) ∧
    ∃ d ∈ keys, d.kid = dk ∧ ctx.defaultKid = bytesLe dk ∧ ctx.checksum = (Enc d.key (bytesLe dk)).take 8 := by
  have hle : ∀ g : Bytes, g.length = 16 → leGuidBytes g = bytesLe g := by
    intro g hg
    have h1 := (leGuid_is_bytes_le g hg).1
    simp only [hexToLeGuid, hg, ne_eq, not_true_eq_false, if_false, Option.some.injEq] at h1
    exact h1
  unfold buildCtx at h
  cases hf : keys.find? (·.kid = dk) with
  | none => simp [hf] at h
  | some d =>
    simp only [hf] at h
    have hd := List.mem_of_find?_eq_some hf
    have hdk : d.kid = dk := by simpa using List.find?_some hf
    cases hfmt : formatUrl (joinComma (keys.map (cfgOf sl))) (hexOf d.kid) ((la.getD testLaUrl).length + 1)
        (la.getD testLaUrl) with
    | none => simp [hfmt] at h
    | some url =>
      simp only [hfmt, Option.some.injEq] at h
      subst h
      refine ⟨rfl, ?_, d, hd, hdk, ?_, ?_⟩
      · apply List.map_congr_left
        intro k hkm
        rw [hle k.kid (hk k hkm)]
      · simp only; rw [hle d.kid (hk d hd), hdk]
      · simp only; rw [hle d.kid (hk d hd), hdk]

/-! ### which header version is rendered -/

/-- PlayReady version (×10) that introduced a header version -/
def introducedIn (hv : Nat) : Nat := if hv = 43 then 40 else if hv = 42 then 30 else if hv = 41 then 20 else 0

/-- **headerVersion_decision** – without an explicit header version the code renders: 4.3 iff
the (last) key's algorithm is not AESCTR; otherwise 4.2 unless there is exactly one key; for
exactly one key 4.1 when a PlayReady version ≥ 2.0 was given, else 4.0; and it refuses
(`ValueError`) exactly when a PlayReady version older than the one that introduced that
header version was given. -/
theorem headerVersion_decision (version : Option Nat) (aes : Bool) (n : Nat) :
    chooseHeaderVersion version none aes n =
      (let hv := if !aes then 43 else if n = 1 then (if 20 ≤ version.getD 0 then 41 else 40) else 42
       match version with
       | none => some hv
       | some v => if v < introducedIn hv then none else some hv) := by
  cases version with
  | none => cases aes <;> by_cases h1 : n = 1 <;> simp [chooseHeaderVersion, WrmHeader.minimumHeaderVersion, h1]
  | some v =>
    cases aes <;> by_cases h1 : n = 1 <;> by_cases h20 : 20 ≤ v <;>
      simp [chooseHeaderVersion, WrmHeader.minimumHeaderVersion, introducedIn, h1, h20] <;> omega

/-- an explicit header version is used iff it has a template -/
theorem headerVersion_explicit (version : Option Nat) (hv : Nat) (aes : Bool) (n : Nat) :
    chooseHeaderVersion version (some hv) aes n = (if (template hv).isSome then some hv else none) := by
  unfold chooseHeaderVersion template
  by_cases h0 : hv = 40
  · subst h0; rfl
  · by_cases h1 : hv = 41
    · subst h1; rfl
    · by_cases h2 : hv = 42
      · subst h2; rfl
      · by_cases h3 : hv = 43
        · subst h3; rfl
        · simp [h0, h1, h2, h3]

/-- the automatically chosen header can name every key: the single-key headers 4.0 / 4.1 are
chosen only for exactly one key, and a header is never newer than the PlayReady version allows -/
theorem headerVersion_capacity (version : Option Nat) (aes : Bool) (n hv : Nat)
    (h : chooseHeaderVersion version none aes n = some hv) :
    (template hv).isSome ∧ (hv = 40 ∨ hv = 41 → n = 1) ∧ (∀ v, version = some v → introducedIn hv ≤ v) := by
  rw [headerVersion_decision] at h
  cases version with
  | none =>
    cases aes <;> by_cases h1 : n = 1 <;> simp [h1] at h <;> subst h <;> simp [template, h1]
  | some v =>
    cases aes <;> by_cases h1 : n = 1 <;> by_cases h20 : 20 ≤ v <;>
      simp [h1, h20, introducedIn] at h <;> obtain ⟨hlt, rfl⟩ := h <;>
      simp [template, introducedIn, h1] <;> omega

/-- the application path (`PlayReady()` without version or header version): 4.0 for one
AESCTR key, 4.2 for several, 4.3 for another algorithm -/
theorem headerVersion_app (aes : Bool) (n : Nat) :
    chooseHeaderVersion none none aes n = some (PlayReady.minimumHeaderVersion aes n) := by
  cases aes <;> by_cases h1 : n = 1 <;>
    simp [chooseHeaderVersion, WrmHeader.minimumHeaderVersion, PlayReady.minimumHeaderVersion, h1]

/-! ### non-vacuity and the excluded licence URLs -/

def exCtx (la : Text) : Ctx :=
  { defaultKid := [0x40, 0x54, 0xb4, 0x1a, 0x2c, 0x53, 0x99, 0x43, 0x94, 0xdc, 0x5c, 0x5a, 0xd9, 0x58, 0x4b, 0xac]
    checksum := [0x44, 0xb9, 0x4e, 0x28, 0xe5, 0xb9, 0x20, 0x8a]
    kids := [⟨[0x40, 0x54, 0xb4, 0x1a, 0x2c, 0x53, 0x99, 0x43, 0x94, 0xdc, 0x5c, 0x5a, 0xd9, 0x58, 0x4b, 0xac],
              aesctrText, [0x44, 0xb9, 0x4e, 0x28, 0xe5, 0xb9, 0x20, 0x8a]⟩,
             ⟨[1, 2, 3, 4, 5, 6, 7, 8, 9, 10, 11, 12, 13, 14, 15, 16], [65, 69, 83, 67, 66, 67], [8, 7, 6, 5, 4, 3, 2, 1]⟩]
    laUrl := la
    custom := [] }

/-- `http://l/?a=1&b=<2>` – reserved characters -/
def exUrl : Text := [104, 116, 116, 112, 58, 47, 47, 108, 47, 63, 97, 61, 49, 38, 98, 61, 60, 50, 62]

example : CtxOk 43 (exCtx exUrl) :=
  ⟨rfl, ⟨by decide, Or.inr (by decide)⟩, by decide, by simp [exCtx],
    fun _ k hk => by
      simp only [exCtx, List.mem_cons, List.not_mem_nil, or_false] at hk
      rcases hk with rfl | rfl <;> (intro c hc; revert c; decide)⟩

example : parseWrmHeader (wrmText tmpl43 (exCtx exUrl))
    = some ⟨some ver43, namedKids 43 (exCtx exUrl), some exUrl⟩ := by decide +kernel

example : parseWrmHeader (wrmText tmpl40 (exCtx exUrl))
    = some ⟨some ver40, namedKids 40 (exCtx exUrl), some exUrl⟩ := by decide +kernel

/-- excluded point 1: a line feed inside the licence URL is deleted by the clean-up – the
header names `ab`, not `a⏎b` -/
example : parseWrmHeader (wrmText tmpl42 (exCtx [97, 10, 98]))
    = some ⟨some ver42, namedKids 42 (exCtx [97, 10, 98]), some [97, 98]⟩ := by decide +kernel

/-- excluded point 2: a licence URL of blanks only is deleted by `>\s+<` -/
example : parseWrmHeader (wrmText tmpl41 (exCtx [32, 32]))
    = some ⟨some ver41, namedKids 41 (exCtx [32, 32]), some []⟩ := by decide +kernel

end DashLive.C11
