import DashLive.Lemmas.Store
/-!
# C17 – management histories keep the store consistent

Property theorems only (the invariant `Inv = Core ∧ Uniq` and the per-operation
lemmas live in `Lemmas/Store.lean`; the model in `Model/Store.lean`).

Quantification: every store state, every operation with every argument
(existing and non-existing primary keys, repeated names, every content
descriptor, every list of Period specs), every finite history.  Nothing is
bounded.

What these theorems are *about* is the model; that the model is what the real
application does is the `store_hist` correspondence obligation (checked after
every step of every generated history, see harness/props/c17.py).  The
service-level half of C17 (manifests answer 200/4xx, indexed files come back
byte-exactly) is evaluated on the real application by the Layer-C oracle.
-/
namespace DashLive.Store

/-- the empty store is consistent -/
theorem inv_init : Inv init := ⟨core_init, uniq_init⟩

/-- **every management operation preserves referential consistency** – no side
condition on the operation or its arguments survives (the candidates of D15 were
repaired in the code, and the model follows the repaired code). -/
theorem inv_step (s : St) (op : Op) (h : Inv s) : Inv (step s op).1 := inv_step_all h op

/-- **every finite history**: the state reached from a consistent state by any
list of operations is consistent -/
theorem inv_reachable (ops : List Op) (s : St) (h : Inv s) : Inv (exec s ops) := by
  induction ops generalizing s with
  | nil => exact h
  | cons op ops ih => exact ih _ (inv_step s op h)

theorem inv_reachable_init (ops : List Op) : Inv (exec init ops) := inv_reachable ops init inv_init

/-- the invariant in the words of the property: in every reachable state every
media file has its stream and its blob, every key link, period, adaptation set
and timing reference points at an existing row, and names are unique -/
theorem reachable_consistent (ops : List Op) :
    let s := exec init ops
    (∀ f ∈ s.files, (∃ st ∈ s.streams, st.pk = f.stream) ∧ (∃ b ∈ s.blobs, b.pk = f.blob)) ∧
    (∀ l ∈ s.links, (∃ f ∈ s.files, f.pk = l.1) ∧ (∃ k ∈ s.keys, k.pk = l.2)) ∧
    (∀ p ∈ s.periods, (∃ m ∈ s.mps, m.pk = p.parent) ∧ (∃ st ∈ s.streams, st.pk = p.stream)) ∧
    (∀ a ∈ s.adps, ∃ p ∈ s.periods, p.pk = a.period) ∧
    (∀ st ∈ s.streams, ∀ n, st.tref = some n → ∃ f ∈ s.files, f.name = n ∧ f.stream = st.pk) ∧
    (s.streams.map (·.dir)).Nodup ∧ (s.files.map (·.name)).Nodup ∧ (s.blobs.map (·.filename)).Nodup ∧
    (s.keys.map (·.kid)).Nodup ∧ (s.mps.map (·.name)).Nodup ∧
    (s.periods.map (fun p => (p.parent, p.pid))).Nodup ∧ (s.adps.map (fun a => (a.period, a.track))).Nodup := by
  intro s
  obtain ⟨c, u⟩ := inv_reachable_init ops
  have mm : ∀ {α} {l : List α} {f : α → Nat} {k : Nat}, k ∈ l.map f → ∃ x ∈ l, f x = k := by
    intro α l f k h; obtain ⟨x, hx, e⟩ := List.mem_map.mp h; exact ⟨x, hx, e⟩
  exact ⟨fun f hf => ⟨mm (c.fileStream f hf), mm (c.fileBlob f hf)⟩,
         fun l hl => ⟨mm (c.linkFile l hl), mm (c.linkKey l hl)⟩,
         fun p hp => ⟨mm (c.periodParent p hp), mm (c.periodStream p hp)⟩,
         fun a ha => mm (c.adpPeriod a ha), c.tref,
         u.streamDir, c.fileName, c.blobName, c.keyKid, u.mpsName, u.periodPid, u.adpTrack⟩

/-! ### every media file has its blob file -/

/-- each operation keeps the blob file of every media file on disk (in the
directory of its stream, under the name its blob row records) -/
theorem blob_files_step (s : St) (op : Op) (h : Inv s) (hd : DiskOK s) : DiskOK (step s op).1 :=
  diskOK_step h hd op

/-- in every reachable state every media file has its blob row *and* its blob file -/
theorem blob_files_reachable (ops : List Op) : DiskOK (exec init ops) := by
  have key : ∀ (ops : List Op) (s : St), Inv s → DiskOK s → DiskOK (exec s ops) := by
    intro ops
    induction ops with
    | nil => intro s _ hd; exact hd
    | cons op ops ih => intro s h hd; exact ih _ (inv_step s op h) (blob_files_step s op h hd)
  exact key ops init inv_init diskOK_init

/-! ### each deletion removes exactly the rows it owns and none it shares -/

/-- **deleting a stream** removes the stream, its media files, their blobs and key
links, the periods that play it and their adaptation sets – exactly those; keys
(shared), multi-period streams and files on disk are untouched. -/
theorem delete_owns_exactly_stream (s : St) (k : Nat) (st : Stream) (h : findStream s k = some st) :
    (delStream s k).2 = .ok ∧
    (∀ x, x ∈ (delStream s k).1.streams ↔ x ∈ s.streams ∧ x.pk ≠ k) ∧
    (∀ f, f ∈ (delStream s k).1.files ↔ f ∈ s.files ∧ f.stream ≠ k) ∧
    (∀ b, b ∈ (delStream s k).1.blobs ↔ b ∈ s.blobs ∧ ¬ ∃ f ∈ s.files, f.stream = k ∧ f.blob = b.pk) ∧
    (∀ l, l ∈ (delStream s k).1.links ↔ l ∈ s.links ∧ ¬ ∃ f ∈ s.files, f.stream = k ∧ f.pk = l.1) ∧
    (∀ p, p ∈ (delStream s k).1.periods ↔ p ∈ s.periods ∧ p.stream ≠ k) ∧
    (∀ a, a ∈ (delStream s k).1.adps ↔ a ∈ s.adps ∧ ¬ ∃ p ∈ s.periods, p.stream = k ∧ p.pk = a.period) ∧
    (delStream s k).1.keys = s.keys ∧ (delStream s k).1.mps = s.mps ∧ (delStream s k).1.disk = s.disk := by
  simp only [delStream, h, dropStream]
  refine ⟨by trivial, ?_, ?_, ?_, ?_, ?_, ?_, by trivial, by trivial, by trivial⟩
  · intro x; simp [List.mem_filter]
  · intro f; simp [List.mem_filter]
  · intro b
    simp only [List.mem_filter, Bool.not_eq_true', List.any_eq_false, beq_iff_eq, and_imp, not_exists,
      not_and]
  · intro l
    simp only [List.mem_filter, Bool.not_eq_true', List.any_eq_false, beq_iff_eq, and_imp, not_exists,
      not_and]
  · intro p; simp [List.mem_filter]
  · intro a
    simp only [List.mem_filter, Bool.not_eq_true', List.any_eq_false, beq_iff_eq, and_imp, not_exists,
      not_and]

/-- **deleting a media file** removes the file, its blob and its key links –
exactly those; the keys it was linked to (shared) stay, no other media file,
blob, period or adaptation set is touched, nothing is removed from disk, and
the only other change is that the owning stream's timing reference is cleared
when it named this file. -/
theorem delete_owns_exactly_media (s : St) (spk mfid : Nat) (st : Stream) (f : MediaFile)
    (h1 : findStream s spk = some st) (h2 : findFile s mfid = some f) :
    (delMedia s spk mfid).2 = .ok ∧
    (∀ g, g ∈ (delMedia s spk mfid).1.files ↔ g ∈ s.files ∧ g.pk ≠ f.pk) ∧
    (∀ b, b ∈ (delMedia s spk mfid).1.blobs ↔ b ∈ s.blobs ∧ b.pk ≠ f.blob) ∧
    (∀ l, l ∈ (delMedia s spk mfid).1.links ↔ l ∈ s.links ∧ l.1 ≠ f.pk) ∧
    (delMedia s spk mfid).1.streams.map (fun x => (x.pk, x.dir, x.title)) =
      s.streams.map (fun x => (x.pk, x.dir, x.title)) ∧
    (∀ x ∈ s.streams, ¬ (x.pk = f.stream ∧ x.tref = some f.name) → x ∈ (delMedia s spk mfid).1.streams) ∧
    (delMedia s spk mfid).1.keys = s.keys ∧ (delMedia s spk mfid).1.mps = s.mps ∧
    (delMedia s spk mfid).1.periods = s.periods ∧ (delMedia s spk mfid).1.adps = s.adps ∧
    (delMedia s spk mfid).1.disk = s.disk := by
  simp only [delMedia, h1, h2, dropFile]
  refine ⟨by trivial, ?_, ?_, ?_, ?_, ?_, by trivial, by trivial, by trivial, by trivial, by trivial⟩
  · intro g; simp [List.mem_filter]
  · intro b; simp [List.mem_filter]
  · intro l; simp [List.mem_filter]
  · exact map_upd_field (fun x : Stream => (x.pk, x.dir, x.title))
      (fun x : Stream => x.pk == f.stream && x.tref == some f.name) (fun x => { x with tref := none })
      s.streams (fun _ => rfl)
  · intro x hx hn
    refine List.mem_map.mpr ⟨x, hx, ?_⟩
    have : ¬ (x.pk == f.stream && x.tref == some f.name) = true := by
      simpa using hn
    simp [this]

/-- **deleting a key** removes the key and its links – exactly those; the media
files that used it (keys are shared between files) and everything else stay. -/
theorem delete_owns_exactly_key (s : St) (k : Nat) (key : Key) (h : findKey s k = some key) :
    (delKey s k).2 = .ok ∧
    (∀ x, x ∈ (delKey s k).1.keys ↔ x ∈ s.keys ∧ x.pk ≠ k) ∧
    (∀ l, l ∈ (delKey s k).1.links ↔ l ∈ s.links ∧ l.2 ≠ k) ∧
    (delKey s k).1.streams = s.streams ∧ (delKey s k).1.files = s.files ∧ (delKey s k).1.blobs = s.blobs ∧
    (delKey s k).1.mps = s.mps ∧ (delKey s k).1.periods = s.periods ∧ (delKey s k).1.adps = s.adps ∧
    (delKey s k).1.disk = s.disk := by
  simp only [delKey, h, dropKey]
  refine ⟨by trivial, ?_, ?_, by trivial, by trivial, by trivial, by trivial, by trivial, by trivial, by trivial⟩
  · intro x; simp [List.mem_filter]
  · intro l; simp [List.mem_filter]

/-- **deleting a multi-period stream** removes it, its periods and their
adaptation sets – exactly those; the streams its periods play (shared with
other periods), media files, blobs, keys and links stay. -/
theorem delete_owns_exactly_mps (s : St) (name : String) (m : Mps) (h : findMps s name = some m) :
    (delMps s name).2 = .ok ∧
    (∀ x, x ∈ (delMps s name).1.mps ↔ x ∈ s.mps ∧ x.pk ≠ m.pk) ∧
    (∀ p, p ∈ (delMps s name).1.periods ↔ p ∈ s.periods ∧ p.parent ≠ m.pk) ∧
    (∀ a, a ∈ (delMps s name).1.adps ↔
      a ∈ s.adps ∧ ¬ ∃ p ∈ s.periods, p.parent = m.pk ∧ p.pk = a.period) ∧
    (delMps s name).1.streams = s.streams ∧ (delMps s name).1.files = s.files ∧
    (delMps s name).1.blobs = s.blobs ∧ (delMps s name).1.keys = s.keys ∧
    (delMps s name).1.links = s.links ∧ (delMps s name).1.disk = s.disk := by
  simp only [delMps, h, dropMps]
  refine ⟨by trivial, ?_, ?_, ?_, by trivial, by trivial, by trivial, by trivial, by trivial, by trivial⟩
  · intro x; simp [List.mem_filter]
  · intro p; simp [List.mem_filter]
  · intro a
    simp only [List.mem_filter, Bool.not_eq_true', List.any_eq_false, beq_iff_eq, and_imp, not_exists,
      not_and]

/-- in a consistent store the rows a deletion leaves behind reference no deleted
row: the four deletions above re-establish `Inv` (instances of `inv_step`) -/
theorem delete_leaves_no_dangling (s : St) (h : Inv s) :
    (∀ k, Inv (delStream s k).1) ∧ (∀ k m, Inv (delMedia s k m).1) ∧ (∀ k, Inv (delKey s k).1) ∧
    (∀ n, Inv (delMps s n).1) :=
  ⟨fun k => inv_step s (.delStream k) h, fun k m => inv_step s (.delMedia k m) h,
   fun k => inv_step s (.delKey k) h, fun n => inv_step s (.delMps n) h⟩

/-- an operation that addresses an object that does not exist (`nf`, HTTP 404)
changes nothing at all -/
theorem not_found_changes_nothing (s : St) (op : Op) (h : (step s op).2 = .nf) : (step s op).1 = s := by
  have hc : ∀ a b : St, (commit a b).2 ≠ .nf := by
    intro a b; unfold commit; split <;> simp
  cases op <;> simp only [step] at h ⊢
  case addStream d t => simp [addStream] at h
  case editStream k d t r =>
    unfold editStream at h ⊢
    split at h
    · simp_all
    · exfalso
      simp only at h
      split at h
      · exact hc _ _ h
      · split at h
        · simp at h
        · exact hc _ _ h
  case delStream k => unfold delStream at h ⊢; split at h <;> simp_all
  case setDefaults k v => unfold setDefaults at h ⊢; split at h <;> simp_all
  case upload k st su c =>
    unfold upload at h ⊢
    split at h
    · simp_all
    · exfalso; simp only at h; split at h <;> simp at h
  case index m =>
    unfold index at h ⊢
    split at h
    · simp_all
    · exfalso
      split at h
      · simp at h
      · split at h <;> simp at h
  case editMedia k m t =>
    unfold editMedia at h ⊢
    split at h
    · simp_all
    · split at h
      · simp_all
      · exfalso
        split at h
        · simp at h
        · split at h
          · simp at h
          · split at h
            · simp at h
            · split at h
              · simp at h
              · simp only at h; split at h <;> simp at h
  case delMedia k m =>
    unfold delMedia at h ⊢
    split at h
    · simp_all
    · split at h
      · simp_all
      · simp at h
  case addKey kid c => unfold addKey at h ⊢; split at h <;> simp_all
  case editKey k c => unfold editKey at h ⊢; split at h <;> simp_all
  case delKey k => unfold delKey at h ⊢; split at h <;> simp_all
  case addMps n t ps =>
    exfalso
    unfold addMps at h
    split at h
    · simp at h
    · simp only at h
      split at h
      · simp at h
      · exact hc _ _ h
  case editMps u b n t ps =>
    unfold editMps at h ⊢
    split at h
    · simp_all
    · exfalso
      split at h
      · simp at h
      · simp only at h
        split at h
        · simp at h
        · exact hc _ _ h
  case delMps n => unfold delMps at h ⊢; split at h <;> simp_all

/-! ### Non-vacuity: a concrete non-trivial reachable state -/

/-- clear video, track 1 -/
def exVideo : Content := { idx := true, ctype := 0, track := 1, enc := false, kids := [], badlang := false }
/-- encrypted audio, track 2, one key id -/
def exAudio : Content := { idx := true, ctype := 1, track := 2, enc := true, kids := ["k1"], badlang := false }

/-- two streams, uploads, indexing (creates a key), timing references, a
multi-period stream with two periods, then: a key deleted, a media file replaced
by an upload of the same name, a stream deleted under a period -/
def exHistory : List Op :=
  [ .addStream "alpha" "A", .addStream "bravo" "B",
    .upload 1 "va" ".mp4" exVideo, .upload 1 "aa" ".mp4" exAudio, .upload 2 "vb" ".mp4" exVideo,
    .index 1, .index 2, .index 3,
    .editStream 1 "alpha" "A" "va", .editStream 2 "bravo" "B" "vb",
    .addMps "mpsone" "MPS" [⟨none, "p1", 1, 1, [1, 2], true⟩, ⟨none, "p2", 2, 2, [1], true⟩],
    .upload 2 "va" ".mp4" exVideo,          -- refused: the name belongs to stream 1
    .delKey 1, .upload 1 "aa" ".mp4" exVideo, .delStream 2 ]

example : (run init exHistory).map (·.2) =
    [.ok, .ok, .ok, .ok, .ok, .ok, .ok, .ok, .ok, .ok, .ok, .rej, .ok, .ok, .ok] := by decide

example : (exec init exHistory).streams = [⟨1, "alpha", "A", some "va"⟩] ∧
    (exec init exHistory).files.map (fun f => (f.pk, f.name, f.blob)) = [(1, "va", 1), (4, "aa", 4)] ∧
    (exec init exHistory).periods.map (fun p => (p.pk, p.pid, p.stream)) = [(1, "p1", 1)] ∧
    (exec init exHistory).adps.map (fun a => (a.pk, a.period, a.track)) = [(1, 1, 1), (2, 1, 2)] ∧
    (exec init exHistory).keys = [] ∧ (exec init exHistory).links = [] := by decide

example : Inv (exec init exHistory) := inv_reachable_init exHistory

/-! ### D15: what the unrepaired code did (negative witnesses, replayed on the real
application before the `fix:` commits – see known_findings.json) -/

/-- `session.delete(stream)` before commit 25b7f26: no cascade to the periods -/
def dropStreamOld (s : St) (k : Nat) : St :=
  let gone := s.files.filter (·.stream == k)
  { s with streams := s.streams.filter (·.pk != k),
           files := s.files.filter (·.stream != k),
           blobs := s.blobs.filter (fun b => !gone.any (·.blob == b.pk)),
           links := s.links.filter (fun l => !gone.any (·.pk == l.1)) }

/-- `session.delete(mf)` before commit 0b30ad8: the timing reference is kept -/
def delMediaOld (s : St) (f : MediaFile) : St := dropFile s f

/-- one stream with an indexed timing-reference file, played by one period -/
def exSmall : St := exec init
  [ .addStream "alpha" "A", .upload 1 "va" ".mp4" exVideo, .index 1, .editStream 1 "alpha" "A" "va",
    .addMps "mpsone" "MPS" [⟨none, "p1", 1, 1, [1], true⟩] ]

example : Inv exSmall := inv_reachable_init _

/-- deleting the stream left `period.stream_pk` dangling -/
example : ¬ Inv (dropStreamOld exSmall 1) := by
  intro h
  have := h.1.periodStream ⟨1, "p1", 1, 1, 1⟩ (by decide)
  revert this
  decide

/-- deleting the timing-reference file left the reference dangling -/
example : ¬ Inv (delMediaOld exSmall ⟨1, "va", 1, 1, some ⟨1, 0, false⟩, []⟩) := by
  intro h
  obtain ⟨f, hf, _, _⟩ := h.1.tref ⟨1, "alpha", "A", some "va"⟩ (by decide) "va" rfl
  have he : (delMediaOld exSmall ⟨1, "va", 1, 1, some ⟨1, 0, false⟩, []⟩).files = [] := by decide
  rw [he] at hf
  cases hf

end DashLive.Store
