import DashLive.Lemmas.Xml
import DashLive.Lemmas.XmlLex
import DashLive.Gen.TemplateSites
/-!
# C05 – every manifest response is well-formed, structurally valid DASH
## (the escaping / lexical layer and the interpolation-site table)

Property theorems only (helper lemmas: `Lemmas/Xml.lean`, `Lemmas/XmlLex.lean`).

What is proved here, for **every** stored or requested string `s`, every template
text `pre` before the interpolation site and every text `post` after it (no bound
on lengths, any Unicode scalar values):

* `escape_text_inert` / `escape_attr_inert` (and the `autoescape_…` twins for the
  `.xml` templates, where Jinja's autoescaping does the work): writing the escaped
  string into character data, or into a single- or double-quoted attribute value,
  leaves the token structure of the whole document – every start, end and empty
  tag, every attribute name, every comment, PI and CDATA section, and whether the
  document lexes at all – exactly what it is with nothing written there.  An
  escaped string can not add, remove or break an element.
* `sites_escaped` – over the table generated from the templates of the current tree
  (`Gen/TemplateSites.lean`, 370 sites today): every site that writes an untrusted
  string sits in character data or in a quoted attribute value and escapes it
  exactly once; every site outside those contexts writes code-fixed text only.
* `site_inert` – the two facts combined per site of the table.
* `uint_lexical`, `duration_lexical`, `datetime_lexical_partial` – the text the
  templates write for an unsigned integer, a duration and a date-time is in the
  lexical space of xs:unsignedLong / xs:duration / xs:dateTime and carries no sign;
  `typed_values_inert` – such text needs no escaping.

The context hypotheses `InText pre` / `InAttr q pre` are not restrictions of the
property: they *define* "the site is in character data / in an attribute value
quoted with q" (decidable; the generated table records which one holds per site
and the `site_table` channel checks that against rendered output).  Examples at
the end show the hypotheses are satisfiable, that the statement fails without
them, without escaping, and with the pre-fix `xmlSafe` (commit 2a0f3a5).

`datetime_lexical_partial` carries the side condition `offsetXsd` (UTC offset at
most ±14:00, the range xs:dateTime can express); it is false for the accepted
request `start=…+15:00` – ledger entry D18, `example` below.

The structural MPD rules of C05 (required attributes, unique ids, no empty
AdaptationSet, URL-template identifiers) are properties of the Jinja templates,
whose rendering engine is not modelled: they are decided by exploration through
the real application (harness/props/c05.py), not by these theorems.
-/
namespace DashLive.Xml
open DashLive.Gen.TemplateSites DashLive.IsoText

/-! ## an escaped string is inert -/

/-- **escape_text_inert.**  `xmlSafe s` written into character data changes nothing
but character data. -/
theorem escape_text_inert (pre s post : Text) (h : InText pre) :
    skeleton (pre ++ xmlSafe s ++ post) = skeleton (pre ++ post) := by
  obtain ⟨txt, out, hpre⟩ := inText_state h
  rw [xmlSafe_eq]
  exact skeleton_insert hpre (Inert.flatMap escChar (inert_content_escChar txt out) s)

/-- **escape_attr_inert.**  `xmlSafe s` written inside an attribute value quoted with
`q` (either quote character) changes nothing but that value. -/
theorem escape_attr_inert (q : Char) (hq : q = '"' ∨ q = '\'') (pre s post : Text) (h : InAttr q pre) :
    skeleton (pre ++ xmlSafe s ++ post) = skeleton (pre ++ post) := by
  obtain ⟨n, as, an, v, out, hpre⟩ := inAttr_state h
  rw [xmlSafe_eq]
  exact skeleton_insert hpre (Inert.flatMap escChar (inert_value_escChar q hq n an v as out) s)

/-- the same for Jinja's autoescaping (`.xml` templates: patches, DRM, events, segments) -/
theorem autoescape_text_inert (pre s post : Text) (h : InText pre) :
    skeleton (pre ++ autoEscape s ++ post) = skeleton (pre ++ post) := by
  obtain ⟨txt, out, hpre⟩ := inText_state h
  exact skeleton_insert hpre (Inert.flatMap autoChar (inert_content_autoChar txt out) s)

theorem autoescape_attr_inert (q : Char) (hq : q = '"' ∨ q = '\'') (pre s post : Text) (h : InAttr q pre) :
    skeleton (pre ++ autoEscape s ++ post) = skeleton (pre ++ post) := by
  obtain ⟨n, as, an, v, out, hpre⟩ := inAttr_state h
  exact skeleton_insert hpre (Inert.flatMap autoChar (inert_value_autoChar q hq n an v as out) s)

/-- consequence for nesting: whether the tags of the document balance under a single root
does not depend on the string -/
theorem escape_keeps_nesting (pre s post : Text) (h : InText pre ∨ InAttr '"' pre ∨ InAttr '\'' pre) :
    (skeleton (pre ++ xmlSafe s ++ post)).map wellNested = (skeleton (pre ++ post)).map wellNested := by
  rcases h with h | h | h
  · rw [escape_text_inert pre s post h]
  · rw [escape_attr_inert '"' (Or.inl rfl) pre s post h]
  · rw [escape_attr_inert '\'' (Or.inr rfl) pre s post h]

/-- what the escaped text consists of: no markup delimiter survives, and every `&`
starts one of the five references -/
theorem escape_no_delimiter (s : Text) :
    ∀ c ∈ xmlSafe s, c ≠ '<' ∧ c ≠ '>' ∧ c ≠ '"' ∧ c ≠ '\'' := by
  rw [xmlSafe_eq]
  intro c hc
  obtain ⟨x, _, hx⟩ := List.mem_flatMap.mp hc
  unfold escChar at hx
  split at hx
  · exact (by decide : ∀ c ∈ "&amp;".toList, c ≠ '<' ∧ c ≠ '>' ∧ c ≠ '"' ∧ c ≠ '\'') c hx
  split at hx
  · exact (by decide : ∀ c ∈ "&lt;".toList, c ≠ '<' ∧ c ≠ '>' ∧ c ≠ '"' ∧ c ≠ '\'') c hx
  split at hx
  · exact (by decide : ∀ c ∈ "&gt;".toList, c ≠ '<' ∧ c ≠ '>' ∧ c ≠ '"' ∧ c ≠ '\'') c hx
  split at hx
  · exact (by decide : ∀ c ∈ "&quot;".toList, c ≠ '<' ∧ c ≠ '>' ∧ c ≠ '"' ∧ c ≠ '\'') c hx
  split at hx
  · exact (by decide : ∀ c ∈ "&apos;".toList, c ≠ '<' ∧ c ≠ '>' ∧ c ≠ '"' ∧ c ≠ '\'') c hx
  · have : c = x := by simpa using hx
    subst this
    exact ⟨‹_›, ‹_›, ‹_›, ‹_›⟩

/-! ## the generated site table -/

/-- **sites_escaped.**  Finite obligation over the table generated from the templates
of the current tree: every site classified *untrusted string* is in character data or
in a quoted attribute value and is escaped exactly once (by a final `xmlSafe`, or by
autoescaping with nothing marked `safe`); every site in any other position writes
code-fixed text. -/
theorem sites_escaped : sites.all (fun s => s.adequate && s.placed) = true := by decide +kernel

/-- the table is not trivially adequate: untrusted strings are written in character
data and in attribute values, by `xmlSafe` sites and by autoescaped sites -/
theorem sites_nontrivial :
    (sites.any fun s => s.kind = .untrusted && s.ctx = .text && !s.autoescape) = true ∧
    (sites.any fun s => s.kind = .untrusted && s.ctx = .attrDq && !s.autoescape) = true ∧
    (sites.any fun s => s.kind = .untrusted && s.ctx = .text && s.autoescape) = true ∧
    (sites.any fun s => s.kind = .untrusted && s.ctx = .attrDq && s.autoescape) = true := by
  decide +kernel

/-- the escaping function a site applies is inert in every quoted / text context -/
theorem site_escape_inert (st : Site) (pre v post : Text)
    (h : InText pre ∨ InAttr '"' pre ∨ InAttr '\'' pre) :
    skeleton (pre ++ st.escape v ++ post) = skeleton (pre ++ post) := by
  unfold Site.escape
  split
  · rcases h with h | h | h
    · exact escape_text_inert pre v post h
    · exact escape_attr_inert '"' (Or.inl rfl) pre v post h
    · exact escape_attr_inert '\'' (Or.inr rfl) pre v post h
  · rcases h with h | h | h
    · exact autoescape_text_inert pre v post h
    · exact autoescape_attr_inert '"' (Or.inl rfl) pre v post h
    · exact autoescape_attr_inert '\'' (Or.inr rfl) pre v post h

/-- the context a table row claims, as a predicate on the text before the site -/
def Site.InCtx (st : Site) (pre : Text) : Prop :=
  match st.ctx with
  | .text => InText pre
  | .attrDq => InAttr '"' pre
  | .attrSq => InAttr '\'' pre
  | .other => False

/-- **site_inert.**  For every row of the generated table that writes an untrusted
string: it escapes once, and whatever string is written there, in the context the
row records, the token structure of the document does not depend on it. -/
theorem site_inert : ∀ st ∈ sites, st.kind = .untrusted →
    st.escapes = 1 ∧
    ∀ pre v post, st.InCtx pre → skeleton (pre ++ st.escape v ++ post) = skeleton (pre ++ post) := by
  intro st hst hk
  have h := List.all_eq_true.mp sites_escaped st hst
  simp only [Site.adequate, hk, bne_self_eq_false, Bool.false_or, Bool.and_eq_true, decide_eq_true_eq] at h
  refine ⟨h.1.1.1.2, ?_⟩
  intro pre v post hc
  apply site_escape_inert
  unfold Site.InCtx at hc
  split at hc
  · exact Or.inl hc
  · exact Or.inr (Or.inl hc)
  · exact Or.inr (Or.inr hc)
  · exact absurd hc id

/-! ## lexical validity of typed values -/

/-- **uint_lexical.**  `'%d'` of a non-negative integer is a non-empty string of digits
(no sign): the lexical space of xs:unsignedInt / xs:unsignedLong. -/
theorem uint_lexical (n : Nat) : isXsUnsigned (dec n) = true := isXsUnsigned_dec n

/-- **duration_lexical.**  For every non-negative value `v` (µs) and every admissible
result `ms` of the float front end of `toIsoDuration`, the text written is a
non-negative xs:duration. -/
theorem duration_lexical (v ms : Nat) (h : Admissible (v % 1000000) ms) :
    isXsDuration (isoDurationBack (v / 1000000) ms) = true := by
  have hms : ms ≤ 1000 := by
    unfold Admissible at h
    have := Nat.mod_lt v (by decide : 0 < 1000000)
    omega
  exact isXsDuration_back _ _ hms

/-- the same with the exact (round-half-up) front end -/
theorem duration_lexical_exact (v : Nat) : isXsDuration (toIsoDuration v) = true := by
  unfold toIsoDuration
  refine duration_lexical v (roundMs (v % 1000000)) ?_
  unfold Admissible roundMs
  omega

/-- **datetime_lexical_partial.**  For every date-time Python's `datetime` accepts whose
UTC offset xs:dateTime can express (none, or at most ±14:00) the text
`to_iso_datetime` writes is a valid xs:dateTime with a non-negative year. -/
theorem datetime_lexical_partial (d : DateTime) (hv : d.valid = true) (ho : offsetXsd d.offset = true) :
    isXsDateTime (toIsoDateTime d) = true := by
  have hok : d.offsetOk = true := by
    unfold DateTime.offsetOk
    unfold offsetXsd at ho
    cases hoff : d.offset with
    | none => rfl
    | some o =>
      rw [hoff] at ho
      simp only [decide_eq_true_eq] at ho ⊢
      omega
  rw [toIsoDateTime_eq d hok]
  exact isXsDateTime_render d hv ho

/-- "non-negative": the recognisers accept no sign – a negative xs:duration starts with
`-`, a negative integer or year with `-` -/
theorem lexical_nonneg (t : Text) :
    (isXsDuration t = true → t.head? = some 'P') ∧
    (isXsUnsigned t = true → ∀ c ∈ t, c.isDigit = true) ∧
    (isXsDateTime t = true → ∀ c ∈ t.take 4, c.isDigit = true) := by
  refine ⟨?_, ?_, ?_⟩
  · intro h
    unfold isXsDuration at h
    split at h
    · rfl
    · cases h
  · intro h c hc
    simp only [isXsUnsigned, allDigits, Bool.and_eq_true, List.all_eq_true] at h
    exact h.2 c hc
  · intro h c hc
    simp only [isXsDateTime, Bool.and_eq_true, List.all_eq_true] at h
    exact h.1.2 c hc

/-- **typed_values_inert.**  Text made of digits and of the letters and punctuation of
durations and date-times (anything without `<`, `&`, `"`, `'`) is inert in character
data and in quoted attribute values, so the unescaped numeric / duration / date-time
sites can not break the document either. -/
theorem typed_values_inert (pre e post : Text) (he : ∀ c ∈ e, isPlain c = true)
    (h : InText pre ∨ InAttr '"' pre ∨ InAttr '\'' pre) :
    skeleton (pre ++ e ++ post) = skeleton (pre ++ post) := by
  rcases h with h | h | h
  · obtain ⟨txt, out, hpre⟩ := inText_state h
    exact skeleton_insert hpre (inert_content_plainText txt out e he)
  · obtain ⟨n, as, an, v, out, hpre⟩ := inAttr_state h
    exact skeleton_insert hpre (inert_value_plainText '"' (Or.inl rfl) n an v as out e he)
  · obtain ⟨n, as, an, v, out, hpre⟩ := inAttr_state h
    exact skeleton_insert hpre (inert_value_plainText '\'' (Or.inr rfl) n an v as out e he)

/-- digits are plain, so `uint` sites are covered by `typed_values_inert` -/
theorem uint_plain (n : Nat) : ∀ c ∈ dec n, isPlain c = true := by
  intro c hc
  have hd := allDigits_dec n c hc
  unfold isPlain
  simp only [Bool.and_eq_true, bne_iff_ne, ne_eq]
  refine ⟨⟨⟨?_, ?_⟩, ?_⟩, ?_⟩ <;> (intro h; subst h; exact absurd hd (by decide))

/-! ## non-vacuity, and what happens outside the hypotheses -/

/-- a hostile title inside `<Title>` – the hypotheses hold and the structure is that of the empty title -/
example : InText "<MPD><Title>".toList := by decide
example : skeleton ("<MPD><Title>".toList ++ xmlSafe "</Title><&>\"' ]]>".toList ++ "</Title></MPD>".toList)
    = skeleton "<MPD><Title></Title></MPD>".toList := by decide
example : skeleton "<MPD><Title></Title></MPD>".toList
    = some [.open_ "MPD".toList [], .open_ "Title".toList [], .close "Title".toList, .close "MPD".toList] := by
  decide
example : xmlSafe "<&>\"'".toList = "&lt;&amp;&gt;&quot;&apos;".toList := by decide
example : autoEscape "<&>\"'".toList = "&lt;&amp;&gt;&#34;&#39;".toList := by decide
/-- the value is there, as character data -/
example : tags ("<T>".toList ++ xmlSafe "a<b".toList ++ "</T>".toList)
    = some [.open_ "T".toList [], .text "a&lt;b".toList, .close "T".toList] := by decide
/-- inside a double- and a single-quoted attribute value -/
example : InAttr '"' "<Period id=\"".toList := by decide
example : InAttr '\'' "<replace sel='".toList := by decide
example : skeleton ("<Period id=\"".toList ++ xmlSafe "\"><x y=\"".toList ++ "\"/>".toList)
    = some [.empty "Period".toList [("id".toList, [])]] := by decide

/-- without escaping the same strings do change or break the structure -/
example : skeleton ("<MPD><Title>".toList ++ "<&>".toList ++ "</Title></MPD>".toList) = none := by decide
example : skeleton ("<MPD><Title>".toList ++ "</Title><Title>".toList ++ "</Title></MPD>".toList)
    ≠ skeleton "<MPD><Title></Title></MPD>".toList := by decide
/-- `xmlSafe` as it was before commit 2a0f3a5 (only `&`): not inert -/
example : skeleton ("<MPD><Location>".toList ++ xmlSafeOld "?x=<y>".toList ++ "</Location></MPD>".toList)
    ≠ skeleton "<MPD><Location></Location></MPD>".toList := by decide
example : skeleton ("<UTCTiming value=\"".toList ++ xmlSafeOld "a\" b=\"".toList ++ "\"/>".toList)
    ≠ skeleton "<UTCTiming value=\"\"/>".toList := by decide
/-- outside the context hypotheses the statement is false: inside a tag but outside a
quoted value even an escaped, perfectly harmless string adds an attribute -/
example : ¬ InText "<a ".toList := by decide
example : skeleton ("<a ".toList ++ xmlSafe "b=\"\"".toList ++ ">".toList) = none := by decide
example : skeleton ("<a ".toList ++ "b='1'".toList ++ ">".toList) ≠ skeleton "<a >".toList := by decide

/-- typed values: concrete renderings are accepted, signed or malformed ones are not -/
example : isXsDuration (toIsoDuration 3725050000) = true ∧ toIsoDuration 3725050000 = "PT1H2M5.05S".toList := by
  decide
example : isXsDuration "PT-1H59M55S".toList = false ∧ isXsDuration "-PT5S".toList = false
    ∧ isXsDuration "PT".toList = false ∧ isXsDuration "P".toList = false := by decide
example : isXsUnsigned "".toList = false ∧ isXsUnsigned "-1".toList = false ∧ isXsUnsigned "%d".toList = false
    ∧ isXsUnsigned (dec 0) = true := by decide
example : isXsDateTime "2024-05-06T07:08:09Z".toList = true
    ∧ isXsDateTime "2024-05-06T07:08:09.250000+05:30".toList = true
    ∧ isXsDateTime "2024-13-06T07:08:09Z".toList = false
    ∧ isXsDateTime "-024-05-06T07:08:09Z".toList = false := by decide
/-- non-vacuity of `datetime_lexical_partial` … -/
example : (DateTime.mk 2024 2 29 23 59 59 999999 (some (-840))).valid = true
    ∧ offsetXsd (some (-840)) = true := by decide
/-- … and the excluded point: `start=2024-01-01T00:00:00+15:00` is accepted by the option
parser, `to_iso_datetime` writes the offset as it is, and `+15:00` is not an xs:dateTime
time zone (ledger entry D18) -/
example : offsetXsd (some 900) = false
    ∧ toIsoDateTime (DateTime.mk 2024 1 1 0 0 0 0 (some 900)) = "2024-01-01T00:00:00+15:00".toList
    ∧ isXsDateTime (toIsoDateTime (DateTime.mk 2024 1 1 0 0 0 0 (some 900))) = false := by decide

end DashLive.Xml
