import DashLive.Gen.LiveTiming
import DashLive.Lemmas.LiveTiming
/-!
# Translated `DashTiming.__init__` + `calculate_live_params` = C08's model

`Gen/LiveTiming.lean` is regenerated from the source text of dashlive/mpeg/dash/timing.py on every
run (`harness/gen_livetiming.py`: the statement list cut into `init_*`, `resolve_<kind>`, `liveTail`,
composed as `liveParams_<kind>`).  This file proves each piece equal to the corresponding step of the
hand-written model `LiveTiming.calculateLiveParams` and, composed, the whole translated function equal
to the model (`tie_liveTiming`) – for every clock `0 ≤ now` (only `today` needs the bound: the model's
day number is a `Nat`), every start value, every `depth`/`mup`/`leeway` (None or any integer) and
every timing reference.  So the function the C08 theorems are about is, statement by statement, the
function in the source file.

Parameters of the translation and their instances here:
* `floorMonth`, `floorYear` (`now.replace(day=1, …)`, `now.replace(month=1, day=1, …)`) :=
  `monthStart`, `yearStart` of the model, i.e. the calendar walk (tied to Python's calendar by the
  `calendar` correspondence channel);
* `pyRound n d` (`round(n / d)`) := round-half-to-even of the model (`roundHalfEven`), validated by the
  `mupdefault` channel.
Not part of the translated record: the UTC offset of an explicit start (`utcOffsetMin`, only printing).
-/
namespace DashLive.GenTie.LiveTiming
open DashLive DashLive.LiveTiming DashLive.Calendar
open DashLive.Gen.LiveTiming (DashTiming liveTail)

def pyRound (n d : Int) : Int := roundHalfEven n.toNat d.toNat

def toGen (t : LiveTiming) : DashTiming :=
  { timeShiftBufferDepth := t.timeShiftBufferDepth, availabilityStartTime := t.availabilityStartTime,
    elapsedTime := t.elapsedTime, minimumUpdatePeriod := t.minimumUpdatePeriod,
    firstAvailableTime := t.firstAvailableTime, leeway := t.leeway, publishTime := t.publishTime }

def modelTail (now ast0 depth0 : Int) (ref : Ref) (mup leeway : Option Int) : DashTiming :=
  { timeShiftBufferDepth := clampDepth (backOff ast0 now).2 depth0
    availabilityStartTime := (backOff ast0 now).1
    elapsedTime := (backOff ast0 now).2
    minimumUpdatePeriod := effectiveMup true ref mup
    firstAvailableTime := (backOff ast0 now).2 - clampDepth (backOff ast0 now).2 depth0 * usPerSec
    leeway := match leeway with
      | none => 0
      | some l => l * usPerSec
    publishTime := publish (floorSec now) (backOff ast0 now).1 (backOff ast0 now).2 (effectiveMup true ref mup) }

theorem model_eq (now : Int) (ref : Ref) (o : Options) :
    toGen (calculateLiveParams now ref o) =
      modelTail now (resolved now o) (initialDepth true o.depth) ref o.mup o.leeway := rfl

theorem defaultMup_eq (ref : Ref) :
    max (1 : Int) (pyRound (2 * (ref.segmentDuration : Int)) ref.timescale) = defaultMup true ref := by
  unfold defaultMup pyRound
  have : (2 * (ref.segmentDuration : Int)).toNat = 2 * ref.segmentDuration := by omega
  simp [this]

theorem backOff_fst (ast0 now : Int) :
    (backOff ast0 now).1 = if now - ast0 = 0 then ast0 - 86400000000 else ast0 := by
  unfold backOff dayUs; simp only; split <;> rfl

theorem backOff_snd (ast0 now : Int) :
    (backOff ast0 now).2 = if now - ast0 = 0 then 86400000000 else now - ast0 := by
  unfold backOff dayUs; simp only; split <;> rfl

theorem fdiv_one_us (e : Int) : Int.fdiv e 1 = e := by
  rw [Int.fdiv_eq_ediv_of_nonneg _ (by decide)]; exact Int.ediv_one e

theorem tie_tail (now ast0 depth0 : Int) (ref : Ref) (mup leeway : Option Int) :
    liveTail pyRound now (floorSec now) 0 depth0 ast0 ref.segmentDuration ref.timescale mup leeway =
      modelTail now ast0 depth0 ref mup leeway := by
  have hd := defaultMup_pos ref
  have hq : 0 ≤ defaultMup true ref * 1000000 := by omega
  rcases mup with _ | mup <;> rcases leeway with _ | leeway
  all_goals
    simp only [liveTail, modelTail, backOff_fst, backOff_snd, clampDepth, effectiveMup, publish, floorSec, usPerSec,
      defaultMup_eq, Int.zero_mul, fdiv_one_us, Int.fdiv_eq_ediv_of_nonneg _ hq]
  all_goals
    by_cases hm : mup ≤ 0
    · simp only [hm, if_true, ne_eq, not_true_eq_false, if_false]
    · have hmq : 0 ≤ mup * 1000000 := by omega
      simp only [hm, if_false, ne_eq, reduceCtorEq, not_false_eq_true, if_true, Option.getD_some,
        Int.fdiv_eq_ediv_of_nonneg _ hmq]

theorem tie_init_publishTime (now : Int) : Gen.LiveTiming.init_publishTime now = floorSec now := rfl
theorem tie_init_leeway (now : Int) : Gen.LiveTiming.init_leeway now = 0 := rfl
theorem tie_init_one_day (now : Int) : Gen.LiveTiming.init_one_day now = dayUs := rfl

theorem tie_init_depth (now : Int) (depth : Option Int) :
    Gen.LiveTiming.init_timeShiftBufferDepth now depth = initialDepth true depth := by
  rcases depth with _ | depth <;> simp [Gen.LiveTiming.init_timeShiftBufferDepth, initialDepth, defaultDepth]

theorem tie_resolve_epoch (now : Int) :
    Gen.LiveTiming.resolve_epoch monthStart yearStart now (floorSec now) dayUs
      = (resolveStart true now (floorSec now) .epoch).1 := rfl

theorem tie_resolve_now (now : Int) :
    Gen.LiveTiming.resolve_now monthStart yearStart now (floorSec now) dayUs
      = (resolveStart true now (floorSec now) .now).1 := rfl

theorem tie_resolve_explicit (now t off : Int) :
    Gen.LiveTiming.resolve_explicit monthStart yearStart now (floorSec now) dayUs t
      = (resolveStart true now (floorSec now) (.explicit t off)).1 := rfl

theorem tie_resolve_month (now : Int) :
    Gen.LiveTiming.resolve_month monthStart yearStart now (floorSec now) dayUs
      = (resolveStart true now (floorSec now) .month).1 := by
  simp only [Gen.LiveTiming.resolve_month, resolveStart]
  split <;> rfl

theorem tie_resolve_year (now : Int) :
    Gen.LiveTiming.resolve_year monthStart yearStart now (floorSec now) dayUs
      = (resolveStart true now (floorSec now) .year).1 := by
  simp only [Gen.LiveTiming.resolve_year, resolveStart]
  split <;> rfl

theorem tie_resolve_today (now : Int) (h0 : 0 ≤ now) :
    Gen.LiveTiming.resolve_today monthStart yearStart now (floorSec now) dayUs
      = (resolveStart true now (floorSec now) .today).1 := by
  have e1 : now - now % 86400000000 = dayStart now := by rw [dayStart_eq h0]; rfl
  have hc : ((Int.fdiv (floorSec now % 86400000000) 3600000000 = 0 ∧
        Int.fdiv ((floorSec now % 86400000000) % 3600000000) 60000000 = 0) ↔
      (hourOf (floorSec now) = 0 ∧ minuteOf (floorSec now) = 0)) := by
    rw [Int.fdiv_eq_ediv_of_nonneg _ (by omega), Int.fdiv_eq_ediv_of_nonneg _ (by omega)]
    unfold hourOf minuteOf dayStart dayOf floorSec hourUs minuteUs dayUs usPerSec
    omega
  simp only [Gen.LiveTiming.resolve_today, resolveStart, e1]
  by_cases hg : hourOf (floorSec now) = 0 ∧ minuteOf (floorSec now) = 0
  · rw [if_pos (hc.mpr hg), if_pos hg]; rfl
  · rw [if_neg (fun x => hg (hc.mp x)), if_neg hg]

/-- the translated constructor applied to the model's option record -/
def genLive (now : Int) (ref : Ref) (o : Options) : DashTiming :=
  match o.start with
  | .epoch => Gen.LiveTiming.liveParams_epoch monthStart yearStart pyRound now
      ref.segmentDuration ref.timescale o.depth o.mup o.leeway
  | .today => Gen.LiveTiming.liveParams_today monthStart yearStart pyRound now
      ref.segmentDuration ref.timescale o.depth o.mup o.leeway
  | .month => Gen.LiveTiming.liveParams_month monthStart yearStart pyRound now
      ref.segmentDuration ref.timescale o.depth o.mup o.leeway
  | .year => Gen.LiveTiming.liveParams_year monthStart yearStart pyRound now
      ref.segmentDuration ref.timescale o.depth o.mup o.leeway
  | .now => Gen.LiveTiming.liveParams_now monthStart yearStart pyRound now
      ref.segmentDuration ref.timescale o.depth o.mup o.leeway
  | .explicit t _ => Gen.LiveTiming.liveParams_explicit monthStart yearStart pyRound now t
      ref.segmentDuration ref.timescale o.depth o.mup o.leeway

/-- **the function translated from the source text is the model the C08 theorems are about** -/
theorem tie_liveTiming (now : Int) (ref : Ref) (o : Options) (h0 : 0 ≤ now) :
    genLive now ref o = toGen (calculateLiveParams now ref o) := by
  rw [model_eq]
  obtain ⟨start, depth, mup, leeway⟩ := o
  cases start <;>
    simp only [genLive, Gen.LiveTiming.liveParams_epoch, Gen.LiveTiming.liveParams_today,
      Gen.LiveTiming.liveParams_month, Gen.LiveTiming.liveParams_year, Gen.LiveTiming.liveParams_now,
      Gen.LiveTiming.liveParams_explicit, tie_init_publishTime, tie_init_leeway, tie_init_one_day,
      tie_init_depth, tie_resolve_epoch, tie_resolve_today _ h0, tie_resolve_month, tie_resolve_year,
      tie_resolve_now, tie_resolve_explicit _ _ ‹Int›, tie_tail, resolved]

/-- field by field (the form C09's `window_from_timing` uses) -/
theorem tie_liveTiming_fields (now : Int) (ref : Ref) (o : Options) (h0 : 0 ≤ now) :
    (genLive now ref o).availabilityStartTime = (calculateLiveParams now ref o).availabilityStartTime ∧
    (genLive now ref o).elapsedTime = (calculateLiveParams now ref o).elapsedTime ∧
    (genLive now ref o).timeShiftBufferDepth = (calculateLiveParams now ref o).timeShiftBufferDepth ∧
    (genLive now ref o).firstAvailableTime = (calculateLiveParams now ref o).firstAvailableTime ∧
    (genLive now ref o).publishTime = (calculateLiveParams now ref o).publishTime ∧
    (genLive now ref o).minimumUpdatePeriod = (calculateLiveParams now ref o).minimumUpdatePeriod ∧
    (genLive now ref o).leeway = (calculateLiveParams now ref o).leeway := by
  rw [tie_liveTiming now ref o h0]
  exact ⟨rfl, rfl, rfl, rfl, rfl, rfl, rfl⟩

end DashLive.GenTie.LiveTiming
