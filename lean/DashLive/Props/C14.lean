import DashLive.Lemmas.Events
import DashLive.Lemmas.Scte35
/-!
# C14 – timed events are delivered exactly once and decode to their schedule

Property theorems only (helper lemmas live in `Lemmas/Events.lean`, …).

Part 1 (this section): the in-band / out-of-band event *scheduling* of
`RepeatingEventBase` – quantified over every schedule (`start`, `interval`,
`count`, `duration`, `timescale`, `version`, `inband` arbitrary Python ints),
every representation timescale and every segment / run of segments.
-/
namespace DashLive.Events

/-! ### termination -/

/-- **`create_emsg_boxes` terminates**: for *every* schedule and segment the loop
finishes within the stated fuel `(seg_end − start)/interval + 2`
(`interval < 1` is refused with `ValueError` before the loop – fix a993bc6). -/
theorem emsg_terminates (s : Sched) (repTs : Int) (g : Seg) :
    createEmsg s repTs g ≠ .outOfFuel := by
  rcases createEmsg_cases s repTs g with h | h | h | h
  · rw [h.2]; exact fun h => by cases h
  · rw [h.2.2]; exact fun h => by cases h
  · rw [h.2.2.2]; exact fun h => by cases h
  · rw [h.2.2.2]; exact fun h => by cases h

/-- the `assert (event_id >= 0)` of line 103 can never fire -/
theorem emsg_no_assertion (s : Sched) (repTs : Int) (g : Seg) :
    createEmsg s repTs g ≠ .assertionError := by
  rcases createEmsg_cases s repTs g with h | h | h | h
  · rw [h.2]; exact fun h => by cases h
  · rw [h.2.2]; exact fun h => by cases h
  · rw [h.2.2.2]; exact fun h => by cases h
  · rw [h.2.2.2]; exact fun h => by cases h

/-- `ValueError` exactly for an in-band schedule with `interval < 1` (fix a993bc6)
or with more than `MAX_EVENTS_PER_SEGMENT` intervals in the segment (fix 8c4223f) -/
theorem emsg_value_error_iff (s : Sched) (repTs : Int) (g : Seg) :
    createEmsg s repTs g = .valueError ↔
      (s.inband = true ∧ (s.interval < 1 ∨
        (segEnd s repTs g - segStart s repTs g) / s.interval > maxEventsPerSegment)) := by
  rcases createEmsg_cases s repTs g with h | h | h | h
  · rw [h.2]
    constructor
    · intro h'; cases h'
    · intro h'; rw [h.1] at h'; cases h'.1
  · rw [h.2.2]
    exact ⟨fun _ => ⟨h.1, Or.inl h.2.1⟩, fun _ => rfl⟩
  · rw [h.2.2.2]
    exact ⟨fun _ => ⟨h.1, Or.inr h.2.2.1⟩, fun _ => rfl⟩
  · rw [h.2.2.2]
    constructor
    · intro h'; cases h'
    · intro h'
      rcases h'.2 with h1 | h1
      · have := h.2.1; omega
      · have := h.2.2.1; omega

/-- **D13b (why the guard is needed).** Without the guard of lines 67-70 the loop of lines 106-136
diverges: with `interval = 0` and an unbounded schedule, once an event lies in the
segment no amount of fuel lets the loop finish … -/
theorem emsgLoop_diverges_interval_zero (s : Sched) (h0 : s.interval = 0) (hc : s.count ≤ 0)
    (a b pt : Int) (h1 : a ≤ pt) (h2 : pt < b) :
    ∀ (fuel : Nat) (id : Int), emsgLoop s a b fuel id pt = none := by
  intro fuel
  induction fuel with
  | zero => intro id; rfl
  | succ fuel ih =>
    intro id
    unfold emsgLoop
    have c1 : ¬ (s.count > 0 ∧ id ≥ s.count) := by omega
    have c2 : ¬ (s.count > 0 ∧ id + 1 ≥ s.count) := by omega
    have c3 : ¬ pt < a := by omega
    simp only [h2, not_true_eq_false, if_false, c1, c2, c3, h0, Int.add_zero, ih,
      Option.map_none]

/-- … and with a negative interval it skips backwards for ever. -/
theorem emsgLoop_diverges_interval_neg (s : Sched) (h0 : s.interval < 0) (hc : s.count ≤ 0)
    (a b : Int) (hab : a ≤ b) :
    ∀ (fuel : Nat) (id pt : Int), pt < a → emsgLoop s a b fuel id pt = none := by
  intro fuel
  induction fuel with
  | zero => intro id pt _; rfl
  | succ fuel ih =>
    intro id pt hpt
    unfold emsgLoop
    have c0 : pt < b := by omega
    have c1 : ¬ (s.count > 0 ∧ id ≥ s.count) := by omega
    simp only [c0, not_true_eq_false, if_false, c1, hpt, if_true]
    exact ih _ _ (by omega)

/-! ### one segment -/

/-- the segment interval in the event timebase is well ordered -/
theorem seg_ordered (s : Sched) (repTs : Int) (g : Seg) (hts : 0 ≤ s.timescale) (hr : 0 < repTs)
    (hd : 0 ≤ g.dur) : segStart s repTs g ≤ segEnd s repTs g := by
  unfold segStart segEnd
  rw [pydiv_pos _ hr, pydiv_pos _ hr]
  apply Int.ediv_le_ediv hr
  rw [Int.add_mul]
  have := Int.mul_nonneg hd hts
  omega

/-- **contiguity inside a loop** (and across a loop without drift): when the next
segment's decode time is this segment's decode time plus its duration, the two
event-timebase intervals abut exactly – whatever the two timescales are. -/
theorem contiguous_of_media_contiguous (s : Sched) (repTs : Int) (g g' : Seg)
    (h : g'.tfdt = g.tfdt + g.dur) : segEnd s repTs g = segStart s repTs g' := by
  unfold segStart segEnd; rw [h]

/-- **`create_emsg_boxes` returns exactly the scheduled events of the segment.**
For every in-band schedule with `interval ≥ 1`, every representation timescale and
every segment: the boxes are those of `scheduled s A B` (the events `k` with
`A ≤ start + k·interval < B`, `k < count` if `count > 0`; see `mem_scheduled`),
in increasing order of `k` – provided the segment spans at most
`MAX_EVENTS_PER_SEGMENT` intervals (otherwise the call is refused, see
`emsg_value_error_iff`; ledger D13k). -/
theorem emsg_segment_exact (s : Sched) (hin : s.inband = true) (hi : 0 < s.interval)
    (repTs : Int) (g : Seg)
    (hmax : (segEnd s repTs g - segStart s repTs g) / s.interval ≤ maxEventsPerSegment) :
    createEmsg s repTs g =
      .ok ((scheduled s (segStart s repTs g) (segEnd s repTs g)).map
            (mkEmsg s (segStart s repTs g))) := by
  unfold createEmsg
  simp only [emsgEvents_spec s hin hi _ _ hmax _ (Nat.le_refl _)]

/-- whenever the call succeeds it returns exactly the scheduled events of the segment
(no side condition: the only other outcome is the `ValueError` of `emsg_value_error_iff`) -/
theorem emsg_ok_exact (s : Sched) (repTs : Int) (g : Seg) (l : List Emsg)
    (h : createEmsg s repTs g = .ok l) :
    l = if s.inband then (scheduled s (segStart s repTs g) (segEnd s repTs g)).map
                           (mkEmsg s (segStart s repTs g)) else [] := by
  rcases createEmsg_cases s repTs g with c | c | c | c
  · rw [c.2] at h; injection h with h; simp [c.1, ← h]
  · rw [c.2.2] at h; cases h
  · rw [c.2.2.2] at h; cases h
  · rw [c.2.2.2] at h; injection h with h; simp [c.1, ← h]

/-- not in-band ⇒ no boxes -/
theorem emsg_not_inband (s : Sched) (hin : s.inband = false) (repTs : Int) (g : Seg) :
    createEmsg s repTs g = .ok [] := by
  simp [createEmsg, emsgEvents, hin]

/-- what `scheduled` contains: event `k` at time `start + k·interval` for exactly
the `k ≥ 0` whose time is in `[a, b)` and that exist in the schedule -/
theorem mem_scheduled (s : Sched) (hi : 0 < s.interval) (a b : Int) (e : Ev) :
    e ∈ scheduled s a b ↔
      (0 ≤ e.id ∧ e.pt = s.start + e.id * s.interval ∧ a ≤ e.pt ∧ e.pt < b ∧
        (s.count > 0 → e.id < s.count)) := by
  unfold scheduled
  simp only [List.mem_map]
  constructor
  · rintro ⟨k, hk, rfl⟩
    have := (mem_cap_range s hi a b k).mp hk
    unfold evTime at this
    exact ⟨this.1, rfl, this.2.1, this.2.2.1, this.2.2.2⟩
  · rintro ⟨h0, hpt, h1, h2, h3⟩
    refine ⟨e.id, (mem_cap_range s hi a b e.id).mpr ?_, ?_⟩
    · unfold evTime; rw [← hpt]; exact ⟨h0, h1, h2, h3⟩
    · cases e; simp only [evTime] at hpt ⊢; rw [hpt]

/-- the ids of `scheduled` are strictly increasing: in order, **no duplicates** -/
theorem scheduled_sorted (s : Sched) (a b : Int) :
    List.Pairwise (· < ·) ((scheduled s a b).map (·.id)) := by
  unfold scheduled
  rw [List.map_map]
  have : ((fun e : Ev => e.id) ∘ fun k => (⟨k, evTime s k⟩ : Ev)) = id := rfl
  rw [this, List.map_id]
  exact idRange_sorted _ _

/-- **every emitted event lies in its segment, has `id = k`, and exists in the
schedule** (`emsg_in_segment`) – and its time field resolves to the scheduled
instant (`emsg_time_resolves`): version 0 carries the non-negative delta from the
segment start, any other version the absolute time. -/
theorem emsg_in_segment (s : Sched) (hi : 0 < s.interval) (repTs : Int) (g : Seg)
    (l : List Emsg) (h : createEmsg s repTs g = .ok l) (x : Emsg) (hx : x ∈ l) :
    0 ≤ x.eventId ∧
    segStart s repTs g ≤ s.start + x.eventId * s.interval ∧
    s.start + x.eventId * s.interval < segEnd s repTs g ∧
    (s.count > 0 → x.eventId < s.count) ∧
    x.version = s.version ∧ x.timescale = s.timescale ∧ x.eventDuration = s.duration := by
  have hl := emsg_ok_exact s repTs g l h
  by_cases hin : s.inband = true
  · simp only [hin, if_true] at hl
    subst hl
    simp only [List.mem_map] at hx
    obtain ⟨e, he, rfl⟩ := hx
    have := (mem_scheduled s hi _ _ e).mp he
    simp only [mkEmsg]
    rw [← this.2.1]
    refine ⟨this.1, this.2.2.1, this.2.2.2.1, this.2.2.2.2, ?_, ?_, ?_⟩ <;> trivial
  · simp only [hin] at hl
    subst hl
    cases hx

theorem emsg_time_resolves (s : Sched) (hi : 0 < s.interval) (repTs : Int) (g : Seg)
    (l : List Emsg) (h : createEmsg s repTs g = .ok l) (x : Emsg) (hx : x ∈ l) :
    (s.version = 0 →
      ∃ d, x.delta = some d ∧ x.pt = none ∧ 0 ≤ d ∧
        segStart s repTs g + d = s.start + x.eventId * s.interval) ∧
    (s.version ≠ 0 →
      x.delta = none ∧ x.pt = some (s.start + x.eventId * s.interval)) := by
  have hl := emsg_ok_exact s repTs g l h
  by_cases hin : s.inband = true
  · simp only [hin, if_true] at hl
    subst hl
    simp only [List.mem_map] at hx
    obtain ⟨e, he, rfl⟩ := hx
    have := (mem_scheduled s hi _ _ e).mp he
    simp only [mkEmsg]
    rw [← this.2.1]
    constructor
    · intro hv
      simp only [hv, if_true]
      refine ⟨_, rfl, ?_, by omega, by omega⟩
      trivial
    · intro hv
      simp only [hv, if_false, and_self]
  · simp only [hin] at hl
    subst hl
    cases hx

/-! ### runs of consecutive segments: exactly once -/

/-- the `(event_id, time)` pairs carried by a run of segment requests, concatenated
in request order -/
def runEvents (s : Sched) (repTs : Int) (segs : List Seg) : List Ev :=
  segs.flatMap fun g => scheduled s (segStart s repTs g) (segEnd s repTs g)

/-- consecutive segments abut in the event timebase, each interval is ordered -/
def Contiguous (s : Sched) (repTs : Int) : List Seg → Prop
  | [] => True
  | [g] => segStart s repTs g ≤ segEnd s repTs g
  | g :: g' :: rest =>
    segStart s repTs g ≤ segEnd s repTs g ∧ segEnd s repTs g = segStart s repTs g' ∧
    Contiguous s repTs (g' :: rest)

instance decContiguous (s : Sched) (repTs : Int) : (l : List Seg) → Decidable (Contiguous s repTs l)
  | [] => isTrue trivial
  | [g] => inferInstanceAs (Decidable (segStart s repTs g ≤ segEnd s repTs g))
  | g :: g' :: rest =>
    have := decContiguous s repTs (g' :: rest)
    inferInstanceAs (Decidable (segStart s repTs g ≤ segEnd s repTs g ∧
      segEnd s repTs g = segStart s repTs g' ∧ Contiguous s repTs (g' :: rest)))

/-- consecutive segments abut in the *media* timebase (`tfdt' = tfdt + duration`) -/
def MediaContiguous : List Seg → Prop
  | [] => True
  | [_] => True
  | g :: g' :: rest => g'.tfdt = g.tfdt + g.dur ∧ MediaContiguous (g' :: rest)

/-- end of the last interval of a non-empty run -/
def runEnd (s : Sched) (repTs : Int) (g : Seg) (rest : List Seg) : Int :=
  segEnd s repTs ((g :: rest).getLast (List.cons_ne_nil _ _))

theorem runEnd_cons (s : Sched) (repTs : Int) (g g' : Seg) (rest : List Seg) :
    runEnd s repTs g (g' :: rest) = runEnd s repTs g' rest := by
  simp [runEnd]

theorem contiguous_ordered (s : Sched) (repTs : Int) (g : Seg) (rest : List Seg)
    (h : Contiguous s repTs (g :: rest)) : segStart s repTs g ≤ runEnd s repTs g rest := by
  induction rest generalizing g with
  | nil => simpa [runEnd, Contiguous] using h
  | cons g' rest ih =>
    obtain ⟨h1, h2, h3⟩ := h
    rw [runEnd_cons]
    have := ih g' h3
    omega

/-- every request of the run answers with exactly its scheduled boxes
(so `runEvents` *is* what the run of requests carries) -/
theorem run_requests_ok (s : Sched) (hin : s.inband = true) (hi : 0 < s.interval) (repTs : Int)
    (segs : List Seg)
    (hmax : ∀ g ∈ segs, (segEnd s repTs g - segStart s repTs g) / s.interval ≤ maxEventsPerSegment) :
    ∀ g ∈ segs, createEmsg s repTs g =
      .ok ((scheduled s (segStart s repTs g) (segEnd s repTs g)).map
        (mkEmsg s (segStart s repTs g))) :=
  fun g hg => emsg_segment_exact s hin hi repTs g (hmax g hg)

/-- **Exactly once.** For any run of segments whose event-timebase intervals are
contiguous (`Bᵢ = Aᵢ₊₁`), the concatenation of the events carried by the
individual segments is exactly the scheduled events of `[A₀, B_last)`: every such
event once, in order, nothing else (`mem_scheduled`, `scheduled_sorted`). -/
theorem emsg_exactly_once (s : Sched) (hi : 0 < s.interval) (repTs : Int)
    (g : Seg) (rest : List Seg) (hc : Contiguous s repTs (g :: rest)) :
    runEvents s repTs (g :: rest) = scheduled s (segStart s repTs g) (runEnd s repTs g rest) := by
  induction rest generalizing g with
  | nil => simp [runEvents, runEnd]
  | cons g' rest ih =>
    obtain ⟨h1, h2, h3⟩ := hc
    have hrest := ih g' h3
    have hord := contiguous_ordered s repTs g' rest h3
    rw [runEnd_cons]
    unfold runEvents at hrest ⊢
    rw [List.flatMap_cons, hrest]
    unfold scheduled
    rw [← List.map_append, h2]
    congr 1
    apply idRange_append
    · exact cap_mono s (firstIdx_mono s hi (by omega))
    · exact cap_mono s (firstIdx_mono s hi hord)

/-- does segment `g`'s event-timebase interval contain scheduled event `k` -/
def carries (s : Sched) (repTs : Int) (k : Int) (g : Seg) : Bool :=
  decide (0 ≤ k ∧ segStart s repTs g ≤ s.start + k * s.interval ∧
    s.start + k * s.interval < segEnd s repTs g ∧ (s.count > 0 → k < s.count))

/-- **how often is an event delivered** – for *any* run of segment requests
(contiguous or not): event `k` is carried once for every segment whose
event-timebase interval contains its time (and never if it is not in the
schedule).  Exactly-once ⇔ exactly one interval contains it; a gap between two
intervals loses the events in it, an overlap duplicates them (ledger D13a). -/
theorem emsg_delivery_count (s : Sched) (hi : 0 < s.interval) (repTs : Int) (segs : List Seg) (k : Int) :
    ((runEvents s repTs segs).map (·.id)).count k = (segs.filter (carries s repTs k)).length := by
  induction segs with
  | nil => simp [runEvents]
  | cons g rest ih =>
    unfold runEvents at ih ⊢
    rw [List.flatMap_cons, List.map_append, List.count_append, ih, List.filter_cons]
    have hnd : ((scheduled s (segStart s repTs g) (segEnd s repTs g)).map (·.id)).Nodup :=
      (scheduled_sorted s _ _).imp (fun hab => Int.ne_of_lt hab)
    have hm : k ∈ (scheduled s (segStart s repTs g) (segEnd s repTs g)).map (·.id) ↔
        carries s repTs k g = true := by
      unfold scheduled carries
      rw [List.map_map]
      have : ((fun e : Ev => e.id) ∘ fun k => (⟨k, evTime s k⟩ : Ev)) = id := rfl
      rw [this, List.map_id, decide_eq_true_eq]
      exact mem_cap_range s hi _ _ k
    rw [hnd.count]
    by_cases hk : carries s repTs k g = true
    · rw [if_pos (hm.mpr hk), if_pos hk, List.length_cons]; omega
    · rw [if_neg (fun h => hk (hm.mp h)), if_neg hk]; omega

/-- media-level statement of the hypothesis: a run in which every segment starts
where the previous one ended *in the media timebase* (true inside a loop of the
source, and across a loop when the representation is as long as the stream's
timing reference) is contiguous in the event timebase, for every pair of
timescales. -/
theorem contiguous_of_media_run (s : Sched) (repTs : Int) (hts : 0 ≤ s.timescale) (hr : 0 < repTs)
    (segs : List Seg) (hd : ∀ g ∈ segs, 0 ≤ g.dur)
    (hm : MediaContiguous segs) :
    Contiguous s repTs segs := by
  induction segs with
  | nil => trivial
  | cons g rest ih =>
    cases rest with
    | nil => exact seg_ordered s repTs g hts hr (hd g (List.mem_cons_self))
    | cons g' rest =>
      refine ⟨seg_ordered s repTs g hts hr (hd g (List.mem_cons_self)),
        contiguous_of_media_contiguous s repTs g g' hm.1, ?_⟩
      exact ih (fun x hx => hd x (List.mem_cons_of_mem _ hx)) hm.2

/-! ### out-of-band -/

theorem oobLoop_eq (s : Sched) (n : Nat) (k : Int) :
    oobLoop s n k (evTime s k) = (idsFrom k n).map (fun j => ⟨j, evTime s j, s.duration⟩) := by
  induction n generalizing k with
  | zero => rfl
  | succ n ih => simp only [oobLoop, idsFrom, List.map_cons, evTime_succ, ih]

/-- **the manifest lists ids `0 … count−1` with the scheduled times** (when the
events are out-of-band and `count > 0`; otherwise it lists nothing) -/
theorem oob_list (s : Sched) :
    manifestEvents s =
      if s.inband = false ∧ s.count > 0 then
        (idRange 0 s.count).map (fun k => ⟨k, s.start + k * s.interval, s.duration⟩)
      else [] := by
  unfold manifestEvents
  by_cases h : s.inband = false ∧ s.count > 0
  · have h' : (!s.inband) = true ∧ s.count > 0 := by simp [h.1, h.2]
    simp only [h', h, and_self, if_true]
    have := oobLoop_eq s s.count.toNat 0
    simp only [evTime, Int.zero_mul, Int.add_zero] at this
    rw [this]
    simp [idRange]
  · have h' : ¬ ((!s.inband) = true ∧ s.count > 0) := by
      intro hh; apply h; exact ⟨by simpa using hh.1, hh.2⟩
    simp only [h', h, if_false]

/-- **the out-of-band list is the in-band schedule**: the `(id, time)` pairs the
manifest lists are exactly those the segments covering `[start, start + count·interval)`
would carry in-band -/
theorem oob_same_schedule (s : Sched) (hi : 0 < s.interval) (hc : s.count > 0)
    (hin : s.inband = false) :
    (manifestEvents s).map (fun e => (⟨e.id, e.pt⟩ : Ev)) =
      scheduled s s.start (s.start + s.count * s.interval) := by
  rw [oob_list]
  simp only [hin, hc, and_self, if_true, List.map_map]
  unfold scheduled
  have f0 : firstIdx s s.start = 0 := by simp [firstIdx]
  have f1 : firstIdx s (s.start + s.count * s.interval) = s.count := by
    have hc0 : 0 ≤ s.count := by omega
    have g1 := (firstIdx_le_iff s hi (s.start + s.count * s.interval) s.count hc0).mpr
      (by unfold evTime; omega)
    have hpos : 0 ≤ s.count - 1 := by omega
    have g2 := firstIdx_le_iff s hi (s.start + s.count * s.interval) (s.count - 1) hpos
    unfold evTime at g2
    rw [Int.sub_mul, Int.one_mul] at g2
    omega
  rw [f0, f1]
  have c0 : cap s 0 = 0 := by unfold cap; simp only [hc, if_true]; omega
  have c1 : cap s s.count = s.count := by unfold cap; simp only [hc, if_true]; omega
  rw [c0, c1]
  rfl

/-! ### the integer event options reach the generator unchanged -/

/-- **`<event>__start`, `count`, `duration`, `timescale`, `version`, `program_id`**: the canonical
decimal text of *any* integer `z` (no bound on its magnitude – 2⁵³ is not special) is read as
exactly `z` by `int_or_default_from_string` -/
theorem evopt_exact (dflt z : Int) : parseEventInt dflt false (decimalOf z) = .ok z := by
  unfold parseEventInt
  have h := decimalOf_ne z
  simp only [h.1, h.2, or_self, if_false, pyInt_decimalOf, Bool.false_eq_true, false_and]

/-- **`<event>__interval`** (`positive_int_or_default_from_string`): read exactly when `≥ 1`,
refused (`ValueError` → 400) otherwise -/
theorem evopt_interval_exact (dflt z : Int) :
    parseEventInt dflt true (decimalOf z) = if z < 1 then .valueError else .ok z := by
  unfold parseEventInt
  have h := decimalOf_ne z
  simp only [h.1, h.2, or_self, if_false, pyInt_decimalOf, true_and]

/-- an absent value (`''`, `'none'`) selects the default -/
theorem evopt_default (dflt : Int) (positive : Bool) :
    parseEventInt dflt positive [] = .ok dflt ∧
    parseEventInt dflt positive ['n', 'o', 'n', 'e'] = .ok dflt := by
  constructor <;> simp [parseEventInt]

/-- decimal points and exponents are *refused*, never rounded: `'1000.0'`, `'9e4'` and an odd value
above 2⁵³ written with a fraction are `ValueError`s, the odd value itself is exact -/
example : parseEventInt 0 false "1000.0".toList = .valueError := by decide
example : parseEventInt 0 false "9e4".toList = .valueError := by decide
example : parseEventInt 0 false "9007199254740993.0".toList = .valueError := by decide
example : parseEventInt 0 false "9007199254740993".toList = .ok 9007199254740993 := by decide
example : parseEventInt 0 false " +1_000\n".toList = .ok 1000 := by decide
example : decimalOf (-9007199254740993) = "-9007199254740993".toList := by decide

/-! ### non-vacuity and negative witnesses -/

/-- ping events every 10 ticks (timescale 100) from 25, five of them, emsg v0 -/
def exSched : Sched :=
  { start := 25, interval := 10, count := 5, duration := 3, timescale := 100, version := 0,
    inband := true }

/-- three consecutive segments of 96 ticks of a 240 Hz representation (0.4 s each):
event-timebase (100 Hz) intervals [0,40) [40,80) [80,120) -/
def exRun : List Seg := [⟨0, 96⟩, ⟨96, 96⟩, ⟨192, 96⟩]

example : Contiguous exSched 240 exRun := by decide
example : runEvents exSched 240 exRun =
    [⟨0, 25⟩, ⟨1, 35⟩, ⟨2, 45⟩, ⟨3, 55⟩, ⟨4, 65⟩] := by decide
example : createEmsg exSched 240 ⟨96, 96⟩ =
    .ok [⟨0, 100, 3, 2, some 5, none⟩, ⟨0, 100, 3, 3, some 15, none⟩, ⟨0, 100, 3, 4, some 25, none⟩] := by
  decide
/-- an event exactly on a segment boundary (time 40 = end of segment 1 = start of
segment 2 when start = 20) goes to the later segment only -/
example : (createEmsg { exSched with start := 20 } 240 ⟨0, 96⟩,
           createEmsg { exSched with start := 20 } 240 ⟨96, 96⟩) =
    (.ok [⟨0, 100, 3, 0, some 20, none⟩, ⟨0, 100, 3, 1, some 30, none⟩],
     .ok [⟨0, 100, 3, 2, some 0, none⟩, ⟨0, 100, 3, 3, some 10, none⟩, ⟨0, 100, 3, 4, some 20, none⟩]) := by
  decide

/-- **D13a (excluded case of `emsg_exactly_once`).** Across a loop of the source
with drift (the representation is 5 ticks shorter than the stream's timing
reference: the next loop starts at 293, not 288) the intervals are not contiguous
and the event falling into the gap (id 9, time 121 ∈ [120, 122)) is never
delivered. -/
example : ¬ Contiguous { exSched with start := 31, count := 0 } 240 [⟨192, 96⟩, ⟨293, 96⟩] := by
  decide
example : (runEvents { exSched with start := 31, count := 0 } 240 [⟨192, 96⟩, ⟨293, 96⟩]).map (·.id)
    = [5, 6, 7, 8, 10, 11, 12, 13] := by decide

/-- … and with negative drift (the next loop starts at 283, before the previous
segment's end 288) the intervals [80,120) and [117,157) overlap and the event at
time 118 (id 9 of a schedule starting at 28) is delivered twice -/
example : ((runEvents { exSched with start := 28, count := 0 } 240 [⟨192, 96⟩, ⟨283, 96⟩]).map (·.id)).count 9 = 2 := by
  decide

/-- D13c: before fix a993bc6 (no count check at the head of the loop) the segment
[30, 40) of a 3-event schedule (times 0, 10, 20) carried an unscheduled event with
id 3; the repaired function carries nothing. -/
example : createEmsg { exSched with start := 0, count := 3 } 100 ⟨30, 10⟩ = .ok [] := by decide

/-- D13k: a segment spanning more than 10000 intervals is refused (fix 8c4223f) although
only one scheduled event (id 0 at time 25) lies in it -/
example : createEmsg { exSched with interval := 1, count := 1, timescale := 10 ^ 7 } 240 ⟨0, 96⟩ = .valueError := by
  decide
example : (scheduled { exSched with interval := 1, count := 1, timescale := 10 ^ 7 } 0 4000000).map (·.id) = [0] := by
  decide

/-- D13b: `interval = 0` is refused … -/
example : createEmsg { exSched with interval := 0 } 240 ⟨0, 96⟩ = .valueError := by decide
/-- … because the unguarded loop exhausts any fuel (`emsgLoop_diverges_interval_zero`) -/
example : emsgLoop { exSched with interval := 0, count := 0 } 0 40 1000 0 25 = none :=
  emsgLoop_diverges_interval_zero _ rfl (by decide) 0 40 25 (by decide) (by decide) 1000 0

end DashLive.Events

/-!
Part 2: the emsg box codec, CRC-32/MPEG-2 and the SCTE-35 splice_info_section –
quantified over every field value inside its bit width, every message, every
well-formed signal (`Signal.wf`, Lemmas/Scte35.lean), every schedule.
-/
namespace DashLive.Events

/-- **emsg v0 / v1 round trip**: parsing the encoded box gives the box back
(every field inside its width – `EmsgBox.wf`) -/
theorem emsg_box_roundtrip (b : EmsgBox) (h : b.wf) : parseEmsg (encodeEmsg b) = some b :=
  parseEmsg_encodeEmsg b h

example : EmsgBox.wf ⟨1, 0, [0x75, 0x72, 0x6e], [0x30], 100, 2 ^ 40, 200, 7, [1, 2, 3]⟩ := by
  refine ⟨Or.inr rfl, by decide, by decide, by decide, by decide, by decide, by decide, by decide,
    by decide, by decide⟩

end DashLive.Events

namespace DashLive.Crc32
open DashLive.Bits

/-- **CRC residue**: for every message `m`, the CRC-32/MPEG-2 of `m` followed by
its own CRC (32 bits, MSB first) is 0 – this is what `crc_valid` tests.
(Shift-register invariant `run_self`, plain induction.) -/
theorem crc_residue (m : Bits) : crc32 (m ++ crcBits m) = 0 := by
  unfold crc32 crcBits
  rw [run_residue, bitsToNat_replicate_false]

/-- the CRC field is 32 bits wide -/
theorem crc_width (m : Bits) : (crcBits m).length = 32 := crcBits_length m

/-- a corrupted CRC is detected: the check value of "123456789" is 0x0376E6E7 and
flipping its last bit gives a non-zero residue -/
example : crc32 (putBytes [0x31, 0x32, 0x33, 0x34, 0x35, 0x36, 0x37, 0x38, 0x39]) = 0x0376E6E7 := by decide +kernel
example : crc32 (putBytes [0x31, 0x32, 0x33, 0x34, 0x35, 0x36, 0x37, 0x38, 0x39, 0x03, 0x76, 0xE6, 0xE6]) ≠ 0 := by
  decide +kernel

end DashLive.Crc32

namespace DashLive.Scte35
open DashLive.Bits DashLive.Events

/-- **SCTE-35 round trip.** For every well-formed signal (all header fields,
`splice_null` / `time_signal` / `splice_insert` in program, component and cancelled
form, any list of avail / segmentation / time descriptors, every value inside its
bit width): parsing the encoding returns the signal itself, `section_length`,
`splice_command_length`, `descriptor_loop_length` and every `descriptor_length`
equal to the encoded byte counts, and `crc_valid = True`. -/
theorem scte35_roundtrip (s : Signal) (h : s.wf = true) :
    Signal.parse s.encode = some
      { sig := s, sectionLength := s.sectionLength, spliceCommandLength := s.command.bytes,
        spliceCommandType := s.command.type, descriptorLoopLength := s.loopBytes,
        descriptorLengths := s.descriptors.map (fun d => 4 + d.bodyBytes),
        crc := Crc32.crc32 s.encBody, crcValid := true } :=
  Signal.parse_encode s h

/-- **the length fields are the encoded lengths**: the section is
`3 + section_length` bytes, the command `splice_command_length` bytes, the
descriptor loop `descriptor_loop_length` bytes and descriptor `d` is
`2 + descriptor_length` bytes (and the encoding is a whole number of bytes) -/
theorem scte35_lengths (s : Signal) :
    s.encode.length = 8 * (3 + s.sectionLength) ∧
    s.command.enc.length = 8 * s.command.bytes ∧
    (s.descriptors.flatMap Descriptor.flat).length = 8 * s.loopBytes ∧
    ∀ d ∈ s.descriptors, d.flat.length = 8 * (2 + (4 + d.bodyBytes)) := by
  refine ⟨?_, s.command.enc_length, s.loop_length, fun d _ => ?_⟩
  · unfold Signal.encode
    simp only [Signal.encBody_eq, List.length_append, Crc32.crcBits_length, s.bodyFlat_length]
    unfold Signal.sectionLength; omega
  · rw [d.flat_length]; omega

/-- **the SCTE-35 payload of a scheduled event decodes to the schedule**: whenever
`create_binary_signal(event_id, presentation_time)` can be encoded, parsing the
bytes gives a valid CRC and a `splice_insert` whose `splice_event_id` is the event
id, whose PTS is `presentation_time · 90000 // timescale` reduced to 33 bits, and
whose break duration is `duration · 90000 // timescale` with `auto_return` on even
ids. -/
theorem scte35_matches_schedule (s : Sched) (programId eventId pt : Int) (data : Bits)
    (h : scte35Payload s programId eventId pt = some data) :
    ∃ p si, Signal.parse data = some p ∧ p.crcValid = true ∧ p.sig.command = .insert si ∧
      (si.eventId : Int) = eventId ∧
      si.spliceTime = some ⟨some (schedPts s pt)⟩ ∧
      si.breakDuration = some ⟨Int.fmod eventId 2 == 0, schedBreak s⟩ := by
  unfold scte35Payload at h
  cases hc : createBinarySignal s programId eventId pt with
  | none => rw [hc] at h; cases h
  | some sig =>
    rw [hc] at h
    injection h with h
    subst h
    obtain ⟨hwf, h0, si, hcmd, hid, _, hst, hbd, _⟩ := createBinarySignal_spec s programId eventId pt sig hc
    refine ⟨_, si, scte35_roundtrip sig hwf, rfl, hcmd, ?_, hst, hbd⟩
    rw [hid]; omega

/-- the PTS is the schedule's instant in 90 kHz ticks, modulo 2³³ -/
theorem schedPts_eq (s : Sched) (pt : Int) (hts : 0 < s.timescale) :
    (schedPts s pt : Int) = (pt * 90000 / s.timescale) % 2 ^ 33 := by
  unfold schedPts
  rw [Int.fmod_eq_emod_of_nonneg _ (by decide : (0:Int) ≤ 2 ^ 33), pydiv_pos _ hts]
  have := Int.emod_nonneg (pt * 90000 / s.timescale) (by decide : (2:Int) ^ 33 ≠ 0)
  omega

/-- when is there a payload: exactly when every derived value fits its field -/
theorem scte35_payload_exists (s : Sched) (programId eventId pt : Int)
    (hts : s.timescale ≠ 0) (hid : 0 ≤ eventId ∧ eventId < 2 ^ 32)
    (hd : 0 ≤ pydiv (s.duration * 90000) s.timescale ∧ pydiv (s.duration * 90000) s.timescale < 2 ^ 33)
    (hp : 0 ≤ programId ∧ programId < 2 ^ 16) (hc : s.count > 0 → eventId < s.count) :
    (scte35Payload s programId eventId pt).isSome = true := by
  unfold scte35Payload createBinarySignal
  simp only [Option.isSome_map]
  have hav : ¬ ((if s.count > 0 ∧ pydiv s.count 2 < 255 then 1 + pydiv eventId 2 else (0 : Int)) ≥ 256) := by
    split
    · rename_i hn
      have := hc hn.1
      have h2 : pydiv eventId 2 = eventId / 2 := pydiv_pos _ (by decide)
      have h3 : pydiv s.count 2 = s.count / 2 := pydiv_pos _ (by decide)
      omega
    · decide
  have hg : ¬ (s.timescale = 0 ∨ eventId < 0 ∨ eventId ≥ 2 ^ 32 ∨ pydiv (s.duration * 90000) s.timescale < 0 ∨
      pydiv (s.duration * 90000) s.timescale ≥ 2 ^ 33 ∨ programId < 0 ∨ programId ≥ 2 ^ 16 ∨
      (if s.count > 0 ∧ pydiv s.count 2 < 255 then 1 + pydiv eventId 2 else (0 : Int)) ≥ 256) := by
    omega
  simp only [hg, if_false, Option.isSome_some]

/-! ### non-vacuity and the excluded structures (ledger D13i) -/

/-- a signal using most of the modelled syntax -/
def exSignal : Signal :=
  { tableId := 0xFC, sectionSyntaxIndicator := false, privateIndicator := true, sapType := 3,
    protocolVersion := 0, encryptedPacket := false, encryptionAlgorithm := 0, ptsAdjustment := 2 ^ 33 - 1,
    cwIndex := 0, tier := 0xFFF,
    command := .insert { eventId := 2 ^ 32 - 1, cancel := false, outOfNetwork := true, immediate := false,
                         spliceTime := none, components := [⟨1, ⟨some 5⟩⟩, ⟨255, ⟨none⟩⟩],
                         breakDuration := some ⟨true, 2 ^ 33 - 1⟩, uniqueProgramId := 65535, availNum := 255,
                         availsExpected := 0 },
    descriptors := [.avail 0x43554549 309,
                    .segmentation 0x43554549
                      { eventId := 7, cancel := false, deliveryNotRestricted := false,
                        webDeliveryAllowed := false, noRegionalBlackout := true, archiveAllowed := true,
                        deviceRestrictions := 2, duration := some (2 ^ 40 - 1), upidType := 8,
                        upid := [1, 2, 3, 4, 5, 6, 7, 8], typeId := 0x36, segmentNum := 0,
                        segmentsExpected := 0, subSegmentNum := 3, subSegmentsExpected := 4 },
                    .time 1 2 3 4] }

example : exSignal.wf = true := by decide +kernel
example : (createBinarySignal exSched 1620 3 55).isSome = true := by decide +kernel

/-- excluded: a program splice that is *immediate* – the encoder drops the
`splice_time`, so parsing cannot give the object back (D13i) -/
def exImmediate : Signal :=
  { exSignal with
    command := .insert { eventId := 7, cancel := false, outOfNetwork := true, immediate := true,
                         spliceTime := some ⟨some 5⟩, components := [], breakDuration := none,
                         uniqueProgramId := 0, availNum := 0, availsExpected := 0 },
    descriptors := [] }

example : exImmediate.wf = false ∧ (Signal.parse exImmediate.encode).map (·.sig) ≠ some exImmediate := by
  decide +kernel

/-- excluded: `encrypted_packet = 1` – the encoder writes no `E_CRC_32`, the
parser expects one and runs out of bits (D13i) -/
def exEncrypted : Signal := { exSignal with encryptedPacket := true, descriptors := [] }

example : exEncrypted.wf = false ∧ Signal.parse exEncrypted.encode = none := by decide +kernel

end DashLive.Scte35
