import DashLive.Lemmas.Avail
import DashLive.Props.C02
import DashLive.Gen.Options
/-!
# C01 – every segment a live manifest advertises is retrievable

Property theorems only.  Model: `Model/Segments.lean` (`liveIndex` = the decision of
`LiveMedia.calculate_media_segment_index`, 200 vs 404).  The live window
`w = (E, tsbd, leeway)` is what `DashTiming` hands to the handler; C08 proves
`tsbd·10⁶ ≤ E` for it, and the manifest writes its resolved `start`/`depth` into the
media URLs so that the handler rebuilds the same window at the same instant.

Hypotheses (explicit, decidable):
* `AdvMicro`   – every advertised duration lasts at least 1 µs (`ts ≤ d·10⁶`; automatic
                 for timescales ≤ 10⁶ once durations are positive);
* `LeewayTime` – `(⌊d_max/2⌋ + 1)·10⁶ + ts ≤ leeway·ts`: the leeway covers the half
                 segment by which the timeline generator may reach back before
                 `firstAvailableTime` (plus rounding);
* `HalfSeg`    – `⌊d_max/2⌋ ≤ sd`;
* `LeewayNumber` – `2·sd·10⁶ + ts ≤ leeway·ts` for `$Number$` addressing.
With `leeway = 0` (an accepted option value) the statement is false – witness below (D9).
-/
namespace DashLive.Segments

/-- timecode of `firstAvailableTime` (representation.py:409-410) -/
def tcFirst (w : Win) (ts : Nat) : Nat := tdToTc (w.E - w.tsbd * 1000000) ts

def AdvMicro (durs : List Nat) (R ts : Nat) : Prop :=
  ∀ m, m < durs.length → (ts : Int) ≤ advDur durs ((R : Int) - (durs.sum : Int)) m * 1000000

def LeewayTime (durs : List Nat) (ts : Nat) (w : Win) : Prop :=
  (maxDur durs / 2 + 1) * 1000000 + ts ≤ w.leeway * ts

def HalfSeg (durs : List Nat) (sd : Nat) : Prop := maxDur durs / 2 ≤ sd

def LeewayNumber (ts sd : Nat) (w : Win) : Prop := 2 * sd * 1000000 + ts ≤ w.leeway * ts

theorem advMicro_pos {durs : List Nat} {R ts : Nat} (hts : 0 < ts) (h : AdvMicro durs R ts) :
    AdvPositive durs R := by
  intro m hm
  have := h m hm
  omega

theorem tcFirst_eq (w : Win) (ts : Nat) (hw : w.tsbd * 1000000 ≤ w.E) :
    tcFirst w ts + w.tsbd * ts = tdToTc w.E ts := by
  unfold tcFirst
  rw [tdToTc_eq, tdToTc_eq]
  have e : w.E * ts = (w.E - w.tsbd * 1000000) * ts + w.tsbd * ts * 1000000 := by
    have : w.E = (w.E - w.tsbd * 1000000) + w.tsbd * 1000000 := by omega
    calc w.E * ts = ((w.E - w.tsbd * 1000000) + w.tsbd * 1000000) * ts := by rw [← this]
      _ = _ := by ring
  rw [e, Nat.add_mul_div_right _ _ (by norm_num : 0 < 1000000)]

/-- **Core of C01 for `$Time$` addressing.**  Every position `g` at or after the first
listed one whose advertised end is not later than now is accepted by the handler
(HTTP 200), and it is served from the segment `get_segment_index` selects. -/
theorem C01_time_core (conv : Nat → Int) (durs : List Nat) (ts sd sn R : Nat) (w : Win) (g : Nat)
    (hn : 2 ≤ durs.length) (hR : 0 < R) (hts : 0 < ts) (hsd : 0 < sd)
    (hw : w.tsbd * 1000000 ≤ w.E) (hconv : ConvSpec conv ts)
    (hadv : AdvMicro durs R ts) (hlee : LeewayTime durs ts w) (hhalf : HalfSeg durs sd)
    (hg : index durs R (tcFirst w ts) ≤ g)
    (hend : ((startG durs R g : Int) + durG' durs R g) * 1000000 ≤ (w.E : Int) * ts) :
    liveIndex conv durs ts sd sn R w (.time (startG durs R g)) =
      .ok (getSegmentIndex durs R (startG durs R g)).1 (getSegmentIndex durs R (startG durs R g)).2.2
        (((startG durs R g / sd : Nat) : Int) + sn) := by
  have hn0 : 0 < durs.length := by omega
  have hpos := advMicro_pos hts hadv
  have hnonneg : ∀ g, 0 ≤ durG' durs R g := by
    intro g'
    have := hpos (g' % durs.length) (Nat.mod_lt _ hn0)
    rw [advDur_eq_durG'] at this; omega
  -- the entry's start is not before the first listed start
  have hA := startG_le_of_le durs R hn0 hnonneg hg
  -- the first listed start reaches back at most half a segment before tc(firstAvailableTime)
  obtain ⟨_, _, hstop, _⟩ := index_spec durs R (tcFirst w ts) hR hn0
  have hB : tcFirst w ts ≤ startG durs R g + maxDur durs / 2 := by
    have h1 : durG durs (index durs R (tcFirst w ts)) ≤ maxDur durs := durAt_le_maxDur _ _
    have h2 : durG durs (index durs R (tcFirst w ts)) / 2 ≤ maxDur durs / 2 := Nat.div_le_div_right h1
    unfold before at hstop
    omega
  obtain ⟨hc1, hc2⟩ := hconv (startG durs R g)
  -- floor facts for the two timecodes
  have hFe := tcFirst_eq w ts hw
  have hF2 : (w.E - w.tsbd * 1000000) * ts < (tcFirst w ts + 1) * 1000000 := by
    unfold tcFirst; rw [tdToTc_eq]; exact (floor_spec _).2
  have hE1 : tdToTc w.E ts * 1000000 ≤ w.E * ts := by rw [tdToTc_eq]; exact (floor_spec _).1
  have hE2 : w.E * ts < (tdToTc w.E ts + 1) * 1000000 := by rw [tdToTc_eq]; exact (floor_spec _).2
  -- (2) not too old
  have hold : ¬ (conv (startG durs R g) < w.F - w.leeway) := by
    unfold LeewayTime at hlee
    unfold Win.F
    intro hlt
    have hlt' : conv (startG durs R g) * ts < ((w.E : Int) - w.tsbd * 1000000 - w.leeway) * ts := by
      have : (0 : Int) < ts := by exact_mod_cast hts
      nlinarith
    have hF2' : (((w.E - w.tsbd * 1000000 : Nat) : Int)) * ts < ((tcFirst w ts : Int) + 1) * 1000000 := by
      exact_mod_cast hF2
    have hsub : ((w.E - w.tsbd * 1000000 : Nat) : Int) = (w.E : Int) - w.tsbd * 1000000 := by
      rw [Int.ofNat_sub hw]; push_cast; ring
    rw [hsub] at hF2'
    have hB' : (tcFirst w ts : Int) ≤ startG durs R g + ((maxDur durs / 2 : Nat) : Int) := by exact_mod_cast hB
    have hlee' : (((maxDur durs / 2 : Nat) : Int) + 1) * 1000000 + ts ≤ (w.leeway : Int) * ts := by
      exact_mod_cast hlee
    nlinarith
  -- (3) not in the future
  have hd := hadv (g % durs.length) (Nat.mod_lt _ hn0)
  rw [advDur_eq_durG'] at hd
  have hnew : ¬ (conv (startG durs R g) > (w.E : Int)) := by
    intro hgt
    have : (0 : Int) < ts := by exact_mod_cast hts
    have : conv (startG durs R g) * ts > (w.E : Int) * ts := by nlinarith
    nlinarith
  -- (5) the number gate
  have ht_le : startG durs R g ≤ tdToTc w.E ts := by
    have h1 : ((startG durs R g : Int)) * 1000000 ≤ (w.E : Int) * ts := by
      have := hnonneg g
      nlinarith
    have h1' : startG durs R g * 1000000 ≤ w.E * ts := by exact_mod_cast h1
    have : startG durs R g * 1000000 < (tdToTc w.E ts + 1) * 1000000 := by omega
    have := Nat.lt_of_mul_lt_mul_right this
    omega
  have hlast : startG durs R g / sd ≤ tdToTc w.E ts / sd := Nat.div_le_div_right ht_le
  have hfirst : tdToTc w.E ts / sd ≤ startG durs R g / sd + (ts * w.tsbd) / sd + 2 := by
    apply div_add_le _ _ _ _ hsd
    unfold HalfSeg at hhalf
    have : w.tsbd * ts = ts * w.tsbd := Nat.mul_comm _ _
    omega
  have hgate : ¬ ((((startG durs R g / sd : Nat) : Int) + sn) < (firstLastLive ts sd sn w).1 ∨
      (((startG durs R g / sd : Nat) : Int) + sn) > (firstLastLive ts sd sn w).2) := by
    unfold firstLastLive
    simp only [scaleTd_eq]
    have h1 : ((startG durs R g / sd : Nat) : Int) ≤ ((tdToTc w.E ts / sd : Nat) : Int) := by
      exact_mod_cast hlast
    have h2 : ((tdToTc w.E ts / sd : Nat) : Int) ≤
        ((startG durs R g / sd : Nat) : Int) + ((ts * w.tsbd / sd : Nat) : Int) + 2 := by
      exact_mod_cast hfirst
    have n1 : (0 : Int) ≤ ((startG durs R g / sd : Nat) : Int) := Int.natCast_nonneg _
    have n2 : (0 : Int) ≤ ((ts * w.tsbd / sd : Nat) : Int) := Int.natCast_nonneg _
    have n3 : (0 : Int) ≤ ((tdToTc w.E ts / sd : Nat) : Int) := Int.natCast_nonneg _
    generalize ((startG durs R g / sd : Nat) : Int) = a at *
    generalize ((ts * w.tsbd / sd : Nat) : Int) = b at *
    generalize ((tdToTc w.E ts / sd : Nat) : Int) = c at *
    omega
  have h2' : ¬ (durs.length < 2) := by omega
  unfold liveIndex
  simp only [Int.natCast_nonneg, not_lt.mpr, Int.toNat_natCast, if_false, hold, hnew, h2', hgate,
    or_self]

/-- **C01 for `$Time$` (SegmentTimeline) addressing, as the manifest states it.**  Every
entry `(t, d)` of the DASH expansion of the timeline the manifest carries whose end is
not later than now (`(t+d)/ts ≤ E`) is answered 200 when `$Time$ = t` is requested at
the same instant.  Under `StartsInsideLoop`/`PositiveDurs` (C02) the segment served is
exactly the advertised one. -/
theorem C01_time_partial (conv : Nat → Int) (durs : List Nat) (ts sd sn R : Nat) (w : Win) (fuel : Nat)
    (hn : 2 ≤ durs.length) (hR : 0 < R) (hts : 0 < ts) (hsd : 0 < sd)
    (hw : w.tsbd * 1000000 ≤ w.E) (hconv : ConvSpec conv ts)
    (hadv : AdvMicro durs R ts) (hlee : LeewayTime durs ts w) (hhalf : HalfSeg durs sd) :
    let l := expand (timelineLive durs R ts (tcFirst w ts) w.tsbd fuel)
    ∀ i (h : i < l.length), ((l[i]).1 + (l[i]).2) * 1000000 ≤ (w.E : Int) * ts →
      ∃ m o k, liveIndex conv durs ts sd sn R w (.time (l[i]).1.toNat) = .ok m o k := by
  intro l i h hend
  have hn0 : 0 < durs.length := by omega
  have hpos := advMicro_pos hts hadv
  have hslice := (C02_gapless durs R ts (tcFirst w ts) w.tsbd fuel hn0 hpos).2 i h
  have hl : l[i] = ((startG durs R (index durs R (tcFirst w ts) + i) : Int),
      durG' durs R (index durs R (tcFirst w ts) + i)) := hslice
  rw [hl] at hend ⊢
  simp only [Int.toNat_natCast]
  exact ⟨_, _, _, C01_time_core conv durs ts sd sn R w _ hn hR hts hsd hw hconv hadv hlee hhalf
    (Nat.le_add_right _ _) hend⟩

/-- **C01 for `$Number$` addressing.**  Every number `N = sn + k` whose ISO/IEC 23009-1
§5.3.9.5.3 availability window – computed only from the manifest's own
availabilityStartTime (`E = now − AST`), timeShiftBufferDepth, startNumber, duration `sd`
and timescale – contains now is answered 200:
`(k+1)·sd/ts ≤ E ≤ (k+2)·sd/ts + tsbd`. -/
theorem C01_number_partial (conv : Nat → Int) (durs : List Nat) (ts sd sn R : Nat) (w : Win) (k : Nat)
    (hn : 2 ≤ durs.length) (hts : 0 < ts) (hsd : 0 < sd)
    (_hw : w.tsbd * 1000000 ≤ w.E) (hconv : ConvSpec conv ts)
    (hlee : LeewayNumber ts sd w) (hmicro : ts ≤ sd * 1000000)
    (hstart : (k + 1) * sd * 1000000 ≤ w.E * ts)
    (hendw : w.E * ts ≤ (k + 2) * sd * 1000000 + w.tsbd * 1000000 * ts) :
    ∃ m o, liveIndex conv durs ts sd sn R w (.number ((sn : Int) + k)) = .ok m o ((sn : Int) + k) := by
  obtain ⟨hc1, hc2⟩ := hconv (k * sd)
  have hE1 : tdToTc w.E ts * 1000000 ≤ w.E * ts := by rw [tdToTc_eq]; exact (floor_spec _).1
  have hE2 : w.E * ts < (tdToTc w.E ts + 1) * 1000000 := by rw [tdToTc_eq]; exact (floor_spec _).2
  have htc : ((sn : Int) + k - sn) * sd = ((k * sd : Nat) : Int) := by push_cast; ring
  have hold : ¬ (conv (k * sd) < w.F - w.leeway) := by
    unfold LeewayNumber at hlee
    unfold Win.F
    intro hlt
    have hts' : (0 : Int) < ts := by exact_mod_cast hts
    have hlt' : conv (k * sd) * ts < ((w.E : Int) - w.tsbd * 1000000 - w.leeway) * ts := by nlinarith
    have hendw' : (w.E : Int) * ts ≤ ((k : Int) + 2) * sd * 1000000 + (w.tsbd : Int) * 1000000 * ts := by
      exact_mod_cast hendw
    have hlee' : 2 * (sd : Int) * 1000000 + ts ≤ (w.leeway : Int) * ts := by exact_mod_cast hlee
    push_cast at hc1
    nlinarith
  have hnew : ¬ (conv (k * sd) > (w.E : Int)) := by
    intro hgt
    have hts' : (0 : Int) < ts := by exact_mod_cast hts
    have : conv (k * sd) * ts > (w.E : Int) * ts := by nlinarith
    have hstart' : ((k : Int) + 1) * sd * 1000000 ≤ (w.E : Int) * ts := by exact_mod_cast hstart
    have hmicro' : (ts : Int) ≤ (sd : Int) * 1000000 := by exact_mod_cast hmicro
    push_cast at hc2
    nlinarith
  -- number gate
  have hlast : k + 1 ≤ tdToTc w.E ts / sd := by
    rw [Nat.le_div_iff_mul_le hsd]
    have : (k + 1) * sd * 1000000 < (tdToTc w.E ts + 1) * 1000000 := Nat.lt_of_le_of_lt hstart hE2
    have := Nat.lt_of_mul_lt_mul_right this
    exact Nat.le_of_lt_succ this
  have hfirst : tdToTc w.E ts / sd ≤ k + 2 + ts * w.tsbd / sd := by
    have h1 : tdToTc w.E ts ≤ ts * w.tsbd + (k + 2) * sd := by
      have : tdToTc w.E ts * 1000000 ≤ ((k + 2) * sd + ts * w.tsbd) * 1000000 := by
        have e : ((k + 2) * sd + ts * w.tsbd) * 1000000
            = (k + 2) * sd * 1000000 + w.tsbd * 1000000 * ts := by ring
        rw [e]; exact Nat.le_trans hE1 hendw
      have := Nat.le_of_mul_le_mul_right this (by norm_num : 0 < 1000000)
      rw [Nat.add_comm]; exact this
    calc tdToTc w.E ts / sd ≤ (ts * w.tsbd + (k + 2) * sd) / sd := Nat.div_le_div_right h1
      _ = ts * w.tsbd / sd + (k + 2) := Nat.add_mul_div_right _ _ hsd
      _ = k + 2 + ts * w.tsbd / sd := by omega
  have hgate : ¬ (((sn : Int) + k) < (firstLastLive ts sd sn w).1 ∨
      ((sn : Int) + k) > (firstLastLive ts sd sn w).2) := by
    unfold firstLastLive
    simp only [scaleTd_eq]
    have h1 : ((k : Int)) + 1 ≤ ((tdToTc w.E ts / sd : Nat) : Int) := by exact_mod_cast hlast
    have h2 : ((tdToTc w.E ts / sd : Nat) : Int) ≤ (k : Int) + 2 + ((ts * w.tsbd / sd : Nat) : Int) := by
      exact_mod_cast hfirst
    have n2 : (0 : Int) ≤ ((ts * w.tsbd / sd : Nat) : Int) := Int.natCast_nonneg _
    generalize ((ts * w.tsbd / sd : Nat) : Int) = b at *
    generalize ((tdToTc w.E ts / sd : Nat) : Int) = c at *
    omega
  have h2' : ¬ (durs.length < 2) := by omega
  have hnn : ¬ (((k * sd : Nat) : Int) < 0) := by omega
  refine ⟨(getSegmentIndex durs R (k * sd)).1, (getSegmentIndex durs R (k * sd)).2.2, ?_⟩
  unfold liveIndex
  simp only [htc, hnn, Int.toNat_natCast, if_false, hold, hnew, h2', hgate, or_self]

/-! ### the registered default leeway (table regenerated from the option registry every run) -/

/-- default of the `leeway` option as the registry has it today (`Gen/Options.lean`) -/
def defaultLeewayText : Option String :=
  (DashLive.Gen.Options.table.find? (fun r => r.cgi == "leeway")).map (·.dflt)

/-- decimal text → seconds, for the values the theorem below is about -/
def defaultLeewaySeconds : Option Nat :=
  defaultLeewayText.bind fun t => if t == "16" then some 16 else none

/-- obligation on the generated table: the default leeway is 16 s -/
theorem default_leeway_is_16 : defaultLeewaySeconds = some 16 := by decide +kernel

/-- **with the default options** every track whose `segment_duration` is below 8 s (timescale
up to 2 MHz) satisfies the `$Number$` leeway hypothesis, and every track whose longest
segment is below 30 s the `$Time$` one – so `C01_number_partial` / `C01_time_partial`
apply to them without any option being given.  Tracks with longer segments (the 10 s text
track of the upstream fixture) fall under finding D9. -/
theorem default_leeway_suffices (ts sd E tsbd L : Nat) (durs : List Nat)
    (hL : defaultLeewaySeconds = some L) (hts : 0 < ts) (hts2 : ts ≤ 2000000) :
    (sd < 8 * ts → LeewayNumber ts sd ⟨E, tsbd, L * 1000000⟩) ∧
    (maxDur durs < 30 * ts → LeewayTime durs ts ⟨E, tsbd, L * 1000000⟩) := by
  rw [default_leeway_is_16] at hL
  have : L = 16 := by injection hL with h; exact h.symm
  subst this
  constructor
  · intro h
    unfold LeewayNumber
    simp only
    have h1 : sd + 1 ≤ 8 * ts := h
    nlinarith
  · intro h
    unfold LeewayTime
    simp only
    have h1 : maxDur durs / 2 < 15 * ts := by omega
    nlinarith

/-! ### the initialization segment never consults the window -/

/-- decision sequence of `LiveMedia.get` (media_requests.py:392-432) for an init request -/
structure GetEnv where
  optionsOk : Bool          -- calculate_options did not raise ValueError
  hasTimingRef : Bool       -- stream.timing_reference is set
  repEncrypted : Bool
  drmSelected : Bool        -- options.encrypted
  contentTypeOk : Bool      -- audio | video | text
  indexed : Bool            -- media.representation is not None
  syntheticError : Option Nat   -- a requested error for segment number 0

def initStatus (e : GetEnv) : Nat :=
  if !e.optionsOk then 400
  else if !e.hasTimingRef then 404
  else if e.repEncrypted && !e.drmSelected then 404
  else if !e.contentTypeOk then 404
  else if !e.indexed then 404
  else match e.syntheticError with
    | some c => c
    | none => 200

/-- **C01 (init)**: for a listed Representation (indexed media of a known content type, a
configured timing reference, DRM selected when the track is encrypted) and a manifest
request that was itself accepted (options parse, no error injection for the init
segment), the init request is answered 200 – whatever the clock, window or leeway:
the decision does not mention them. -/
theorem C01_init (e : GetEnv) (h1 : e.optionsOk) (h2 : e.hasTimingRef) (h3 : e.contentTypeOk)
    (h4 : e.indexed) (h5 : e.repEncrypted → e.drmSelected) (h6 : e.syntheticError = none) :
    initStatus e = 200 := by
  unfold initStatus
  cases hre : e.repEncrypted <;> simp_all

/-! ### non-vacuity and negative witnesses -/

/-- bbb video: 240 Hz, 10 × 4 s, reference itself, one hour after start, 60 s buffer,
default leeway 16 s: all hypotheses hold -/
example : AdvMicro [960,960,960,960,960,960,960,960,960,960] 9600 240 ∧
    LeewayTime [960,960,960,960,960,960,960,960,960,960] 240 ⟨3600000000, 60, 16000000⟩ ∧
    HalfSeg [960,960,960,960,960,960,960,960,960,960] 960 ∧
    LeewayNumber 240 960 ⟨3600000000, 60, 16000000⟩ := by
  refine ⟨?_, by unfold LeewayTime; decide, by unfold HalfSeg; decide, by unfold LeewayNumber; decide⟩
  unfold AdvMicro; decide

/-- D9: with `leeway = 0` the first timeline entry starts (up to half a segment) before
`firstAvailableTime` and is refused: window E = 3602 s, depth 60 s, exact conversion -/
example : liveIndex (fun tc => (tc : Int) * 1000000 / 240) [960,960,960,960,960,960,960,960,960,960]
    240 960 1 9600 ⟨3602000000, 60, 0⟩
    (.time (getSegmentIndex [960,960,960,960,960,960,960,960,960,960] 9600
      (tcFirst ⟨3602000000, 60, 0⟩ 240)).2.1) = .notFound := by decide

end DashLive.Segments
