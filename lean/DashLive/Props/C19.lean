import DashLive.Lemmas.IsoText
/-!
# C19 – ISO-8601 time text is faithful to the value it encodes

Property theorems only (helper lemmas live in `Lemmas/IsoText.lean`).  The
model (`Model/IsoText.lean`) follows `/repo` *after* the two `fix:` commits
4ed7205 (D1, millisecond carry) and 83b2cb3 (D2, exact fractional seconds), so
the duration and date-time theorems carry no hypothesis about those defects.

Quantification: every duration value `v ≥ 0` in microseconds and **every**
admissible result of the float front end (nearest millisecond, either
neighbour on a tie); every date-time accepted by Python's `datetime`
constructor with every whole-minute offset Python's `isoformat()` accepts (and
naive values); every timecode / timedelta in `Int` and every timescale `> 0`.
All round-trip theorems are about the *text*: `render` produces a `List Char`,
`fromIsoDateTime` is the model of `from_isodatetime` reading it.
-/
namespace DashLive.IsoText

/-! ## durations -/

/-- the exact front end is admissible (non-vacuity of `Admissible`, and what the
driver's integer channel uses) -/
theorem roundMs_admissible (f : Nat) : Admissible f (roundMs f) := by
  unfold Admissible roundMs
  omega

/-- an admissible millisecond count of a fraction `< 1 s` is at most 1000 -/
theorem admissible_le_1000 {f ms : Nat} (hf : f < 1000000) (h : Admissible f ms) : ms ≤ 1000 := by
  unfold Admissible at h
  omega

/-- the back end is the field text of the carried value -/
theorem isoDurationBack_eq (secs ms : Nat) :
    isoDurationBack secs ms =
      hmsText ((if ms ≥ 1000 then secs + 1 else secs) / 3600)
        ((if ms ≥ 1000 then secs + 1 else secs) % 3600 / 60)
        ((if ms ≥ 1000 then secs + 1 else secs) % 3600 % 60)
        (if ms ≥ 1000 then ms - 1000 else ms) := by
  simp only [isoDurationBack, hmsText, fracPart]

/-- **Exact parse of the rendered text**: for every whole-second count and every
millisecond count `≤ 1000` the parser reads back exactly `secs + ms/1000`. -/
theorem duration_parse_render (secs ms : Nat) (hms : ms ≤ 1000) :
    parseDuration (isoDurationBack secs ms) = some ((secs * 1000 + ms) * 1000) := by
  rw [isoDurationBack_eq, parseDuration_hms _ _ _ _ (by split <;> omega)]
  simp only [Option.some.injEq]
  split <;> omega

/-- **duration_roundtrip.**  For every value `v` (µs) and every admissible
rounding `ms` of its fractional part, `from_isodatetime(toIsoDuration(v))` is a
`timedelta` within 500 µs of `v`. -/
theorem duration_roundtrip (v ms : Nat) (h : Admissible (v % 1000000) ms) :
    ∃ p, fromIsoDateTime (isoDurationBack (v / 1000000) ms) = some (.duration p)
      ∧ p ≤ v + 500 ∧ v ≤ p + 500 := by
  have hms := admissible_le_1000 (Nat.mod_lt v (by decide)) h
  refine ⟨(v / 1000000 * 1000 + ms) * 1000, ?_, ?_, ?_⟩
  · have hd := duration_parse_render (v / 1000000) ms hms
    unfold fromIsoDateTime
    rw [hd]
    simp [isoDurationBack]
  · unfold Admissible at h; omega
  · unfold Admissible at h; omega

/-- the same with the exact front end: `toIsoDuration` of the model -/
theorem duration_roundtrip_exact (v : Nat) :
    ∃ p, fromIsoDateTime (toIsoDuration v) = some (.duration p) ∧ p ≤ v + 500 ∧ v ≤ p + 500 :=
  duration_roundtrip v _ (roundMs_admissible _)

example : toIsoDuration 5999600 = "PT6S".toList := by decide
example : toIsoDuration 3599999500 = "PT1H0M0S".toList := by decide
example : toIsoDuration 3725050000 = "PT1H2M5.05S".toList := by decide
example : isoDurationBack 59 1000 = "PT1M0S".toList := by decide
example : fromIsoDateTime "PT1H2M5.05S".toList = some (.duration 3725050000) := by decide

/-- optional `<n><unit>` group -/
def optUnit (o : Option Nat) (u : Char) : Text :=
  match o with
  | none => []
  | some n => dec n ++ [u]

/-- The lexical form `PT(\d+H)?(\d+M)?\d+(\.\d{1,3})?S` (a valid `xs:duration`)
with the minutes and seconds fields below 60. -/
def DurationLex (t : Text) : Prop :=
  ∃ (h m : Option Nat) (s : Nat) (fs : Text),
    t = ['P', 'T'] ++ optUnit h 'H' ++ optUnit m 'M' ++ dec s
          ++ (if fs = [] then [] else '.' :: fs) ++ ['S']
    ∧ (∀ x, m = some x → x < 60) ∧ s < 60
    ∧ fs.length ≤ 3 ∧ (∀ c ∈ fs, c.isDigit = true)

/-- **duration_lexical.**  Every text the back end produces (any whole-second
count, any millisecond count up to and including the carry case 1000) is a
valid `xs:duration` whose minutes and seconds fields are below 60. -/
theorem duration_lexical (secs ms : Nat) (hms : ms ≤ 1000) :
    DurationLex (isoDurationBack secs ms) := by
  rw [isoDurationBack_eq]
  generalize hS : (if ms ≥ 1000 then secs + 1 else secs) = S
  generalize hM : (if ms ≥ 1000 then ms - 1000 else ms) = M
  have hM' : M < 1000 := by rw [← hM]; split <;> omega
  refine ⟨if S / 3600 ≠ 0 then some (S / 3600) else none,
    if S / 3600 ≠ 0 ∨ S % 3600 / 60 ≠ 0 then some (S % 3600 / 60) else none,
    S % 3600 % 60, if M > 0 then stripZeros (pad 3 M) else [], ?_, ?_, by omega, ?_, ?_⟩
  · unfold hmsText fracPart optUnit
    by_cases h1 : S / 3600 = 0 <;> by_cases h2 : S % 3600 / 60 = 0 <;> by_cases h3 : M > 0
    all_goals first
      | (have := (stripZeros_pad3 h3 hM').1; simp [h1, h2, h3, this])
      | simp [h1, h2, h3]
  · intro x hx
    split at hx
    · cases hx; omega
    · cases hx
  · split
    · exact (stripZeros_pad3 ‹_› hM').2.1
    · simp
  · intro c hc
    split at hc
    · exact (stripZeros_pad3 ‹_› hM').2.2.1 c hc
    · cases hc

/-! ## date-times -/

/-- **datetime_roundtrip.**  For every date-time the `datetime` constructor
accepts (`valid`), with every offset `isoformat()` accepts (whole minutes,
|offset| < 24 h, or naive): parsing the text `to_iso_datetime` writes gives back
every field, the microseconds included, and the same UTC offset (a naive value
comes back as UTC, which is what the `Z` written for it says). -/
theorem datetime_roundtrip (d : DateTime) (hv : d.valid = true) (ho : d.offsetOk = true) :
    fromIsoDateTime (toIsoDateTime d)
      = some (.datetime { d with offset := some (d.offset.getD 0) }) := by
  rw [toIsoDateTime_eq d ho]
  have hp := parseDateTime_render d hv
  -- the text starts with a digit (so it is neither empty nor a duration) and contains `T`
  obtain ⟨c, cs, hc⟩ : ∃ c cs, pad 4 d.year = c :: cs := by
    cases h : pad 4 d.year with
    | nil => exact absurd h (pad_ne_nil _ _)
    | cons c cs => exact ⟨c, cs, rfl⟩
  have hcd : c.isDigit = true := allDigits_pad 4 d.year c (by rw [hc]; exact List.mem_cons_self)
  have hcP : c ≠ 'P' := by
    intro h; subst h; exact absurd hcd (by decide)
  have hT : (bodyText d ++ tzText d.offset).contains 'T' = true := by
    unfold bodyText
    simp
  have hne : bodyText d ++ tzText d.offset ≠ [] := by
    unfold bodyText
    simp [hc]
  have hhead : (bodyText d ++ tzText d.offset).head? ≠ some 'P' := by
    unfold bodyText
    simp [hc, hcP]
  unfold fromIsoDateTime
  rw [if_neg hne, if_neg hhead, if_pos hT, hp]
  rfl

/-- "same instant, same offset, fractional seconds included", spelled out -/
theorem datetime_roundtrip_instant (d : DateTime) (hv : d.valid = true) (ho : d.offsetOk = true) :
    ∃ p, fromIsoDateTime (toIsoDateTime d) = some (.datetime p)
      ∧ p.instant = d.instant ∧ p.offset = some (d.offset.getD 0) ∧ p.micro = d.micro :=
  ⟨_, datetime_roundtrip d hv ho, by simp [DateTime.instant], rfl, rfl⟩

example : toIsoDateTime (DateTime.mk 2023 7 25 12 34 56 1 (some (-330)))
    = "2023-07-25T12:34:56.000001-05:30".toList := by decide
example : toIsoDateTime (DateTime.mk 1 1 1 0 0 0 0 (some 0)) = "0001-01-01T00:00:00Z".toList := by
  decide
example : toIsoDateTime (DateTime.mk 1999 12 31 23 59 59 0 none) = "1999-12-31T23:59:59Z".toList := by
  decide
example : (DateTime.mk 2024 2 29 23 59 59 999999 (some 1439)).valid = true
    ∧ (DateTime.mk 2024 2 29 23 59 59 999999 (some 1439)).offsetOk = true := by decide

/-! ## tick conversions -/

/-- `timedelta_to_timecode` and `multiply_timedelta` are exactly `⌊k·δ/10⁶⌋`
(the days/seconds/microseconds split loses nothing) -/
theorem timecode_is_floor (delta ts : Int) :
    timedeltaToTimecode delta ts = ts * delta / 1000000
      ∧ multiplyTimedelta delta ts = ts * delta / 1000000 :=
  ⟨toTc_eq delta ts, multiply_eq delta ts⟩

/-- **tc_mono.**  Both directions are monotone, for every timescale `> 0`. -/
theorem tc_mono (ts : Int) (hts : 0 < ts) :
    (∀ a b : Int, a ≤ b → timecodeToTimedelta a ts ≤ timecodeToTimedelta b ts)
    ∧ (∀ a b : Int, a ≤ b → timedeltaToTimecode a ts ≤ timedeltaToTimecode b ts) := by
  constructor
  · intro a b hab
    rw [toTd_eq a ts hts, toTd_eq b ts hts]
    exact Int.ediv_le_ediv hts (by omega)
  · intro a b hab
    rw [toTc_eq, toTc_eq]
    exact Int.ediv_le_ediv (by decide) (Int.mul_le_mul_of_nonneg_left hab (Int.le_of_lt hts))

/-- timecode → timedelta → timecode, every timescale `> 0`: never gains, and
loses less than `ts/10⁶ + 1` ticks (the microsecond resolution of `timedelta`). -/
theorem tc_roundtrip_general (tc ts : Int) (hts : 0 < ts) :
    timedeltaToTimecode (timecodeToTimedelta tc ts) ts ≤ tc
    ∧ (tc - timedeltaToTimecode (timecodeToTimedelta tc ts) ts) * 1000000 < ts + 1000000 := by
  rw [toTc_eq, toTd_eq tc ts hts]
  have h1 := Int.ediv_mul_le (tc * 1000000) (Int.ne_of_gt hts)
  have h2 := Int.lt_ediv_add_one_mul_self (tc * 1000000) hts
  rw [Int.add_mul, Int.one_mul] at h2
  rw [Int.mul_comm ts (tc * 1000000 / ts)]
  generalize tc * 1000000 / ts * ts = P at h1 h2 ⊢
  omega

/-- **tc_roundtrip_partial.**  For timescales up to 10⁶ (one tick ≥ 1 µs) the
two directions invert each other to within one tick. -/
theorem tc_roundtrip_partial (tc ts : Int) (hts : 0 < ts) (hle : ts ≤ 1000000) :
    tc - 1 ≤ timedeltaToTimecode (timecodeToTimedelta tc ts) ts
    ∧ timedeltaToTimecode (timecodeToTimedelta tc ts) ts ≤ tc := by
  obtain ⟨h1, h2⟩ := tc_roundtrip_general tc ts hts
  omega

/-- non-vacuity: a usual timescale satisfies the hypotheses and really loses a tick -/
example : (0 : Int) < 90000 ∧ (90000 : Int) ≤ 1000000
    ∧ timedeltaToTimecode (timecodeToTimedelta 1 90000) 90000 = 0 := by decide

/-- D3: outside the hypothesis (timescale 10⁷) 19 ticks come back as 10 -/
example : ¬ (19 - 1 ≤ timedeltaToTimecode (timecodeToTimedelta 19 10000000) 10000000) := by decide

/-- timedelta → timecode → timedelta, **every** timescale `> 0`: never later, and
earlier by less than one tick plus the 1 µs resolution:
`δ − 10⁶/ts − 1 < toTd (toTc δ) ≤ δ`, stated without division. -/
theorem td_roundtrip (delta ts : Int) (hts : 0 < ts) :
    timecodeToTimedelta (timedeltaToTimecode delta ts) ts ≤ delta
    ∧ (delta - timecodeToTimedelta (timedeltaToTimecode delta ts) ts) * ts < 1000000 + ts := by
  rw [toTd_eq _ ts hts, toTc_eq]
  have h1 := Int.ediv_mul_le (ts * delta / 1000000 * 1000000) (Int.ne_of_gt hts)
  have h2 := Int.lt_ediv_add_one_mul_self (ts * delta / 1000000 * 1000000) hts
  rw [Int.add_mul, Int.one_mul] at h2
  generalize ts * delta / 1000000 * 1000000 / ts = D' at h1 h2 ⊢
  have h3 : D' * ts ≤ delta * ts := by
    rw [Int.mul_comm delta ts]
    generalize ts * delta = Q at h1 h2 ⊢
    omega
  refine ⟨Int.le_of_mul_le_mul_right h3 hts, ?_⟩
  rw [Int.sub_mul, Int.mul_comm delta ts]
  generalize ts * delta = Q at h1 h2 ⊢
  generalize D' * ts = R at h1 h2 ⊢
  omega

/-- in the tick domain the loss is at most one tick for timescales ≤ 10⁶ -/
theorem td_roundtrip_ticks (delta ts : Int) (hts : 0 < ts) (hle : ts ≤ 1000000) :
    timedeltaToTimecode delta ts - 1
        ≤ timedeltaToTimecode (timecodeToTimedelta (timedeltaToTimecode delta ts) ts) ts
    ∧ timedeltaToTimecode (timecodeToTimedelta (timedeltaToTimecode delta ts) ts) ts
        ≤ timedeltaToTimecode delta ts :=
  tc_roundtrip_partial _ ts hts hle

end DashLive.IsoText
