import DashLive.Lemmas.Validator
import DashLive.Props.C02
import DashLive.Props.C08
/-!
# C18 – the bundled validator accepts what the server generates and flags corruptions

Property theorems only.  Model: `Model/Validator.lean` (the validator's decision logic, after
the `fix:` commits 3c714d3, 0554b9e, 1951de2, c08f3f9, b7314e3, a2de2ac); helper lemmas:
`Lemmas/Validator.lean`.  Server side: `Model/Segments.lean` with the theorems of
`Props/C02.lean`, `Model/LiveTiming.lean` with `Props/C08.lean`.

*Acceptance* (`validator_accepts_*`): what the server models produce yields an empty error list.
The hypotheses name exactly what the validator needs from a stream beyond what C02/C08 prove
for every stream:
* `$Time$` addressing – consecutive timeline positions get consecutive `mfhd` numbers
  (`hcons`; the server numbers `$Time$` requests `t / segment_duration + start_number`) and the
  loop drift is within one second (`hdrift`; the validator's duration check has `delta =
  timescale`, media_segment.py:214-218);
* `$Number$` addressing – consecutive numbers select consecutive positions whose start lies
  within half a template duration of `(N − startNumber)·duration` (`hhalf`; this is the
  half-segment bound of `C02_number_bounds` for regular layouts, see
  `half_segment_of_C02`), and the drift at a loop boundary is within the decode-time tolerance
  (`hcont`).
Irregular layouts falsify them: the `example`s at the end `decide` a rejected pristine stream
(ledger entry `time-seqnum-irregular`).

*Detection* (`validator_detects_*`): for each corruption of the catalogue the error list is
non-empty and contains the error naming the corrupted element.
-/
namespace DashLive.Validator
open DashLive.Segments

/-! ## 1. one media segment: every corrupted field is reported at that segment -/

/-- **wrong decode time beyond the tolerance**: reported whenever the response is usable
(status, boxes); an unusable response is reported anyway -/
theorem validator_detects_decode_time (c : RepCtx) (e : SegExp) (o : SegObs) (t : Int)
    (ht : e.expDecode = some t)
    (hbad : (e.tol : Int) < t - o.tfdt ∨ (e.tol : Int) < (o.tfdt : Int) - t) :
    validateSegment c e o ≠ [] ∧ (Reaches c o → SegErr.decodeTime ∈ validateSegment c e o) := by
  have hmem : Reaches c o → SegErr.decodeTime ∈ validateSegment c e o := by
    intro hr
    rw [validateSegment_reaches hr]
    have : SegErr.decodeTime ∈ decodeErrs e o := by
      unfold decodeErrs
      simp [ht, (almostEqual_false_iff t o.tfdt e.tol).mpr hbad]
    simp [this]
  refine ⟨?_, hmem⟩
  by_cases hr : Reaches c o
  · exact List.ne_nil_of_mem (hmem hr)
  · exact validateSegment_not_reaches hr

/-- **wrong sequence number** -/
theorem validator_detects_sequence_number (c : RepCtx) (e : SegExp) (o : SegObs) (n : Int)
    (hn : e.expSeq = some n) (hbad : n ≠ (o.seq : Int)) :
    validateSegment c e o ≠ [] ∧ (Reaches c o → SegErr.seqNum ∈ validateSegment c e o) := by
  have hmem : Reaches c o → SegErr.seqNum ∈ validateSegment c e o := by
    intro hr
    rw [validateSegment_reaches hr]
    have : SegErr.seqNum ∈ seqErrs e o := by
      unfold seqErrs
      simp [hn, hbad]
    simp [this]
  refine ⟨?_, hmem⟩
  by_cases hr : Reaches c o
  · exact List.ne_nil_of_mem (hmem hr)
  · exact validateSegment_not_reaches hr

/-- the expectation is an `Option`: **`some 0` is an expectation like any other** (the first
media segment of every static presentation is expected at decode time 0; a template may start
at number 0) and only `none` switches a comparison off (media_segment.py:159, 163 test
`is not None`).  At `some 0` every positive decode time beyond the tolerance and every non-zero
sequence number is reported … -/
theorem validator_detects_at_zero_expectation (c : RepCtx) (e : SegExp) (o : SegObs) (hr : Reaches c o) :
    (e.expDecode = some 0 → e.tol < o.tfdt → SegErr.decodeTime ∈ validateSegment c e o) ∧
    (e.expSeq = some 0 → o.seq ≠ 0 → SegErr.seqNum ∈ validateSegment c e o) := by
  refine ⟨fun h0 hb => ?_, fun h0 hb => ?_⟩
  · exact (validator_detects_decode_time c e o 0 h0 (Or.inr (by omega))).2 hr
  · exact (validator_detects_sequence_number c e o 0 h0 (by omega)).2 hr

/-- … and the three timing comparisons are switched off by `none` **only**: each error is
present iff its expectation is `some v` with `v` off by more than the tolerance – for every
`v`, zero, positive or negative -/
theorem timing_errors_iff (c : RepCtx) (e : SegExp) (o : SegObs) :
    (SegErr.seqNum ∈ seqErrs e o ↔ ∃ n, e.expSeq = some n ∧ n ≠ (o.seq : Int)) ∧
    (SegErr.decodeTime ∈ decodeErrs e o ↔
      ∃ t, e.expDecode = some t ∧ ((e.tol : Int) < t - o.tfdt ∨ (e.tol : Int) < (o.tfdt : Int) - t)) ∧
    (SegErr.duration ∈ durErrs c e o ↔
      ∃ d : Nat, e.expDur = some d ∧ ((c.dashTs : Int) < (d : Int) - (obsDuration c o : Int) ∨
        (c.dashTs : Int) < (obsDuration c o : Int) - (d : Int))) := by
  refine ⟨?_, ?_, ?_⟩
  · unfold seqErrs
    cases h : e.expSeq with
    | none => simp
    | some n => by_cases hn : n = (o.seq : Int) <;> simp [hn]
  · unfold decodeErrs
    cases h : e.expDecode with
    | none => simp
    | some t =>
      cases ha : almostEqual t o.tfdt e.tol with
      | true =>
        have hb := (almostEqual_iff t o.tfdt e.tol).mp ha
        constructor
        · intro hm; simp [ha] at hm
        · rintro ⟨t', ht', hbad⟩
          cases ht'
          omega
      | false =>
        have hb := (almostEqual_false_iff t o.tfdt e.tol).mp ha
        exact ⟨fun _ => ⟨t, rfl, hb⟩, fun _ => by simp [ha]⟩
  · unfold durErrs
    cases h : e.expDur with
    | none => simp
    | some d =>
      cases ha : almostEqual (d : Int) (obsDuration c o) c.dashTs with
      | true =>
        have hb := (almostEqual_iff (d : Int) (obsDuration c o) c.dashTs).mp ha
        constructor
        · intro hm; simp [ha] at hm
        · rintro ⟨d', hd', hbad⟩
          cases hd'
          omega
      | false =>
        have hb := (almostEqual_false_iff (d : Int) (obsDuration c o) c.dashTs).mp ha
        exact ⟨fun _ => ⟨d, rfl, hb⟩, fun _ => by simp [ha]⟩

/-- `parse_data` gets as far as the trun/mdat comparison -/
def ParseReaches (c : RepCtx) (o : SegObs) : Prop :=
  o.status = wantStatus c ∧ (c.infoEncrypted = true → c.ivKnown = true) ∧
    o.hasMoof = true ∧ o.hasMdat = true

theorem parseReaches_reaches {c : RepCtx} {o : SegObs} (h : ParseReaches c o) : Reaches c o := by
  obtain ⟨h1, h2, h3, h4⟩ := h
  refine ⟨h1, ?_⟩
  unfold parseData
  cases hi : c.infoEncrypted <;> cases hk : c.ivKnown <;> simp_all

/-- **trun data_offset not pointing at the mdat payload** (any offset ≠ payload start) -/
theorem validator_detects_trun_offset (c : RepCtx) (e : SegExp) (o : SegObs)
    (hr : ParseReaches c o)
    (hbad : o.baseDataOffset + o.dataOffset ≠ ((o.mdatPos + o.mdatHdr : Nat) : Int)) :
    SegErr.trunFirst ∈ validateSegment c e o := by
  rw [validateSegment_reaches (parseReaches_reaches hr)]
  have : SegErr.trunFirst ∈ (parseData c o).1 := by
    obtain ⟨h1, h2, h3, h4⟩ := hr
    unfold parseData
    cases hi : c.infoEncrypted <;> cases hk : c.ivKnown <;> simp_all
  simp [this]

/-- **trun samples running past the end of the mdat** -/
theorem validator_detects_trun_beyond_mdat (c : RepCtx) (e : SegExp) (o : SegObs)
    (hr : ParseReaches c o)
    (hbad : ((o.mdatPos + o.mdatSize : Nat) : Int)
              < o.baseDataOffset + o.dataOffset + (sumSizes o.samples : Int)) :
    SegErr.trunLast ∈ validateSegment c e o := by
  rw [validateSegment_reaches (parseReaches_reaches hr)]
  have : SegErr.trunLast ∈ (parseData c o).1 := by
    obtain ⟨h1, h2, h3, h4⟩ := hr
    have hb : ¬ (o.baseDataOffset + o.dataOffset + (sumSizes o.samples : Int)
        ≤ ((o.mdatPos + o.mdatSize : Nat) : Int)) := by omega
    unfold parseData
    cases hi : c.infoEncrypted <;> cases hk : c.ivKnown <;> simp_all
  simp [this]

/-- the trun/mdat comparison is stated with the mdat's **own** header size – 8 bytes for the
compact form, 16 for the 64-bit `largesize` form the server keeps when the stored file uses it
(media_segment.py:290-293: `mdat.position + mdat.header_size`): for every header size `o.mdatHdr`
the two errors are present exactly when the first sample is not the first payload byte /
the last sample ends behind the box -/
theorem trun_errors_iff (c : RepCtx) (o : SegObs) (hr : ParseReaches c o) :
    (SegErr.trunFirst ∈ (parseData c o).1 ↔
      o.baseDataOffset + o.dataOffset ≠ ((o.mdatPos + o.mdatHdr : Nat) : Int)) ∧
    (SegErr.trunLast ∈ (parseData c o).1 ↔
      ((o.mdatPos + o.mdatSize : Nat) : Int)
        < o.baseDataOffset + o.dataOffset + (sumSizes o.samples : Int)) := by
  obtain ⟨h1, h2, h3, h4⟩ := hr
  unfold parseData
  constructor
  · by_cases hf : o.baseDataOffset + o.dataOffset = ((o.mdatPos + o.mdatHdr : Nat) : Int) <;>
      cases hi : c.infoEncrypted <;> cases hk : c.ivKnown <;> cases hv : c.video <;>
      cases ho : c.optEncrypted <;> cases ha : decide (1 < o.nAtoms) <;> cases he : o.emsgOk <;>
      simp_all <;> split <;> simp_all
  · by_cases hl : o.baseDataOffset + o.dataOffset + (sumSizes o.samples : Int)
        ≤ ((o.mdatPos + o.mdatSize : Nat) : Int) <;>
      cases hi : c.infoEncrypted <;> cases hk : c.ivKnown <;> cases hv : c.video <;>
      cases ho : c.optEncrypted <;> cases ha : decide (1 < o.nAtoms) <;> cases he : o.emsgOk <;>
      simp_all <;> (try split) <;> simp_all <;> omega

/-- **wrong saio offset** in an encrypted Representation -/
theorem validator_detects_saio_offset (c : RepCtx) (e : SegExp) (o : SegObs)
    (hr : Reaches c o) (henc : c.infoEncrypted = true)
    (p f n : Nat) (offs : List Nat) (hsenc : o.senc = some (p, f, n)) (hsaio : o.saio = some offs)
    (hbad : ((p + f : Nat) : Int) ≠ (offs.headD 0 : Int) + o.baseDataOffset) :
    SegErr.saioOffset ∈ validateSegment c e o := by
  rw [validateSegment_reaches hr]
  have : SegErr.saioOffset ∈ encErrs c o := by
    unfold encErrs checkSaio
    simp only [henc, hsenc, hsaio, if_true]
    apply List.mem_append_left
    apply List.mem_append_right
    rw [if_neg hbad]
    exact List.mem_singleton.mpr rfl
  simp [this]

/-! ## 2. a whole Representation pass on what the server model serves -/

/-- what the validator expects of a `$Time$` SegmentTimeline entry `(t, d)`
(`genTimeline`, representation.py:293-309, `@presentationTimeOffset` 0) -/
def timeExp (tol : Nat) (p : Int × Int) : SegExp :=
  { expSeq := none, expDecode := some p.1, expDur := some p.2.toNat, tol := tol, pto := 0 }

/-- `genTimeline` on a live `$Time$` timeline is `timeExp` on every entry -/
theorem genTimeline_live_time (audio : Bool) (sn : Int) (segDur : Int) (ts fn fd : Nat)
    (need : Option Int) (entries : List (Int × Int)) :
    (genTimeline true audio false 0 sn segDur ts fn fd need entries).map (·.2)
      = entries.map (timeExp (if audio then ts / 20 else frameTolerance ts fn fd)) := by
  unfold genTimeline
  suffices h : ∀ (idx : Nat) (total : Int),
      (genTimeline.go true false 0 sn segDur need
        (if audio then ts / 20 else frameTolerance ts fn fd) idx total entries).map (·.2)
      = entries.map (timeExp (if audio then ts / 20 else frameTolerance ts fn fd)) from h 0 0
  induction entries with
  | nil => intro idx total; rfl
  | cons x rest ih =>
    intro idx total
    obtain ⟨t, d⟩ := x
    simp only [genTimeline.go, List.map_cons, timeExp, Bool.not_true, Bool.false_and]
    simp [ih]

theorem fetchAll_length (exps : List SegExp) (obs : List SegObs) (h : exps.length = obs.length) :
    (fetchAll exps obs).length = exps.length := by
  unfold fetchAll; simp [h]

/-- **`$Time$` addressing is accepted.**  The timeline is any slice `[g₀, g₀+k)` of the global
sequence (`timeline_is_slice`: that is what the server advertises); for each entry the served
segment carries the decode time of `C02_time_tfdt_exact`, the number `t / sd + sn` the handler
writes (`liveIndex`), and its stored sample durations.  Then no segment of the pass gains an
error. -/
theorem validator_accepts_time_addressing_partial
    (durs : List Nat) (R sd sn g0 k : Nat) (c : RepCtx) (tol : Nat) (obs : Nat → SegObs)
    (hn : 0 < durs.length) (h1 : StartsInsideLoop durs R) (h2 : PositiveDurs durs)
    (hsound : ∀ i, i < k → Sound c 0 (obs i))
    (htfdt : ∀ i, i < k → (obs i).tfdt =
      servedTfdt durs (some fun j => 0 + prefixSum durs j)
        (getSegmentIndex durs R (startG durs R (g0 + i))).1
        (getSegmentIndex durs R (startG durs R (g0 + i))).2.2)
    (hseq : ∀ i, i < k → (obs i).seq = startG durs R (g0 + i) / sd + sn)
    (hdur : ∀ i, i < k → sumDurs (obs i).samples = durG durs (g0 + i))
    (hcons : ∀ i, i + 1 < k →
      startG durs R (g0 + i + 1) / sd = startG durs R (g0 + i) / sd + 1)
    (hdrift : ((R : Int) - (durs.sum : Int)).natAbs ≤ c.dashTs) :
    located (repPass c none
      (fetchAll ((sliceG durs R g0 k).map (timeExp tol)) ((List.range k).map obs))) = [] := by
  apply located_nil_of_clean
  unfold repPass
  have hlen : (fetchAll ((sliceG durs R g0 k).map (timeExp tol)) ((List.range k).map obs)).length = k := by
    rw [fetchAll_length _ _ (by simp [sliceG_length])]; simp [sliceG_length]
  refine repLoop_clean c none
    (fun i ch => k ≤ i ∨ ch.nextSeq = none ∨
      ch.nextSeq = some (((startG durs R (g0 + i) / sd + sn : Nat)) : Int))
    _ 0 Chain.init (Or.inr (Or.inl rfl)) ?_
  intro j hj ch hinv
  rw [hlen] at hj
  have hget : (fetchAll ((sliceG durs R g0 k).map (timeExp tol)) ((List.range k).map obs))[j]
      = (SegState.fresh (timeExp tol ((startG durs R (g0 + j) : Int), durG' durs R (g0 + j))),
         Outcome.fetched (obs j)) := by
    unfold fetchAll
    simp [sliceG_get]
  rw [hget]
  have htf : ((obs j).tfdt : Int) = (startG durs R (g0 + j) : Int) := by
    have := C02_time_tfdt_exact durs R (g0 + j) hn h1 h2
    simp only at this
    rw [htfdt j hj, this]
  have hd : almostEqual ((durG' durs R (g0 + j)).toNat : Int) (sumDurs (obs j).samples) c.dashTs = true := by
    rw [almostEqual_iff, hdur j hj]
    unfold durG'
    split <;> omega
  have hinv' : ch.nextSeq = none ∨ ch.nextSeq = some ((obs j).seq : Int) := by
    rw [hseq j hj]
    rcases hinv with h | h
    · omega
    · simpa using h
  have := step_time c ch tol (durG' durs R (g0 + j)).toNat (startG durs R (g0 + j) : Int) (obs j)
    (hsound j hj) (by rw [← htf]; exact almostEqual_self _ _) hinv' hd
  simp only at this
  refine ⟨this.1, ?_⟩
  by_cases hlast : j + 1 < k
  · right; right
    have e : (timeExp tol ((startG durs R (g0 + j) : Int), durG' durs R (g0 + j)))
        = { expSeq := none, expDecode := some (startG durs R (g0 + j) : Int),
            expDur := some (durG' durs R (g0 + j)).toNat, tol := tol, pto := 0 } := rfl
    simp only [e, this.2, hseq j hj, Nat.zero_add]
    have hc := hcons j hlast
    rw [show g0 + (j + 1) = g0 + j + 1 by omega, hc]
    congr 1
    push_cast; omega
  · left; omega

/-- uniform layouts (every stored segment `sd` ticks, reference = the track) number
consecutively: `startG g / sd = g` -/
theorem uniform_consecutive (n sd g : Nat) (hn : 0 < n) (hsd : 0 < sd) :
    startG (List.replicate n sd) (n * sd) g / sd = g := by
  unfold startG prefixSum
  simp only [List.length_replicate, List.take_replicate, List.sum_replicate_nat]
  have hm := Nat.mod_lt g hn
  rw [Nat.min_eq_left (by omega)]
  have : g / n * (n * sd) + g % n * sd = (n * (g / n) + g % n) * sd := by
    rw [Nat.add_mul, Nat.mul_comm (g / n) (n * sd), Nat.mul_assoc, Nat.mul_comm sd (g / n), ← Nat.mul_assoc]
  rw [this, Nat.div_add_mod, Nat.mul_div_cancel _ hsd]

/-- what the validator expects of the `i`-th segment of a `$Number$` template
(`genTemplate`, representation.py:241-268) -/
def numberExp (sd : Nat) (tolOf : Nat → Nat) (N0 : Int) (i : Nat) : SegExp :=
  { expSeq := some (N0 + i), expDecode := none, expDur := some sd, tol := tolOf i, pto := 0 }

theorem genTemplate_eq (audio : Bool) (ts fn fd sd : Nat) (N0 : Int) (n : Nat) :
    genTemplate audio ts fn fd sd 0 N0 n
      = (List.range n).map (numberExp sd (templateTolerance audio ts fn fd) N0) := rfl

/-- **`$Number$` addressing is accepted.**  Requests `N₀ … N₀+k−1` are answered with
`mfhd = N` (`C02_number_seqnum`) and with the segments at positions `g₀ … g₀+k−1`
(`getSegmentIndex` of `(N − sn)·sd`, decode time = start of the position).  The validator's
continuity check uses `delta = expected_duration // 2` against the half-segment bound of
`C02_number_bounds` (`hhalf`) and its decode-time tolerance against the loop drift (`hcont`). -/
theorem validator_accepts_number_addressing_partial
    (durs : List Nat) (R sd g0 k : Nat) (sn N0 : Int) (c : RepCtx) (tolOf : Nat → Nat)
    (obs : Nat → SegObs)
    (hsn : c.startNumber = sn) (htd : c.tmplDuration = some sd)
    (hsound : ∀ i, i < k → Sound c 0 (obs i))
    (hseq : ∀ i, i < k → ((obs i).seq : Int) = N0 + i)
    (htfdt : ∀ i, i < k → (obs i).tfdt = startG durs R (g0 + i))
    (hdur : ∀ i, i < k → sumDurs (obs i).samples = durG durs (g0 + i))
    (hsegdur : ∀ i, i < k → almostEqual (sd : Int) (durG durs (g0 + i)) c.dashTs = true)
    (hhalf : ∀ i, i + 1 < k →
      almostEqual ((N0 + (i + 1 : Nat) - sn) * sd)
        ((startG durs R (g0 + i) : Int) + (durG durs (g0 + i) : Int)) (sd / 2) = true)
    (hcont : ∀ i, i + 1 < k →
      almostEqual ((startG durs R (g0 + i) : Int) + (durG durs (g0 + i) : Int))
        (startG durs R (g0 + i + 1) : Int) (tolOf (i + 1)) = true) :
    located (repPass c none
      (fetchAll ((List.range k).map (numberExp sd tolOf N0)) ((List.range k).map obs))) = [] := by
  apply located_nil_of_clean
  unfold repPass
  have hlen : (fetchAll ((List.range k).map (numberExp sd tolOf N0)) ((List.range k).map obs)).length = k := by
    rw [fetchAll_length _ _ (by simp)]; simp
  refine repLoop_clean c none
    (fun i ch => k ≤ i ∨ (i = 0 ∧ ch.nextSeq = none ∧ ch.nextDecode = none) ∨
      (0 < i ∧ ch.nextSeq = some (N0 + (i : Int)) ∧
        ch.nextDecode = some ((startG durs R (g0 + (i - 1)) : Int) + (durG durs (g0 + (i - 1)) : Int))))
    _ 0 Chain.init (Or.inr (Or.inl ⟨rfl, rfl, rfl⟩)) ?_
  intro j hj ch hinv
  rw [hlen] at hj
  have hget : (fetchAll ((List.range k).map (numberExp sd tolOf N0)) ((List.range k).map obs))[j]
      = (SegState.fresh (numberExp sd tolOf N0 j), Outcome.fetched (obs j)) := by
    unfold fetchAll
    simp
  rw [hget]
  simp only [Nat.zero_add] at hinv
  have hinv' : (ch.nextSeq = none ∧ ch.nextDecode = none) ∨
      (ch.nextSeq = some (N0 + (j : Int)) ∧ ∃ nd, ch.nextDecode = some nd ∧
        almostEqual ((N0 + (j : Int) - c.startNumber) * sd) nd (sd / 2) = true ∧
        almostEqual nd (obs j).tfdt (tolOf j) = true) := by
    rcases hinv with h | ⟨_, h2, h3⟩ | ⟨h1, h2, h3⟩
    · omega
    · exact Or.inl ⟨h2, h3⟩
    · right
      refine ⟨h2, _, h3, ?_, ?_⟩
      · have := hhalf (j - 1) (by omega)
        rw [show j - 1 + 1 = j by omega] at this
        rw [hsn]; exact this
      · have := hcont (j - 1) (by omega)
        rw [show j - 1 + 1 = j by omega, show g0 + (j - 1) + 1 = g0 + j by omega] at this
        rw [htfdt j hj]; exact this
  have := step_number c ch (tolOf j) sd (N0 + (j : Int)) (obs j) (hsound j hj) (hseq j hj) htd hinv'
    (by rw [hdur j hj]; exact hsegdur j hj)
  simp only at this
  have e : numberExp sd tolOf N0 j
      = { expSeq := some (N0 + (j : Int)), expDecode := none, expDur := some sd, tol := tolOf j, pto := 0 } := rfl
  rw [e]
  refine ⟨this.1, ?_⟩
  by_cases hlast : j + 1 < k
  · right; right
    refine ⟨by omega, ?_, ?_⟩
    · rw [this.2.1]; congr 1; push_cast; omega
    · rw [this.2.2, htfdt j hj, hdur j hj]; simp
  · left; omega

/-- the continuity hypothesis `hcont` inside a loop: consecutive positions of one loop are
exactly contiguous (`startG_succ_of_lt`), so the difference is 0 -/
theorem continuity_within_loop (durs : List Nat) (R g tol : Nat)
    (h : g % durs.length + 1 < durs.length) :
    almostEqual ((startG durs R g : Int) + (durG durs g : Int)) (startG durs R (g + 1) : Int) tol = true := by
  rw [startG_succ_of_lt R g h, almostEqual_iff]
  push_cast; omega

/-- … and across a loop boundary it is the drift `R − Σ durs`, which therefore has to be
within the validator's decode-time tolerance -/
theorem continuity_at_boundary (durs : List Nat) (R g tol : Nat) (hn : 0 < durs.length)
    (h : g % durs.length + 1 = durs.length) (hdrift : ((R : Int) - (durs.sum : Int)).natAbs ≤ tol) :
    almostEqual ((startG durs R g : Int) + (durG durs g : Int)) (startG durs R (g + 1) : Int) tol = true := by
  have := startG_succ durs R g hn
  rw [this, almostEqual_iff]
  unfold durG'
  simp only [h, if_true]
  omega

/-- the half-segment hypothesis `hhalf` from `C02_number_bounds` for a layout whose segments
all last `sd` ticks: the position selected for timecode `tc` starts within `sd / 2` of `tc`
(inside a loop) -/
theorem half_segment_of_C02 (durs : List Nat) (R tc sd : Nat) (hR : 0 < R) (hn : 0 < durs.length)
    (huni : ∀ m, m < durs.length → durAt durs m = sd)
    (hin : index durs R tc % durs.length ≠ 0) :
    almostEqual (tc : Int) (startG durs R (index durs R tc) : Int) (sd / 2) = true := by
  obtain ⟨b1, b2, _⟩ := C02_number_bounds durs R tc hR hn
  have b2' := b2 hin
  have hd : durG durs (index durs R tc) = sd := huni _ (Nat.mod_lt _ hn)
  have hd' : durG durs (index durs R tc - 1) = sd := huni _ (Nat.mod_lt _ hn)
  rw [hd] at b1
  rw [hd'] at b2'
  rw [almostEqual_iff]
  omega

/-! ## 3. corruptions that show at the *next* segment of the Representation -/

/-- **a gap in a `$Time$` SegmentTimeline**: after the segment at position `g − 1` the timeline
continues with the entry of position `g + 1`.  The served segment carries the number of
position `g + 1`, the validator expects the predecessor's number + 1 – the error is recorded on
the segment after the gap. -/
theorem validator_detects_timeline_gap (c : RepCtx) (ch : Chain) (tol du : Nat) (t : Int)
    (o : SegObs) (prevSeq : Nat) (hr : Reaches c o)
    (hch : ch.nextSeq = some ((prevSeq : Int) + 1))
    (hgap : (o.seq : Int) ≠ (prevSeq : Int) + 1) :
    let e : SegExp := { expSeq := none, expDecode := some t, expDur := some du, tol := tol, pto := 0 }
    SegErr.seqNum ∈ (stepSeg c ch (SegState.fresh e) (Outcome.fetched o)).2.1 := by
  simp only [stepSeg, inherit, SegState.fresh, hch]
  have := (validator_detects_sequence_number c
    { expSeq := some ((prevSeq : Int) + 1), expDecode := some t, expDur := some du, tol := tol, pto := 0 }
    o ((prevSeq : Int) + 1) rfl (Ne.symm hgap)).2 hr
  simpa using this

/-- with consecutive numbering of the pristine stream a removed entry is always such a gap -/
theorem gap_breaks_numbering (s0 s1 s2 : Nat) (h01 : s1 = s0 + 1) (h12 : s2 = s1 + 1) :
    (s2 : Int) ≠ (s0 : Int) + 1 := by omega

/-- **wrong decode time in `$Number$` addressing** (no expected decode time of its own): the
successor inherits `tfdt + duration` of the corrupted segment as its expectation
(representation.py:535) and fails its own decode-time check. -/
theorem validator_detects_decode_time_at_successor (c : RepCtx) (ch : Chain) (tol sd : Nat)
    (N nd : Int) (o : SegObs) (hr : Reaches c o)
    (hch : ch.nextSeq = some N) (hnd : ch.nextDecode = some nd)
    (hbad : (tol : Int) < nd - o.tfdt ∨ (tol : Int) < (o.tfdt : Int) - nd) :
    let e : SegExp := { expSeq := some N, expDecode := none, expDur := some sd, tol := tol, pto := 0 }
    SegErr.decodeTime ∈ (stepSeg c ch (SegState.fresh e) (Outcome.fetched o)).2.1 := by
  simp only [stepSeg, inherit, SegState.fresh, hch, hnd]
  have := (validator_detects_decode_time c
    { expSeq := some N, expDecode := some nd, expDur := some sd, tol := tol, pto := 0 }
    o nd rfl hbad).2 hr
  simp [this]

/-- errors of a step of a pass surface in the result of the pass (when the loop gets there:
no `need_duration`); `pre` are the segments before it -/
theorem repLoop_of_step (c : RepCtx) :
    ∀ (pre : List (SegState × Outcome)) (ch : Chain) (s : SegState) (oc : Outcome)
      (post : List (SegState × Outcome)) (err : SegErr),
      err ∈ (stepSeg c ((pre.foldl (fun acc p => (stepSeg c acc p.1 p.2).2.2) ch)) s oc).2.1 →
      ∃ q ∈ repLoop c none ch (pre ++ (s, oc) :: post), err ∈ q.2 := by
  intro pre
  induction pre with
  | nil =>
    intro ch s oc post err herr
    refine ⟨((stepSeg c ch s oc).1, (stepSeg c ch s oc).2.1), ?_, by simpa using herr⟩
    simp [repLoop]
  | cons y pre' ih =>
    intro ch s oc post err herr
    obtain ⟨q, hq, he⟩ := ih (stepSeg c ch y.1 y.2).2.2 s oc post err (by simpa [List.foldl] using herr)
    refine ⟨q, ?_, he⟩
    simp only [List.cons_append, repLoop]
    exact List.mem_cons_of_mem _ (by simpa using hq)

/-! ## 4. init segment -/

/-- **a mandatory box of the moov removed** (any box of `mandatoryMoovBoxes`, with all its
alternatives absent): the init segment is reported, with the error naming the box -/
theorem validator_detects_init_box (o : InitObs) (i : Nat) (names : List String)
    (hi : mandatoryMoovBoxes[i]? = some names)
    (habs : ∀ nm ∈ names, nm ∉ o.moov)
    (hload : (initLoad o).2 = true) (htop : 1 < o.top.length) :
    InitErr.mandatory i ∈ initErrors o := by
  have hmem : InitErr.mandatory i ∈ mandatoryErrors o.moov := by
    unfold mandatoryErrors
    rw [List.mem_filterMap]
    exact ⟨(names, i), List.mem_zipIdx_iff_getElem?.mpr hi, by simpa using habs⟩
  have : initErrors o = initValidateLoaded o := by
    unfold initErrors; simp [hload]
  rw [this]
  unfold initValidateLoaded
  simp only [htop, not_true_eq_false, if_false]
  exact List.mem_append_right _ hmem

/-- a box `process_moov` needs (trak, tkhd, mdia, mdhd, hdlr; for video also minf, stbl, stsd),
the moov itself, or the leading ftyp removed: reported as well -/
theorem validator_detects_init_structure (o : InitObs) (hurl : o.hasUrl = true)
    (hst : o.status = if o.ranged then 206 else 200) :
    ("moov" ∉ o.top → InitErr.noMoov ∈ initErrors o) ∧
    ("moov" ∈ o.top → (∃ b ∈ processMoovBoxes o.video, b ∉ o.moov) → InitErr.parse ∈ initErrors o) ∧
    ((initLoad o).2 = true → 1 < o.top.length → o.top.head? ≠ some "ftyp" →
      InitErr.ftyp ∈ initErrors o) := by
  refine ⟨?_, ?_, ?_⟩
  · intro h
    have hl : initLoad o = ([InitErr.noMoov], false) := by
      unfold initLoad; simp [hurl, hst, h]
    unfold initErrors
    simp [hl, hurl]
  · intro h ⟨b, hb, hbm⟩
    have hall : ¬ (∀ x, x ∈ processMoovBoxes o.video → x ∈ o.moov) := fun hx => hbm (hx b hb)
    have hl : initLoad o = ([InitErr.parse], false) := by
      unfold initLoad; simp [hurl, hst, h, hall]
    unfold initErrors
    simp [hl, hurl]
  · intro hl htop hf
    have : initErrors o = initValidateLoaded o := by
      unfold initErrors; simp [hl]
    rw [this]
    unfold initValidateLoaded
    simp [htop, hf]

/-- what the server serves (ftyp first, moov with every box the validator asks for) is accepted -/
theorem validator_accepts_init (o : InitObs) (hurl : o.hasUrl = true)
    (hst : o.status = if o.ranged then 206 else 200)
    (hftyp : o.top.head? = some "ftyp") (hmoov : "moov" ∈ o.top) (htop : 1 < o.top.length)
    (hproc : ∀ b ∈ processMoovBoxes o.video, b ∈ o.moov)
    (hmand : ∀ names ∈ mandatoryMoovBoxes, ∃ nm ∈ names, nm ∈ o.moov) :
    initErrors o = [] := by
  have hl : initLoad o = ([], true) := by
    unfold initLoad; simpa [hurl, hst, hmoov] using hproc
  have : initErrors o = initValidateLoaded o := by
    unfold initErrors; simp [hl]
  rw [this]
  unfold initValidateLoaded
  simp only [htop, not_true_eq_false, if_false, hftyp, if_true, List.nil_append]
  unfold mandatoryErrors
  rw [List.filterMap_eq_nil_iff]
  intro p hp
  obtain ⟨nm, hnm, hc⟩ := hmand p.1 (List.fst_mem_of_mem_zipIdx hp)
  simpa using ⟨nm, hnm, hc⟩

/-! ## 5. MPD attributes -/

/-- the attributes every manifest of the server carries: complete at every level, `type`
agreeing with the mode, no VOD-only / live-only attribute on the wrong side -/
structure ServerShaped (d : Doc) : Prop where
  periods : 0 < d.periods.length
  profiles : d.hasProfiles = true
  minBuffer : d.hasMinBufferTime = true
  live : d.live = true → d.typeDynamic = some true ∧ d.hasAst = true ∧ d.hasTsbd = true ∧
    d.mpdDuration = none
  vod : d.live = false → d.typeDynamic ≠ some true ∧ d.mpdDuration = some true ∧ d.hasMup = false ∧
    d.hasAst = false ∧ d.nPatches = 0
  periodIds : ∀ p ∈ d.periods, d.live = true → p.hasId = true
  adps : ∀ p ∈ d.periods, ∀ a ∈ p.adps, a.hasMimeType = true ∧ timelineErrors a.template = [] ∧
    ∀ r ∈ a.reps, timelineErrors r.ownTemplate = [] ∧ repAttrErrors d (r.ownTemplate <|> a.template) r = []

theorem validator_accepts_manifest (d : Doc) (h : ServerShaped d) : docErrors d = [] := by
  have hm : mpdErrors d = [] := by
    unfold mpdErrors
    cases hl : d.live
    · obtain ⟨v1, v2, v3, v4, v5⟩ := h.vod hl
      simp [h.periods, h.profiles, h.minBuffer, v1, v2, v3, v4, v5]
    · obtain ⟨l1, l2, l3, l4⟩ := h.live hl
      simp [h.periods, h.profiles, h.minBuffer, l1, l2, l3, l4]
  unfold docErrors
  rw [hm]
  simp only [List.map_nil, List.nil_append, List.flatMap_eq_nil_iff]
  intro pp hpp
  obtain ⟨p, pi⟩ := pp
  have hp := List.fst_mem_of_mem_zipIdx hpp
  simp only at hp
  have hid : (if d.live = true ∧ ¬ p.hasId = true then [(MLoc.period pi, MErr.periodId)] else []) = [] := by
    by_cases hl : d.live = true
    · simp [h.periodIds p hp hl]
    · simp [hl]
  simp only [hid, List.nil_append, List.flatMap_eq_nil_iff]
  intro aa haa
  obtain ⟨a, ai⟩ := aa
  have ha := List.fst_mem_of_mem_zipIdx haa
  simp only at ha
  obtain ⟨a1, a2, a3⟩ := h.adps p hp a ha
  simp only [a1, if_true, a2, List.map_nil, List.nil_append, List.flatMap_eq_nil_iff]
  intro rr hrr
  obtain ⟨r, ri⟩ := rr
  have hr := List.fst_mem_of_mem_zipIdx hrr
  simp only at hr
  obtain ⟨r1, r2⟩ := a3 r hr
  simp only [r1, r2, List.map_nil, List.append_nil]

/-- **a mandatory MPD-level attribute removed** – reported at the MPD element -/
theorem validator_detects_mpd_attribute (d : Doc) :
    (d.hasProfiles = false → (MLoc.mpd, MErr.profiles) ∈ docErrors d) ∧
    (d.hasMinBufferTime = false → (MLoc.mpd, MErr.minBufferTime) ∈ docErrors d) ∧
    (d.live = true → d.typeDynamic ≠ some true → (MLoc.mpd, MErr.mpdType) ∈ docErrors d) ∧
    (d.live = true → d.hasAst = false → (MLoc.mpd, MErr.availabilityStartTime) ∈ docErrors d) ∧
    (d.live = false → d.mpdDuration = none → (∃ p ∈ d.periods, p.hasDuration = false) →
      (MLoc.mpd, MErr.durationMissing) ∈ docErrors d) := by
  have key : ∀ e, e ∈ mpdErrors d → (MLoc.mpd, e) ∈ docErrors d := by
    intro e he
    unfold docErrors
    exact List.mem_append_left _ (List.mem_map.mpr ⟨e, he, rfl⟩)
  refine ⟨?_, ?_, ?_, ?_, ?_⟩
  · intro h; apply key; unfold mpdErrors; simp [h]
  · intro h; apply key; unfold mpdErrors; simp [h]
  · intro hl h; apply key; unfold mpdErrors; simp [hl, h]
  · intro hl h; apply key; unfold mpdErrors; simp [hl, h]
  · intro hl h ⟨p, hp, hpd⟩
    apply key; unfold mpdErrors
    simp only [hl, h, Bool.false_eq_true, if_false]
    simp
    exact ⟨p, hp, hpd⟩

/-- **Period@id removed (live)** – reported at that Period -/
theorem validator_detects_period_id (d : Doc) (pi : Nat) (p : PeriodAttrs)
    (hp : d.periods[pi]? = some p) (hl : d.live = true) (hid : p.hasId = false) :
    (MLoc.period pi, MErr.periodId) ∈ docErrors d := by
  unfold docErrors
  apply List.mem_append_right
  rw [List.mem_flatMap]
  refine ⟨(p, pi), List.mem_zipIdx_iff_getElem?.mpr hp, ?_⟩
  simp [hl, hid]

/-- **AdaptationSet@mimeType removed** – reported at that AdaptationSet -/
theorem validator_detects_adaptation_set_mime_type (d : Doc) (pi ai : Nat) (p : PeriodAttrs)
    (a : AdpAttrs) (hp : d.periods[pi]? = some p) (ha : p.adps[ai]? = some a)
    (hm : a.hasMimeType = false) :
    (MLoc.adaptationSet pi ai, MErr.adpMimeType) ∈ docErrors d := by
  unfold docErrors
  apply List.mem_append_right
  rw [List.mem_flatMap]
  refine ⟨(p, pi), List.mem_zipIdx_iff_getElem?.mpr hp, ?_⟩
  apply List.mem_append_right
  rw [List.mem_flatMap]
  refine ⟨(a, ai), List.mem_zipIdx_iff_getElem?.mpr ha, ?_⟩
  simp [hm]

/-- errors of a Representation's attribute checks surface at that Representation -/
theorem docErrors_of_rep (d : Doc) (pi ai ri : Nat) (p : PeriodAttrs) (a : AdpAttrs) (r : RepAttrs)
    (hp : d.periods[pi]? = some p) (ha : p.adps[ai]? = some a) (hr : a.reps[ri]? = some r)
    (e : MErr) (he : e ∈ repAttrErrors d (r.ownTemplate <|> a.template) r) :
    (MLoc.representation pi ai ri, e) ∈ docErrors d := by
  unfold docErrors
  apply List.mem_append_right
  rw [List.mem_flatMap]
  refine ⟨(p, pi), List.mem_zipIdx_iff_getElem?.mpr hp, ?_⟩
  apply List.mem_append_right
  rw [List.mem_flatMap]
  refine ⟨(a, ai), List.mem_zipIdx_iff_getElem?.mpr ha, ?_⟩
  apply List.mem_append_right
  rw [List.mem_flatMap]
  refine ⟨(r, ri), List.mem_zipIdx_iff_getElem?.mpr hr, ?_⟩
  apply List.mem_append_right
  exact List.mem_map.mpr ⟨e, he, rfl⟩

/-- **Representation@id / @bandwidth, SegmentTemplate@media / @duration removed** – reported at
every Representation that uses the element -/
theorem validator_detects_representation_attribute (d : Doc) (t : Option TemplateAttrs) (r : RepAttrs) :
    (r.hasId = false → MErr.repId ∈ repAttrErrors d t r) ∧
    (r.hasBandwidth = false → MErr.repBandwidth ∈ repAttrErrors d t r) ∧
    (∀ tt, t = some tt → tt.hasInit = true → tt.hasMedia = false → MErr.media ∈ repAttrErrors d t r) ∧
    (∀ tt, t = some tt → tt.hasInit = true → tt.hasMedia = true → (d.live = true → d.hasAst = true ∧ d.hasTsbd = true) →
      tt.timeline = none → tt.hasDuration = false → MErr.tmplDuration ∈ repAttrErrors d t r) := by
  refine ⟨?_, ?_, ?_, ?_⟩
  · intro h; unfold repAttrErrors; simp [h]
  · intro h; unfold repAttrErrors; simp [h]
  · intro tt ht h1 h2; unfold repAttrErrors; simp [ht, h1, h2]
  · intro tt ht h1 h2 hl h3 h4
    unfold repAttrErrors
    by_cases hlive : d.live = true
    · obtain ⟨l1, l2⟩ := hl hlive
      simp [ht, h1, h2, h3, h4, l1, l2]
    · simp [ht, h1, h2, h3, h4, hlive]

/-- **S@d removed** – reported at the SegmentTimeline (1951de2 made these errors reachable) -/
theorem validator_detects_missing_s_duration (pre post : List SElem) (s : SElem) (cur : Option Int)
    (hd : s.d = none) : TlErr.missingD ∈ (tlExpand cur (pre ++ s :: post)).2 := by
  induction pre generalizing cur with
  | nil => simp [tlExpand, hd]
  | cons x rest ih =>
    simp only [List.cons_append, tlExpand]
    cases hx : x.d with
    | none => simp
    | some d =>
      simp only
      apply List.mem_append_right
      exact ih _

/-- **MPD@timeShiftBufferDepth removed (live)** – reported at the MPD element (manifest.py) *and*
at every Representation that needs the value to generate its segments (representation.py) -/
theorem validator_detects_time_shift_buffer_depth (d : Doc) (hl : d.live = true) (h : d.hasTsbd = false) :
    (MLoc.mpd, MErr.timeShiftBufferDepth) ∈ docErrors d ∧
    (∀ t tt r, t = some tt → tt.hasInit = true → tt.hasMedia = true → d.hasAst = true →
      MErr.repTsbd ∈ repAttrErrors d t r) := by
  constructor
  · unfold docErrors
    apply List.mem_append_left
    apply List.mem_map.mpr
    refine ⟨MErr.timeShiftBufferDepth, ?_, rfl⟩
    unfold mpdErrors
    simp [hl, h]
  · intro t tt r ht h1 h2 h3
    unfold repAttrErrors
    simp [ht, h1, h2, h3, hl, h]

/-- **SegmentTemplate@initialization removed** – reported at every Representation using it -/
theorem validator_detects_initialization (d : Doc) (tt : TemplateAttrs) (r : RepAttrs)
    (h : tt.hasInit = false) : MErr.initialization ∈ repAttrErrors d (some tt) r := by
  unfold repAttrErrors
  simp [h]

/-- **the whole table**: every manifest shape the server produces (live / static, `$Number$`
template / `$Time$` timeline) is accepted as it is, and for every row of `mandatoryAttrs` that
applies to the shape, removing that attribute yields the row's error at the row's location –
checked row by row by the kernel -/
theorem mandatory_table_detected :
    ∀ live ∈ [true, false], ∀ timeline ∈ [true, false],
      docErrors (canonicalDoc live timeline) = [] ∧
      ∀ r ∈ mandatoryAttrs, r.appliesTo live timeline = true →
        (r.mloc, r.err) ∈ docErrors (removeAttr r (canonicalDoc live timeline)) := by
  decide

/-- the table names every attribute-level error kind of the model that a missing attribute can
cause in a live or a static manifest (no check of the model is left out of the enumeration) -/
theorem mandatory_table_complete :
    ∀ e ∈ [MErr.profiles, .minBufferTime, .mpdType, .availabilityStartTime, .timeShiftBufferDepth,
           .durationMissing, .periodId, .adpMimeType, .repBandwidth, .repId, .initialization, .media,
           .repAst, .repTsbd, .tmplDuration, .sDuration, .sStart],
      ∃ r ∈ mandatoryAttrs, r.err = e := by
  decide

/-! ## 6. SegmentTimeline: the validator reads the server's timeline the way DASH does -/

/-- the `<S>` list the server writes is expanded by the validator into exactly the slice
`[(startG g, durG' g) | g₀ ≤ g < g₀+k]` of the global sequence that `timeline_is_slice`
proves for DASH's reading – so `validator_accepts_time_addressing_partial` is about the list the
validator really generates its expectations from. -/
theorem validator_timeline_is_slice (durs : List Nat) (R ts tcF tsbd fuel : Nat) (hn : 0 < durs.length)
    (hpos : AdvPositive durs R) (s : SNode) (rest : List SNode) (t0 : Int)
    (hl : timelineLive durs R ts tcF tsbd fuel = s :: rest) (hs : s.start = some t0)
    (hwf : ∀ x ∈ s :: rest, x.dur.isSome = true ∧ 1 ≤ x.count) :
    ∃ k, tlExpand none ((timelineLive durs R ts tcF tsbd fuel).map toSElem)
      = (sliceG durs R (index durs R tcF) k, []) := by
  obtain ⟨k, hk⟩ := timeline_is_slice durs R ts tcF tsbd fuel hn hpos
  refine ⟨k, ?_⟩
  rw [hl, timelineSegments_eq_expand s rest t0 hs hwf, ← hl, hk]

/-- the live timeline has to cover the time-shift buffer (representation.py:321-326): a timeline
whose advertised durations add up to the buffer depth – what `generateSegmentTimeline` produces,
its loop runs `while dur < timeShiftBufferDepth·timescale` – is accepted … -/
theorem validator_accepts_timeline_depth (live : Bool) (targetUs : Option Int) (tsbdUs : Int) (ts : Nat)
    (entries : List (Int × Int))
    (h : tsbdUs * ts ≤ ((entries.map (·.2)).sum) * 1000000) :
    timelineDepthErrs live targetUs tsbdUs ts entries = [] := by
  unfold timelineDepthErrs
  split <;> simp [h]

/-- … and **a gap that leaves less than the buffer depth** is reported at the Representation even
when the segment after the gap is never fetched -/
theorem validator_detects_short_timeline (tsbdUs : Int) (ts : Nat) (entries : List (Int × Int))
    (h : ((entries.map (·.2)).sum) * 1000000 < tsbdUs * ts) :
    timelineDepthErrs true none tsbdUs ts entries = [RepErr.timelineShort] := by
  unfold timelineDepthErrs
  have : ¬ (tsbdUs * ts ≤ ((entries.map (·.2)).sum) * 1000000) := by omega
  simp [this]

/-! ## 7. across a manifest refresh -/

/-- **availabilityStartTime changed on a later manifest** – for *every* refreshed manifest: with
or without MPD@minimumUpdatePeriod (`r.mup` is an arbitrary `Option`), whatever MPD@id and
publishTime did.  validator.py:246-248 sits outside the `minimumUpdatePeriod is not None` guard,
which only protects the age check `3 * minimumUpdatePeriod`. -/
theorem validator_detects_ast_change (r : Refresh) (h : r.prevAst ≠ r.ast) :
    RefreshErr.availabilityStartTime ∈ refreshErrors r := by
  unfold refreshErrors
  simp [h]

/-- the same spelled out for a manifest that announces no updates (`mup = none`, the server
option `mup=-1` and `manifest_ef.mpd`): the error list is exactly the AST error -/
theorem validator_detects_ast_change_without_update_period (prevAst ast : Option Int)
    (prevPublish publish : Int) (h : prevAst ≠ ast) :
    refreshErrors { idEqual := true, prevAst := prevAst, ast := ast, prevPublish := prevPublish,
                    publish := publish, mup := none } = [RefreshErr.availabilityStartTime] := by
  unfold refreshErrors
  simp [h]

/-- **MPD@id changed on a later manifest** (validator.py:242-245, clause 5.4.1) – again for every
`mup` -/
theorem validator_detects_mpd_id_change (r : Refresh) (h : r.idEqual = false) :
    RefreshErr.mpdId ∈ refreshErrors r := by
  unfold refreshErrors
  simp [h]

/-- a manifest without MPD@minimumUpdatePeriod is never `stale`, and two versions of it with the
same id and availabilityStartTime are accepted whatever their publishTimes are (the validator
reloads it after `DEFAULT_UPDATE_PERIOD`, validator.py:314-317) -/
theorem validator_accepts_refresh_without_update_period (ast : Option Int) (prevPublish publish : Int) :
    refreshErrors { idEqual := true, prevAst := ast, ast := ast, prevPublish := prevPublish,
                    publish := publish, mup := none } = [] := by
  unfold refreshErrors
  simp

/-- the refresh checks are independent of each other: the error list is the concatenation of
the three separate verdicts, so no check can be masked by the outcome (or absence) of another -/
theorem refreshErrors_independent (r : Refresh) :
    (RefreshErr.mpdId ∈ refreshErrors r ↔ r.idEqual = false) ∧
    (RefreshErr.availabilityStartTime ∈ refreshErrors r ↔ r.prevAst ≠ r.ast) ∧
    (RefreshErr.stale ∈ refreshErrors r ↔ ∃ m, r.mup = some m ∧ 3 * m ≤ r.publish - r.prevPublish) := by
  unfold refreshErrors
  refine ⟨?_, ?_, ?_⟩
  · cases hi : r.idEqual <;> cases hm : r.mup <;> by_cases ha : r.prevAst = r.ast <;> simp [ha] <;>
      split <;> simp
  · cases hi : r.idEqual <;> cases hm : r.mup <;> by_cases ha : r.prevAst = r.ast <;> simp [ha] <;>
      split <;> simp
  · cases hi : r.idEqual <;> cases hm : r.mup <;> by_cases ha : r.prevAst = r.ast <;> simp [ha] <;>
      omega

open DashLive.LiveTiming in
/-- **two manifests of the server are accepted as successive versions**: same stream
(`availabilityStartTime` equal – `symbolic_stable` / an explicit start), second request at most
two update periods after the first (the validator sleeps until `publishTime + minimumUpdatePeriod`,
validator.py:306-324).  Then `publishTime` has advanced by less than `3·minimumUpdatePeriod`
(`publish_in_range`, `publish_quantised`). -/
theorem validator_accepts_refresh_partial (now₁ now₂ : Int) (ref : Ref) (o : Options) (p : Int)
    (h₁ : Accepted now₁ o) (h₂ : Accepted now₂ o)
    (hast : (calculateLiveParams now₁ ref o).availabilityStartTime
              = (calculateLiveParams now₂ ref o).availabilityStartTime)
    (hp₁ : (calculateLiveParams now₁ ref o).minimumUpdatePeriod = some p)
    (hsoon : now₂ - now₁ ≤ 2 * p * usPerSec) :
    refreshErrors
      { idEqual := true
        prevAst := some (calculateLiveParams now₁ ref o).availabilityStartTime
        ast := some (calculateLiveParams now₂ ref o).availabilityStartTime
        prevPublish := (calculateLiveParams now₁ ref o).publishTime
        publish := (calculateLiveParams now₂ ref o).publishTime
        mup := some (p * usPerSec) } = [] := by
  have a := (publish_in_range now₂ ref o h₂).2.1
  have b := (publish_quantised now₁ ref o h₁ p hp₁).2.2
  unfold refreshErrors
  simp only [if_true, hast, List.nil_append]
  have : (calculateLiveParams now₂ ref o).publishTime - (calculateLiveParams now₁ ref o).publishTime
      < 3 * (p * usPerSec) := by
    unfold usPerSec at *; omega
  simp [this]

/-! ## 8. the final report of a session -/

theorem final_report_monotone (r : Report) (op : SessionOp) (e : Nat) (h : e ∈ r.final) :
    e ∈ (r.apply op).final := by
  unfold Report.final at *
  cases op with
  | found t c =>
    simp only [Report.apply, List.mem_append] at *
    rcases h with (h | h) | h <;> simp [h]
  | refresh =>
    simp only [Report.apply, List.mem_append, List.flatten_append, List.flatten_cons, List.flatten_nil,
      List.append_nil] at *
    rcases h with (h | h) | h <;> simp [h]

theorem final_report_monotone_ops (ops : List SessionOp) (r : Report) (e : Nat) (h : e ∈ r.final) :
    e ∈ (ops.foldl Report.apply r).final := by
  induction ops generalizing r with
  | nil => exact h
  | cons op rest ih => exact ih _ (final_report_monotone r op e h)

/-- **monotone accumulation**: an error found at any step of a session – on the validator itself
(the cross-refresh findings) or in the manifest tree of that moment – is in the final report
`get_errors()`, whatever passes and however many refreshes follow; in particular
`has_errors()` is true at the end. -/
theorem final_report_contains_every_pass (pre post : List SessionOp) (top tree : List Nat) (e : Nat)
    (h : e ∈ top ∨ e ∈ tree) :
    e ∈ (runSession (pre ++ SessionOp.found top tree :: post)).final ∧
    (runSession (pre ++ SessionOp.found top tree :: post)).hasErrors = true := by
  have hmem : e ∈ (runSession (pre ++ SessionOp.found top tree :: post)).final := by
    unfold runSession
    rw [List.foldl_append, List.foldl_cons]
    apply final_report_monotone_ops
    unfold Report.final
    simp only [Report.apply, List.mem_append]
    rcases h with h | h
    · exact Or.inl (Or.inr (Or.inr h))
    · exact Or.inr (Or.inr h)
  refine ⟨hmem, ?_⟩
  unfold Report.hasErrors
  cases hf : (runSession (pre ++ SessionOp.found top tree :: post)).final with
  | nil => rw [hf] at hmem; cases hmem
  | cons x xs => rfl

theorem final_report_only_findings_aux (e : Nat) (ops : List SessionOp) :
    ∀ (r : Report), e ∈ (ops.foldl Report.apply r).final →
      e ∈ r.final ∨ ∃ t c, SessionOp.found t c ∈ ops ∧ (e ∈ t ∨ e ∈ c) := by
  induction ops with
  | nil => intro r hr; exact Or.inl hr
  | cons op rest ih =>
    intro r hr
    rcases ih (r.apply op) hr with h1 | ⟨t, c, hm, he⟩
    · cases op with
      | found t c =>
        unfold Report.final at h1 ⊢
        simp only [Report.apply, List.mem_append] at h1 ⊢
        rcases h1 with (h1 | h1 | h1) | h1 | h1
        · simp [h1]
        · simp [h1]
        · exact Or.inr ⟨t, c, by simp, Or.inl h1⟩
        · simp [h1]
        · exact Or.inr ⟨t, c, by simp, Or.inr h1⟩
      | refresh =>
        unfold Report.final at h1 ⊢
        simp only [Report.apply, List.mem_append, List.flatten_append, List.flatten_cons, List.flatten_nil,
          List.append_nil] at h1 ⊢
        rcases h1 with (h1 | h1) | h1 <;> simp [h1]
    · exact Or.inr ⟨t, c, List.mem_cons_of_mem _ hm, he⟩

/-- and nothing is invented: every error of the final report was found at some step -/
theorem final_report_only_findings (ops : List SessionOp) (e : Nat)
    (h : e ∈ (runSession ops).final) :
    ∃ t c, SessionOp.found t c ∈ ops ∧ (e ∈ t ∨ e ∈ c) := by
  rcases final_report_only_findings_aux e ops Report.init h with h0 | h0
  · simp [Report.init, Report.final] at h0
  · exact h0

/-- an AST finding (id 7, on the validator itself) at the first of five refreshes, segment findings
in the tree around it: all are in the final report -/
example : (runSession [.found [] [], .refresh, .found [7] [3], .refresh, .found [8] [], .refresh,
    .found [] [4], .refresh, .found [] [], .refresh, .found [] []]).final = [3, 4, 7, 8] := by decide

/-! ## non-vacuity and negative witnesses -/

/-- a sound clear video fragment: 4 samples, trun pointing at the mdat payload -/
def exObs (seq tfdt : Nat) : SegObs :=
  { status := 200, ctypeOk := true, nAtoms := 3, hasMoof := true, hasMdat := true, emsgOk := true,
    seq := seq, tfdt := tfdt, baseDataOffset := 0, dataOffset := 120,
    samples := [⟨10, 240, 0⟩, ⟨10, 240, 0⟩, ⟨10, 240, 0⟩, ⟨10, 240, 0⟩],
    mdatPos := 112, mdatHdr := 8, mdatSize := 48, senc := none, saio := none }

def exCtx : RepCtx :=
  { video := true, optEncrypted := false, infoEncrypted := false, ivKnown := false, hasMoov := true,
    dashTs := 240, mediaTs := some 240, startNumber := 1, tmplDuration := some 960 }

/-- `Sound` is inhabited by an ordinary fragment -/
example : Sound exCtx 0 (exObs 7 5760) :=
  { status := by decide, ctype := rfl, encVideo := by decide, encOther := by decide, iv := by decide,
    atoms := by decide, moof := rfl, mdat := rfl, emsg := rfl, trunFirst := by decide,
    trunLast := by decide, enc := by decide, moov := rfl, trex := by decide, pts := by decide, mediaTs := rfl,
    dashTs := by decide }

/-- bbb-like video (4 × 960 ticks at 240 Hz, reference = itself): the hypotheses of
`validator_accepts_time_addressing_partial` hold – `hcons` by `uniform_consecutive` – and the pass over
three timeline entries starting at position 5 is clean -/
example : located (repPass exCtx none (fetchAll
    ((sliceG [960, 960, 960, 960] 3840 5 3).map (timeExp 10))
    [exObs 6 4800, exObs 7 5760, exObs 8 6720])) = [] := by decide

example : ∀ i, i < 2 → startG [960, 960, 960, 960] 3840 (5 + i + 1) / 960
    = startG [960, 960, 960, 960] 3840 (5 + i) / 960 + 1 := by decide

/-- the same stream in `$Number$` addressing, numbers 6, 7, 8 -/
example : located (repPass exCtx none (fetchAll
    ((List.range 3).map (numberExp 960 (templateTolerance false 240 24 1) 6))
    [exObs 6 4800, exObs 7 5760, exObs 8 6720])) = [] := by decide

/-- … and its layout hypotheses `hsegdur`, `hhalf`, `hcont` at that instance
(`g₀ = 5`, `N₀ = 6`, `sn = 1`, `sd = 960`, video tolerance 10 ticks) -/
example : ∀ i, i < 2 →
    almostEqual (960 : Int) (durG [960, 960, 960, 960] (5 + i)) 240 = true ∧
    almostEqual (((6 : Int) + ((i + 1 : Nat) : Int) - 1) * 960)
      ((startG [960, 960, 960, 960] 3840 (5 + i) : Int) + (durG [960, 960, 960, 960] (5 + i) : Int)) (960 / 2) = true ∧
    almostEqual ((startG [960, 960, 960, 960] 3840 (5 + i) : Int) + (durG [960, 960, 960, 960] (5 + i) : Int))
      (startG [960, 960, 960, 960] 3840 (5 + i + 1) : Int) (templateTolerance false 240 24 1 (i + 1)) = true := by
  decide

/-- **negative witness (ledger `time-seqnum-irregular`)**: an irregular layout
(960, 480, 1440, 960 ticks; `segment_duration` 960) violates `hcons` – positions 1 and 2 start
at 960 and 1440, both numbered `1 + sn` – and the validator rejects the pristine stream at the
second of them -/
example : startG [960, 480, 1440, 960] 3840 2 / 960 ≠ startG [960, 480, 1440, 960] 3840 1 / 960 + 1 := by
  decide

def exObsDur (seq tfdt d : Nat) : SegObs :=
  { (exObs seq tfdt) with samples := [⟨10, d, 0⟩, ⟨10, 0, 1⟩, ⟨10, 0, 2⟩, ⟨10, 0, 3⟩] }

example : located (repPass exCtx none (fetchAll
    ((sliceG [960, 480, 1440, 960] 3840 1 2).map (timeExp 10))
    [exObsDur 2 960 480, exObsDur 2 1440 1440])) = [(1, SegErr.seqNum)] := by decide

/-- **negative witness for `hcont`**: a loop drift (here 500 ticks) beyond the decode-time
tolerance (10 ticks) makes the validator reject the first segment of the next loop in
`$Number$` addressing -/
example : located (repPass exCtx none (fetchAll
    ((List.range 2).map (numberExp 960 (templateTolerance false 240 24 1) 4))
    [exObs 4 2880, exObs 5 4340])) = [(1, SegErr.decodeTime)] := by decide

/-- each catalogue corruption on the concrete fragment: decode time +11 ticks (tolerance 10),
sequence number +1, trun offset +4, and the tolerance boundary itself (+10 is accepted) -/
example : validateSegment exCtx (timeExp 10 (5760, 960)) (exObs 7 5771) = [SegErr.decodeTime] := by decide
example : validateSegment exCtx (timeExp 10 (5760, 960)) (exObs 7 5770) = [] := by decide
example : validateSegment exCtx { (timeExp 10 (5760, 960)) with expSeq := some 7 } (exObs 8 5760)
    = [SegErr.seqNum] := by decide
example : validateSegment exCtx (timeExp 10 (5760, 960)) { (exObs 7 5760) with dataOffset := 124 }
    = [SegErr.trunFirst, SegErr.trunLast] := by decide

/-- **expectation `some 0`** (first segment of a static `$Time$` presentation, `…/time/0.m4v`):
decode time 480 instead of 0 is reported, decode time 0 is accepted, `none` compares nothing;
likewise an expected sequence number 0 -/
example : validateSegment exCtx (timeExp 10 (0, 960)) (exObs 1 480) = [SegErr.decodeTime] := by decide
example : validateSegment exCtx (timeExp 10 (0, 960)) (exObs 1 0) = [] := by decide
example : validateSegment exCtx { (timeExp 10 (0, 960)) with expDecode := none } (exObs 1 480) = [] := by decide
example : validateSegment exCtx { (timeExp 10 (0, 960)) with expSeq := some 0 } (exObs 1 0)
    = [SegErr.seqNum] := by decide
example : validateSegment exCtx { (timeExp 10 (0, 960)) with expSeq := some 0 } (exObs 0 0) = [] := by decide
/-- the first entry of a static timeline in a whole pass: position 0, expected at 0, served at 480 -/
example : located (repPass exCtx none (fetchAll
    ((sliceG [960, 960, 960, 960] 3840 0 2).map (timeExp 10)) [exObs 1 480, exObs 2 960]))
    = [(0, SegErr.decodeTime)] := by decide

/-- a fragment whose mdat has the 16-byte largesize header (moof 112 bytes, payload at 128): the
server's data_offset 128 is accepted, 120 ("8 too small", pointing into the header) is reported,
and the compact-header offset convention does not apply -/
def exObs16 (dataOffset : Int) : SegObs :=
  { (exObs 7 5760) with dataOffset := dataOffset, mdatHdr := 16, mdatSize := 56 }

example : validateSegment exCtx (timeExp 10 (5760, 960)) (exObs16 128) = [] := by decide
example : validateSegment exCtx (timeExp 10 (5760, 960)) (exObs16 120) = [SegErr.trunFirst] := by decide
example : Sound exCtx 0 (exObs16 128) :=
  { status := by decide, ctype := rfl, encVideo := by decide, encOther := by decide, iv := by decide,
    atoms := by decide, moof := rfl, mdat := rfl, emsg := rfl, trunFirst := by decide,
    trunLast := by decide, enc := by decide, moov := rfl, trex := by decide, pts := by decide, mediaTs := rfl,
    dashTs := by decide }

/-- an encrypted fragment whose saio offset is off by one -/
example : validateSegment { exCtx with optEncrypted := true, infoEncrypted := true, ivKnown := true }
    (timeExp 10 (5760, 960))
    { (exObs 7 5760) with senc := some (40, 16, 4), saio := some [57] } = [SegErr.saioOffset] := by decide

/-- an encrypted fragment with an in-band event in front of the moof (moof at 62, default-base-is-moof:
the implied base IS the moof position, media_segment.py:329-333): the server's saio offset 121 points at
the first senc entry (62 + 121 = 183) and is accepted; 183 – right only if the base were 0 – is reported,
and so is 121 when the same boxes sit in a segment whose moof is the first box -/
def exEncObs (moofPos : Nat) (saio : Nat) : SegObs :=
  { (exObs 7 5760) with baseDataOffset := moofPos, dataOffset := 120, mdatPos := moofPos + 112,
                        senc := some (moofPos + 105, 16, 4), saio := some [saio] }

def exEncCtx : RepCtx := { exCtx with optEncrypted := true, infoEncrypted := true, ivKnown := true }

example : validateSegment exEncCtx (timeExp 10 (5760, 960)) (exEncObs 62 121) = [] := by decide
example : validateSegment exEncCtx (timeExp 10 (5760, 960)) (exEncObs 62 183) = [SegErr.saioOffset] := by decide
example : validateSegment exEncCtx (timeExp 10 (5760, 960)) (exEncObs 0 121) = [] := by decide
example : validateSegment exEncCtx (timeExp 10 (5760, 960)) (exEncObs 0 183) = [SegErr.saioOffset] := by decide

/-- the saio rule for **every** base (moof position or explicit tfhd offset): with one offset entry, the
error is present iff `senc position + offset of its first entry ≠ saio offset + base` -/
theorem saio_offset_iff (o : SegObs) (p f n x : Nat) (hsenc : o.senc = some (p, f, n)) (hsaio : o.saio = some [x]) :
    SegErr.saioOffset ∈ checkSaio o ↔ ((p + f : Nat) : Int) ≠ (x : Int) + o.baseDataOffset := by
  unfold checkSaio
  simp only [hsenc, hsaio, List.length_singleton, if_true, List.headD_cons, List.nil_append]
  by_cases h : ((p + f : Nat) : Int) = (x : Int) + o.baseDataOffset
  · simp [h]
  · have h' : ¬ ((p : Int) + (f : Int) = (x : Int) + o.baseDataOffset) := by
      intro hc; apply h; push_cast; exact hc
    simp [h']

/-- a gap: the timeline of positions 5, 6, 7 with 6 removed -/
example : located (repPass exCtx none (fetchAll
    ([(4800, 960), (6720, 960)].map (timeExp 10)) [exObs 6 4800, exObs 8 6720])) = [(1, SegErr.seqNum)] := by
  decide

/-- 30 s buffer at 240 Hz: eight 960-tick entries cover it (7680 ≥ 7200), seven do not -/
example : timelineDepthErrs true none 30000000 240 (sliceG [960, 960, 960, 960] 3840 5 8) = [] := by decide
example : timelineDepthErrs true none 30000000 240 (sliceG [960, 960, 960, 960] 3840 5 7)
    = [RepErr.timelineShort] := by decide

/-- init segment as served, and with `mvex` (→ also `trex`) removed -/
def exInit (moov : List String) : InitObs :=
  { hasUrl := true, status := 200, video := true, top := ["ftyp", "free", "moov"], moov := moov }

example : initErrors (exInit ["mvhd", "mvex", "trex", "trak", "tkhd", "mdia", "mdhd", "hdlr", "minf",
    "vmhd", "dinf", "stbl", "stsd", "stts", "stsc", "stsz", "stco"]) = [] := by decide
example : initErrors (exInit ["mvhd", "trak", "tkhd", "mdia", "mdhd", "hdlr", "minf",
    "vmhd", "dinf", "stbl", "stsd", "stts", "stsc", "stsz", "stco"])
    = [InitErr.mandatory 1, InitErr.mandatory 2] := by decide

/-- a live manifest as served … -/
def exDoc : Doc :=
  { live := true, hasProfiles := true, hasMinBufferTime := true, typeDynamic := some true, hasAst := true,
    hasTsbd := true, hasMup := true, mpdDuration := none, nPatches := 0,
    periods := [{ hasId := true, hasDuration := false, adps := [
      { hasMimeType := true,
        template := some { hasMedia := true, hasInit := true, hasDuration := true, timeline := none },
        reps := [{ hasId := true, hasBandwidth := true, hasMimeType := true }] }] }] }

example : docErrors exDoc = [] := by decide
/-- … without `Period@id`, and without `SegmentTemplate@media` -/
example : docErrors { exDoc with periods := [{ hasId := false, hasDuration := false, adps := [
      { hasMimeType := true,
        template := some { hasMedia := true, hasInit := true, hasDuration := true, timeline := none },
        reps := [{ hasId := true, hasBandwidth := true, hasMimeType := true }] }] }] }
    = [(MLoc.period 0, MErr.periodId)] := by decide
example : docErrors { exDoc with periods := [{ hasId := true, hasDuration := false, adps := [
      { hasMimeType := true,
        template := some { hasMedia := false, hasInit := true, hasDuration := true, timeline := none },
        reps := [{ hasId := true, hasBandwidth := true, hasMimeType := true }] }] }] }
    = [(MLoc.representation 0 0 0, MErr.media)] := by decide

/-- refresh: availabilityStartTime one second later; and the `stale` boundary (`age < 3·mup`) -/
def exRefresh (ast publish : Int) : Refresh :=
  { idEqual := true, prevAst := some 0, ast := some ast, prevPublish := 0, publish := publish,
    mup := some 8000000 }

example : refreshErrors (exRefresh 1000000 8000000) = [RefreshErr.availabilityStartTime] := by decide
example : refreshErrors (exRefresh 0 24000000) = [RefreshErr.stale] := by decide
example : refreshErrors (exRefresh 0 23999999) = [] := by decide
/-- no MPD@minimumUpdatePeriod: AST two seconds later is reported, an old publishTime is not `stale` -/
example : refreshErrors { exRefresh 2000000 90000000 with mup := none }
    = [RefreshErr.availabilityStartTime] := by decide
example : refreshErrors { exRefresh 0 90000000 with mup := none, idEqual := false }
    = [RefreshErr.mpdId] := by decide

open DashLive.LiveTiming in
/-- non-vacuity of `validator_accepts_refresh_partial`: `start=year`, default update period of
8 s, second request 9.5 s after the first – inside every hypothesis (the instants are C08's `exNow`) -/
example : Accepted exNow { start := .year } ∧ Accepted (exNow + 9500000) { start := .year } ∧
    (calculateLiveParams exNow exRef { start := .year }).availabilityStartTime
      = (calculateLiveParams (exNow + 9500000) exRef { start := .year }).availabilityStartTime ∧
    (calculateLiveParams exNow exRef { start := .year }).minimumUpdatePeriod = some 8 ∧
    (exNow + 9500000) - exNow ≤ 2 * 8 * usPerSec :=
  ⟨⟨by decide, by intro t off h; cases h⟩, ⟨by decide, by intro t off h; cases h⟩,
   by decide +kernel, by decide +kernel, by decide⟩

/-! ## segment availability: what the server lists is examined

The server's SegmentTimeline starts with the segment that CONTAINS the left edge of the time
shift window (`generateSegmentTimeline`: the segment holding `firstAvailableTime = now − depth`):
a listed segment ends after `now − depth` (`hlisted`: the validator's `start` – the instant the
segment is complete – is later than `now − depth`; channel `vavail` counts how often the sessions
of the real server satisfy it, and in most sessions the stronger `hinside` below holds).  The validator's interval then ends more
than one segment duration after `now`, so with segments at least as long as the two-second
margin every listed segment is fetched at `now` … `now + (duration − margin)`. -/

theorem listed_segment_examined (now now' tsbd durUs : Int) (a : Avail)
    (hstop : a.stop = a.start + tsbd + durUs)
    (hlisted : now - tsbd < a.start) (hcomplete : a.start ≤ now)
    (h1 : now ≤ now') (h2 : now' + availMarginUs ≤ now + durUs) :
    availDecision now' (some a) = Fetch.fetch := by
  unfold availDecision
  have hA : ¬ a.start > now' := by omega
  have hB : ¬ a.stop < now' + availMarginUs := by omega
  simp [hA, hB]

/-- a segment that STARTS inside the window (every listed segment but the oldest): two segment
durations of slack, so one-second segments suffice -/
theorem listed_segment_examined_inside (now now' tsbd durUs : Int) (a : Avail)
    (hstop : a.stop = a.start + tsbd + durUs)
    (hinside : now - tsbd ≤ a.start - durUs) (hcomplete : a.start ≤ now)
    (h1 : now ≤ now') (h2 : now' + availMarginUs ≤ now + 2 * durUs) :
    availDecision now' (some a) = Fetch.fetch := by
  unfold availDecision
  have hA : ¬ a.start > now' := by omega
  have hB : ¬ a.stop < now' + availMarginUs := by omega
  simp [hA, hB]

/-- the interval of the model has the shape the two theorems ask for -/
theorem segmentAvailability_stop (past tsbd : Int) (ts : Nat) (pto sn sd : Int) (e : SegExp) :
    (segmentAvailability past tsbd ts pto sn sd e).stop
      = (segmentAvailability past tsbd ts pto sn sd e).start + tsbd + tcToUs sd ts := rfl

/-- a segment is never both left for later and given up: once complete it is `fetch` or `expired`,
and `expired` only when its interval ends within the margin -/
theorem availDecision_expired_iff (now : Int) (a : Avail) :
    availDecision now (some a) = Fetch.expired ↔ a.start ≤ now ∧ a.stop < now + availMarginUs := by
  unfold availDecision
  by_cases h1 : a.start > now
  · simp [h1]; omega
  · by_cases h2 : a.stop < now + availMarginUs
    · simp [h1, h2]; omega
    · simp [h1, h2]

/-- two-second segments, depth 8 s, timescale 240, `now` = 100.3 s after the Period began: the
segment that holds the left edge of the window (decode 92 s … 94 s) is fetched … -/
def exAvailExp (dt : Int) : SegExp := { expSeq := none, expDecode := some dt, expDur := some 480, tol := 30, pto := 0 }
example : segmentAvailability 0 8000000 240 0 1 480 (exAvailExp 22080) = { start := 94000000, stop := 104000000 } := by
  decide
example : availDecision 100300000 (some (segmentAvailability 0 8000000 240 0 1 480 (exAvailExp 22080)))
    = Fetch.fetch := by decide
/-- … whereas an interval WITHOUT the extra segment duration (stop = start + depth) would give it
up: the term is what makes the theorem true -/
example : availDecision 100300000 (some { start := 94000000, stop := 94000000 + 8000000 }) = Fetch.expired := by
  decide
/-- $Number$ addressing: the decode time is derived from the number; segment 47 of 2 s segments -/
example : segmentAvailability 0 8000000 240 0 1 480 { exAvailExp 0 with expSeq := some 47, expDecode := none }
    = { start := 94000000, stop := 104000000 } := by decide
/-- not yet complete -/
example : availDecision 93999999 (some { start := 94000000, stop := 104000000 }) = Fetch.notYet := by decide
/-- ONE-second segments lie outside `h2` of `listed_segment_examined` (duration < margin): the listed
segment that holds the window's edge is given up although the server lists and serves it –
ledger `short-segments-oldest-skipped` -/
example : availDecision 100300000 (some (segmentAvailability 0 8000000 240 0 1 240
    { exAvailExp 21840 with expDur := some 240 })) = Fetch.expired := by decide

end DashLive.Validator
