import DashLive.Lemmas.SegmentRewrite
/-!
# C03 – rewritten media segments keep their payload and point at it correctly

Property theorems only (helper lemmas: `Lemmas/SegmentRewrite.lean`; model:
`Model/SegmentRewrite.lean`).

Quantification: every stored segment layout `s : Seg` – any top-level boxes in
front of / behind one `moof mdat` pair (styp, sidx, emsg, free … in any order),
any children of the moof around the traf, **any order and any number of
verbatim children in the traf**, tfhd with or without explicit base and with
any optional fields, tfdt present (32/64 bit) or absent, trun with any flags,
sample table and data offset, saio of either version, senc with or without the
override header and any entry sizes – and every option vector `o : Opts`: any
new decode time (incl. the 32→64-bit growth), any list of inserted emsg sizes,
any number of PIFF clones, encrypted or not, `bugs=saio` or not.

Hypothesis where needed: `shapeOk s` – what `Representation.load` indexes: one
tfhd, one trun, at most one tfdt / saio / senc, no stored PIFF clone typed as
such, a senc has ≥ 1 entry and a saiz peer.  It is decidable (a `Bool`).
-/
namespace DashLive.SegmentRewrite

/-- **Sizes nest exactly.**  The top-level boxes tile the response body, the moof's
children tile the moof, the traf's children tile the traf (Σ children = parent at
every level, positions contiguous), the mdat follows the moof directly, and every
traf child has exactly the size its final field values imply – for every layout
and option vector, without any hypothesis. -/
theorem rewrite_wellformed (o : Opts) (s : Seg) :
    Chain 0 (rewrite o s).top (rewrite o s).total ∧
    (⟨"moof", (rewrite o s).moofPos, (rewrite o s).moofSize⟩ : Placed) ∈ (rewrite o s).top ∧
    (⟨"mdat", (rewrite o s).moofPos + (rewrite o s).moofSize, (rewrite o s).mdatSize⟩ : Placed)
      ∈ (rewrite o s).top ∧
    Chain ((rewrite o s).moofPos + 8) (rewrite o s).moofKids
      ((rewrite o s).moofPos + (rewrite o s).moofSize) ∧
    (⟨"traf", (rewrite o s).trafPos, (rewrite o s).trafSize⟩ : Placed) ∈ (rewrite o s).moofKids ∧
    Chain ((rewrite o s).trafPos + 8) (rewrite o s).trafKids
      ((rewrite o s).trafPos + (rewrite o s).trafSize) ∧
    (rewrite o s).trafKids = place ((rewrite o s).trafPos + 8) (tboxes (rewrite o s).traf) := by
  simp only [rewrite]
  generalize hpre : opqs (eraseSidx s.pre ++ List.map (fun n => ({ typ := "emsg", size := n } : Opq)) o.newEmsg) = pre
  generalize hpost : opqs (if anySidx s.pre = true then s.post else eraseSidx s.post) = post
  generalize ht : trafEdited o s.traf = t
  have hA := tellAfter_ge (tellAfter 0 pre + 8) (opqs s.moofPre)
  have hB := tellAfter_ge (tellAfter (tellAfter 0 pre + 8) (opqs s.moofPre) + 8) (tboxes t)
  have hC := tellAfter_ge (tellAfter (tellAfter (tellAfter 0 pre + 8) (opqs s.moofPre) + 8) (tboxes t))
    (opqs s.moofPost)
  generalize hP : tellAfter 0 pre = P at *
  generalize hT : tellAfter (P + 8) (opqs s.moofPre) = T at *
  generalize hE : tellAfter (T + 8) (tboxes t) = E at *
  generalize hM : tellAfter E (opqs s.moofPost) = M at *
  have hlate := tboxes_late (saioReset o s.traf = true)
    ((((if before isSenc isSaio t = true then T + 8 + offsetOf isSenc t
        else opqTotal s.pre + 8 + opqTotal s.moofPre + 8 + offsetOf isSenc s.traf +
          if (grew o s.traf && before isTfdt isSenc (trafTimed o s.traf)) = true then 4 else 0) + sencRel t : Nat) : Int) - (P : Int)).toNat
    (T + 8 + offsetOf isSenc t + sencRel t - P) P (P + (M - P) + s.mdatHdr) (hasSenc t) o.bugSaio t
  unfold late at hlate
  refine ⟨chain_place _ _, ?_, ?_, ?_, ?_, ?_, trivial⟩
  · have := mem_place 0 pre (("mdat", s.mdatHdr + s.payload.length) :: post) "moof" (M - P)
    rw [hP] at this
    simpa [List.append_assoc] using this
  · have := mem_place 0 (pre ++ [("moof", M - P)]) post "mdat" (s.mdatHdr + s.payload.length)
    rw [tellAfter_append, hP] at this
    simpa [tellAfter, List.append_assoc] using this
  · have := chain_place (P + 8) (opqs s.moofPre ++ [("traf", E - T)] ++ opqs s.moofPost)
    rw [tellAfter_append, tellAfter_append, hT] at this
    simp only [tellAfter] at this
    rw [show T + (E - T) = E by omega, hM] at this
    rw [show P + (M - P) = M by omega]
    exact this
  · have := mem_place (P + 8) (opqs s.moofPre) (opqs s.moofPost) "traf" (E - T)
    rw [hT] at this
    simpa [List.append_assoc] using this
  · rw [hlate]
    have := chain_place (T + 8) (tboxes t)
    rw [hE] at this
    rw [show T + (E - T) = E by omega]
    exact this

/-- **The mdat payload is the stored payload**, it starts right after the mdat
header, the mdat box keeps its size and directly follows the moof. -/
theorem rewrite_mdat_identical (o : Opts) (s : Seg) :
    (rewrite o s).payload = s.payload ∧
    (rewrite o s).payloadStart = (rewrite o s).mdatPos + s.mdatHdr ∧
    (rewrite o s).mdatSize = s.mdatHdr + s.payload.length ∧
    (rewrite o s).payloadStart + (rewrite o s).payload.length
      = (rewrite o s).mdatPos + (rewrite o s).mdatSize := by
  refine ⟨rfl, rfl, rfl, ?_⟩
  simp only [rewrite_payloadStart, rewrite_mdatPos, rewrite_mdatSize]
  show _ + s.payload.length = _
  omega

/-- **The trun addresses the payload.**  The base the served tfhd defines is the
position of the served moof, the trun carries a data_offset field, `base +
data_offset` is the first payload byte, and the sample table (hence Σ sample
sizes) is the stored one – whatever base / data_offset the stored segment had. -/
theorem rewrite_trun_points (o : Opts) (s : Seg) (h : shapeOk s = true) :
    (rewrite o s).base = (rewrite o s).moofPos ∧
    trunDop (rewrite o s).traf = true ∧
    ((rewrite o s).base : Int) + trunOffset (rewrite o s).traf = ((rewrite o s).payloadStart : Int) ∧
    trunSizes (rewrite o s).traf = trunSizes s.traf := by
  obtain ⟨p, hp⟩ := rewrite_traf_eq o s
  have htr : (eT o s).any isTrun = true := by
    unfold eT
    rw [any_trafEdited isTrun stable_isTrun]
    exact shape_trun s h
  refine ⟨rfl, ?_, ?_, ?_⟩
  · unfold trunDop
    rw [hp, firstSome_late' _ (by intros; rfl) (by intros; rfl)]
    exact trunDop_trafEdited o s.traf (shape_trun s h)
  · rw [hp, rewrite_base, rewrite_payloadStart, ← eMdatStart_eq]
    exact trunOffset_late _ _ _ _ _ _ _ _ htr
  · unfold trunSizes
    rw [hp, firstSome_late _ stable_trunSizes]
    unfold eT
    rw [firstSome_trafEdited _ stable_trunSizes]

/-- Σ sample sizes = payload length is preserved -/
theorem rewrite_sizes_sum (o : Opts) (s : Seg) (h : shapeOk s = true)
    (hin : (trunSizes s.traf).sum = s.payload.length) :
    (trunSizes (rewrite o s).traf).sum = (rewrite o s).payload.length := by
  rw [(rewrite_trun_points o s h).2.2.2]
  exact hin


/-- the first senc sample entry of the served segment: position of the senc box
in the traf + the offset of its first entry -/
def sencEntryPos (r : Out) : Nat := r.trafPos + 8 + offsetOf isSenc r.traf + sencRel r.traf

/-- **The saio addresses the first senc sample entry** unless `bugs=saio`: for an
encrypted segment (senc and saio present, the stored saio has the one entry a
single-run fragment has) the served saio has exactly one offset `w` with
`base + w` = position of the first senc sample entry, and that senc box is a
child of the served traf at the position used. -/
theorem rewrite_saio_points (o : Opts) (s : Seg)
    (hbug : o.bugSaio = false) (hsenc : hasSenc s.traf = true)
    (x0 : Nat) (hsaio : saioOffsets s.traf = some [x0]) :
    ∃ w, saioOffsets (rewrite o s).traf = some [w] ∧
      (rewrite o s).base + w = sencEntryPos (rewrite o s) ∧
      ∃ b, b ∈ (rewrite o s).trafKids ∧ b.typ = "senc" ∧
        b.pos + sencRel (rewrite o s).traf = sencEntryPos (rewrite o s) := by
  obtain ⟨p, hp⟩ := rewrite_traf_eq o s
  have hS : hasSenc (eT o s) = true := by
    unfold eT hasSenc
    rw [any_trafEdited isSenc stable_isSenc]
    exact hsenc
  have hsaioAny : s.traf.any isSaio = true := by
    rw [any_eq_firstSome]
    have : firstSome (gIs isSaio) s.traf = (saioOffsets s.traf).map (fun _ => ()) := by
      unfold saioOffsets
      generalize s.traf = t
      induction t with
      | nil => rfl
      | cons y r ih => cases y <;> simp [firstSome, gIs, isSaio, gSaioOffsets, ih]
    rw [this, hsaio]
    rfl
  -- pass 1 sees exactly one offset
  have h1 : ∃ x, saioOffsets (eT o s) = some [x] := by
    unfold eT trafEdited
    simp only
    split
    · refine ⟨0, saioOffsets_resetSaio _ ?_⟩
      rw [any_eq_firstSome, firstSome_forceDop _ (by intros; rfl)]
      split
      · rw [firstSome_insertPiffs _ stable_isSaio.piff, firstSome_trafTimed _ stable_isSaio.tfdt,
          ← any_eq_firstSome]
        exact hsaioAny
      · rw [firstSome_trafTimed _ stable_isSaio.tfdt, ← any_eq_firstSome]
        exact hsaioAny
    · exact ⟨x0, by rw [saioOffsets_edit14, hsaio]⟩
  obtain ⟨x, hx⟩ := h1
  have hoff : offsetOf isSenc (rewrite o s).traf = offsetOf isSenc (eT o s) := by
    rw [hp, offsetOf_late_senc]
  have hrel : sencRel (rewrite o s).traf = sencRel (eT o s) := by
    unfold sencRel
    rw [hp, firstSome_late _ stable_sencRel]
  have hle1 := eMoofPos_le_trafPos o s
  refine ⟨eWant o s, ?_, ?_, ?_⟩
  · rw [hp, saioOffsets_late _ _ _ _ _ x _ _ _ hx, hS, hbug]
    congr 1
    by_cases hc : saioReset o s.traf = true
    · by_cases he : p = eWant o s <;> simp [hc, he]
    · by_cases he : x = eWant o s <;> simp [hc, he]
  · unfold sencEntryPos
    rw [rewrite_base, rewrite_trafPos, hoff, hrel]
    unfold eWant
    omega
  · have hany : (rewrite o s).traf.any isSenc = true := by
      rw [hp, any_late isSenc stable_isSenc]
      exact hS
    obtain ⟨y, _, hy, hm⟩ := mem_place_offsetOf isSenc (eTrafPos o s + 8) (rewrite o s).traf hany
    refine ⟨⟨y.name, eTrafPos o s + 8 + offsetOf isSenc (rewrite o s).traf, y.size⟩, ?_, ?_, ?_⟩
    · rw [rewrite_trafKids]
      exact hm
    · cases y <;> simp [isSenc] at hy
      rfl
    · unfold sencEntryPos
      rw [rewrite_trafPos]

/-- **senc and trun list the same samples as stored**: the sample table of the
trun and the entry list of the senc are the stored ones (so equal counts are
preserved), and every PIFF clone in the served traf carries exactly the senc's
entries. -/
theorem rewrite_senc_trun_counts (o : Opts) (s : Seg) (h : shapeOk s = true) :
    trunSizes (rewrite o s).traf = trunSizes s.traf ∧
    sencEntries (rewrite o s).traf = sencEntries s.traf ∧
    (∀ ov e, TBox.piff ov e ∈ (rewrite o s).traf → sencEntries s.traf = some e) := by
  obtain ⟨p, hp⟩ := rewrite_traf_eq o s
  refine ⟨(rewrite_trun_points o s h).2.2.2, ?_, ?_⟩
  · unfold sencEntries
    rw [hp, firstSome_late _ stable_sencEntries]
    unfold eT
    rw [firstSome_trafEdited _ stable_sencEntries]
  · intro ov e hm
    have hfin : PiffsFrom (firstSenc s.traf) (rewrite o s).traf := by
      rw [hp]
      apply piffs_late
      exact piffs_trafEdited o s.traf (shape_nopiff s h)
    rw [sencEntries_firstSenc, hfin ov e hm]
    rfl


/-- **A stale saio offset can only come from `bugs=saio`** (contrapositive of
`rewrite_saio_points`). -/
theorem rewrite_saio_stale_only_with_bug (o : Opts) (s : Seg)
    (hsenc : hasSenc s.traf = true) (x0 : Nat) (hsaio : saioOffsets s.traf = some [x0])
    (hstale : ¬ ∃ w, saioOffsets (rewrite o s).traf = some [w] ∧
      (rewrite o s).base + w = sencEntryPos (rewrite o s)) :
    o.bugSaio = true := by
  cases hb : o.bugSaio with
  | true => rfl
  | false =>
    obtain ⟨w, h1, h2, _⟩ := rewrite_saio_points o s hb hsenc x0 hsaio
    exact absurd ⟨w, h1, h2⟩ hstale

/-- **`bugs=saio` is the only permitted deviation and it deviates in nothing
else**: with and without the option the served segment has the same boxes at the
same positions with the same sizes at every level, the same base, payload and
length, and the same traf children up to the offsets stored in the saio. -/
theorem rewrite_bug_changes_only_saio (o : Opts) (s : Seg) :
    let r1 := rewrite { o with bugSaio := true } s
    let r0 := rewrite { o with bugSaio := false } s
    r1.top = r0.top ∧ r1.moofPos = r0.moofPos ∧ r1.moofSize = r0.moofSize ∧
    r1.moofKids = r0.moofKids ∧ r1.trafPos = r0.trafPos ∧ r1.trafSize = r0.trafSize ∧
    r1.trafKids = r0.trafKids ∧ r1.base = r0.base ∧ r1.mdatPos = r0.mdatPos ∧
    r1.mdatSize = r0.mdatSize ∧ r1.payloadStart = r0.payloadStart ∧ r1.payload = r0.payload ∧
    r1.total = r0.total ∧ r1.traf.map eraseSaio = r0.traf.map eraseSaio := by
  intro r1 r0
  obtain ⟨p1, hp1⟩ := rewrite_traf_eq { o with bugSaio := true } s
  obtain ⟨p0, hp0⟩ := rewrite_traf_eq { o with bugSaio := false } s
  refine ⟨rfl, rfl, rfl, rfl, rfl, rfl, ?_, rfl, rfl, rfl, rfl, rfl, rfl, ?_⟩
  · show (rewrite _ s).trafKids = (rewrite _ s).trafKids
    rw [rewrite_trafKids, rewrite_trafKids, hp1, hp0, tboxes_late, tboxes_late]
    rfl
  · show (rewrite _ s).traf.map eraseSaio = (rewrite _ s).traf.map eraseSaio
    rw [hp1, hp0, late_erase, late_erase]
    rfl

/-- **Pass 2 rewrites in place.**  Every byte range `post_encode` overwrites after
the sizes have been back-patched lies inside the fields of the box it belongs to:
the trun patch covers sample_count, data_offset (and first_sample_flags) right
behind the 12-byte full-box header of the served trun, the saio patch is the
served saio box exactly.  No neighbouring box and no size field is touched. -/
theorem rewrite_patches_in_place (o : Opts) (s : Seg) (h : shapeOk s = true) (p : Nat × Nat)
    (hp : p ∈ (rewrite o s).patches) :
    ∃ b, b ∈ (rewrite o s).trafKids ∧
      ((b.typ = "trun" ∧ p.1 = b.pos + 12 ∧ p.1 + p.2 ≤ b.pos + b.size) ∨
       (b.typ = "saio" ∧ p.1 = b.pos ∧ p.2 = b.size)) := by
  obtain ⟨p1, ht⟩ := rewrite_traf_eq o s
  have hk : (rewrite o s).trafKids = place (eTrafPos o s + 8) (tboxes (eT o s)) := by
    rw [rewrite_trafKids, ht, tboxes_late]
  rw [hk]
  have htr : (eT o s).any isTrun = true := by
    unfold eT
    rw [any_trafEdited isTrun stable_isTrun]
    exact shape_trun s h
  cases rewrite_patches_cases o s p hp with
  | inl hc =>
    obtain ⟨b, hb, hty, hpos, hsz⟩ := trun_box_bound (eTrafPos o s + 8) (eT o s) htr
      (trunDop_trafEdited o s.traf (shape_trun s h))
    refine ⟨b, hb, Or.inl ⟨hty, ?_, ?_⟩⟩ <;> rw [hc] <;> simp only <;> omega
  | inr hc =>
    obtain ⟨hc, hany⟩ := hc
    refine ⟨_, saio_box_exact (eTrafPos o s + 8) (eT o s) hany, Or.inr ⟨rfl, ?_, ?_⟩⟩ <;> rw [hc]


/-! ### non-vacuity: a concrete non-trivial instance satisfies every hypothesis, and
the conclusions fail at concrete points outside them -/

example : shapeOk exSeg = true := by decide
example : hasSenc exSeg.traf = true ∧ saioOffsets exSeg.traf = some [999] := by decide
example : (rewrite (exOpts false) exSeg).top.map (·.typ) = ["styp", "emsg", "moof", "mdat", "styp"] ∧
    (rewrite (exOpts false) exSeg).trafKids.map (·.typ) =
      ["tfhd", "tfdt", "uuid", "saiz", "saio", "senc", "trun"] := by decide
example : saioOffsets (rewrite (exOpts false) exSeg).traf = some [213] ∧
    (rewrite (exOpts false) exSeg).base + 213 = sencEntryPos (rewrite (exOpts false) exSeg) ∧
    trunOffset (rewrite (exOpts false) exSeg).traf = 317 ∧
    (rewrite (exOpts false) exSeg).patches = [(347, 12), (251, 20)] := by decide
/-- with `bugs=saio` the served saio really is stale (the deviation the property permits) -/
example : ¬ ∃ w, saioOffsets (rewrite (exOpts true) exSeg).traf = some [w] ∧
    (rewrite (exOpts true) exSeg).base + w = sencEntryPos (rewrite (exOpts true) exSeg) := by
  intro ⟨w, h1, h2⟩
  have : saioOffsets (rewrite (exOpts true) exSeg).traf = some [111] := by decide
  rw [this] at h1
  injection h1 with h1
  injection h1 with h1
  subst h1
  revert h2
  decide
/-- outside `shapeOk` (no trun) the trun conclusions fail -/
example : shapeOk exNoTrun = false ∧ trunDop (rewrite (exOpts false) exNoTrun).traf = false := by decide

end DashLive.SegmentRewrite
