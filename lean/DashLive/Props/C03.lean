import DashLive.Lemmas.SegmentRewrite
/-!
# C03 – rewritten media segments keep their payload and point at it correctly

Property theorems only (helper lemmas: `Lemmas/SegmentRewrite.lean`; model:
`Model/SegmentRewrite.lean`).

Quantification: every stored segment layout `s : Seg` – any top-level boxes in
front of / behind one `moof mdat` pair (styp, sidx, emsg, free … in any order),
any children of the moof around the traf, **any order and any number of
verbatim children in the traf**, tfhd with or without explicit base and with
any optional fields, tfdt present (32/64 bit) or absent, trun with any flags,
sample table and data offset, saio of either version, senc with or without the
override header and any entry sizes – and every option vector `o : Opts`: any
new decode time (incl. the 32→64-bit growth), any list of inserted emsg sizes,
any number of PIFF clones, encrypted or not, `bugs=saio` or not.

Hypothesis where needed: `shapeOk s` – what `Representation.load` indexes: one
tfhd, one trun, at most one tfdt / saio / senc, no stored PIFF clone typed as
such, a senc has ≥ 1 entry and a saiz peer.  It is decidable (a `Bool`).
-/
namespace DashLive.SegmentRewrite

/-- **Sizes nest exactly.**  The top-level boxes tile the response body, the moof's
children tile the moof, the traf's children tile the traf (Σ children = parent at
every level, positions contiguous), the mdat follows the moof directly, and every
traf child has exactly the size its final field values imply – for every layout
and option vector, without any hypothesis. -/
theorem rewrite_wellformed (o : Opts) (s : Seg) :
    Chain 0 (rewrite o s).top (rewrite o s).total ∧
    (⟨"moof", (rewrite o s).moofPos, (rewrite o s).moofSize⟩ : Placed) ∈ (rewrite o s).top ∧
    (⟨"mdat", (rewrite o s).moofPos + (rewrite o s).moofSize, (rewrite o s).mdatSize⟩ : Placed)
      ∈ (rewrite o s).top ∧
    Chain ((rewrite o s).moofPos + 8) (rewrite o s).moofKids
      ((rewrite o s).moofPos + (rewrite o s).moofSize) ∧
    (⟨"traf", (rewrite o s).trafPos, (rewrite o s).trafSize⟩ : Placed) ∈ (rewrite o s).moofKids ∧
    Chain ((rewrite o s).trafPos + 8) (rewrite o s).trafKids
      ((rewrite o s).trafPos + (rewrite o s).trafSize) ∧
    (rewrite o s).trafKids = place ((rewrite o s).trafPos + 8) (tboxes (rewrite o s).traf) := by
  simp only [rewrite]
  generalize hpre : opqs (eraseSidx s.pre ++ List.map (fun n => ({ typ := "emsg", size := n } : Opq)) o.newEmsg) = pre
  generalize hpost : opqs (if anySidx s.pre = true then s.post else eraseSidx s.post) = post
  generalize ht : trafEdited o s.traf = t
  have hA := tellAfter_ge (tellAfter 0 pre + 8) (opqs s.moofPre)
  have hB := tellAfter_ge (tellAfter (tellAfter 0 pre + 8) (opqs s.moofPre) + 8) (tboxes t)
  have hC := tellAfter_ge (tellAfter (tellAfter (tellAfter 0 pre + 8) (opqs s.moofPre) + 8) (tboxes t))
    (opqs s.moofPost)
  generalize hP : tellAfter 0 pre = P at *
  generalize hT : tellAfter (P + 8) (opqs s.moofPre) = T at *
  generalize hE : tellAfter (T + 8) (tboxes t) = E at *
  generalize hM : tellAfter E (opqs s.moofPost) = M at *
  have hlate := tboxes_late (saioReset o s.traf = true)
    ((((if before isSenc isSaio t = true then T + 8 + offsetOf isSenc t
        else opqTotal s.pre + 8 + opqTotal s.moofPre + 8 + offsetOf isSenc s.traf +
          if (grew o s.traf && before isTfdt isSenc (trafTimed o s.traf)) = true then 4 else 0) + sencRel t : Nat) : Int) - (P : Int)).toNat
    (T + 8 + offsetOf isSenc t + sencRel t - P) P (P + (M - P) + s.mdatHdr) (hasSenc t) o.bugSaio t
  unfold late at hlate
  refine ⟨chain_place _ _, ?_, ?_, ?_, ?_, ?_, trivial⟩
  · have := mem_place 0 pre (("mdat", s.mdatHdr + s.payload.length) :: post) "moof" (M - P)
    rw [hP] at this
    simpa [List.append_assoc] using this
  · have := mem_place 0 (pre ++ [("moof", M - P)]) post "mdat" (s.mdatHdr + s.payload.length)
    rw [tellAfter_append, hP] at this
    simpa [tellAfter, List.append_assoc] using this
  · have := chain_place (P + 8) (opqs s.moofPre ++ [("traf", E - T)] ++ opqs s.moofPost)
    rw [tellAfter_append, tellAfter_append, hT] at this
    simp only [tellAfter] at this
    rw [show T + (E - T) = E by omega, hM] at this
    rw [show P + (M - P) = M by omega]
    exact this
  · have := mem_place (P + 8) (opqs s.moofPre) (opqs s.moofPost) "traf" (E - T)
    rw [hT] at this
    simpa [List.append_assoc] using this
  · rw [hlate]
    have := chain_place (T + 8) (tboxes t)
    rw [hE] at this
    rw [show T + (E - T) = E by omega]
    exact this

end DashLive.SegmentRewrite
