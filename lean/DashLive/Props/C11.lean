import DashLive.Lemmas.PlayReady
import DashLive.Lemmas.ClearKey
/-!
# C11 – DRM key and licence data is cryptographically and structurally correct

Property theorems only (helper lemmas live in `Lemmas/PlayReady.lean` and
`Lemmas/ClearKey.lean`).

Quantification: every 16-byte key id and key, every key seed of at least 30
bytes, **every hash function `H` and block cipher `Enc`** (they are parameters –
nothing is claimed about SHA-256 / AES themselves, the driver's instances are
validated against hashlib / pycryptodome on every run), every WRMHEADER payload
shorter than 2¹⁶ bytes, every key-id list, every byte string for base64url, every
key store and every ClearKey request (any mix of known / unknown / duplicate /
malformed ids).

The specifications (`bytesLeIdx`, `keySeedSpec`, `requested`) are written here,
independently of the model functions they are compared with.
-/
namespace DashLive.C11
open DashLive.PlayReady DashLive.ClearKey

/-! ### GUID byte order -/

/-- RFC 4122 §4.1.2 / Python `uuid.UUID.bytes_le`: `time_low` (bytes 0-3),
`time_mid` (4-5) and `time_hi_and_version` (6-7) little endian, the remaining 8
bytes in order.  Position `i` of `bytes_le` holds byte `bytesLeIdx i` of the
big-endian (`bytes`) form. -/
def bytesLeIdx (i : Nat) : Nat :=
  if i < 4 then 3 - i else if i < 6 then 9 - i else if i < 8 then 13 - i else i

def bytesLe (g : PlayReady.Bytes) : PlayReady.Bytes :=
  (List.range 16).map fun i => g.getD (bytesLeIdx i) 0

/-- **`hex_to_le_guid` is exactly the `bytes_le` permutation** of a 16-byte id. -/
theorem leGuid_is_bytes_le (g : PlayReady.Bytes) (h : g.length = 16) :
    hexToLeGuid g = some (bytesLe g) ∧
    ∀ i, i < 16 → (leGuidBytes g)[i]? = g[bytesLeIdx i]? := by
  obtain ⟨a0, a1, a2, a3, a4, a5, a6, a7, a8, a9, a10, a11, a12, a13, a14, a15, rfl⟩ := len16 g h
  refine ⟨by simp [hexToLeGuid, leGuidBytes_explicit]; rfl, ?_⟩
  intro i hi
  rw [leGuidBytes_explicit]
  have : i = 0 ∨ i = 1 ∨ i = 2 ∨ i = 3 ∨ i = 4 ∨ i = 5 ∨ i = 6 ∨ i = 7 ∨ i = 8 ∨ i = 9 ∨ i = 10
      ∨ i = 11 ∨ i = 12 ∨ i = 13 ∨ i = 14 ∨ i = 15 := by omega
  rcases this with rfl | rfl | rfl | rfl | rfl | rfl | rfl | rfl | rfl | rfl | rfl | rfl | rfl | rfl
    | rfl | rfl <;> rfl

/-- the conversion is its own inverse (little-endian → big-endian is the same swap) -/
theorem leGuid_involutive (g : PlayReady.Bytes) (h : g.length = 16) :
    (hexToLeGuid g).bind hexToLeGuid = some g := by
  obtain ⟨a0, a1, a2, a3, a4, a5, a6, a7, a8, a9, a10, a11, a12, a13, a14, a15, rfl⟩ := len16 g h
  simp [hexToLeGuid, leGuidBytes_explicit]

/-- anything that is not 16 bytes is rejected (`ValueError`) -/
theorem leGuid_rejects (g : PlayReady.Bytes) (h : g.length ≠ 16) : hexToLeGuid g = none := by
  simp [hexToLeGuid, h]

/-! ### key-seed derivation -/

/-- Microsoft's published key-seed algorithm
(https://docs.microsoft.com/en-us/playready/specifications/playready-key-seed) as a
closed form: with `s` = the first 30 bytes of the seed, `k` = the key id in
`bytes_le` order, `A = H(s‖k)`, `B = H(s‖k‖s)`, `C = H(s‖k‖s‖k)`:
`key[i] = A[i] ⊕ A[i+16] ⊕ B[i] ⊕ B[i+16] ⊕ C[i] ⊕ C[i+16]`, `i = 0..15`. -/
def keySeedSpec (H : PlayReady.Bytes → PlayReady.Bytes) (seed kid : PlayReady.Bytes) :
    PlayReady.Bytes :=
  let s := seed.take 30
  let k := bytesLe kid
  let A := H (s ++ k)
  let B := H (s ++ k ++ s)
  let C := H (s ++ k ++ s ++ k)
  (List.range 16).map fun i =>
    A.getD i 0 ^^^ A.getD (i + 16) 0 ^^^ B.getD i 0 ^^^ B.getD (i + 16) 0
      ^^^ C.getD i 0 ^^^ C.getD (i + 16) 0

/-- **`generate_content_key` computes the published algorithm** – for every hash `H`,
every seed of at least 30 bytes and every 16-byte key id; the key has 16 bytes. -/
theorem contentKey_spec (H : PlayReady.Bytes → PlayReady.Bytes) (seed kid : PlayReady.Bytes)
    (hs : 30 ≤ seed.length) (hk : kid.length = 16) :
    contentKey H seed kid = some (keySeedSpec H seed kid) ∧
    (keySeedSpec H seed kid).length = 16 := by
  have hg := (leGuid_is_bytes_le kid hk).1
  have hs' : ¬ seed.length < 30 := by omega
  refine ⟨?_, by simp [keySeedSpec]⟩
  simp only [contentKey, hk, ne_eq, not_true_eq_false, if_false, hg, hs']
  refine congrArg some ?_
  unfold foldKey keySeedSpec
  have := foldl_set_range
    (fun i => (H (seed.take 30 ++ bytesLe kid)).getD i 0
      ^^^ (H (seed.take 30 ++ bytesLe kid)).getD (i + keySize) 0
      ^^^ (H (seed.take 30 ++ bytesLe kid ++ seed.take 30)).getD i 0
      ^^^ (H (seed.take 30 ++ bytesLe kid ++ seed.take 30)).getD (i + keySize) 0
      ^^^ (H (seed.take 30 ++ bytesLe kid ++ seed.take 30 ++ bytesLe kid)).getD i 0
      ^^^ (H (seed.take 30 ++ bytesLe kid ++ seed.take 30 ++ bytesLe kid)).getD (i + keySize) 0)
    keySize (List.replicate keySize 0) (by simp) keySize (Nat.le_refl _)
  rw [this]
  simp [keySize]

/-- byte `i` of the derived key, spelled out: the XOR of bytes `i` and `i+16` of each of the
three digests (for a 32-byte hash: `fold(A) ⊕ fold(B) ⊕ fold(C)`, `fold(D) = D[0:16] ⊕ D[16:32]`) -/
theorem keySeedSpec_pointwise (H : PlayReady.Bytes → PlayReady.Bytes) (seed kid : PlayReady.Bytes)
    (i : Nat) (hi : i < 16) :
    (keySeedSpec H seed kid)[i]? = some (
      let s := seed.take 30
      let k := bytesLe kid
      (H (s ++ k)).getD i 0 ^^^ (H (s ++ k)).getD (i + 16) 0
        ^^^ (H (s ++ k ++ s)).getD i 0 ^^^ (H (s ++ k ++ s)).getD (i + 16) 0
        ^^^ (H (s ++ k ++ s ++ k)).getD i 0 ^^^ (H (s ++ k ++ s ++ k)).getD (i + 16) 0) := by
  simp [keySeedSpec, hi]

/-- the two `ValueError`s: key id not 16 bytes, seed shorter than 30 bytes -/
theorem contentKey_rejects (H : PlayReady.Bytes → PlayReady.Bytes) (seed kid : PlayReady.Bytes)
    (h : kid.length ≠ 16 ∨ seed.length < 30) : contentKey H seed kid = none := by
  unfold contentKey
  by_cases hk : kid.length = 16
  · have hs : seed.length < 30 := by rcases h with h | h; exact absurd hk h; exact h
    have hg := (leGuid_is_bytes_le kid hk).1
    simp [hk, hg, hs]
  · simp [hk]

/-- only the first 30 bytes of the seed matter -/
theorem contentKey_seed_truncated (H : PlayReady.Bytes → PlayReady.Bytes)
    (seed extra kid : PlayReady.Bytes) (hs : seed.length = 30) (hk : kid.length = 16) :
    contentKey H (seed ++ extra) kid = contentKey H seed kid := by
  rw [(contentKey_spec H (seed ++ extra) kid (by simp; omega) hk).1,
    (contentKey_spec H seed kid (by omega) hk).1]
  simp [keySeedSpec, List.take_append_of_le_length (Nat.le_of_eq hs.symm),
    List.take_of_length_le (Nat.le_of_eq hs)]

/-! ### checksum -/

/-- **the checksum is the first 8 bytes of `Enc key (bytes_le kid)`**, for every block
cipher `Enc`; it has 8 bytes whenever the cipher returns at least 8 (AES: 16). -/
theorem checksum_spec (Enc : PlayReady.Bytes → PlayReady.Bytes → PlayReady.Bytes)
    (key kid : PlayReady.Bytes) (hk : kid.length = 16) :
    checksum Enc key kid = some ((Enc key (bytesLe kid)).take 8) ∧
    (8 ≤ (Enc key (bytesLe kid)).length → ((Enc key (bytesLe kid)).take 8).length = 8) := by
  refine ⟨by simp [checksum, (leGuid_is_bytes_le kid hk).1], ?_⟩
  intro h; simp; omega

/-! ### PlayReady Object framing -/

/-- **PRO round trip**: for every payload shorter than 2¹⁶ bytes `generate_pro` succeeds,
`parse_pro` reads back exactly one record of type 1 with that payload, and the
object's length field equals its total length. -/
theorem pro_roundtrip (wrm : PlayReady.Bytes) (h : wrm.length < 65536) :
    ∃ pro, generatePro wrm = some pro ∧
      parsePro pro = some [⟨1, wrm.length, some wrm⟩] ∧
      le32val pro = pro.length ∧ pro.length = wrm.length + 10 :=
  ⟨proBytes wrm, generatePro_eq wrm h, parsePro_proBytes wrm h, proBytes_length_field wrm h,
    proBytes_length wrm⟩

/-- a payload of 2¹⁶ bytes or more cannot be framed (`struct.error` in the code) -/
theorem pro_too_long (wrm : PlayReady.Bytes) (h : 65536 ≤ wrm.length) : generatePro wrm = none := by
  simp [generatePro, h]

/-- Unicode scalar values (what a Python `str` of XML text holds) -/
def Scalar (c : Nat) : Prop := c < 0x110000 ∧ ¬ (0xD800 ≤ c ∧ c < 0xE000)

/-- **the WRMHEADER payload is the UTF-16LE coding of the XML text without a byte order
mark**, and decodes back to the same text. -/
theorem wrm_utf16le_no_bom (xml : List Nat) (hx : ∀ c ∈ xml, Scalar c) :
    wrmBytes xml = utf16le xml ∧ decodeUtf16le (wrmBytes xml) = some xml := by
  rw [wrmBytes_eq]
  exact ⟨rfl, decode_utf16le xml hx⟩

/-- **the PlayReady pssh carries the PRO unchanged** and names the PlayReady system id;
version 0 without key ids for fewer than two keys, version 1 listing every key id
otherwise (`generate_pssh`). -/
theorem playreadyPssh_carries_pro (kids : List PlayReady.Bytes) (pro : PlayReady.Bytes)
    (hk : ∀ k ∈ kids, k.length = 16)
    (hsz : (playreadyPssh kids pro).length < 4294967296) :
    decodePssh (playreadyPssh kids pro)
      = some ⟨playreadyPsshVersion kids, playreadySystemId,
              if kids.length < 2 then [] else kids, pro⟩ := by
  unfold playreadyPssh playreadyPsshVersion at *
  by_cases h2 : kids.length < 2
  · simp only [h2, if_true] at hsz ⊢
    exact decodePssh_encodePssh 0 _ [] pro (by omega) (fun _ => rfl) rfl (by simp) hsz
  · simp only [h2, if_false] at hsz ⊢
    exact decodePssh_encodePssh 1 _ kids pro (by omega) (by omega) rfl hk hsz

/-! ### base64url helpers of the ClearKey handler -/

/-- **`base64url_decode (base64url_encode b) = b`** for every byte string, and the
encoding contains no `+`, `/` or `=` (url-safe, unpadded). -/
theorem b64url_roundtrip (b : ClearKey.Bytes) :
    b64urlDecode (b64urlEncode b) = .ok b ∧
    ∀ c ∈ b64urlEncode b, c ≠ 43 ∧ c ≠ 47 ∧ c ≠ 61 := by
  refine ⟨b64urlDecode_b64urlEncode b, ?_⟩
  intro c hc
  rw [b64urlEncode_eq] at hc
  obtain ⟨x, hx, rfl⟩ := List.mem_map.mp hc
  have := rEnc_std (encBody_std b x hx)
  exact ⟨this.2.2.1, this.2.2.2, this.2.1⟩

/-- a 16-byte value encodes to 22 characters -/
theorem b64url_kid_length (b : ClearKey.Bytes) (h : b.length = 16) :
    (b64urlEncode b).length = 22 := by
  rw [b64urlEncode_eq, List.length_map, encBody_length, h]
  rfl

/-! ### the licence handler -/

/-- the key ids a request asks for: what each string id decodes to -/
def requested (ids : List JId) : List ClearKey.Bytes :=
  ids.filterMap fun
    | .str s => match b64urlDecode s with
      | .ok b => some b
      | _ => none
    | .other => none

theorem decodeAll_ok (ids : List JId) (raw : List ClearKey.Bytes)
    (h : decodeAll ids = .ok raw) : raw = requested ids := by
  induction ids generalizing raw with
  | nil => simp [decodeAll] at h; simp [requested, h]
  | cons id rest ih =>
    cases id with
    | other => simp [decodeAll] at h
    | str s =>
      simp only [decodeAll] at h
      cases hd : b64urlDecode s with
      | outside => simp [hd] at h
      | error => simp [hd] at h
      | ok b =>
        simp only [hd] at h
        cases hr : decodeAll rest with
        | error e => simp [hr] at h
        | ok bs =>
          simp only [hr] at h
          injection h with h
          subst h
          simp [requested, hd, ih bs hr]

/-- **ClearKey licence = exactly the stored keys of the requested known ids.**
For every store and every request whose ids all decode: the response lists
`(base64url kid, base64url key)` of precisely the stored rows whose kid was requested
– nothing for unknown ids, one entry per stored row however often its id is repeated
in the request – and with a unique `hkid` column no kid appears twice. -/
theorem clearkey_exact (store : List Stored) (ids : List JId) (raw : List ClearKey.Bytes)
    (hdec : decodeAll ids = .ok raw) :
    ∃ items, licence store (some ids) true = .keys items ∧
      (∀ ek ev, (ek, ev) ∈ items ↔
        ∃ s ∈ store, s.kid ∈ requested ids ∧ ek = b64urlEncode s.kid ∧ ev = b64urlEncode s.key) ∧
      items.length = (store.filter fun s => (requested ids).contains s.kid).length ∧
      (store.Pairwise (fun a b => a.kid ≠ b.kid) → items.Pairwise (fun a b => a.1 ≠ b.1)) := by
  have hraw := decodeAll_ok ids raw hdec
  subst hraw
  refine ⟨(getKids store (requested ids)).map fun k => (b64urlEncode k.kid, b64urlEncode k.key),
    by simp [licence, hdec], ?_, by simp [getKids], ?_⟩
  · intro ek ev
    simp only [getKids, List.mem_map, List.mem_filter, List.contains_iff_mem, Prod.mk.injEq]
    constructor
    · rintro ⟨s, ⟨hs, hk⟩, rfl, rfl⟩; exact ⟨s, hs, hk, rfl, rfl⟩
    · rintro ⟨s, hs, hk, rfl, rfl⟩; exact ⟨s, ⟨hs, hk⟩, rfl, rfl⟩
  · intro hp
    rw [List.pairwise_map]
    apply List.Pairwise.imp _ (List.Pairwise.filter _ hp)
    intro a b hab heq
    exact hab (b64urlEncode_injective heq)

/-- a request whose ids are the canonical encodings of `kids` (in any order, with any
repetition) is answered with the stored rows of those kids -/
theorem clearkey_exact_encoded (store : List Stored) (kids : List ClearKey.Bytes) :
    licence store (some (kids.map fun k => .str (b64urlEncode k))) true
      = .keys ((store.filter fun s => kids.contains s.kid).map
          fun s => (b64urlEncode s.kid, b64urlEncode s.key)) := by
  have : decodeAll (kids.map fun k => JId.str (b64urlEncode k)) = .ok kids := by
    induction kids with
    | nil => rfl
    | cons k ks ih => simp [decodeAll, b64urlDecode_b64urlEncode, ih]
  simp [licence, this, getKids]

/-- unknown ids get nothing: if no stored kid is among the requested ids the key list is empty -/
theorem clearkey_unknown_nothing (store : List Stored) (ids : List JId) (raw : List ClearKey.Bytes)
    (hdec : decodeAll ids = .ok raw) (hu : ∀ s ∈ store, s.kid ∉ requested ids) :
    licence store (some ids) true = .keys [] := by
  have hraw := decodeAll_ok ids raw hdec
  subst hraw
  simp only [licence, hdec, getKids, if_true]
  congr 1
  rw [List.map_eq_nil_iff, List.filter_eq_nil_iff]
  intro s hs
  simpa using hu s hs

/-- a request containing a malformed id (a non-string, or a string the decoder rejects)
is refused as a whole with the controlled error object: no key is returned -/
theorem clearkey_malformed_no_keys (store : List Stored) (ids : List JId) (t : Bool)
    (h : decodeAll ids = .error .error) : licence store (some ids) t = .error := by
  simp [licence, h]

theorem decodeAll_other (pre : List ClearKey.Bytes) (post : List JId) :
    decodeAll (pre.map (fun k => .str (b64urlEncode k)) ++ .other :: post) = .error .error := by
  induction pre with
  | nil => rfl
  | cons k ks ih => simp [decodeAll, b64urlDecode_b64urlEncode, ih]

/-! ### non-vacuity: concrete instances -/

/-- the fixture key id 1ab45440-532c-4399-94dc-5c5ad9584bac in `bytes_le` order -/
example : hexToLeGuid [0x1a, 0xb4, 0x54, 0x40, 0x53, 0x2c, 0x43, 0x99, 0x94, 0xdc, 0x5c, 0x5a, 0xd9,
      0x58, 0x4b, 0xac]
    = some [0x40, 0x54, 0xb4, 0x1a, 0x2c, 0x53, 0x99, 0x43, 0x94, 0xdc, 0x5c, 0x5a, 0xd9, 0x58,
      0x4b, 0xac] := by decide

example : parsePro ((generatePro [60, 0, 87, 0]).getD [])
    = some [⟨1, 4, some [60, 0, 87, 0]⟩] := by decide

/-- the fixture kid/key: `GrRUQFMsQ5mU3Fxa2VhLrA` -/
example : b64urlEncode [0x1a, 0xb4, 0x54, 0x40, 0x53, 0x2c, 0x43, 0x99, 0x94, 0xdc, 0x5c, 0x5a,
      0xd9, 0x58, 0x4b, 0xac] = "GrRUQFMsQ5mU3Fxa2VhLrA".toList.map Char.toNat := by decide

/-- known + unknown + duplicate + 15-byte id: only the known row, once -/
example :
    licence [⟨[1, 2, 3], [9, 9]⟩, ⟨[4, 5, 6], [8]⟩]
      (some [.str (b64urlEncode [1, 2, 3]), .str (b64urlEncode [7, 7, 7]),
             .str (b64urlEncode [1, 2, 3]), .str (b64urlEncode [1, 2])]) true
    = .keys [(b64urlEncode [1, 2, 3], b64urlEncode [9, 9])] := by decide

/-- a malformed id (one dangling character) refuses the whole request -/
example : licence [⟨[1, 2, 3], [9, 9]⟩] (some [.str (b64urlEncode [1, 2, 3]), .str [65]]) true
    = .error := by decide

end DashLive.C11
