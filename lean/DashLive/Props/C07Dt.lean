import DashLive.Props.C19
import DashLive.Props.C07
/-!
# C07 × C19 – the date-time text hypothesis of C07 discharged by the C19 model

`Model/Options.lean` leaves the date-time text codec as a parameter (`DTCodec`)
and `Props/C07.lean` states its codec theorems under `DtCodecLaws C`.  Here the
parameter is instantiated with the C19 model of `to_iso_datetime` /
`from_isodatetime` (`DashLive.IsoText`), which is what the option layer really
calls (`manifest_options.py:46-61` `ast_from_string` / `ast_to_string`,
`dash_option.py` `datetime_or_none_*`), and the laws are proved from
`datetime_roundtrip` plus lexical facts about the rendered text.

**Carrier.**  `DtTextRoundTrip` (`parse (render d) = some d`) is *false* for naive
date-times, in the model and in the code: `to_iso_datetime` writes a naive value
with `Z`, `from_isodatetime` reads that back as an aware UTC value, and Python's
`naive == aware` is `False`.  The laws therefore hold on `AwareDT` = the records
the `datetime` constructor accepts (`valid`) with a whole-minute offset
`isoformat()` accepts (`offsetOk`) that are **aware**.  For the full set of
valid records (naive included) the strongest true statement is
`c19_text_roundtrip_partial`: the text is read back as the same fields with
offset 0, and that value renders to the same text again (a fixed point after
one step).

Text bridge: C07's text is `List UInt8` (UTF-8), C19's is `List Char`.  The
rendered text is pure ASCII (`okChar`), so `byteOf`/`charOf` are inverse on it.
On the parse side every byte is mapped to the character with that code; a byte
≥ 0x80 (part of a multi-byte sequence) becomes a non-ASCII character, which the
C19 recognisers reject exactly as they reject the decoded character (only ASCII
digits and ASCII punctuation are accepted anywhere in a date-time).  Texts that
`from_isodatetime` reads as a duration, or through its `strptime` branches, or
with an offset of 24 h or more are `none` here: they are not `AwareDT` values.
-/
namespace DashLive.Options
open DashLive.IsoText

/-- UTF-8 byte of an ASCII character -/
def byteOf (c : Char) : UInt8 := UInt8.ofNat c.toNat
/-- the character with the code of a byte -/
def charOf (b : UInt8) : Char := Char.ofNat b.toNat

/-- aware, constructible, printable date-time records -/
def Aware (d : DateTime) : Prop :=
  d.valid = true ∧ d.offsetOk = true ∧ d.offset.isSome = true

instance (d : DateTime) : Decidable (Aware d) := by unfold Aware; infer_instance

abbrev AwareDT := { d : DateTime // Aware d }

/-- `from_isodatetime` / `to_iso_datetime` of the C19 model as C07's codec -/
def c19Codec : DTCodec AwareDT where
  parse s :=
    match fromIsoDateTime (s.map charOf) with
    | some (.datetime d) => if h : Aware d then some ⟨d, h⟩ else none
    | _ => none
  render d := (toIsoDateTime d.1).map byteOf

/-! ## lexical facts about the rendered text -/

/-- the characters `to_iso_datetime` can write -/
def okChar (c : Char) : Bool :=
  c.isDigit || c == '-' || c == 'T' || c == ':' || c == '.' || c == 'Z' || c == '+'

theorem digitByte_facts : ∀ n, n < 58 → 48 ≤ n →
    (UInt8.ofNat n ≠ 44 ∧ UInt8.ofNat n ≠ 61 ∧ UInt8.ofNat n ≠ 45 ∧ UInt8.ofNat n ≠ 43
      ∧ isWs (UInt8.ofNat n) = false ∧ (UInt8.ofNat n).toNat = n
      ∧ isDigit (UInt8.ofNat n) = true) := by decide

theorem digitChar_facts {c : Char} (h : c.isDigit = true) :
    byteOf c ≠ 44 ∧ byteOf c ≠ 61 ∧ byteOf c ≠ 45 ∧ byteOf c ≠ 43 ∧ isWs (byteOf c) = false
      ∧ charOf (byteOf c) = c ∧ isDigit (byteOf c) = true := by
  have hr := Char.isDigit_iff_toNat.mp h
  have h48 : (48 : Nat) ≤ c.toNat := hr.1
  have h57 : c.toNat ≤ 57 := hr.2
  obtain ⟨a, b, e, f, g, hn, i⟩ := digitByte_facts c.toNat (by omega) h48
  refine ⟨a, b, e, f, g, ?_, i⟩
  unfold charOf byteOf
  rw [hn, Char.ofNat_toNat]

theorem okChar_facts {c : Char} (h : okChar c = true) :
    byteOf c ≠ 44 ∧ byteOf c ≠ 61 ∧ isWs (byteOf c) = false ∧ charOf (byteOf c) = c := by
  unfold okChar at h
  simp only [Bool.or_eq_true, beq_iff_eq] at h
  rcases h with (((((h | h) | h) | h) | h) | h) | h
  · obtain ⟨a, b, _, _, g, r, _⟩ := digitChar_facts h
    exact ⟨a, b, g, r⟩
  all_goals (subst h; decide)

def AllOk (l : Text) : Prop := ∀ c ∈ l, okChar c = true

theorem allOk_nil : AllOk [] := fun _ h => by cases h

theorem allOk_append {a b : Text} (ha : AllOk a) (hb : AllOk b) : AllOk (a ++ b) := by
  intro c hc
  rcases List.mem_append.mp hc with h | h
  · exact ha c h
  · exact hb c h

theorem allOk_cons {c : Char} {l : Text} (hc : okChar c = true) (hl : AllOk l) : AllOk (c :: l) := by
  intro x hx
  rcases List.mem_cons.mp hx with h | h
  · rw [h]; exact hc
  · exact hl x h

theorem allOk_pad (k n : Nat) : AllOk (pad k n) := by
  intro c hc
  have := allDigits_pad k n c hc
  simp [okChar, this]

theorem allOk_bodyText (d : DateTime) : AllOk (bodyText d) := by
  unfold bodyText
  refine allOk_append (allOk_append (allOk_append (allOk_append (allOk_append (allOk_append
    (allOk_pad _ _) (allOk_cons (by decide) (allOk_pad _ _)))
    (allOk_cons (by decide) (allOk_pad _ _))) (allOk_cons (by decide) (allOk_pad _ _)))
    (allOk_cons (by decide) (allOk_pad _ _))) (allOk_cons (by decide) (allOk_pad _ _))) ?_
  split
  · exact allOk_cons (by decide) (allOk_pad _ _)
  · exact allOk_nil

theorem allOk_tzText (off : Option Int) : AllOk (tzText off) := by
  unfold tzText
  cases off with
  | none => exact allOk_cons (by decide) allOk_nil
  | some o =>
    simp only []
    split
    · exact allOk_cons (by decide) allOk_nil
    · unfold offText
      refine allOk_cons ?_ (allOk_append (allOk_pad _ _) (allOk_cons (by decide) (allOk_pad _ _)))
      split <;> decide

/-- the rendered text is ASCII from a seven-symbol alphabet plus digits -/
theorem allOk_toIsoDateTime (d : DateTime) (ho : d.offsetOk = true) : AllOk (toIsoDateTime d) := by
  rw [toIsoDateTime_eq d ho]
  exact allOk_append (allOk_bodyText d) (allOk_tzText d.offset)

theorem map_charOf_byteOf {l : Text} (h : AllOk l) : (l.map byteOf).map charOf = l := by
  rw [List.map_map]
  have : ∀ c ∈ l, (charOf ∘ byteOf) c = id c := fun c hc => (okChar_facts (h c hc)).2.2.2
  rw [List.map_congr_left this, List.map_id]

/-- the text starts with the (at least four) digits of the year followed by `-` -/
theorem toIsoDateTime_head (d : DateTime) (ho : d.offsetOk = true) :
    ∃ c cs rest, toIsoDateTime d = (c :: cs) ++ '-' :: rest ∧ c.isDigit = true
      ∧ ∀ x ∈ cs, x.isDigit = true := by
  rw [toIsoDateTime_eq d ho]
  cases hp : pad 4 d.year with
  | nil => exact absurd hp (pad_ne_nil _ _)
  | cons c cs =>
    have hd := allDigits_pad 4 d.year
    rw [hp] at hd
    refine ⟨c, cs, pad 2 d.month ++ ('-' :: (pad 2 d.day ++ ('T' :: (pad 2 d.hour ++ (':' ::
      (pad 2 d.minute ++ (':' :: (pad 2 d.second ++ ((if d.micro ≠ 0 then '.' :: pad 6 d.micro else [])
      ++ tzText d.offset))))))))), ?_, hd c List.mem_cons_self,
      fun x hx => hd x (List.mem_cons_of_mem _ hx)⟩
    unfold bodyText
    rw [hp]
    simp only [List.append_assoc, List.cons_append]

theorem pyDigitsAux_run (ds rest : Bytes) (h : ∀ b ∈ ds, isDigit b = true) (acc : Nat) (prev : Bool) :
    pyDigitsAux acc prev (ds ++ 45 :: rest) = none := by
  induction ds generalizing acc prev with
  | nil => simp [pyDigitsAux, isDigit]
  | cons b r ih =>
    simp only [List.cons_append, pyDigitsAux, h b List.mem_cons_self, if_true]
    exact ih (fun x hx => h x (List.mem_cons_of_mem _ hx)) _ _

/-! ## the laws -/

theorem c19_render_roundtrip (d : AwareDT) : c19Codec.parse (c19Codec.render d) = some d := by
  obtain ⟨d, hv, ho, hs⟩ := d
  have hrt := datetime_roundtrip d hv ho
  have hsame : ({ d with offset := some (d.offset.getD 0) } : DateTime) = d := by
    cases hoff : d.offset with
    | none => rw [hoff] at hs; cases hs
    | some o =>
      cases d
      simp only [DateTime.mk.injEq, true_and] at hoff ⊢
      rw [hoff]; rfl
  rw [hsame] at hrt
  show (match fromIsoDateTime (((toIsoDateTime d).map byteOf).map charOf) with
    | some (.datetime d') => if h : Aware d' then some (⟨d', h⟩ : AwareDT) else none
    | _ => none) = _
  rw [map_charOf_byteOf (allOk_toIsoDateTime d ho), hrt]
  simp only []
  rw [dif_pos ⟨hv, ho, hs⟩]

/-- **C07's date-time text laws hold for the C19 model** (no hypothesis left) -/
theorem c19_codec_laws : DtCodecLaws c19Codec where
  roundtrip := c19_render_roundtrip
  digitFirst := by
    intro d
    obtain ⟨c, cs, rest, he, hc, _⟩ := toIsoDateTime_head d.1 d.2.2.1
    refine ⟨byteOf c, (cs ++ '-' :: rest).map byteOf, ?_, (digitChar_facts hc).2.2.2.2.2.2⟩
    show (toIsoDateTime d.1).map byteOf = _
    rw [he]; rfl
  clean := by
    intro d
    have hall := allOk_toIsoDateTime d.1 d.2.2.1
    constructor <;> intro hm
    · obtain ⟨c, hc, hb⟩ := List.mem_map.mp hm
      exact (okChar_facts (hall c hc)).1 hb
    · obtain ⟨c, hc, hb⟩ := List.mem_map.mp hm
      exact (okChar_facts (hall c hc)).2.1 hb
  notInt := by
    intro d
    have hall := allOk_toIsoDateTime d.1 d.2.2.1
    obtain ⟨c, cs, rest, he, hc, hcs⟩ := toIsoDateTime_head d.1 d.2.2.1
    have hnows : ∀ b ∈ c19Codec.render d, isWs b = false := by
      intro b hb
      obtain ⟨x, hx, rfl⟩ := List.mem_map.mp hb
      exact (okChar_facts (hall x hx)).2.2.1
    have hform : c19Codec.render d
        = byteOf c :: (cs.map byteOf ++ 45 :: rest.map byteOf) := by
      show (toIsoDateTime d.1).map byteOf = _
      rw [he]
      simp only [List.cons_append, List.map_cons, List.map_append]
      rfl
    obtain ⟨_, _, h45, h43, _, _, hdig⟩ := digitChar_facts hc
    unfold pyInt
    rw [strip_id _ hnows, hform]
    simp only [h45, h43, if_false]
    have hrun := pyDigitsAux_run (byteOf c :: cs.map byteOf) (rest.map byteOf) (by
      intro b hb
      rcases List.mem_cons.mp hb with h | h
      · rw [h]; exact hdig
      · obtain ⟨x, hx, rfl⟩ := List.mem_map.mp h
        exact (digitChar_facts (hcs x hx)).2.2.2.2.2.2) 0 false
    unfold pyDigits
    rw [← List.cons_append, hrun]
    rfl

/-- **The strongest true round trip on all valid records, naive included**
(`DtTextRoundTrip` itself fails at every naive record): the text is read back as
the same fields at offset 0 (UTC – what the written `Z` says), and that value is
a fixed point: it renders to the same text. -/
theorem c19_text_roundtrip_partial (d : DateTime) (hv : d.valid = true) (ho : d.offsetOk = true) :
    fromIsoDateTime (toIsoDateTime d) = some (.datetime { d with offset := some (d.offset.getD 0) })
    ∧ toIsoDateTime { d with offset := some (d.offset.getD 0) } = toIsoDateTime d := by
  refine ⟨datetime_roundtrip d hv ho, ?_⟩
  have ho' : ({ d with offset := some (d.offset.getD 0) } : DateTime).offsetOk = true := by
    cases hoff : d.offset with
    | none => simp [DateTime.offsetOk]
    | some o => simpa [DateTime.offsetOk, hoff] using ho
  rw [toIsoDateTime_eq _ ho', toIsoDateTime_eq d ho]
  cases hoff : d.offset with
  | none => simp [bodyText, tzText]
  | some o => simp [bodyText, tzText]

/-- non-vacuity of the hypotheses, and the excluded point: a naive record does not come back -/
example : (DateTime.mk 2022 10 18 14 22 24 0 none).valid = true
    ∧ (DateTime.mk 2022 10 18 14 22 24 0 none).offsetOk = true
    ∧ fromIsoDateTime (toIsoDateTime (DateTime.mk 2022 10 18 14 22 24 0 none))
        ≠ some (.datetime (DateTime.mk 2022 10 18 14 22 24 0 none)) := by decide

example : Aware (DateTime.mk 2023 7 25 12 34 56 500000 (some 330)) := by decide

/-! ## C07's date-time codec theorems with no hypothesis left -/

theorem codec_roundtrip_astDateTime_c19 :
    (∀ s ∈ specialAst, fromString c19Codec .astDateTime
        (cgiText (toText c19Codec .astDateTime (.str s))) = .ok (.str s)) ∧
    fromString c19Codec .astDateTime (cgiText (toText c19Codec .astDateTime .none))
        = .ok (.none : Val AwareDT) ∧
    (∀ d, fromString c19Codec .astDateTime
        (cgiText (toText c19Codec .astDateTime (.dt d))) = .ok (.dt d)) :=
  codec_roundtrip_astDateTime c19Codec c19_codec_laws

theorem codec_roundtrip_dtOrNone_c19 :
    fromString c19Codec .dtOrNone (cgiText (toText c19Codec .dtOrNone .none))
        = .ok (.none : Val AwareDT) ∧
    (∀ d, fromString c19Codec .dtOrNone
        (cgiText (toText c19Codec .dtOrNone (.dt d))) = .ok (.dt d)) :=
  codec_roundtrip_dtOrNone c19Codec c19_codec_laws

theorem codec_roundtrip_errorList_c19 (l : List (Int × Pos AwareDT)) :
    fromString c19Codec .errorList (cgiText (toText c19Codec .errorList (.errs l)))
        = .ok (.errs l) :=
  codec_roundtrip_errorList c19Codec c19_codec_laws l

/-- every codec kind at the C19 codec -/
theorem codec_roundtrip_c19 (k : Kind) (v : Val AwareDT) (h : Canonical k v) :
    ∃ v', fromString c19Codec k (cgiText (toText c19Codec k v)) = .ok v' ∧ ValEquiv v' v :=
  codec_roundtrip c19Codec c19_codec_laws k v h

end DashLive.Options
