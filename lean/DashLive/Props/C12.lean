import DashLive.Lemmas.Periods
/-!
# C12 – multi-period presentations tile the timeline and play the right media

Property theorems only.  Model: `Model/Periods.lean` (on top of `Model/Segments.lean`);
helper lemmas: `Lemmas/Periods.lean`, `Lemmas/Segments.lean`.

Units: period starts/durations, `E` (elapsedTime = now − availabilityStartTime) and
`F` (firstAvailableTime = `E` − timeShiftBufferDepth) are microseconds.  For the media
requests `durs` are the stored segment durations of one track (ticks of its timescale),
`R` the stream's reference duration in that timescale, `tc` the period's source offset in
that timescale, `sn` the track's `start_number`, `st` its first decode time, `sd` its
`segment_duration` (SegmentTemplate@duration) and `ts` its timescale.

Hypotheses that appear below (all explicit and decidable):
* `0 < totalDuration ps` – the presentation has a positive total duration.  Excluded point:
  total duration 0, where the builder raises `ZeroDivisionError` (and its loop, were it
  reached, would never leave): `live_zero_duration`.
* `nl * totalDuration ps ≤ F` – the loop count the float floor-division produced is not too
  large (it is `⌊F / D⌋` exactly: `live_periods_exact`).  Excluded point: `live_cover_needs_loop_count`.
* `StartsInsideLoop durs R`, `PositiveDurs durs` – the C02 hypotheses H1, H2 (every stored
  segment starts inside one loop of the timing reference and is not empty); used only by the
  `$Time$` / SegmentTimeline theorems, where a listed time must resolve to its own segment.
* `durUs * ts ≤ (n − i₀) · sd · 10⁶` – the Period is not longer than what the `n − i₀` source
  segments from the selected one can be numbered for; this is *exactly* the condition
  under which every admitted number is served (`mps_admitted_tight`), and it follows from
  "source offset + duration + half a segment ≤ media duration" for a template duration
  that is not below the mean segment duration (`mps_admitted_of_fits`).
-/
namespace DashLive.Periods
open DashLive.Segments

/-! ## VOD: `create_all_vod_periods` -/

/-- the listed Periods are the defined ones, in order, with their ids and durations -/
theorem vod_periods_faithful (ps : List PeriodDef) :
    (vodPeriods ps).length = ps.length ∧
    ∀ i (h : i < (vodPeriods ps).length) (h' : i < ps.length),
      (vodPeriods ps)[i].id = ps[i].pid ∧ (vodPeriods ps)[i].dur = ps[i].dur := by
  refine ⟨vodLoop_length ps 0, ?_⟩
  intro i h h'
  have := vodLoop_getElem ps 0 i h h'
  unfold vodPeriods
  rw [this]
  exact ⟨rfl, rfl⟩

/-- **VOD Periods are contiguous**: the first starts at 0 and each next one starts where
the previous one ends -/
theorem vod_periods_contiguous (ps : List PeriodDef) :
    (∀ (h : 0 < (vodPeriods ps).length), (vodPeriods ps)[0].start = 0) ∧
    ∀ i (h : i + 1 < (vodPeriods ps).length),
      (vodPeriods ps)[i + 1].start = (vodPeriods ps)[i].start + (vodPeriods ps)[i].dur := by
  have hl : (vodLoop ps 0).1.length = ps.length := vodLoop_length ps 0
  unfold vodPeriods
  constructor
  · intro h
    have := vodLoop_getElem ps 0 0 h (by omega)
    rw [this]
    simp [prefixSum]
  · intro i h
    have h1 := vodLoop_getElem ps 0 (i + 1) h (by omega)
    have h2 := vodLoop_getElem ps 0 i (by omega) (by omega)
    rw [h1, h2]
    have hi : i < (durations ps).length := by rw [durations_length]; omega
    simp only [prefixSum_succ hi]
    have : durAt (durations ps) i = ps[i].dur := by
      rw [durAt_of_lt hi]; simp [durations]
    omega

/-- **Σ Period durations = mediaPresentationDuration** (and both equal the total duration
of the definition) -/
theorem vod_periods_sum (ps : List PeriodDef) :
    vodMediaDuration ps = ((vodPeriods ps).map (·.dur)).sum ∧
    vodMediaDuration ps = totalDuration ps := by
  have h2 : vodMediaDuration ps = totalDuration ps := by
    unfold vodMediaDuration; rw [vodLoop_end]; omega
  refine ⟨?_, h2⟩
  rw [h2]
  have : ∀ (qs : List PeriodDef) s, ((vodLoop qs s).1.map (·.dur)) = durations qs := by
    intro qs
    induction qs with
    | nil => intro s; rfl
    | cons q qs ih => intro s; simp [vodLoop, durations, ih]
  unfold vodPeriods totalDuration
  rw [this]

/-- the last VOD Period ends at mediaPresentationDuration -/
theorem vod_periods_end (ps : List PeriodDef) (h : 0 < (vodPeriods ps).length) :
    (vodPeriods ps)[(vodPeriods ps).length - 1].start + (vodPeriods ps)[(vodPeriods ps).length - 1].dur
      = vodMediaDuration ps := by
  have hl : (vodLoop ps 0).1.length = ps.length := vodLoop_length ps 0
  rw [(vod_periods_sum ps).2]
  unfold vodPeriods at *
  have h1 := vodLoop_getElem ps 0 ((vodLoop ps 0).1.length - 1) (by omega) (by omega)
  rw [h1]
  have hi : ps.length - 1 < (durations ps).length := by rw [durations_length]; omega
  have hlast := prefixSum_last (durs := durations ps) (m := ps.length - 1) (by rw [durations_length]; omega)
  have : durAt (durations ps) (ps.length - 1) = ps[ps.length - 1].dur := by
    rw [durAt_of_lt hi]; simp [durations]
  simp only [hl]
  unfold totalDuration
  omega

/-- **what the manifest writes is exact** (fix 983f9d5): the builders work on the presentation
durations (stored durations rounded to a millisecond), so every VOD Period start, duration
and the mediaPresentationDuration are whole milliseconds – the resolution of the
`xs:duration` text – and each is within half a millisecond of the stored duration -/
theorem vod_periods_whole_ms (ps : List PeriodDef) :
    (∀ p, p ∈ vodPeriods (presented ps) → 1000 ∣ p.start ∧ 1000 ∣ p.dur) ∧
    1000 ∣ vodMediaDuration (presented ps) := by
  have hd := presented_durations_dvd ps
  constructor
  · intro p hp
    obtain ⟨i, hi, rfl⟩ := List.getElem_of_mem hp
    have hl : (vodLoop (presented ps) 0).1.length = (presented ps).length := vodLoop_length _ 0
    unfold vodPeriods at hi ⊢
    rw [vodLoop_getElem (presented ps) 0 i hi (by omega)]
    refine ⟨?_, ?_⟩
    · simp only [Nat.zero_add]; exact prefixSum_dvd _ 1000 _ hd
    · apply hd
      unfold durations
      exact List.mem_map.mpr ⟨_, List.getElem_mem (by omega), rfl⟩
  · rw [(vod_periods_sum (presented ps)).2]
    exact sum_dvd _ 1000 hd

/-! ## live: `create_all_live_periods` -/

/-- **the live loop terminates** whenever the total duration is positive, for every clock,
window and loop count -/
theorem live_periods_terminate (ps : List PeriodDef) (E F nl : Nat) (hD : 0 < totalDuration ps) :
    ∃ l, livePeriodsFrom ps E F nl = some l :=
  livePeriodsFrom_terminates ps E F nl hD

/-- **live Periods are contiguous**: each listed Period starts where the previous one ends
(for any loop count the float division may have produced) -/
theorem live_periods_contiguous (ps : List PeriodDef) (E F nl : Nat) (l : List OutPeriod)
    (hD : 0 < totalDuration ps) (h : livePeriodsFrom ps E F nl = some l) :
    ∀ i (hi : i + 1 < l.length), l[i + 1].start = l[i].start + l[i].dur := by
  have hn := pos_of_total_pos hD
  obtain ⟨s, e, _, _, hl, _⟩ := livePeriodsFrom_char ps E F nl l hn h
  subst hl
  intro i hi
  rw [range_map_getElem, range_map_getElem, pos_dur]
  have := startG_succ_sum (durations ps) (s + i) (by rw [durations_length]; exact hn)
  unfold pos totalDuration
  simp only
  rw [← this]
  rfl

/-- **live Periods cover the time-shift window up to now**: the list is not empty, its first
Period starts at or before `firstAvailableTime`, no Period starts after now, and every
instant `t ∈ [F, E]` lies inside a listed Period.  Needs a positive total duration and a
loop count that is not too large. -/
theorem live_periods_cover (ps : List PeriodDef) (E F nl : Nat) (l : List OutPeriod)
    (hD : 0 < totalDuration ps) (hnl : nl * totalDuration ps ≤ F) (hFE : F ≤ E)
    (h : livePeriodsFrom ps E F nl = some l) :
    (∃ hne : l ≠ [], (l.head hne).start ≤ F ∧
        (l.getLast hne).start ≤ E ∧ E < (l.getLast hne).start + (l.getLast hne).dur) ∧
    (∀ p, p ∈ l → p.start ≤ E ∧ F ≤ p.start + p.dur) ∧
    ∀ t, F ≤ t → t ≤ E → ∃ p, p ∈ l ∧ p.start ≤ t ∧ t < p.start + p.dur := by
  have hn := pos_of_total_pos hD
  have hdl : 0 < (durations ps).length := by rw [durations_length]; exact hn
  obtain ⟨s, e, hs1, hs2, hl, c1, c2, c3, c4⟩ := livePeriodsFrom_char ps E F nl l hn h
  have hg0 := (startG_loop_start (durations ps) (totalDuration ps) nl hdl).1
  rw [durations_length] at hg0
  have hsucc : ∀ x, startG (durations ps) (totalDuration ps) (x + 1) =
      startG (durations ps) (totalDuration ps) x + (pos ps x).dur := by
    intro x; rw [pos_dur]; exact startG_succ_sum (durations ps) x hdl
  -- the loop runs at least once
  have he : nl * ps.length < e := by
    by_cases hq : nl * ps.length < e
    · exact hq
    · have : e = nl * ps.length := by omega
      rw [this, hg0] at c2
      omega
  -- the last emitted position is kept
  have hse : s < e := by
    by_cases hq : s < e
    · exact hq
    · have := c3 (e - 1) (by omega) (by omega)
      have h1 : e - 1 + 1 = e := by omega
      rw [h1] at this
      omega
  -- the first kept position starts at or before F
  have hfirst : startG (durations ps) (totalDuration ps) s ≤ F := by
    by_cases hq : s = nl * ps.length
    · rw [hq, hg0]; exact hnl
    · have := c3 (s - 1) (by omega) (by omega)
      have h1 : s - 1 + 1 = s := by omega
      rw [h1] at this
      omega
  have hlen : l.length = e - s := by rw [hl]; simp
  have hmem : ∀ p, p ∈ l ↔ ∃ x, s ≤ x ∧ x < e ∧ p = pos ps x := by
    intro p
    rw [hl, List.mem_map]
    constructor
    · rintro ⟨x, hx, rfl⟩
      rw [List.mem_range'_1] at hx
      exact ⟨x, hx.1, by omega, rfl⟩
    · rintro ⟨x, h1, h2, rfl⟩
      exact ⟨x, by rw [List.mem_range'_1]; omega, rfl⟩
  refine ⟨?_, ?_, ?_⟩
  · have hne : l ≠ [] := by
      intro h0; rw [h0] at hlen; simp at hlen; omega
    refine ⟨hne, ?_, ?_, ?_⟩
    · rw [List.head_eq_getElem]
      simp only [hl, range_map_getElem]
      exact hfirst
    · rw [List.getLast_eq_getElem]
      simp only [hl, range_map_getElem, List.length_map, List.length_range']
      have h1 : s + (e - s - 1) = e - 1 := by omega
      rw [h1]
      exact c1 (e - 1) (by omega) (by omega)
    · rw [List.getLast_eq_getElem]
      simp only [hl, range_map_getElem, List.length_map, List.length_range']
      have h1 : s + (e - s - 1) = e - 1 := by omega
      rw [h1]
      have := hsucc (e - 1)
      have h2 : e - 1 + 1 = e := by omega
      rw [h2] at this
      unfold pos at this ⊢
      simp only at this ⊢
      omega
  · intro p hp
    obtain ⟨x, h1, h2, rfl⟩ := (hmem p).mp hp
    have := hsucc x
    have := c4 x h1 h2
    have := c1 x (by omega) h2
    unfold pos at *
    simp only at *
    omega
  · intro t ht1 ht2
    obtain ⟨x, h1, h2, h3, h4⟩ := exists_between (startG (durations ps) (totalDuration ps)) t
      (e - s) s e (by omega) (by omega) (by omega)
    refine ⟨pos ps x, (hmem _).mpr ⟨x, h1, h2, rfl⟩, ?_, ?_⟩
    · exact h3
    · rw [hsucc x] at h4
      exact h4

/-- every listed live Period is one of the defined Periods, with its duration, and its id is
`pid_loop` -/
theorem live_periods_source (ps : List PeriodDef) (E F nl : Nat) (l : List OutPeriod)
    (hD : 0 < totalDuration ps) (h : livePeriodsFrom ps E F nl = some l) :
    ∀ p, p ∈ l → ∃ q, q ∈ ps ∧ ∃ k, nl ≤ k ∧ p.id = renderId q.pid k ∧ p.dur = q.dur := by
  have hn := pos_of_total_pos hD
  obtain ⟨s, e, hs1, _, hl, _⟩ := livePeriodsFrom_char ps E F nl l hn h
  intro p hp
  rw [hl, List.mem_map] at hp
  obtain ⟨x, hx, rfl⟩ := hp
  rw [List.mem_range'_1] at hx
  have hm := Nat.mod_lt x hn
  refine ⟨ps[x % ps.length], List.getElem_mem hm, x / ps.length, ?_, ?_, ?_⟩
  · exact (Nat.le_div_iff_mul_le hn).mpr (by omega)
  · unfold pos; simp [List.getD, hm]
  · unfold pos; simp [List.getD, hm]

/-- **live ids are unique per repetition**: when the pids are unique within the stream (the
DB constraint `single_period_id_per_mp_stream`) no two listed Periods share an id -/
theorem live_ids_unique (ps : List PeriodDef) (E F nl : Nat) (l : List OutPeriod)
    (hD : 0 < totalDuration ps) (hp : (ps.map (·.pid)).Nodup)
    (h : livePeriodsFrom ps E F nl = some l) :
    (l.map (·.id)).Nodup := by
  have hn := pos_of_total_pos hD
  obtain ⟨s, e, _, _, hl, _⟩ := livePeriodsFrom_char ps E F nl l hn h
  rw [hl, List.map_map]
  unfold List.Nodup
  rw [List.pairwise_map]
  refine List.Pairwise.imp ?_ (List.pairwise_lt_range' (s := s) (n := e - s))
  intro x y hxy heq
  simp only [Function.comp, pos] at heq
  obtain ⟨h1, h2⟩ := renderId_inj heq
  have hx := Nat.mod_lt x hn
  have hy := Nat.mod_lt y hn
  have h3 : (ps.map (·.pid))[x % ps.length]'(by simpa using hx) =
      (ps.map (·.pid))[y % ps.length]'(by simpa using hy) := by
    simp only [List.getElem_map]
    simpa [List.getD, hx, hy] using h1
  have h4 := (List.getElem_inj hp).mp h3
  have := Nat.div_add_mod x ps.length
  have := Nat.div_add_mod y ps.length
  rw [h2, h4] at *
  omega

/-- every listed live Period starts and lasts a whole number of milliseconds (fix 983f9d5) -/
theorem live_periods_whole_ms (ps : List PeriodDef) (E F nl : Nat) (l : List OutPeriod)
    (hD : 0 < totalDuration (presented ps)) (h : livePeriodsFrom (presented ps) E F nl = some l) :
    ∀ p, p ∈ l → 1000 ∣ p.start ∧ 1000 ∣ p.dur := by
  have hn := pos_of_total_pos hD
  have hd := presented_durations_dvd ps
  obtain ⟨s, e, _, _, hl, _⟩ := livePeriodsFrom_char (presented ps) E F nl l hn h
  intro p hp
  rw [hl, List.mem_map] at hp
  obtain ⟨x, _, rfl⟩ := hp
  refine ⟨?_, ?_⟩
  · unfold pos totalDuration; exact startG_dvd _ 1000 _ hd
  · rw [pos_dur]
    unfold durG
    by_cases hq : x % (durations (presented ps)).length < (durations (presented ps)).length
    · rw [durAt_of_lt hq]; exact hd _ (List.getElem_mem hq)
    · unfold durAt; simp [List.getD, hq]

/-- **the builder as it runs** (exact floors): for a positive total duration it either refuses
the manifest because more than `MAX_LIVE_PERIODS` Period elements would be needed (fix
e70c912; `ManifestNotAvailable` → 404), or returns a list – which then has all the properties
above (the loop count it used satisfies `nl · D ≤ F`) and at most `MAX_LIVE_PERIODS` entries -/
theorem live_periods_exact (ps : List PeriodDef) (E F : Nat) (hD : 0 < totalDuration ps) (hFE : F ≤ E) :
    (ps.length * (1 + (E - totalDuration ps * (F / totalDuration ps)) / totalDuration ps) > maxLivePeriods ∧
      livePeriods ps E F = .tooMany) ∨
    ∃ l, livePeriods ps E F = .ok l ∧
      livePeriodsFrom ps E F (F / totalDuration ps) = some l ∧
      F / totalDuration ps * totalDuration ps ≤ F ∧ l.length ≤ maxLivePeriods := by
  obtain ⟨l, hl⟩ := livePeriodsFrom_terminates ps E F (F / totalDuration ps) hD
  have hle := Nat.div_mul_le_self F (totalDuration ps)
  by_cases hg : ps.length * (1 + (E - totalDuration ps * (F / totalDuration ps)) / totalDuration ps) > maxLivePeriods
  · left
    refine ⟨hg, ?_⟩
    unfold livePeriods livePeriodsGuarded
    simp only [Nat.ne_of_gt hD, if_false, hg, if_true]
  · right
    refine ⟨l, ?_, hl, hle, ?_⟩
    · unfold livePeriods livePeriodsGuarded
      simp only [Nat.ne_of_gt hD, if_false, hg, hl]
    · have := livePeriodsFrom_length ps E F (F / totalDuration ps) l hD (by omega) hl
      rw [Nat.mul_comm (F / totalDuration ps)] at this
      omega

/-- the bound the guard relies on, for any loop count: a terminating run lists at most
`len · (1 + ⌊(E − nl·D) / D⌋)` Periods -/
theorem live_periods_bounded (ps : List PeriodDef) (E F nl : Nat) (l : List OutPeriod)
    (hD : 0 < totalDuration ps) (hnl : nl * totalDuration ps ≤ E)
    (h : livePeriodsFrom ps E F nl = some l) :
    l.length ≤ ps.length * (1 + (E - nl * totalDuration ps) / totalDuration ps) :=
  livePeriodsFrom_length ps E F nl l hD hnl h

/-- total duration 0 (all durations zero, or no Periods): the loop-count division raises
`ZeroDivisionError` – no manifest; and the loop itself, were it reached, would never
leave (`liveLoop_zero_diverges`) -/
theorem live_zero_duration (ps : List PeriodDef) (E F : Nat) (hD : totalDuration ps = 0) :
    livePeriods ps E F = .zeroDivision ∧
    (0 < ps.length → ∀ fuel, liveLoop ps E F fuel 0 0 0 = none) := by
  refine ⟨by unfold livePeriods livePeriodsGuarded; simp [hD], ?_⟩
  intro hn fuel
  have := liveLoop_zero_diverges ps E F hn hD fuel 0
  have h0 : startG (durations ps) (totalDuration ps) 0 = 0 := by
    unfold startG; simp [prefixSum]
  rw [h0] at this
  simpa using this

/-! ### non-vacuity and excluded points (live) -/

/-- two Periods of 20 s and 12 s, 47 s after availabilityStartTime with a 30 s window -/
example : livePeriods [⟨['p', '1'], 20000000⟩, ⟨['p', '2'], 12000000⟩] 47000000 17000000
    = .ok [⟨['p', '1', '_', '0'], 0, 20000000⟩, ⟨['p', '2', '_', '0'], 20000000, 12000000⟩,
           ⟨['p', '1', '_', '1'], 32000000, 20000000⟩] := by decide

example : 0 < totalDuration [⟨['p', '1'], 20000000⟩, ⟨['p', '2'], 12000000⟩] ∧
    (17000000 / 32000000) * totalDuration [⟨['p', '1'], 20000000⟩, ⟨['p', '2'], 12000000⟩] ≤ 17000000 ∧
    (([⟨['p', '1'], 20000000⟩, ⟨['p', '2'], 12000000⟩] : List PeriodDef).map (·.pid)).Nodup := by decide

/-- excluded point of `hD`: a Period of duration 0 only – `ZeroDivisionError`, and fuel
exhaustion of the bare loop -/
example : livePeriods [⟨['p'], 0⟩] 5 0 = .zeroDivision ∧ liveLoop [⟨['p'], 0⟩] 5 0 64 0 0 0 = none := by
  decide

/-- excluded point of `hnl`: a loop count one too large leaves `[F, start)` uncovered -/
theorem live_cover_needs_loop_count :
    livePeriodsFrom [⟨['p'], 10⟩] 25 15 2 = some [⟨['p', '_', '2'], 20, 10⟩] ∧
    ¬ (∀ t, 15 ≤ t → t ≤ 25 → ∃ p, p ∈ [(⟨['p', '_', '2'], 20, 10⟩ : OutPeriod)] ∧
        p.start ≤ t ∧ t < p.start + p.dur) := by
  refine ⟨by decide, ?_⟩
  intro h
  obtain ⟨p, hp, h1, _⟩ := h 15 (by omega) (by omega)
  simp at hp
  subst hp
  simp at h1

/-! ## media requests inside a Period: `ServeMpsMedia` -/

/-- the period offset in the track's timescale is the floor of the exact rescale -/
theorem mps_offset_floor (startRef ts refTs : Nat) (h : 0 < refTs) :
    mpsStartTc startRef ts refTs * refTs ≤ startRef * ts ∧
    startRef * ts < (mpsStartTc startRef ts refTs + 1) * refTs := by
  unfold mpsStartTc
  by_cases hq : ts = refTs
  · subst hq; simp only [ne_eq, not_true_eq_false, if_false]
    rw [Nat.add_mul]; omega
  · simp only [ne_eq, hq, not_false_eq_true, if_true]
    have := div_bounds (startRef * ts) refTs h
    rw [Nat.add_mul]; omega

/-- **the counting origin is the segment whose start is nearest the Period's source
offset**: when the search stays inside the media (`i₀ < n`, i.e. the Period is not refused),
no stored segment starts nearer to `tc` than segment `i₀` (ties go to the earlier one) -/
theorem mps_start_nearest (durs : List Nat) (R tc : Nat) (hR : 0 < R) (hn : 0 < durs.length)
    (hin : index durs R tc < durs.length) :
    ∀ j, j ≤ durs.length → dist (prefixSum durs (index durs R tc)) tc ≤ dist (prefixSum durs j) tc := by
  obtain ⟨a, b, c, d⟩ := index_spec durs R tc hR hn
  have hlt := ((index_lt_iff durs R tc hR hn).mp hin).1
  have hz : tc / R = 0 := Nat.div_eq_of_lt hlt
  unfold before startG durG at c
  rw [Nat.mod_eq_of_lt hin, Nat.div_eq_of_lt hin] at c
  intro j hj
  unfold dist
  by_cases h1 : j < index durs R tc
  · -- an earlier segment: its successor's start is already below the midpoint rule
    have hb := d (index durs R tc - 1) (by rw [hz]; omega) (by omega)
    unfold before startG durG at hb
    rw [Nat.mod_eq_of_lt (by omega), Nat.div_eq_of_lt (by omega)] at hb
    have hs := prefixSum_succ (durs := durs) (k := index durs R tc - 1) (by omega)
    have h2 : index durs R tc - 1 + 1 = index durs R tc := by omega
    rw [h2] at hs
    have hm := prefixSum_mono durs (j := j) (k := index durs R tc - 1) (by omega)
    omega
  · by_cases h2 : j = index durs R tc
    · subst h2; exact Nat.le_refl _
    · have hs := prefixSum_succ (durs := durs) (k := index durs R tc) hin
      have hm := prefixSum_mono durs (j := index durs R tc + 1) (k := j) (by omega)
      omega

/-- **number `sn + k` of a Period delivers source segment `i₀ + k`** (0-based; `i₀` = the
position `get_segment_index` selects for the Period's source offset), with
`mfhd.sequence_number = sn + k` and decode time `st + P_{i₀+k} − P_{i₀}`; when `i₀ + k`
is past the last stored segment – or the offset itself is past the media – the answer is
404.  For *every* offset, number and track; the stored `tfdt`s are `st + P_j` (what indexing
records for a file whose first decode time is `st`). -/
theorem mps_number_maps (durs : List Nat) (R sn tc st k : Nat) (hR : 0 < R) (hn : 0 < durs.length) :
    mpsRequest durs (some fun j => st + prefixSum durs j) R sn tc (.number ((sn : Int) + k)) =
      if index durs R tc + k < durs.length then
        .segment (index durs R tc + k)
          ((st : Int) + ((prefixSum durs (index durs R tc + k) - prefixSum durs (index durs R tc) : Nat) : Int))
          ((sn : Int) + k)
      else .notFound := by
  unfold mpsRequest
  rw [mpsIndex_number durs R sn tc _ hR hn]
  by_cases h1 : index durs R tc + k < durs.length
  · have h2 : ¬ durs.length ≤ index durs R tc := by omega
    have h3 : ¬ ((sn : Int) + k < sn) := by omega
    have h4 : ¬ ((index durs R tc : Int) + 1 + ((sn : Int) + k - sn) > durs.length) := by omega
    have h5 : ¬ ((index durs R tc : Int) + 1 + ((sn : Int) + k - sn) < 1) := by omega
    have h6 : ((index durs R tc : Int) + 1 + ((sn : Int) + k - sn) - 1).toNat = index durs R tc + k := by omega
    have hm := prefixSum_mono durs (j := index durs R tc) (k := index durs R tc + k) (by omega)
    simp only [h1, h2, h3, h4, h5, h6, if_true, if_false, mpsServe, or_self]
    have h7 : ¬ (((st + prefixSum durs (index durs R tc + k) : Nat) : Int) +
        -(prefixSum durs (index durs R tc) : Int) < 0) := by omega
    simp only [h7, if_false]
    congr 1
    omega
  · simp only [h1, if_false]
    by_cases h2 : durs.length ≤ index durs R tc
    · simp only [h2, if_true, mpsServe]
    · have h3 : ¬ ((sn : Int) + k < sn) := by omega
      have h4 : (index durs R tc : Int) + 1 + ((sn : Int) + k - sn) > durs.length := by omega
      simp only [h2, h3, h4, if_true, if_false, mpsServe]

/-- the same for a file without `tfdt` boxes (the handler synthesises `Σ durations before`) -/
theorem mps_number_maps_no_tfdt (durs : List Nat) (R sn tc k : Nat) (hR : 0 < R) (hn : 0 < durs.length) :
    mpsRequest durs none R sn tc (.number ((sn : Int) + k)) =
      if index durs R tc + k < durs.length then
        .segment (index durs R tc + k)
          (((prefixSum durs (index durs R tc + k) - prefixSum durs (index durs R tc) : Nat) : Int))
          ((sn : Int) + k)
      else .notFound := by
  have h := mps_number_maps durs R sn tc 0 k hR hn
  have e : (some fun j => 0 + prefixSum durs j) = (some fun j => prefixSum durs j) := by
    congr 1; funext j; omega
  unfold mpsRequest at h ⊢
  rw [e] at h
  have hs : ∀ r, mpsServe durs none r = mpsServe durs (some fun j => prefixSum durs j) r := by
    intro r; cases r with
    | notFound => rfl
    | ok m o s => rfl
  rw [hs, h]
  split <;> simp

/-- **decode times count from zero at the Period start**: the first number of a Period is
served with the file's first decode time (`0` for every stored track with `st = 0`) -/
theorem mps_decode_zero (durs : List Nat) (R sn tc st : Nat) (hR : 0 < R) (hn : 0 < durs.length)
    (hin : index durs R tc < durs.length) :
    mpsRequest durs (some fun j => st + prefixSum durs j) R sn tc (.number sn) =
      .segment (index durs R tc) st sn := by
  have := mps_number_maps durs R sn tc st 0 hR hn
  simpa [hin] using this

/-- **gapless from one number to the next**: the decode time of number `sn + k + 1` is that of
`sn + k` plus the duration of the source segment delivered for `sn + k` -/
theorem mps_decode_gapless (durs : List Nat) (R sn tc st k : Nat) (hR : 0 < R) (hn : 0 < durs.length)
    (hin : index durs R tc + k + 1 < durs.length) :
    ∃ t : Int,
      mpsRequest durs (some fun j => st + prefixSum durs j) R sn tc (.number ((sn : Int) + k)) =
        .segment (index durs R tc + k) t ((sn : Int) + k) ∧
      mpsRequest durs (some fun j => st + prefixSum durs j) R sn tc (.number ((sn : Int) + (k + 1 : Nat))) =
        .segment (index durs R tc + k + 1) (t + durAt durs (index durs R tc + k)) ((sn : Int) + (k + 1 : Nat)) := by
  have h1 := mps_number_maps durs R sn tc st k hR hn
  have h2 := mps_number_maps durs R sn tc st (k + 1) hR hn
  have e1 : index durs R tc + k < durs.length := by omega
  have e2 : index durs R tc + (k + 1) < durs.length := by omega
  simp only [e1, e2, if_true] at h1 h2
  refine ⟨_, h1, ?_⟩
  rw [h2]
  have hs := prefixSum_succ (durs := durs) (k := index durs R tc + k) e1
  have hm := prefixSum_mono durs (j := index durs R tc) (k := index durs R tc + k) (by omega)
  have e3 : index durs R tc + (k + 1) = index durs R tc + k + 1 := by omega
  rw [e3, hs]
  congr 1
  omega

/-- **requests beyond the end of the source media are refused with 404** -/
theorem mps_beyond_end_404 (durs : List Nat) (R sn tc st k : Nat) (hR : 0 < R) (hn : 0 < durs.length)
    (h : durs.length ≤ index durs R tc + k) :
    mpsRequest durs (some fun j => st + prefixSum durs j) R sn tc (.number ((sn : Int) + k)) = .notFound := by
  rw [mps_number_maps durs R sn tc st k hR hn]
  simp only [Nat.not_lt.mpr h, if_false]

/-- a number below the Period's first number is refused with 404 (fix 7f6dd57), and no
`$Number$` request at all ends in an uncontrolled failure -/
theorem mps_number_never_crashes (durs : List Nat) (R sn tc st : Nat) (num : Int) (hR : 0 < R)
    (hn : 0 < durs.length) :
    (num < sn → mpsRequest durs (some fun j => st + prefixSum durs j) R sn tc (.number num) = .notFound) ∧
    mpsRequest durs (some fun j => st + prefixSum durs j) R sn tc (.number num) ≠ .crash := by
  constructor
  · intro h
    unfold mpsRequest
    rw [mpsIndex_number durs R sn tc _ hR hn]
    by_cases h2 : durs.length ≤ index durs R tc
    · simp only [h2, if_true, mpsServe]
    · simp only [h2, h, if_true, if_false, mpsServe]
  · by_cases h : num < sn
    · unfold mpsRequest
      rw [mpsIndex_number durs R sn tc _ hR hn]
      by_cases h2 : durs.length ≤ index durs R tc
      · simp only [h2, if_true, mpsServe]; exact fun h => by cases h
      · simp only [h2, h, if_true, if_false, mpsServe]; exact fun h => by cases h
    · have : num = (sn : Int) + ((num - sn).toNat : Nat) := by omega
      rw [this, mps_number_maps durs R sn tc st _ hR hn]
      split <;> exact fun h => by cases h

/-- **every number the Period's duration admits is served** – `k` is admitted when segment
`k` of the template starts inside the Period (`k · sd / ts < duration`) – provided the Period
is not longer than what the source segments from the selected one can be numbered for. -/
theorem mps_admitted_partial (durs : List Nat) (R sn tc st sd ts durUs : Nat) (hR : 0 < R)
    (hn : 0 < durs.length)
    (hfit : durUs * ts ≤ (durs.length - index durs R tc) * sd * 1000000) :
    ∀ k, k * sd * 1000000 < durUs * ts →
      ∃ t : Int, mpsRequest durs (some fun j => st + prefixSum durs j) R sn tc (.number ((sn : Int) + k)) =
        .segment (index durs R tc + k) t ((sn : Int) + k) := by
  intro k hk
  have h1 : k * (sd * 1000000) < (durs.length - index durs R tc) * (sd * 1000000) := by
    rw [← Nat.mul_assoc, ← Nat.mul_assoc]; omega
  have h2 : k < durs.length - index durs R tc := Nat.lt_of_mul_lt_mul_right h1
  rw [mps_number_maps durs R sn tc st k hR hn]
  have h3 : index durs R tc + k < durs.length := by omega
  simp only [h3, if_true]
  exact ⟨_, rfl⟩

/-- … and the side condition is exactly what is needed: when it fails, the admitted number
`sn + (n − i₀)` is answered 404 -/
theorem mps_admitted_tight (durs : List Nat) (R sn tc st sd ts durUs : Nat) (hR : 0 < R)
    (hn : 0 < durs.length)
    (hfit : ¬ durUs * ts ≤ (durs.length - index durs R tc) * sd * 1000000) :
    (durs.length - index durs R tc) * sd * 1000000 < durUs * ts ∧
    mpsRequest durs (some fun j => st + prefixSum durs j) R sn tc
      (.number ((sn : Int) + (durs.length - index durs R tc : Nat))) = .notFound := by
  refine ⟨by omega, ?_⟩
  apply mps_beyond_end_404 durs R sn tc st _ hR hn
  omega

/-- the side condition from natural ones: the Period starts inside the media, "source offset
+ half a segment + duration" does not pass the end of the track, and the template duration
is not below the mean duration of the remaining source segments -/
theorem mps_admitted_of_fits (durs : List Nat) (R tc sd ts durUs : Nat) (hR : 0 < R)
    (hn : 0 < durs.length) (hin : index durs R tc < durs.length)
    (hend : (tc + (maxDur durs + 1) / 2) * 1000000 + durUs * ts ≤ durs.sum * 1000000)
    (hsd : durs.sum - prefixSum durs (index durs R tc) ≤ (durs.length - index durs R tc) * sd) :
    durUs * ts ≤ (durs.length - index durs R tc) * sd * 1000000 := by
  obtain ⟨a, b, c, d⟩ := index_spec durs R tc hR hn
  have hlt := ((index_lt_iff durs R tc hR hn).mp hin).1
  have hz : tc / R = 0 := Nat.div_eq_of_lt hlt
  -- the selected start is at most half a segment after the offset
  have hsnap : prefixSum durs (index durs R tc) ≤ tc + (maxDur durs + 1) / 2 := by
    by_cases h0 : index durs R tc = 0
    · rw [h0, prefixSum_zero]; omega
    · have hb := d (index durs R tc - 1) (by rw [hz]; omega) (by omega)
      unfold before startG durG at hb
      rw [Nat.mod_eq_of_lt (by omega), Nat.div_eq_of_lt (by omega)] at hb
      have hs := prefixSum_succ (durs := durs) (k := index durs R tc - 1) (by omega)
      have h2 : index durs R tc - 1 + 1 = index durs R tc := by omega
      rw [h2] at hs
      have := durAt_le_maxDur durs (index durs R tc - 1)
      omega
  have hle := prefixSum_le_sum durs (index durs R tc)
  have h1 : durUs * ts ≤ (durs.sum - prefixSum durs (index durs R tc)) * 1000000 := by
    rw [Nat.sub_mul]; omega
  have h2 : (durs.sum - prefixSum durs (index durs R tc)) * 1000000 ≤
      (durs.length - index durs R tc) * sd * 1000000 := Nat.mul_le_mul_right _ hsd
  exact Nat.le_trans h1 h2

/-- **`$Time$ = t` of a Period** (fixes 3d7a0df, 488ab59): times count from the start of the
Period's first segment `i₀`; the request delivers the stored segment `g` whose start is
nearest `P_{i₀} + t`, with the decode time and number it has under `$Number$` addressing
(`st + P_g − P_{i₀}`, `sn + g − i₀`); anything that maps past the last stored segment – or a
Period that starts past the media – is 404. -/
theorem mps_time_maps (durs : List Nat) (R sn tc st t : Nat) (hn : 0 < durs.length)
    (h1 : StartsInsideLoop durs R) (h2 : PositiveDurs durs) :
    mpsRequest durs (some fun j => st + prefixSum durs j) R sn tc (.time t) =
      if index durs R tc < durs.length ∧
          index durs R (prefixSum durs (index durs R tc) + t) < durs.length then
        .segment (index durs R (prefixSum durs (index durs R tc) + t))
          ((st : Int) + ((prefixSum durs (index durs R (prefixSum durs (index durs R tc) + t))
            - prefixSum durs (index durs R tc) : Nat) : Int))
          ((sn : Int) + ((index durs R (prefixSum durs (index durs R tc) + t) - index durs R tc : Nat) : Int))
      else .notFound := by
  have hR : 0 < R := by have := h1 0 hn; omega
  unfold mpsRequest
  rw [mpsIndex_time durs R sn tc t hR hn]
  by_cases ha : index durs R tc < durs.length
  · by_cases hb : index durs R (prefixSum durs (index durs R tc) + t) < durs.length
    · have hge : index durs R tc ≤ index durs R (prefixSum durs (index durs R tc) + t) := by
        have := index_mono durs R (prefixSum durs (index durs R tc))
          (prefixSum durs (index durs R tc) + t) hR hn (by omega)
        rw [index_at_start durs R _ hn ha h1 h2] at this
        exact this
      have hm := prefixSum_mono durs hge
      have e1 : ¬ durs.length ≤ index durs R tc := by omega
      have e2 : ¬ durs.length ≤ index durs R (prefixSum durs (index durs R tc) + t) := by omega
      have e3 : ¬ ((index durs R (prefixSum durs (index durs R tc) + t) : Int) + 1 < 1 ∨
          (index durs R (prefixSum durs (index durs R tc) + t) : Int) + 1 > durs.length) := by omega
      have e4 : ((index durs R (prefixSum durs (index durs R tc) + t) : Int) + 1 - 1).toNat
          = index durs R (prefixSum durs (index durs R tc) + t) := by omega
      simp only [ha, hb, and_self, e1, e2, if_true, if_false, mpsServe, e3, e4]
      have e5 : ¬ (((st + prefixSum durs (index durs R (prefixSum durs (index durs R tc) + t)) : Nat) : Int) +
          -(prefixSum durs (index durs R tc) : Int) < 0) := by omega
      simp only [e5, if_false]
      congr 1
      · omega
      · omega
    · have e1 : ¬ durs.length ≤ index durs R tc := by omega
      have e2 : durs.length ≤ index durs R (prefixSum durs (index durs R tc) + t) := by omega
      simp only [ha, hb, and_false, e1, e2, if_true, if_false, mpsServe]
  · have e1 : durs.length ≤ index durs R tc := by omega
    simp only [ha, false_and, e1, if_true, if_false, mpsServe]

/-- **the SegmentTimeline of a Period lists what the Period plays** (fix 488ab59).  Entry `j`
of the (DASH-expanded) timeline of a Period is `(t_j, d_j) = (P_{i₀+j} − P_{i₀}, d_{i₀+j})`:
the source segments from the selected one, with times counted from zero at the Period start;
every listed segment exists, starts inside the Period's duration, and requesting
`$Time$ = t_j` delivers exactly stored segment `i₀ + j` with decode time `st + t_j` and
sequence number `sn + j`.  For every offset, duration and track (no `hfit`: the list is cut
at the end of the source). -/
theorem mps_timeline_lists_admitted (durs : List Nat) (R ts sn tc st durUs : Nat)
    (hn : 0 < durs.length) (h1 : StartsInsideLoop durs R) (h2 : PositiveDurs durs)
    (hin : index durs R tc < durs.length) :
    ∀ j (h : j < (expand (periodTimeline durs R ts tc durUs)).length),
      (expand (periodTimeline durs R ts tc durUs))[j] =
        (((prefixSum durs (index durs R tc + j) - prefixSum durs (index durs R tc) : Nat) : Int),
         (durAt durs (index durs R tc + j) : Int)) ∧
      index durs R tc + j < durs.length ∧
      (prefixSum durs (index durs R tc + j) - prefixSum durs (index durs R tc)) * 1000000 < durUs * ts ∧
      mpsRequest durs (some fun k => st + prefixSum durs k) R sn tc
          (.time (prefixSum durs (index durs R tc + j) - prefixSum durs (index durs R tc))) =
        .segment (index durs R tc + j)
          ((st : Int) + ((prefixSum durs (index durs R tc + j) - prefixSum durs (index durs R tc) : Nat) : Int))
          ((sn : Int) + j) := by
  intro j h
  have hx := periodTimeline_expand durs R ts tc durUs hn hin
  have hspec := (ptRaw_spec durs (durUs * ts) (durs.length + 1) (index durs R tc) 0).1 j
    (by rw [← hx]; exact h)
  obtain ⟨e1, e2, e3⟩ := hspec
  have hm := prefixSum_mono durs (j := index durs R tc) (k := index durs R tc + j) (by omega)
  have hcast : ((0 : Nat) : Int) + (prefixSum durs (index durs R tc + j) : Int) - (prefixSum durs (index durs R tc) : Int)
      = ((prefixSum durs (index durs R tc + j) - prefixSum durs (index durs R tc) : Nat) : Int) := by omega
  rw [hcast] at e1 e3
  refine ⟨?_, e2, by exact_mod_cast e3, ?_⟩
  · simp only [hx]; exact e1
  · rw [mps_time_maps durs R sn tc st _ hn h1 h2]
    have hsum : prefixSum durs (index durs R tc) +
        (prefixSum durs (index durs R tc + j) - prefixSum durs (index durs R tc))
        = prefixSum durs (index durs R tc + j) := by omega
    rw [hsum, index_at_start durs R _ hn e2 h1 h2]
    simp only [hin, e2, and_self, if_true]
    congr 1
    omega

/-- the listed entries are gapless: each one starts where the previous one ends, and the
first one starts at 0 -/
theorem mps_timeline_gapless (durs : List Nat) (R ts tc durUs : Nat) (hn : 0 < durs.length)
    (hin : index durs R tc < durs.length) :
    (∀ (h : 0 < (expand (periodTimeline durs R ts tc durUs)).length),
      (expand (periodTimeline durs R ts tc durUs))[0].1 = 0) ∧
    ∀ j (h : j + 1 < (expand (periodTimeline durs R ts tc durUs)).length),
      (expand (periodTimeline durs R ts tc durUs))[j].1 + (expand (periodTimeline durs R ts tc durUs))[j].2
        = (expand (periodTimeline durs R ts tc durUs))[j + 1].1 := by
  have hx := periodTimeline_expand durs R ts tc durUs hn hin
  constructor
  · intro h
    have := (ptRaw_spec durs (durUs * ts) (durs.length + 1) (index durs R tc) 0).1 0 (by rw [← hx]; exact h)
    simp only [hx, this.1]
    simp
  · intro j h
    simp only [hx]
    exact accumulate_gapless _ _ j (by rw [← hx]; exact h)

/-- **the list is complete**: it stops only at the last stored segment or once the Period's
duration is covered (the next segment would start at or after the end of the Period) -/
theorem mps_timeline_complete (durs : List Nat) (R ts tc durUs : Nat) (hn : 0 < durs.length)
    (hin : index durs R tc < durs.length) :
    index durs R tc + (expand (periodTimeline durs R ts tc durUs)).length = durs.length ∨
    (index durs R tc + (expand (periodTimeline durs R ts tc durUs)).length < durs.length ∧
      durUs * ts ≤ (prefixSum durs (index durs R tc + (expand (periodTimeline durs R ts tc durUs)).length)
        - prefixSum durs (index durs R tc)) * 1000000) := by
  have hx := periodTimeline_expand durs R ts tc durUs hn hin
  have hlen : (expand (periodTimeline durs R ts tc durUs)).length
      = (ptRaw durs (durUs * ts) (durs.length + 1) (index durs R tc) 0).length := by
    rw [hx, accumulate_length]
  rw [hlen]
  have := (ptRaw_spec durs (durUs * ts) (durs.length + 1) (index durs R tc) 0).2 (by omega) (by omega)
  rcases this with h | ⟨h, h'⟩
  · left; exact h
  · right
    refine ⟨h, ?_⟩
    have hm := prefixSum_mono durs (j := index durs R tc)
      (k := index durs R tc + (ptRaw durs (durUs * ts) (durs.length + 1) (index durs R tc) 0).length) (by omega)
    have : (((prefixSum durs (index durs R tc + (ptRaw durs (durUs * ts) (durs.length + 1) (index durs R tc) 0).length)
        - prefixSum durs (index durs R tc)) * 1000000 : Nat) : Int)
        = (((0 : Nat) : Int) + prefixSum durs (index durs R tc + (ptRaw durs (durUs * ts) (durs.length + 1) (index durs R tc) 0).length)
          - prefixSum durs (index durs R tc)) * 1000000 := by
      push_cast; omega
    exact_mod_cast (this ▸ h')

/-- a Period whose source offset is past the media lists nothing (and every request is 404) -/
theorem mps_timeline_empty_past_media (durs : List Nat) (R ts tc durUs : Nat) (hR : 0 < R)
    (hn : 0 < durs.length) (hout : durs.length ≤ index durs R tc) :
    periodTimeline durs R ts tc durUs = [] := by
  unfold periodTimeline
  simp only [getSegmentIndex_eq durs R tc hn]
  have h1 : 1 ≤ index durs R tc / durs.length := (Nat.le_div_iff_mul_le hn).mpr (by omega)
  have h2 := Nat.mul_le_mul_right R h1
  have h3 : index durs R tc / durs.length * R > 0 := by omega
  simp only [h3, if_true]

/-- `$Time$` and `$Number$` addressing agree: the listed time of entry `j` and number `sn + j`
deliver the same segment with the same decode time and sequence number -/
theorem mps_time_equals_number (durs : List Nat) (R sn tc st j : Nat) (hn : 0 < durs.length)
    (h1 : StartsInsideLoop durs R) (h2 : PositiveDurs durs) (hj : index durs R tc + j < durs.length) :
    mpsRequest durs (some fun k => st + prefixSum durs k) R sn tc
        (.time (prefixSum durs (index durs R tc + j) - prefixSum durs (index durs R tc))) =
      mpsRequest durs (some fun k => st + prefixSum durs k) R sn tc (.number ((sn : Int) + j)) := by
  have hR : 0 < R := by have := h1 0 hn; omega
  have hm := prefixSum_mono durs (j := index durs R tc) (k := index durs R tc + j) (by omega)
  rw [mps_number_maps durs R sn tc st j hR hn, mps_time_maps durs R sn tc st _ hn h1 h2]
  have hsum : prefixSum durs (index durs R tc) +
      (prefixSum durs (index durs R tc + j) - prefixSum durs (index durs R tc))
      = prefixSum durs (index durs R tc + j) := by omega
  rw [hsum, index_at_start durs R _ hn hj h1 h2]
  have hin : index durs R tc < durs.length := by omega
  simp only [hin, hj, and_self, if_true]
  congr 1
  omega

/-! ### non-vacuity and excluded points (media requests) -/

set_option maxRecDepth 8192 in
/-- ten 4 s segments at 240 Hz; a Period at source offset 4.2 s (nearest start: segment 1)
of 20 s: `hfit` holds and numbers 1..5 are admitted -/
example : index [960, 960, 960, 960, 960, 960, 960, 960, 960, 960] 9600 1008 = 1 ∧
    20000000 * 240 ≤ (10 - 1) * 960 * 1000000 ∧ 4 * 960 * 1000000 < 20000000 * 240 ∧
    mpsRequest [960, 960, 960, 960, 960, 960, 960, 960, 960, 960]
      (some fun j => 0 + prefixSum [960, 960, 960, 960, 960, 960, 960, 960, 960, 960] j) 9600 1 1008
      (.number (1 + (4 : Nat))) = .segment 5 3840 5 := by decide

set_option maxRecDepth 8192 in
/-- excluded point of `hfit`: the same Period with a duration of 40 s runs past the end of the
source – number 10 is admitted (`9 · 960 / 240 = 36 s < 40 s`) and answered 404 -/
example : ¬ (40000000 * 240 ≤ (10 - 1) * 960 * 1000000) ∧ 9 * 960 * 1000000 < 40000000 * 240 ∧
    mpsRequest [960, 960, 960, 960, 960, 960, 960, 960, 960, 960]
      (some fun j => 0 + prefixSum [960, 960, 960, 960, 960, 960, 960, 960, 960, 960] j) 9600 1 1008
      (.number (1 + (9 : Nat))) = .notFound := by decide

/-- a Period whose source offset is past the middle of the last segment is refused (fix 9437abb) -/
example : mpsRequest [960, 960, 960] none 2880 1 2500 (.number 1) = .notFound := by decide

/-- the ledger witness of D21 after the fix: syn1's video track (irregular durations) played
from source offset 6 s (= start of stored segment 2) for 8 s at 240 Hz lists `t=0 d=1440`,
`t=1440 d=960`, and the hypotheses of the timeline theorems hold for it -/
example : expand (periodTimeline [960, 480, 1440, 960, 720, 960] 5520 240 1440 8000000)
      = [(0, 1440), (1440, 960)] ∧
    StartsInsideLoop [960, 480, 1440, 960, 720, 960] 5520 ∧
    PositiveDurs [960, 480, 1440, 960, 720, 960] ∧
    mpsRequest [960, 480, 1440, 960, 720, 960]
      (some fun j => 0 + prefixSum [960, 480, 1440, 960, 720, 960] j) 5520 1 1440 (.time 1440)
      = .segment 3 1440 2 := by
  unfold StartsInsideLoop PositiveDurs
  decide

/-- a whole-millisecond presentation duration: 10.0004 s is presented as 10.000 s -/
example : quantise 10000400 = 10000000 ∧ quantise 10000500 = 10001000 := by decide

end DashLive.Periods
